(* Proofs_C09.v -- lemmas for property C09 (model: Model_C09.v). *)
From Coq Require Import List NArith ZArith Arith Bool Lia.
From Semadb Require Import Bytes Value Obs Model_C01 Model_C09.
From Semadb Require Run_C09.
Import ListNotations.
Open Scope nat_scope.

(* ------------------------------------------------------------------ lists *)
Lemma upd_nth_length {A} n (x : A) l : length (upd_nth n x l) = length l.
Proof. revert n; induction l as [|y l IH]; intros [|n]; simpl; auto. Qed.

Lemma nth_upd_eq {A} n (x : A) l : n < length l -> nth_error (upd_nth n x l) n = Some x.
Proof. revert n; induction l as [|y l IH]; intros [|n] H; simpl in *; try lia; auto. apply IH; lia. Qed.

Lemma nth_upd_neq {A} n m (x : A) l : n <> m -> nth_error (upd_nth n x l) m = nth_error l m.
Proof.
  revert n m; induction l as [|y l IH]; intros [|n] [|m] H; simpl; auto; try congruence.
Qed.

Lemma nth_upd_some {A} n m (x y : A) l :
  nth_error (upd_nth n x l) m = Some y -> (n = m /\ y = x) \/ (n <> m /\ nth_error l m = Some y).
Proof.
  intros H. destruct (Nat.eq_dec n m) as [->|Hn].
  - left. split; auto. assert (Hl : m < length l).
    { rewrite <- (upd_nth_length m x l). apply nth_error_Some. congruence. }
    rewrite nth_upd_eq in H by exact Hl. congruence.
  - right. rewrite nth_upd_neq in H by exact Hn. auto.
Qed.

Lemma nth_error_lt {A} (l : list A) n x : nth_error l n = Some x -> n < length l.
Proof. intros H. apply nth_error_Some. congruence. Qed.

Lemma nth_app_last {A} (l : list A) x : nth_error (l ++ [x]) (length l) = Some x.
Proof. rewrite nth_error_app2 by lia. rewrite Nat.sub_diag. reflexivity. Qed.

Lemma nth_app_keep {A} (l : list A) y n x : nth_error l n = Some x -> nth_error (l ++ [y]) n = Some x.
Proof. intros H. rewrite nth_error_app1; auto. eapply nth_error_lt; eauto. Qed.

(* ------------------------------------------------------------------ cracking a step *)
Ltac crack H :=
  repeat match type of H with
         | context [match ?x with _ => _ end] => destruct x eqn:?; try discriminate H
         end;
  try (injection H as H; subst).

Definition snap_of (ph : rphase) : option snapshot :=
  match ph with
  | RIdle _ => None
  | RBegun s _ | RUse s _ _ | RLookup s _ | RDone s _ => Some s
  end.

(* what a reader's own step does to its phase; everything the later proofs need about the frame *)
Lemma step_reader_frame cfg st r ph st' :
  step_reader cfg st r ph = Some st' ->
  st_hist st' = st_hist st /\ st_cur st' = st_cur st /\ st_wph st' = st_wph st /\ st_todo st' = st_todo st /\
  exists ph', st_rs st' = upd_nth r ph' (st_rs st) /\
              (forall s, snap_of ph = Some s -> snap_of ph' = Some s) /\
              (snap_of ph = None -> snap_of ph' = Some (cur_snapshot st)) /\
              (forall s rows, ph' = RDone s (Ok rows) -> rows_live (snd s) rows).
Proof.
  assert (Hlive : forall ps nodes rows, lookup_all ps nodes = Some rows -> rows_live ps rows).
  { intros ps nodes. induction nodes as [|n nodes IH]; simpl; intros rows H.
    - injection H as <-. constructor.
    - destruct (ps_get n ps) eqn:E1; try discriminate. destruct (lookup_all ps nodes) eqn:E2; try discriminate.
      injection H as <-. constructor; auto. apply IH; auto. }
  intros H. destruct ph as [p|s p|s cr p|s nodes|s o]; simpl in H.
  - injection H as <-. simpl. repeat split; auto. eexists; split; [reflexivity|].
    repeat split; simpl; intros; try discriminate; auto.
  - unfold set_reader, set_mgr, set_heap in H. crack H; simpl; repeat split; auto;
      (eexists; split; [reflexivity|]); repeat split; simpl; intros; try discriminate; auto.
  - unfold put_cache, fail_search, set_crashed, set_reader, set_mgr, set_heap in H.
    destruct (get_cache st cr) as [c|]; [|discriminate].
    destruct p as [nodes| |k cont|cont]; destruct cr as [cid|pc];
      crack H; simpl; repeat split; auto;
      (eexists; split; [reflexivity|]); repeat split; simpl; intros; try discriminate; auto.
  - injection H as <-. simpl. repeat split; auto. eexists; split; [reflexivity|].
    repeat split; simpl; intros s0 **; try discriminate; auto.
    destruct (lookup_all (snd s) nodes) eqn:E; try discriminate.
    match goal with Hx : RDone _ _ = RDone _ _ |- _ => injection Hx as -> -> end. eapply Hlive; eauto.
  - discriminate.
Qed.

Lemma step_writer_rs cfg st st' : step_writer cfg st = Some st' -> st_rs st' = st_rs st /\ st_crashed st' = st_crashed st.
Proof. unfold step_writer. intros H. crack H; simpl; auto. Qed.

Lemma step_rs_length cfg st t st' : step cfg st t = Some st' -> length (st_rs st') = length (st_rs st).
Proof.
  unfold step. intros H. destruct (st_crashed st); [discriminate|]. destruct t as [|r|].
  - apply step_writer_rs in H. destruct H as [-> _]. reflexivity.
  - destruct (nth_error (st_rs st) r) as [ph|] eqn:E; [|discriminate].
    apply step_reader_frame in H. destruct H as (_ & _ & _ & _ & ph' & -> & _). apply upd_nth_length.
  - destruct (st_mgr st); [|discriminate]. injection H as <-. reflexivity.
Qed.

Lemma exec_rs_length cfg st t : length (st_rs (exec cfg st t)) = length (st_rs st).
Proof. unfold exec. destruct (step cfg st t) eqn:E; auto. eapply step_rs_length; eauto. Qed.

(* committed versions only grow, at the end *)
Lemma step_committed cfg st t st' :
  step cfg st t = Some st' -> committed st' = committed st \/ exists p, committed st' = committed st ++ [p].
Proof.
  unfold step. intros H. destruct (st_crashed st); [discriminate|]. destruct t as [|r|].
  - unfold step_writer in H. unfold committed. crack H; simpl; auto; right; eexists; reflexivity.
  - destruct (nth_error (st_rs st) r) as [ph|] eqn:E; [|discriminate].
    apply step_reader_frame in H. destruct H as (H1 & H2 & _). unfold committed. rewrite H1, H2. auto.
  - destruct (st_mgr st); [|discriminate]. injection H as <-. auto.
Qed.

Lemma step_committed_nth cfg st t st' i ps :
  step cfg st t = Some st' -> nth_error (committed st) i = Some ps -> nth_error (committed st') i = Some ps.
Proof.
  intros H Hn. destruct (step_committed _ _ _ _ H) as [->|[p ->]]; auto. apply nth_app_keep; auto.
Qed.

(* how any step changes the phase of reader r *)
Lemma step_phase cfg st t st' r ph :
  step cfg st t = Some st' -> nth_error (st_rs st) r = Some ph ->
  exists ph', nth_error (st_rs st') r = Some ph' /\
              (forall s, snap_of ph = Some s -> snap_of ph' = Some s) /\
              (snap_of ph = None -> ph' = ph \/ (t = TReader r /\ snap_of ph' = Some (cur_snapshot st))) /\
              (forall s rows, ph' = RDone s (Ok rows) -> ph = ph' \/ rows_live (snd s) rows).
Proof.
  unfold step. intros H Hr. destruct (st_crashed st); [discriminate|]. destruct t as [|r0|].
  - apply step_writer_rs in H. destruct H as [-> _]. exists ph. repeat split; auto.
  - destruct (nth_error (st_rs st) r0) as [ph0|] eqn:E; [|discriminate].
    apply step_reader_frame in H. destruct H as (_ & _ & _ & _ & ph' & -> & A & B & C).
    destruct (Nat.eq_dec r0 r) as [->|Hne].
    + rewrite Hr in E. injection E as <-. exists ph'. rewrite nth_upd_eq by (eapply nth_error_lt; eauto).
      repeat split; auto; try (intros s rows Hd; right; eapply C; eauto).
    + exists ph. rewrite nth_upd_neq by exact Hne. repeat split; auto.
  - destruct (st_mgr st); [|discriminate]. injection H as <-. exists ph. repeat split; auto.
Qed.

(* ------------------------------------------------------------------ c09_guard_no_crash *)
Lemma step_no_crash cfg st t st' :
  cfg_guarded cfg = true -> step cfg st t = Some st' -> st_crashed st' = false.
Proof.
  intros G. unfold step. destruct (st_crashed st) eqn:Ec; [discriminate|]. intros H. destruct t as [|r|].
  - apply step_writer_rs in H. destruct H as [_ ->]. exact Ec.
  - destruct (nth_error (st_rs st) r) as [ph|]; [|discriminate].
    unfold step_reader, put_cache, fail_search, set_crashed, set_reader, set_mgr, set_heap in H. rewrite G in H.
    destruct ph as [p|s p|s cr p|s nodes|s o]; try discriminate.
    + injection H as <-. exact Ec.
    + crack H; simpl; exact Ec.
    + destruct (get_cache st cr) as [c|]; [|discriminate].
      destruct p as [nodes| |k cont|cont]; destruct cr as [cid|pc]; crack H; simpl; exact Ec.
    + injection H as <-. exact Ec.
  - destruct (st_mgr st); [|discriminate]. injection H as <-. exact Ec.
Qed.

Lemma exec_no_crash cfg st t :
  cfg_guarded cfg = true -> st_crashed st = false -> st_crashed (exec cfg st t) = false.
Proof. intros G Hc. unfold exec. destruct (step cfg st t) eqn:E; auto. eapply step_no_crash; eauto. Qed.

Lemma run_snoc cfg sched t st : run cfg (sched ++ [t]) st = exec cfg (run cfg sched st) t.
Proof. unfold run. rewrite fold_left_app. reflexivity. Qed.

Lemma run_app cfg s1 s2 st : run cfg (s1 ++ s2) st = run cfg s2 (run cfg s1 st).
Proof. unfold run. apply fold_left_app. Qed.

Definition clean (o : outcome) : Prop := match o with Crashed => False | _ => True end.

(* outcomes of a guarded run are never Crashed *)
Lemma step_clean cfg st t st' :
  cfg_guarded cfg = true -> step cfg st t = Some st' ->
  (forall r s o, nth_error (st_rs st) r = Some (RDone s o) -> clean o) ->
  (forall r s o, nth_error (st_rs st') r = Some (RDone s o) -> clean o).
Proof.
  intros G. unfold step. destruct (st_crashed st) eqn:Ec; [discriminate|]. intros H Hall r s o Hr. destruct t as [|r0|].
  - apply step_writer_rs in H. destruct H as [E _]. rewrite E in Hr. eauto.
  - destruct (nth_error (st_rs st) r0) as [ph|] eqn:E0; [|discriminate].
    assert (Hk : forall ph', st_rs st' = upd_nth r0 ph' (st_rs st) ->
                             (forall s o, ph' = RDone s o -> clean o) -> clean o).
    { intros ph' E A. rewrite E in Hr. apply nth_upd_some in Hr. destruct Hr as [[_ Hx]|[_ Hx]]; eauto. }
    unfold step_reader, put_cache, fail_search, set_crashed, set_reader, set_mgr, set_heap in H. rewrite G in H.
    destruct ph as [p|s1 p|s1 cr p|s1 nodes|s1 o1]; try discriminate.
    + injection H as <-. eapply Hk; [reflexivity|]. discriminate.
    + crack H; (eapply Hk; [reflexivity|]); discriminate.
    + destruct (get_cache st cr) as [c|]; [|discriminate].
      destruct p as [nodes| |k cont|cont]; destruct cr as [cid|pc]; crack H;
        (eapply Hk; [reflexivity|]); intros s2 o2 Hq; try discriminate Hq; injection Hq as _ <-; exact I.
    + injection H as <-. eapply Hk; [reflexivity|]. intros s2 o2 Hq. injection Hq as _ <-.
      destruct (lookup_all (snd s1) nodes); exact I.
  - destruct (st_mgr st); [|discriminate]. injection H as <-. simpl in Hr. eauto.
Qed.

Lemma guard_no_crash cfg sched st :
  cfg_guarded cfg = true -> st_crashed st = false ->
  (forall r s o, nth_error (st_rs st) r = Some (RDone s o) -> clean o) ->
  st_crashed (run cfg sched st) = false /\
  forall r s o, nth_error (st_rs (run cfg sched st)) r = Some (RDone s o) -> clean o.
Proof.
  intros G. revert st. induction sched as [|t sched IH]; intros st Hc Hall; simpl; auto.
  apply IH.
  - apply exec_no_crash; auto.
  - unfold exec. destruct (step cfg st t) eqn:E; auto. eapply step_clean; eauto.
Qed.

Lemma init_no_done p0 bs progs r s o : nth_error (st_rs (init p0 bs progs)) r = Some (RDone s o) -> False.
Proof.
  simpl. intros H. apply nth_error_In in H. apply in_map_iff in H. destruct H as (p & H & _). discriminate.
Qed.

Lemma guard_no_crash_init cfg p0 bs progs sched :
  cfg_guarded cfg = true ->
  let st := run cfg sched (init p0 bs progs) in
  st_crashed st = false /\
  forall r s o, nth_error (st_rs st) r = Some (RDone s o) ->
                match o with Ok _ | FailNotExist | FailHandleDead | FailOther => True | Crashed => False end.
Proof.
  intros G st. destruct (guard_no_crash cfg sched (init p0 bs progs) G eq_refl) as [A B].
  { intros r s o H. exfalso. eapply init_no_done; eauto. }
  split; auto.
Qed.

(* ------------------------------------------------------------------ c09_results_were_live *)
Definition snap_ok (st : state) (ph : rphase) : Prop :=
  (forall s, snap_of ph = Some s -> nth_error (committed st) (fst s) = Some (snd s)) /\
  (forall s rows, ph = RDone s (Ok rows) -> rows_live (snd s) rows).
Definition inv_snap (st : state) : Prop := forall r ph, nth_error (st_rs st) r = Some ph -> snap_ok st ph.

Lemma cur_snapshot_nth st : nth_error (committed st) (fst (cur_snapshot st)) = Some (snd (cur_snapshot st)).
Proof. unfold committed, cur_snapshot. simpl. apply nth_app_last. Qed.

Lemma step_inv_snap cfg st t st' : step cfg st t = Some st' -> inv_snap st -> inv_snap st'.
Proof.
  intros H I r ph' Hr.
  assert (Hl : r < length (st_rs st)). { rewrite <- (step_rs_length _ _ _ _ H). eapply nth_error_lt; eauto. }
  destruct (nth_error (st_rs st) r) as [ph|] eqn:E; [|apply nth_error_None in E; lia].
  destruct (step_phase _ _ _ _ _ _ H E) as (ph2 & E2 & A & B & C). rewrite Hr in E2. injection E2 as <-.
  destruct (I r ph E) as [I1 I2]. split.
  - intros s Hs. destruct (snap_of ph) as [s0|] eqn:Es.
    + specialize (A s0 eq_refl). rewrite A in Hs. injection Hs as <-. eapply step_committed_nth; eauto.
    + destruct (B eq_refl) as [->|[_ B2]]; [congruence|]. rewrite B2 in Hs. injection Hs as <-.
      eapply step_committed_nth; eauto. apply cur_snapshot_nth.
  - intros s rows Hd. destruct (C s rows Hd) as [->|]; auto.
Qed.

Lemma exec_inv_snap cfg st t : inv_snap st -> inv_snap (exec cfg st t).
Proof. intros I. unfold exec. destruct (step cfg st t) eqn:E; auto. eapply step_inv_snap; eauto. Qed.

Lemma run_inv_snap cfg sched st : inv_snap st -> inv_snap (run cfg sched st).
Proof. revert st. induction sched as [|t s IH]; intros st I; simpl; auto. apply IH. apply exec_inv_snap; auto. Qed.

Lemma init_inv_snap p0 bs progs : inv_snap (init p0 bs progs).
Proof.
  intros r ph H. simpl in H. apply nth_error_In in H. apply in_map_iff in H. destruct H as (p & <- & _).
  split; intros; discriminate.
Qed.

Lemma run_committed_nth cfg sched st i ps :
  nth_error (committed st) i = Some ps -> nth_error (committed (run cfg sched st)) i = Some ps.
Proof.
  revert st. induction sched as [|t s IH]; intros st H; simpl; auto. apply IH.
  unfold exec. destruct (step cfg st t) eqn:E; auto. eapply step_committed_nth; eauto.
Qed.

(* the snapshot of a reader was the current version at the moment of its begin step *)
Lemma begin_moment cfg st0 sched r ph s :
  (forall ph0, nth_error (st_rs st0) r = Some ph0 -> snap_of ph0 = None) ->
  nth_error (st_rs (run cfg sched st0)) r = Some ph -> snap_of ph = Some s ->
  exists pre post p, sched = pre ++ TReader r :: post /\
                     nth_error (st_rs (run cfg pre st0)) r = Some (RIdle p) /\
                     cur_snapshot (run cfg pre st0) = s.
Proof.
  intros H0. revert ph. induction sched as [|t sched IH] using rev_ind; intros ph Hr Hs.
  - simpl in Hr. rewrite (H0 _ Hr) in Hs. discriminate.
  - rewrite run_snoc in Hr. set (st := run cfg sched st0) in *.
    assert (Hl : r < length (st_rs st)). { rewrite <- (exec_rs_length cfg st t). eapply nth_error_lt; eauto. }
    destruct (nth_error (st_rs st) r) as [ph1|] eqn:E; [|apply nth_error_None in E; lia].
    unfold exec in Hr. destruct (step cfg st t) as [st'|] eqn:Es.
    + destruct (step_phase _ _ _ _ _ _ Es E) as (ph2 & E2 & A & B & _). rewrite Hr in E2. injection E2 as <-.
      destruct (snap_of ph1) as [s1|] eqn:E1.
      * specialize (A s1 eq_refl). rewrite A in Hs. injection Hs as <-.
        destruct (IH ph1 eq_refl E1) as (pre & post & p & -> & Hp & Hc).
        exists pre, (post ++ [t]), p. rewrite <- app_assoc. simpl. auto.
      * destruct (B eq_refl) as [->|[-> B2]]; [congruence|]. rewrite B2 in Hs. injection Hs as <-.
        destruct ph1; try discriminate. exists sched, [], p. auto.
    + rewrite Hr in E. injection E as <-. destruct (IH ph eq_refl Hs) as (pre & post & p & -> & Hp & Hc).
      exists pre, (post ++ [t]), p. rewrite <- app_assoc. simpl. auto.
Qed.

Lemma results_were_live cfg p0 bs progs sched r s rows :
  nth_error (st_rs (run cfg sched (init p0 bs progs))) r = Some (RDone s (Ok rows)) ->
  rows_live (snd s) rows /\
  nth_error (committed (run cfg sched (init p0 bs progs))) (fst s) = Some (snd s) /\
  exists pre post p, sched = pre ++ TReader r :: post /\
                     nth_error (st_rs (run cfg pre (init p0 bs progs))) r = Some (RIdle p) /\
                     cur_snapshot (run cfg pre (init p0 bs progs)) = s.
Proof.
  intros H. destruct (run_inv_snap cfg sched _ (init_inv_snap p0 bs progs) r _ H) as [A B].
  split; [eapply B; eauto|]. split; [apply (A s eq_refl)|].
  eapply begin_moment; eauto. intros ph0 H0. simpl in H0. apply nth_error_In in H0. apply in_map_iff in H0.
  destruct H0 as (p & <- & _). reflexivity.
Qed.

(* liveness in the vocabulary of the reference store of C01 *)
Lemma ps_get_in n x ps : ps_get n ps = Some x -> In (n, x) ps.
Proof.
  induction ps as [|[n' y] ps IH]; simpl; [discriminate|]. destruct (N.eqb n n') eqn:E.
  - apply N.eqb_eq in E. subst. intros H. injection H as ->. auto.
  - auto.
Qed.

Lemma st_get_unique id d (s : store) :
  NoDup (map fst s) -> In (id, d) s -> st_get id s = Some d.
Proof.
  induction s as [|[i d'] s IH]; simpl; [tauto|]. intros Hn [H|H].
  - injection H as -> ->. assert (E : bytes_eqb id id = true) by (apply bytes_eqb_eq; reflexivity). rewrite E. reflexivity.
  - inversion Hn as [|? ? Hni Hn']; subst. destruct (bytes_eqb id i) eqn:E.
    + apply bytes_eqb_eq in E. subst. exfalso. apply Hni. apply in_map_iff. exists (i, d). auto.
    + auto.
Qed.

Lemma rows_live_store ps rows :
  NoDup (map fst (store_of ps)) -> rows_live ps rows ->
  Forall (fun r => st_get (fst (snd r)) (store_of ps) = Some (snd (snd r))) rows.
Proof.
  intros Hn H. unfold rows_live in H. rewrite Forall_forall in *. intros [n [id d]] Hin. simpl.
  specialize (H _ Hin). simpl in H. apply ps_get_in in H. apply st_get_unique; auto.
  unfold store_of. apply in_map_iff. exists (n, (id, d)). auto.
Qed.

(* ------------------------------------------------------------------ c09_final_state: versions *)
Definition pending (st : state) : pstore :=
  match st_wph st with WInTx _ (Some p') => p' | _ => st_cur st end.
Definition inv_versions (cfg : config) (all : list pstore) (st : state) : Prop :=
  match st_wph st with
  | WInTx _ _ => all = st_hist st ++ st_cur st :: seq_versions cfg (st_todo st) (pending st)
  | _ => all = st_hist st ++ seq_versions cfg (st_todo st) (st_cur st)
  end.

Lemma step_inv_versions cfg all st t st' : step cfg st t = Some st' -> inv_versions cfg all st -> inv_versions cfg all st'.
Proof.
  unfold step. destruct (st_crashed st); [discriminate|]. intros H I. destruct t as [|r|].
  - unfold inv_versions, pending in *. unfold step_writer in H.
    destruct (st_wph st) as [|cid nx|cid ok] eqn:Ew.
    + destruct (st_todo st) as [|b rest] eqn:Et; [discriminate|]. simpl in I. unfold next_of in I.
      crack H; simpl; auto.
    + injection H as <-. simpl. rewrite I. rewrite <- app_assoc. destruct nx; reflexivity.
    + injection H as <-. simpl. exact I.
  - destruct (nth_error (st_rs st) r) as [ph|]; [|discriminate].
    apply step_reader_frame in H. destruct H as (H1 & H2 & H3 & H4 & _).
    unfold inv_versions, pending in *. rewrite H1, H2, H3, H4. exact I.
  - destruct (st_mgr st); [|discriminate]. injection H as <-. exact I.
Qed.

Lemma run_inv_versions cfg all sched st : inv_versions cfg all st -> inv_versions cfg all (run cfg sched st).
Proof.
  revert st. induction sched as [|t s IH]; intros st I; simpl; auto. apply IH.
  unfold exec. destruct (step cfg st t) eqn:E; auto. eapply step_inv_versions; eauto.
Qed.

Lemma final_versions cfg p0 bs progs sched :
  let st := run cfg sched (init p0 bs progs) in
  writer_finished st -> committed st = seq_versions cfg bs p0.
Proof.
  intros st [Hw Ht]. assert (I : inv_versions cfg (seq_versions cfg bs p0) st).
  { apply run_inv_versions. reflexivity. }
  unfold inv_versions in I. rewrite Hw, Ht in I. simpl in I. symmetry. exact I.
Qed.

Lemma seq_versions_spec cfg sc maxsize bs p :
  refines_spec cfg sc maxsize ->
  map store_of (seq_versions cfg bs p) = spec_versions sc maxsize bs (store_of p).
Proof.
  intros R. revert p. induction bs as [|b bs IH]; intros p; simpl; auto. f_equal.
  rewrite IH. f_equal. unfold next_of. specialize (R b p). destruct (cfg_apply cfg b p) as [p'|].
  - destruct R as [ids ->]. reflexivity.
  - destruct R as [ks R]. destruct (apply_spec sc maxsize b (store_of p)) as [s' m]. simpl in R. subst. reflexivity.
Qed.

Lemma seq_versions_last cfg bs p : seq_versions cfg bs p <> [].
Proof. destruct bs; discriminate. Qed.

Lemma committed_last st : last (committed st) [] = st_cur st.
Proof. unfold committed. apply last_last. Qed.

(* ------------------------------------------------------------------ index maps *)
Lemma idx_get_app a b k :
  idx_get (a ++ b) k = match idx_get a k with Some e => Some e | None => idx_get b k end.
Proof. induction a as [|[k' e] a IH]; simpl; auto. destruct (N.eqb k k'); auto. Qed.

Lemma idx_get_scan view keys k :
  idx_get (scan_result view keys) k = if existsb (N.eqb k) keys then view k else None.
Proof.
  unfold scan_result. induction keys as [|u us IH]; simpl; auto.
  rewrite idx_get_app, IH. destruct (N.eqb k u) eqn:E; simpl.
  - apply N.eqb_eq in E. subst u. destruct (view k) eqn:Ev; simpl.
    + rewrite N.eqb_refl. reflexivity.
    + destruct (existsb (N.eqb k) us); auto.
  - destruct (view u); simpl; auto. rewrite E. reflexivity.
Qed.

Lemma existsb_in k keys : existsb (N.eqb k) keys = true <-> In k keys.
Proof.
  rewrite existsb_exists. split.
  - intros (x & H & E). apply N.eqb_eq in E. subst. auto.
  - intros H. exists k. split; auto. apply N.eqb_refl.
Qed.

Lemma scan_result_ext v1 v2 keys :
  (forall k, In k keys -> v1 k = v2 k) -> scan_result v1 keys = scan_result v2 keys.
Proof.
  unfold scan_result. induction keys as [|u us IH]; simpl; intros H; auto.
  rewrite (H u) by auto. f_equal. apply IH. auto.
Qed.

Lemma idx_get_filter (f : key -> bool) l k :
  idx_get (filter (fun kv => f (fst kv)) l) k = if f k then idx_get l k else None.
Proof.
  induction l as [|[k' e] l IH]; simpl; [destruct (f k); auto|].
  destruct (f k') eqn:Ef; simpl; destruct (N.eqb k k') eqn:E; auto.
  - apply N.eqb_eq in E. subst. rewrite Ef. reflexivity.
  - apply N.eqb_eq in E. subst. rewrite IH, Ef. reflexivity.
Qed.

Lemma idx_get_some_in i k e : idx_get i k = Some e -> In k (map fst i).
Proof.
  induction i as [|[k' e'] i IH]; simpl; [discriminate|]. destruct (N.eqb k k') eqn:E; auto.
  apply N.eqb_eq in E. auto.
Qed.

Lemma opt_entry_eqb_eq a b : opt_entry_eqb a b = true -> a = b.
Proof.
  destruct a, b; simpl; try discriminate; auto. destruct (list_eq_dec N.eq_dec e e0); [subst; auto|discriminate].
Qed.

Lemma unchanged_eq old new k : changed old new k = false -> idx_get old k = idx_get new k.
Proof. unfold changed. intros H. apply negb_false_iff in H. apply opt_entry_eqb_eq; auto. Qed.

Lemma changed_in_keys old new k : changed old new k = true -> existsb (N.eqb k) (changed_keys old new) = true.
Proof.
  intros H. apply existsb_in. unfold changed_keys. apply filter_In. split; auto.
  apply in_or_app. unfold changed in H. apply negb_true_iff in H.
  destruct (idx_get old k) eqn:E1.
  - left. eapply idx_get_some_in; eauto.
  - destruct (idx_get new k) eqn:E2; [right; eapply idx_get_some_in; eauto|discriminate].
Qed.

Lemma unchanged_not_in_keys old new k : changed old new k = false -> existsb (N.eqb k) (changed_keys old new) = false.
Proof.
  intros H. destruct (existsb (N.eqb k) (changed_keys old new)) eqn:E; auto.
  apply existsb_in in E. unfold changed_keys in E. apply filter_In in E. destruct E as [_ E]. congruence.
Qed.

Lemma get_w_update old new c k :
  idx_get (c_items (w_update old new c)) k = if changed old new k then idx_get new k else idx_get (c_items c) k.
Proof.
  unfold w_update. simpl. rewrite idx_get_app, idx_get_scan.
  rewrite (idx_get_filter (fun k => negb (changed old new k))).
  destruct (changed old new k) eqn:E.
  - rewrite changed_in_keys by exact E. simpl. destruct (idx_get new k); auto.
  - rewrite unchanged_not_in_keys by exact E. reflexivity.
Qed.

(* ------------------------------------------------------------------ coherence of caches *)
Lemma coherent_empty cfg ps h : coherent cfg ps (empty_cache h).
Proof. split; simpl; intros; discriminate. Qed.

Lemma coherent_handle cfg ps c h : coherent cfg ps c -> coherent cfg ps (mkCache (c_items c) (c_all c) h).
Proof. intros H. exact H. Qed.

Lemma coherent_w_update cfg ps ps' c :
  coherent cfg ps c -> coherent cfg ps' (w_update (cfg_index cfg ps) (cfg_index cfg ps') c).
Proof.
  intros [H1 H2]. split.
  - intros k e. rewrite get_w_update. destruct (changed _ _ k) eqn:E; auto.
    intros H. rewrite <- (unchanged_eq _ _ _ E). auto.
  - intros Ha k Hk. rewrite get_w_update. destruct (changed _ _ k) eqn:E; auto.
    rewrite <- (unchanged_eq _ _ _ E). apply H2; auto.
Qed.

Lemma coherent_get cfg ps c k e :
  coherent cfg ps c -> idx_get (cfg_index cfg ps) k = Some e ->
  coherent cfg ps (mkCache ((k, e) :: c_items c) (c_all c) (c_handle c)).
Proof.
  intros [H1 H2] He. split; simpl.
  - intros k' e'. destruct (N.eqb k' k) eqn:E; auto. apply N.eqb_eq in E. subst. congruence.
  - intros Ha k' Hk. destruct (N.eqb k' k) eqn:E; auto. apply N.eqb_eq in E. subst. auto.
Qed.

Definition scan_view (c : cache) (ih : index) (k : key) : option entry :=
  match idx_get (c_items c) k with Some e => Some e | None => idx_get ih k end.

Lemma scan_view_coherent cfg ps c k : coherent cfg ps c -> scan_view c (cfg_index cfg ps) k = idx_get (cfg_index cfg ps) k.
Proof. intros [H1 _]. unfold scan_view. destruct (idx_get (c_items c) k) eqn:E; auto. symmetry. auto. Qed.

Lemma coherent_scan cfg ps c :
  coherent cfg ps c ->
  coherent cfg ps (mkCache (scan_result (scan_view c (cfg_index cfg ps)) (cfg_keys cfg) ++ c_items c) true (c_handle c)).
Proof.
  intros H. pose proof H as [H1 H2]. split; simpl.
  - intros k e. rewrite idx_get_app, idx_get_scan, (scan_view_coherent _ _ _ _ H).
    destruct (existsb (N.eqb k) (cfg_keys cfg)); auto.
    destruct (idx_get (cfg_index cfg ps) k) eqn:E; auto. intros Hx. apply H1 in Hx. congruence.
  - intros _ k Hk. rewrite idx_get_app, idx_get_scan, (scan_view_coherent _ _ _ _ H).
    apply existsb_in in Hk. rewrite Hk. destruct (idx_get (cfg_index cfg ps) k) eqn:E; auto.
    destruct (idx_get (c_items c) k) eqn:E2; auto. apply H1 in E2. congruence.
Qed.

(* ------------------------------------------------------------------ the coherence invariant of calm schedules *)
Definition gi_inflight (st : state) : Prop :=
  forall r ph s, nth_error (st_rs st) r = Some ph -> in_flight ph = Some s -> s = cur_snapshot st.
Definition cref_ok (cfg : config) (st : state) (cr : cref) : Prop :=
  match cr with
  | Shared cid => wheld st cid = false /\ exists c, nth_error (st_heap st) cid = Some c /\ coherent cfg (st_cur st) c
  | Private c => coherent cfg (st_cur st) c
  end.
Definition gi_readers (cfg : config) (st : state) : Prop :=
  forall r s cr p, nth_error (st_rs st) r = Some (RUse s cr p) -> cref_ok cfg st cr.
Definition gi_writer (cfg : config) (st : state) : Prop :=
  match st_wph st with
  | WIdle => True
  | WInTx cid _ | WCommitted cid _ =>
      st_mgr st = Some cid /\ exists c, nth_error (st_heap st) cid = Some c /\ coherent cfg (pending st) c
  end.
Definition gi_mgr (cfg : config) (st : state) : Prop :=
  forall cid, st_mgr st = Some cid -> wheld st cid = false ->
              exists c, nth_error (st_heap st) cid = Some c /\ coherent cfg (st_cur st) c.
Definition GI (cfg : config) (st : state) : Prop :=
  gi_inflight st /\ gi_readers cfg st /\ gi_writer cfg st /\ gi_mgr cfg st.

Lemma all_inactive_nth skip i rs r ph :
  all_inactive_except skip i rs = true -> nth_error rs r = Some ph -> skip <> Some (i + r) -> r_active ph = false.
Proof.
  revert i r. induction rs as [|ph0 rs IH]; intros i r H Hn Hs; [destruct r; discriminate|].
  simpl in H. apply andb_true_iff in H. destruct H as [H1 H2]. destruct r as [|r]; simpl in Hn.
  - injection Hn as ->. apply orb_true_iff in H1. destruct H1 as [H1|H1].
    + destruct skip as [r0|]; [|discriminate]. apply Nat.eqb_eq in H1. subst. exfalso. apply Hs. f_equal. lia.
    + apply negb_true_iff in H1. exact H1.
  - eapply (IH (S i) r); eauto. intros E. apply Hs. rewrite E. f_equal. lia.
Qed.

Lemma inactive_not_in_flight ph : r_active ph = false -> in_flight ph = None.
Proof. unfold r_active. destruct (in_flight ph); [discriminate|auto]. Qed.

Lemma rlocked_false st cid r s cid' p :
  rlocked st cid = false -> nth_error (st_rs st) r = Some (RUse s (Shared cid') p) -> cid' <> cid.
Proof.
  unfold rlocked. intros H Hn E. subst. apply nth_error_In in Hn.
  assert (X : existsb (fun ph => match ph with RUse _ (Shared c) _ => Nat.eqb c cid | _ => false end) (st_rs st) = true).
  { apply existsb_exists. eexists; split; [exact Hn|]. simpl. apply Nat.eqb_refl. }
  congruence.
Qed.

(* setting one reader's phase *)
Lemma gi_set_reader cfg st r ph' :
  GI cfg st ->
  (forall s, in_flight ph' = Some s -> s = cur_snapshot st) ->
  (forall s cr p, ph' = RUse s cr p -> cref_ok cfg st cr) ->
  GI cfg (set_reader st r ph').
Proof.
  intros (A & B & C & D) H1 H2. repeat split.
  - intros r' ph s Hn Hf. simpl in Hn. apply nth_upd_some in Hn. destruct Hn as [[_ ->]|[_ Hn]]; eauto.
  - intros r' s cr p Hn. simpl in Hn. apply nth_upd_some in Hn. destruct Hn as [[_ Hn]|[_ Hn]].
    + symmetry in Hn. apply (H2 _ _ _ Hn).
    + apply (B _ _ _ _ Hn).
  - exact C.
  - exact D.
Qed.

Lemma gi_upd_heap cfg st cid c0 c' :
  GI cfg st -> nth_error (st_heap st) cid = Some c0 -> wheld st cid = false -> coherent cfg (st_cur st) c' ->
  GI cfg (set_heap st (upd_nth cid c' (st_heap st))).
Proof.
  intros (A & B & C & D) Hc Hw Hco.
  assert (X : forall cid', (exists c, nth_error (st_heap st) cid' = Some c /\ coherent cfg (st_cur st) c) ->
                           exists c, nth_error (upd_nth cid c' (st_heap st)) cid' = Some c /\ coherent cfg (st_cur st) c).
  { intros cid' (c & E & Hx). destruct (Nat.eq_dec cid cid') as [<-|Hne].
    - exists c'. split; auto. apply nth_upd_eq. eapply nth_error_lt; eauto.
    - exists c. rewrite nth_upd_neq by exact Hne. auto. }
  repeat split.
  - exact A.
  - intros r s cr p Hn. specialize (B r s cr p Hn). destruct cr as [cid'|pc]; simpl in *; auto.
    destruct B as [B1 B2]. split; auto.
  - unfold gi_writer in *. unfold wheld in Hw. unfold pending in *. simpl. destruct (st_wph st) as [|cw nx|cw ok]; auto.
    + destruct C as (C1 & c & C2 & C3). split; auto. exists c. rewrite nth_upd_neq; auto.
      intros E. subst. rewrite Nat.eqb_refl in Hw. discriminate.
    + destruct C as (C1 & c & C2 & C3). split; auto. exists c. rewrite nth_upd_neq; auto.
      intros E. subst. rewrite Nat.eqb_refl in Hw. discriminate.
  - intros cid' Hm Hw'. apply X. apply D; auto.
Qed.

Lemma gi_app_heap cfg st c : GI cfg st -> GI cfg (set_heap st (st_heap st ++ [c])).
Proof.
  intros (A & B & C & D).
  assert (X : forall cid' ps, (exists c0, nth_error (st_heap st) cid' = Some c0 /\ coherent cfg ps c0) ->
                           exists c0, nth_error (st_heap st ++ [c]) cid' = Some c0 /\ coherent cfg ps c0).
  { intros cid' ps (c0 & E & Hx). exists c0. split; auto. apply nth_app_keep; auto. }
  repeat split.
  - exact A.
  - intros r s cr p Hn. specialize (B r s cr p Hn). destruct cr as [cid'|pc]; simpl in *; auto.
    destruct B as [B1 B2]. split; auto.
  - unfold gi_writer in *. unfold pending in *. simpl. destruct (st_wph st) as [|cw nx|cw ok]; auto.
    + destruct C as (C1 & C2). split; auto.
    + destruct C as (C1 & C2). split; auto.
  - intros cid' Hm Hw'. apply X. apply D; auto.
Qed.

Lemma gi_put_cache cfg st r s cr c c' p p' :
  GI cfg st -> nth_error (st_rs st) r = Some (RUse s cr p) -> get_cache st cr = Some c ->
  coherent cfg (st_cur st) c' -> GI cfg (put_cache st r s cr c' p').
Proof.
  intros G Hn Hc Hco. pose proof G as (A & B & C & D). specialize (B _ _ _ _ Hn).
  destruct cr as [cid|pc]; simpl in *.
  - destruct B as [B1 _]. apply gi_set_reader.
    + eapply gi_upd_heap; eauto.
    + simpl. intros s0 E. injection E as <-. eapply A; [exact Hn|reflexivity].
    + intros s0 cr0 p0 E. injection E as <- <- <-. simpl. split; auto.
      exists c'. split; auto. apply nth_upd_eq. eapply nth_error_lt; eauto.
  - apply gi_set_reader; auto.
    + simpl. intros s0 E. injection E as <-. eapply A; [exact Hn|reflexivity].
    + intros s0 cr0 p0 E. injection E as <- <- <-. simpl. auto.
Qed.

Lemma gi_fail cfg st r s o : GI cfg st -> w_active st = false -> GI cfg (fail_search st r s o).
Proof.
  intros (A & B & C & D) Hw. unfold fail_search. apply gi_set_reader.
  - repeat split; auto.
    + unfold gi_writer, w_active in *. simpl. destruct (st_wph st); auto; discriminate.
    + intros cid Hm. discriminate.
  - simpl. discriminate.
  - discriminate.
Qed.

Lemma handle_cur cfg st h ih : gi_inflight st -> handle_index cfg st h = Some ih -> ih = cfg_index cfg (st_cur st).
Proof.
  intros A. unfold handle_index. destruct h as [r|]; [|discriminate].
  destruct (nth_error (st_rs st) r) as [ph|] eqn:E; [|discriminate].
  destruct (in_flight ph) as [s|] eqn:Ef; [|discriminate]. intros H. injection H as <-.
  rewrite (A _ _ _ E Ef). reflexivity.
Qed.

Lemma opt_nat_eqb_eq a b : opt_nat_eqb a b = true -> a = b.
Proof. destruct a, b; simpl; try discriminate; auto. intros H. apply Nat.eqb_eq in H. congruence. Qed.

Lemma gi_writer_active_mgr cfg st : gi_writer cfg st -> w_active st = true -> exists cid, st_mgr st = Some cid.
Proof. unfold gi_writer, w_active. destruct (st_wph st); try discriminate; intros (H & _) _; eauto. Qed.

Lemma step_GI_writer cfg st st' :
  step_writer cfg st = Some st' -> calm cfg st TWriter = true -> GI cfg st -> GI cfg st'.
Proof.
  intros H Hc G. pose proof G as (A & B & C & D). unfold step_writer in H. unfold calm in Hc.
  destruct (st_wph st) as [|cw nx|cw ok] eqn:Ew.
  - (* begin *)
    destruct (st_todo st) as [|b rest]; [discriminate|].
    set (nx := cfg_apply cfg b (st_cur st)) in *.
    set (upd := fun c => match nx with
                         | Some p' => w_update (cfg_index cfg (st_cur st)) (cfg_index cfg p') c
                         | None => mkCache (c_items c) (c_all c) HWriter end) in *.
    assert (U : forall c, coherent cfg (st_cur st) c ->
                          coherent cfg (match nx with Some p' => p' | None => st_cur st end) (upd c)).
    { intros c Hco. unfold upd. destruct nx; [apply coherent_w_update; auto|exact Hco]. }
    destruct (st_mgr st) as [cid|] eqn:Em.
    + destruct (rlocked st cid) eqn:Er; [discriminate|]. destruct (nth_error (st_heap st) cid) as [c|] eqn:Eh; [|discriminate].
      injection H as <-.
      assert (Hco : coherent cfg (st_cur st) c).
      { destruct (D cid Em) as (c1 & E1 & H1). { unfold wheld. rewrite Ew. reflexivity. } congruence. }
      split; [|split; [|split]].
      * exact A.
      * intros r s cr p Hn. simpl in Hn. specialize (B _ _ _ _ Hn). destruct cr as [cid'|pc]; simpl in *; auto.
        destruct B as [_ (c1 & E1 & H1)]. assert (cid' <> cid) by (eapply rlocked_false; eauto).
        unfold wheld. simpl. split; [apply Nat.eqb_neq; auto|]. exists c1. rewrite nth_upd_neq; auto.
      * unfold gi_writer, pending. simpl. split; auto. exists (upd c). split; [apply nth_upd_eq; eapply nth_error_lt; eauto|].
        specialize (U c Hco). destruct nx; exact U.
      * intros cid' Hm Hw. simpl in Hm. injection Hm as <-. unfold wheld in Hw. simpl in Hw. rewrite Nat.eqb_refl in Hw. discriminate.
    + injection H as <-. split; [|split; [|split]].
      * exact A.
      * intros r s cr p Hn. simpl in Hn. specialize (B _ _ _ _ Hn). destruct cr as [cid'|pc]; simpl in *; auto.
        destruct B as [_ (c1 & E1 & H1)]. unfold wheld. simpl. split.
        { apply Nat.eqb_neq. apply nth_error_lt in E1. lia. }
        exists c1. split; auto. apply nth_app_keep; auto.
      * unfold gi_writer, pending. simpl. split; auto. exists (upd (empty_cache HWriter)). split; [apply nth_app_last|].
        specialize (U _ (coherent_empty cfg (st_cur st) HWriter)). destruct nx; exact U.
      * intros cid' Hm Hw. simpl in Hm. injection Hm as <-. unfold wheld in Hw. simpl in Hw. rewrite Nat.eqb_refl in Hw. discriminate.
  - (* commit *)
    injection H as <-.
    assert (Hnone : forall r ph, nth_error (st_rs st) r = Some ph -> in_flight ph = None).
    { intros r ph Hn. apply inactive_not_in_flight. eapply (all_inactive_nth None 0); eauto. discriminate. }
    unfold gi_writer, pending in C. rewrite Ew in C. destruct C as (C1 & c & C2 & C3). split; [|split; [|split]].
    + intros r ph s Hn Hf. simpl in Hn. rewrite (Hnone _ _ Hn) in Hf. discriminate.
    + intros r s cr p Hn. simpl in Hn. specialize (Hnone _ _ Hn). discriminate.
    + unfold gi_writer, pending. simpl. split; auto. exists c. split; auto.
    + intros cid' Hm Hw. simpl in Hm. rewrite C1 in Hm. injection Hm as <-. unfold wheld in Hw. simpl in Hw.
      rewrite Nat.eqb_refl in Hw. discriminate.
  - (* unlock *)
    injection H as <-. unfold gi_writer, pending in C. rewrite Ew in C. destruct C as (C1 & c & C2 & C3). split; [|split; [|split]].
    + exact A.
    + intros r s cr p Hn. simpl in Hn. specialize (B _ _ _ _ Hn). destruct cr as [cid'|pc]; simpl in *; auto.
      destruct B as [_ B2]. split; auto.
    + unfold gi_writer. simpl. exact I.
    + intros cid' Hm _. simpl in Hm. destruct ok; [|discriminate]. rewrite C1 in Hm. injection Hm as <-. eauto.
Qed.

Lemma step_GI_reader cfg st r ph st' :
  nth_error (st_rs st) r = Some ph -> step_reader cfg st r ph = Some st' ->
  (w_active st = false \/ st_mgr st' = st_mgr st) -> GI cfg st -> GI cfg st'.
Proof.
  intros Hn H Hc G. pose proof G as (A & B & C & D).
  assert (Wm : w_active st = true -> exists cid, st_mgr st = Some cid) by (apply gi_writer_active_mgr with (cfg := cfg); auto).
  assert (Hfail : forall s o, st_mgr (fail_search st r s o) = None) by reflexivity.
  assert (Wfail : forall s o, st' = fail_search st r s o -> w_active st = false).
  { intros s o E. destruct Hc as [Hc|Hc]; auto. subst st'. rewrite Hfail in Hc.
    destruct (w_active st) eqn:Ew; auto. destruct (Wm eq_refl) as [cid Em]. congruence. }
  destruct ph as [p|s p|s cr p|s nodes|s o]; simpl in H.
  - injection H as <-. apply gi_set_reader; auto.
    + simpl. intros s E. congruence.
    + discriminate.
  - assert (Hs : s = cur_snapshot st) by (eapply A; [exact Hn|reflexivity]).
    destruct (st_mgr st) as [cid|] eqn:Em.
    + destruct (wheld st cid) eqn:Ew.
      * injection H as <-. apply gi_set_reader; auto.
        { simpl. intros s0 E. injection E as <-. exact Hs. }
        { intros s0 cr0 p0 E. injection E as <- <- <-. simpl. apply coherent_empty. }
      * destruct (nth_error (st_heap st) cid) as [c|] eqn:Eh; [|discriminate]. injection H as <-.
        destruct (D cid Em Ew) as (c1 & E1 & H1). assert (c1 = c) by congruence. subst c1.
        apply gi_set_reader.
        { eapply gi_upd_heap; eauto. }
        { simpl. intros s0 E. injection E as <-. exact Hs. }
        { intros s0 cr0 p0 E. injection E as <- <- <-. simpl. split; auto.
          eexists. split; [apply nth_upd_eq; eapply nth_error_lt; eauto|]. exact H1. }
    + injection H as <-.
      assert (Hw : w_active st = false).
      { destruct Hc as [Hc|Hc]; auto. simpl in Hc. discriminate. }
      apply gi_set_reader.
      * pose proof (gi_app_heap cfg st (empty_cache (HReader r)) G) as (A' & B' & C' & D').
        split; [exact A'|split; [exact B'|split]].
        { unfold gi_writer, w_active in *. simpl. destruct (st_wph st); auto; discriminate. }
        intros cid Hm _. simpl in Hm. injection Hm as <-. exists (empty_cache (HReader r)).
        split; [apply nth_app_last|apply coherent_empty].
      * simpl. intros s0 E. injection E as <-. exact Hs.
      * intros s0 cr0 p0 E. injection E as <- <- <-. simpl. split.
        { unfold wheld. simpl. unfold w_active in Hw. destruct (st_wph st); auto; discriminate. }
        exists (empty_cache (HReader r)). split; [apply nth_app_last|apply coherent_empty].
  - destruct (get_cache st cr) as [c|] eqn:Eg; [|discriminate].
    assert (Hs : s = cur_snapshot st) by (eapply A; [exact Hn|reflexivity]).
    assert (Hco : coherent cfg (st_cur st) c).
    { specialize (B _ _ _ _ Hn). destruct cr as [cid|pc]; simpl in *.
      - destruct B as [_ (c1 & E1 & H1)]. congruence.
      - injection Eg as <-. exact B. }
    assert (Hcrash : forall o, GI cfg (set_crashed (set_reader st r (RDone s o)))).
    { intros o. change (GI cfg (set_reader st r (RDone s o))). apply gi_set_reader; auto; simpl; discriminate. }
    destruct p as [nodes| |k cont|cont].
    + injection H as <-. apply gi_set_reader; auto.
      * simpl. intros s0 E. injection E as <-. exact Hs.
      * discriminate.
    + injection H as <-. apply gi_fail; auto. eapply Wfail; reflexivity.
    + destruct (idx_get (c_items c) k) as [e|] eqn:Ei.
      * injection H as <-. eapply gi_put_cache; eauto.
      * destruct (handle_index cfg st (c_handle c)) as [ih|] eqn:Ehd.
        { apply (handle_cur cfg st _ _ A) in Ehd. subst ih.
          destruct (idx_get (cfg_index cfg (st_cur st)) k) as [e|] eqn:Ek; injection H as <-.
          - eapply gi_put_cache; eauto. apply coherent_get; auto.
          - eapply gi_put_cache; eauto. }
        { destruct (cfg_guarded cfg); injection H as <-.
          - eapply gi_put_cache; eauto.
          - apply Hcrash. }
    + destruct (c_all c) eqn:Ea.
      * injection H as <-. eapply gi_put_cache; eauto.
      * destruct (handle_index cfg st (c_handle c)) as [ih|] eqn:Ehd.
        { apply (handle_cur cfg st _ _ A) in Ehd. subst ih. injection H as <-.
          eapply gi_put_cache; eauto. apply (coherent_scan cfg (st_cur st) c Hco). }
        { destruct (cfg_guarded cfg); injection H as <-.
          - apply gi_fail; auto. eapply Wfail; reflexivity.
          - apply Hcrash. }
  - injection H as <-. apply gi_set_reader; auto; simpl; discriminate.
  - discriminate.
Qed.

Lemma step_GI cfg st t st' : step cfg st t = Some st' -> calm cfg st t = true -> GI cfg st -> GI cfg st'.
Proof.
  intros H Hc G. assert (He : exec cfg st t = st') by (unfold exec; rewrite H; reflexivity).
  unfold step in H. destruct (st_crashed st); [discriminate|]. destruct t as [|r|].
  - eapply step_GI_writer; eauto.
  - destruct (nth_error (st_rs st) r) as [ph|] eqn:E; [|discriminate].
    eapply step_GI_reader; eauto. unfold calm in Hc. rewrite He in Hc. apply orb_true_iff in Hc.
    destruct Hc as [Hc|Hc]; [left; apply negb_true_iff; auto|right; apply opt_nat_eqb_eq; auto].
  - destruct (st_mgr st) as [cid|] eqn:Em; [|discriminate]. injection H as <-.
    unfold calm in Hc. rewrite He in Hc. simpl in Hc. rewrite Em in Hc. rewrite orb_false_r in Hc.
    apply negb_true_iff in Hc. destruct G as (A & B & C & D). split; [|split; [|split]]; auto.
    + unfold gi_writer, w_active in *. simpl. destruct (st_wph st); auto; discriminate.
    + intros cid' Hm. discriminate.
Qed.

Lemma init_GI cfg p0 bs progs : GI cfg (init p0 bs progs).
Proof.
  assert (X : forall r ph, nth_error (map RIdle progs) r = Some ph -> exists p, ph = RIdle p).
  { intros r ph H. apply nth_error_In in H. apply in_map_iff in H. destruct H as (p & <- & _). eauto. }
  split; [|split; [|split]].
  - intros r ph s H Hf. destruct (X _ _ H) as [p ->]. discriminate.
  - intros r s cr p H. destruct (X _ _ H) as [p' E]. discriminate.
  - exact I.
  - intros cid H. discriminate.
Qed.

Lemma run_GI cfg sched st : calm_run cfg sched st -> GI cfg st -> GI cfg (run cfg sched st).
Proof.
  revert st. induction sched as [|t s IH]; intros st Hc G; simpl; auto. destruct Hc as [Hc1 Hc2].
  apply IH; auto. unfold exec. destruct (step cfg st t) eqn:E; auto. eapply step_GI; eauto.
Qed.

Lemma others_idle_calm cfg st t : others_idle st t = true -> calm cfg st t = true.
Proof.
  unfold others_idle, calm. destruct t; intros H.
  - destruct (st_wph st); auto.
  - apply andb_true_iff in H. destruct H as [-> _]. reflexivity.
  - apply andb_true_iff in H. destruct H as [-> _]. reflexivity.
Qed.

Lemma serial_calm cfg sched st : serial_run cfg sched st -> calm_run cfg sched st.
Proof.
  revert st. induction sched as [|t s IH]; intros st H; simpl; auto. destruct H as [H1 H2].
  split; auto. apply others_idle_calm; auto.
Qed.

Lemma coherent_cache_get cfg ps c k : coherent cfg ps c -> cache_get cfg ps c k = idx_get (cfg_index cfg ps) k.
Proof. intros H. apply (scan_view_coherent cfg ps c k H). Qed.

Lemma coherent_cache_scan cfg ps c :
  coherent cfg ps c -> cache_scan cfg ps c = scan_result (idx_get (cfg_index cfg ps)) (cfg_keys cfg).
Proof.
  intros H. unfold cache_scan. destruct (c_all c) eqn:Ea.
  - apply scan_result_ext. intros k Hk. destruct H as [_ H2]. apply H2; auto.
  - apply scan_result_ext. intros k _. apply coherent_cache_get; auto.
Qed.

Lemma warm_coherent cfg p0 bs progs sched cid :
  let st := run cfg sched (init p0 bs progs) in
  calm_run cfg sched (init p0 bs progs) -> st_wph st = WIdle -> st_mgr st = Some cid ->
  exists c, nth_error (st_heap st) cid = Some c /\ coherent cfg (st_cur st) c.
Proof.
  intros st Hc Hw Hm. destruct (run_GI cfg sched _ Hc (init_GI cfg p0 bs progs)) as (_ & _ & _ & D).
  apply D; auto. unfold wheld. fold st. rewrite Hw. reflexivity.
Qed.

(* ------------------------------------------------------------------ serial schedules: every answer is the sequential one *)
Definition own_ok (cfg : config) (st : state) (r : nat) (p0 : prog) (ph : rphase) : Prop :=
  match ph with
  | RIdle p | RBegun _ p => p = p0
  | RUse s cr p =>
      exec_ref (cfg_keys cfg) (cfg_index cfg (snd s)) p = exec_ref (cfg_keys cfg) (cfg_index cfg (snd s)) p0 /\
      exists c, get_cache st cr = Some c /\ c_handle c = HReader r
  | RLookup s nodes => exec_ref (cfg_keys cfg) (cfg_index cfg (snd s)) p0 = RefNodes nodes
  | RDone s o => o = answer cfg p0 (snd s)
  end.
Definition SI (cfg : config) (progs : list prog) (st : state) : Prop :=
  st_crashed st = false /\ length (st_rs st) = length progs /\
  forall r ph p0, nth_error (st_rs st) r = Some ph -> nth_error progs r = Some p0 -> own_ok cfg st r p0 ph.

Lemma own_ok_inactive cfg st st' r p0 ph : r_active ph = false -> own_ok cfg st r p0 ph -> own_ok cfg st' r p0 ph.
Proof. destruct ph; simpl; auto; discriminate. Qed.

Lemma put_cache_own st r s cr c c' p' :
  get_cache st cr = Some c ->
  exists cr', st_rs (put_cache st r s cr c' p') = upd_nth r (RUse s cr' p') (st_rs st) /\
              get_cache (put_cache st r s cr c' p') cr' = Some c' /\
              st_crashed (put_cache st r s cr c' p') = st_crashed st.
Proof.
  intros H. destruct cr as [cid|pc]; simpl in *.
  - exists (Shared cid). simpl. repeat split; auto. apply nth_upd_eq. eapply nth_error_lt; eauto.
  - exists (Private c'). simpl. auto.
Qed.

Lemma step_reader_own cfg st r ph st' p0 :
  nth_error (st_rs st) r = Some ph -> step_reader cfg st r ph = Some st' -> GI cfg st ->
  own_ok cfg st r p0 ph -> st_crashed st = false ->
  exists ph', st_rs st' = upd_nth r ph' (st_rs st) /\ own_ok cfg st' r p0 ph' /\ st_crashed st' = false.
Proof.
  intros Hn H G Ho Hcr. pose proof G as (A & B & C & D).
  destruct ph as [p|s p|s cr p|s nodes|s o]; simpl in H.
  - injection H as <-. eexists. split; [reflexivity|]. simpl in *. auto.
  - simpl in Ho. subst p. destruct (st_mgr st) as [cid|] eqn:Em.
    + destruct (wheld st cid) eqn:Ew.
      * injection H as <-. eexists. split; [reflexivity|]. simpl. split; auto. split; auto. eexists; split; reflexivity.
      * destruct (nth_error (st_heap st) cid) as [c|] eqn:Eh; [|discriminate]. injection H as <-.
        eexists. split; [reflexivity|]. simpl. split; auto. split; auto.
        eexists. split; [apply nth_upd_eq; eapply nth_error_lt; eauto|reflexivity].
    + injection H as <-. eexists. split; [reflexivity|]. simpl. split; auto. split; auto.
      eexists. split; [apply nth_app_last|reflexivity].
  - simpl in Ho. destruct Ho as (Hex & c & Eg & Hh). rewrite Eg in H.
    assert (Hs : s = cur_snapshot st) by (eapply A; [exact Hn|reflexivity]).
    assert (Hco : coherent cfg (snd s) c).
    { rewrite Hs. simpl. specialize (B _ _ _ _ Hn). destruct cr as [cid|pc]; simpl in *.
      - destruct B as [_ (c1 & E1 & H1)]. congruence.
      - injection Eg as <-. exact B. }
    assert (Hhi : handle_index cfg st (c_handle c) = Some (cfg_index cfg (snd s))).
    { rewrite Hh. unfold handle_index. rewrite Hn. reflexivity. }
    assert (Hput : forall c' p', c_handle c' = HReader r ->
               exec_ref (cfg_keys cfg) (cfg_index cfg (snd s)) p' = exec_ref (cfg_keys cfg) (cfg_index cfg (snd s)) p0 ->
               exists ph', st_rs (put_cache st r s cr c' p') = upd_nth r ph' (st_rs st) /\
                           own_ok cfg (put_cache st r s cr c' p') r p0 ph' /\
                           st_crashed (put_cache st r s cr c' p') = false).
    { intros c' p' Hh' He. destruct (put_cache_own st r s cr c c' p' Eg) as (cr' & E1 & E2 & E3).
      exists (RUse s cr' p'). split; auto. split; [|congruence]. simpl. split; auto. eauto. }
    destruct p as [nodes| |k cont|cont].
    + injection H as <-. eexists. split; [reflexivity|]. simpl. auto.
    + injection H as <-. eexists. split; [reflexivity|]. simpl. split; auto.
      unfold answer. rewrite <- Hex. reflexivity.
    + simpl in Hex. destruct (idx_get (c_items c) k) as [e|] eqn:Ei.
      * injection H as <-. apply Hput; auto. rewrite <- Hex. destruct Hco as [H1 _]. rewrite (H1 _ _ Ei). reflexivity.
      * rewrite Hhi in H. destruct (idx_get (cfg_index cfg (snd s)) k) as [e|] eqn:Ek; injection H as <-.
        { apply Hput; auto. }
        { apply Hput; auto. }
    + simpl in Hex. destruct (c_all c) eqn:Ea.
      * injection H as <-. apply Hput; auto. rewrite <- Hex. f_equal. f_equal.
        apply scan_result_ext. intros k Hk. destruct Hco as [_ H2]. apply H2; auto.
      * rewrite Hhi in H. injection H as <-. apply Hput; auto. rewrite <- Hex. f_equal. f_equal.
        apply scan_result_ext. intros k _. apply (scan_view_coherent cfg (snd s) c k Hco).
  - injection H as <-. eexists. split; [reflexivity|]. simpl in *. split; auto.
    unfold answer. rewrite Ho. reflexivity.
  - discriminate.
Qed.

Lemma others_idle_reader st r r' ph :
  others_idle st (TReader r) = true -> nth_error (st_rs st) r' = Some ph -> r' <> r -> r_active ph = false.
Proof.
  unfold others_idle. intros H Hn Hne. apply andb_true_iff in H. destruct H as [_ H].
  eapply (all_inactive_nth (Some r) 0); eauto. simpl. congruence.
Qed.

Lemma others_idle_all st t r ph :
  t <> TReader r -> others_idle st t = true -> nth_error (st_rs st) r = Some ph -> r_active ph = false.
Proof.
  intros Ht H Hn. destruct t as [|r0|].
  - unfold others_idle in H. eapply (all_inactive_nth None 0); eauto; discriminate.
  - eapply others_idle_reader; eauto; congruence.
  - unfold others_idle in H. apply andb_true_iff in H. destruct H as [_ H].
    eapply (all_inactive_nth None 0); eauto; discriminate.
Qed.

Lemma step_SI cfg progs st t st' :
  step cfg st t = Some st' -> others_idle st t = true -> GI cfg st -> SI cfg progs st -> SI cfg progs st'.
Proof.
  intros H Hi G (Scr & Sl & S).
  assert (Hl : length (st_rs st') = length progs) by (rewrite (step_rs_length _ _ _ _ H); exact Sl).
  unfold step in H. rewrite Scr in H. destruct t as [|r|].
  - destruct (step_writer_rs _ _ _ H) as [E1 E2]. split; [congruence|]. split; auto.
    intros r ph p0 Hn Hp. rewrite E1 in Hn.
    eapply own_ok_inactive; [|eapply S; eauto]. eapply others_idle_all; eauto; discriminate.
  - destruct (nth_error (st_rs st) r) as [ph|] eqn:E; [|discriminate].
    destruct (nth_error progs r) as [p0|] eqn:Ep.
    + destruct (step_reader_own cfg st r ph st' p0 E H G (S _ _ _ E Ep) Scr) as (ph' & E1 & E2 & E3).
      split; auto. split; auto. intros r' ph2 p2 Hn Hp. rewrite E1 in Hn. apply nth_upd_some in Hn.
      destruct Hn as [[<- ->]|[Hne Hn]].
      * rewrite Ep in Hp. injection Hp as <-. exact E2.
      * eapply own_ok_inactive; [|eapply S; eauto]. eapply others_idle_reader; eauto.
    + exfalso. apply nth_error_lt in E. apply nth_error_None in Ep. lia.
  - destruct (st_mgr st); [|discriminate]. injection H as <-. split; [auto|split; [auto|]].
    intros r ph p0 Hn Hp. simpl in Hn.
    eapply own_ok_inactive; [|eapply S; eauto]. eapply others_idle_all; eauto; discriminate.
Qed.

Lemma init_SI cfg p0 bs progs : SI cfg progs (init p0 bs progs).
Proof.
  split; [reflexivity|]. split; [simpl; apply map_length|].
  intros r ph p Hn Hp. simpl in Hn. rewrite nth_error_map, Hp in Hn. injection Hn as <-. reflexivity.
Qed.

Lemma run_SI cfg progs sched st :
  serial_run cfg sched st -> GI cfg st -> SI cfg progs st ->
  GI cfg (run cfg sched st) /\ SI cfg progs (run cfg sched st).
Proof.
  revert st. induction sched as [|t s IH]; intros st Hs G S; simpl; auto. destruct Hs as [H1 H2].
  unfold exec in *. destruct (step cfg st t) as [st'|] eqn:E; auto.
  apply IH; auto.
  - eapply step_GI; eauto. apply others_idle_calm; auto.
  - eapply step_SI; eauto.
Qed.

Lemma serial_safe cfg p0 bs progs sched :
  serial_run cfg sched (init p0 bs progs) ->
  let st := run cfg sched (init p0 bs progs) in
  st_crashed st = false /\
  forall r s o p, nth_error (st_rs st) r = Some (RDone s o) -> nth_error progs r = Some p ->
                  o = answer cfg p (snd s) /\
                  nth_error (committed st) (fst s) = Some (snd s) /\
                  (forall rows, o = Ok rows -> rows_live (snd s) rows).
Proof.
  intros Hs st. destruct (run_SI cfg progs sched _ Hs (init_GI cfg p0 bs progs) (init_SI cfg p0 bs progs)) as [_ (S1 & _ & S2)].
  split; auto. intros r s o p Hn Hp. split; [apply (S2 _ _ _ Hn Hp)|].
  destruct (run_inv_snap cfg sched _ (init_inv_snap p0 bs progs) r _ Hn) as [A B].
  split; [apply (A s eq_refl)|]. intros rows ->. eapply B; eauto.
Qed.

(* ------------------------------------------------------------------ the reference spec of C01 as batch semantics *)
Lemma store_of_assign old fresh s : store_of (assign old fresh s) = s.
Proof.
  revert fresh. induction s as [|[id d] s IH]; intros fresh; simpl; auto.
  destruct (node_of id old); simpl; unfold store_of in *; rewrite IH; reflexivity.
Qed.

Lemma spec_apply_refines g idx keys sc maxsize :
  refines_spec (mkConfig g idx (spec_apply sc maxsize) keys) sc maxsize.
Proof.
  intros b p. simpl. unfold spec_apply. destruct (apply_spec sc maxsize b (store_of p)) as [s' m] eqn:E.
  destruct m as [ids|ks].
  - exists ids. rewrite store_of_assign. reflexivity.
  - exists ks. reflexivity.
Qed.

(* the timeline the running check judges against (Run_C09.versions) is the spec timeline whenever the
   observed batch outputs agree with the spec (which the verdict checks first: code 101) *)
Lemma run_versions_spec sc maxsize bs s :
  Run_C09.outputs_ok sc maxsize bs s = true ->
  Run_C09.versions sc maxsize bs s = spec_versions sc maxsize (map fst bs) s.
Proof.
  revert s. induction bs as [|[b o] bs IH]; intros s H; simpl in *; auto.
  destruct (apply_spec sc maxsize b s) as [s' m] eqn:E. apply andb_true_iff in H. destruct H as [H1 H2].
  f_equal. simpl. destruct o as [ids|k|w]; destruct m as [ids'|ks]; simpl in H1; try discriminate; apply IH; auto.
Qed.

Lemma final_state cfg p0 bs progs sched :
  let st := run cfg sched (init p0 bs progs) in
  writer_finished st ->
  committed st = seq_versions cfg bs p0 /\
  st_cur st = last (seq_versions cfg bs p0) [] /\
  (forall sc maxsize, refines_spec cfg sc maxsize ->
     map store_of (committed st) = spec_versions sc maxsize bs (store_of p0)) /\
  (forall h, coherent cfg (st_cur st) (empty_cache h)) /\
  (calm_run cfg sched (init p0 bs progs) ->
   forall cid, st_mgr st = Some cid ->
     exists c, nth_error (st_heap st) cid = Some c /\ coherent cfg (st_cur st) c).
Proof.
  intros st Hf. pose proof (final_versions cfg p0 bs progs sched Hf) as Hv. fold st in Hv.
  split; [exact Hv|]. split; [rewrite <- Hv; symmetry; apply committed_last|].
  split; [intros sc ms R; rewrite Hv; apply seq_versions_spec; auto|].
  split; [intros h; apply coherent_empty|].
  intros Hc cid Hm. destruct Hf as [Hw _]. eapply warm_coherent; eauto.
Qed.

Lemma coherent_answers cfg ps c :
  coherent cfg ps c ->
  (forall k, cache_get cfg ps c k = idx_get (cfg_index cfg ps) k) /\
  cache_scan cfg ps c = scan_result (idx_get (cfg_index cfg ps)) (cfg_keys cfg).
Proof. intros H. split; [intros k; apply coherent_cache_get; auto|apply coherent_cache_scan; auto]. Qed.

(* ------------------------------------------------------------------ witnesses *)
Open Scope N_scope.
Definition w_id1 : uuid := [1]. Definition w_id2 : uuid := [2].
Definition w_doc : doc := [([120], VInt 1%Z)].
Definition w_p0 : pstore := [(1, (w_id1, w_doc))].
Definition w_batch : batch := BInsert [(w_id2, w_doc)].
(* a filter-like query: read the posting list under key 0 and return it *)
Definition w_q_get : prog := PGet 0 (fun r => PDone (match r with Some l => l | None => [] end)).
(* a flat-like query: one point read, then a full scan *)
Definition w_q_scan : prog :=
  PGet 0 (fun _ => PScan (fun i => PDone (match idx_get i 0 with Some l => l | None => [] end))).
Close Scope N_scope.

(* R0 begins (snapshot v0); the writer locks, updates the cache to I_1, commits v1, unlocks;
   R0 acquires the shared cache, reads key 0 from it, releases, looks the nodes up in v0 *)
Definition w_sched_spurious : list tid :=
  [TReader 0; TWriter; TWriter; TWriter; TReader 0; TReader 0; TReader 0; TReader 0].

(* R2 warms the cache and finishes; R0 acquires it, R1 acquires it (its handle is installed last),
   R1 searches and finishes (its handle dies); R0 hits key 0, then scans through the dead handle *)
Definition w_sched_shared : list tid :=
  [TReader 2; TReader 2; TReader 2; TReader 2; TReader 2;
   TReader 0; TReader 0; TReader 1; TReader 1; TReader 1; TReader 1; TReader 1;
   TReader 0; TReader 0; TReader 0; TReader 0].

(* the writer locks a fresh cache; the manager entry is evicted; R0 registers a cache built from v0,
   populates it and finishes; the writer commits v1 and unlocks: the registered cache still holds I_0 *)
Definition w_sched_evict : list tid :=
  [TWriter; TEvict; TReader 0; TReader 0; TReader 0; TReader 0; TReader 0; TWriter; TWriter].

Lemma spurious_refuted :
  forall g, let cfg := toy_cfg g in
  let st0 := init w_p0 [w_batch] [w_q_get] in
  let st := run cfg w_sched_spurious st0 in
  cache_serial_run cfg w_sched_spurious st0 /\
  nth_error (st_rs st) 0 = Some (RDone (0, w_p0) FailNotExist) /\
  st_crashed st = false /\ writer_finished st /\
  answer cfg w_q_get w_p0 = Ok [(1%N, (w_id1, w_doc))] /\
  answer cfg w_q_get (st_cur st) = Ok [(2%N, (w_id2, w_doc)); (1%N, (w_id1, w_doc))].
Proof. intros g. destruct g; vm_compute; repeat split. Qed.

Lemma shared_handle_refuted :
  let st0 := init w_p0 [] [w_q_scan; w_q_get; w_q_get] in
  (forall g r, r < 3 -> answer (toy_cfg g) (nth r [w_q_scan; w_q_get; w_q_get] PFail) w_p0 = Ok [(1%N, (w_id1, w_doc))]) /\
  (let st := run (toy_cfg true) w_sched_shared st0 in
   st_crashed st = false /\
   st_rs st = [RDone (0, w_p0) FailHandleDead; RDone (0, w_p0) (Ok [(1%N, (w_id1, w_doc))]);
               RDone (0, w_p0) (Ok [(1%N, (w_id1, w_doc))])]) /\
  (let st := run (toy_cfg false) w_sched_shared st0 in
   st_crashed st = true /\ nth_error (st_rs st) 0 = Some (RDone (0, w_p0) Crashed)).
Proof.
  split; [|vm_compute; repeat split].
  intros g r Hr. destruct g; destruct r as [|[|[|r]]]; try lia; vm_compute; reflexivity.
Qed.

Lemma evict_stale_refuted :
  let cfg := toy_cfg true in
  let st0 := init w_p0 [w_batch] [w_q_get] in
  let st := run cfg w_sched_evict st0 in
  writer_finished st /\ st_crashed st = false /\
  exists cid c, st_mgr st = Some cid /\ nth_error (st_heap st) cid = Some c /\
                cache_get cfg (st_cur st) c 0%N = Some [1%N] /\
                idx_get (cfg_index cfg (st_cur st)) 0%N = Some [2%N; 1%N].
Proof. vm_compute. repeat split. eexists _, _. repeat split. Qed.

(* the committed versions are always a prefix of the sequential timeline of the batch stream *)
Lemma committed_prefix cfg p0 bs progs sched :
  exists rest, seq_versions cfg bs p0 = committed (run cfg sched (init p0 bs progs)) ++ rest.
Proof.
  assert (I : inv_versions cfg (seq_versions cfg bs p0) (run cfg sched (init p0 bs progs))).
  { apply run_inv_versions. reflexivity. }
  unfold inv_versions in I. unfold committed.
  assert (X : forall todo p, exists tl, seq_versions cfg todo p = p :: tl) by (intros [|b t] p; simpl; eauto).
  destruct (st_wph (run cfg sched (init p0 bs progs))).
  - destruct (X (st_todo (run cfg sched (init p0 bs progs))) (st_cur (run cfg sched (init p0 bs progs)))) as [tl E].
    rewrite E in I. exists tl. rewrite I, <- app_assoc. reflexivity.
  - eexists. rewrite I, <- app_assoc. reflexivity.
  - destruct (X (st_todo (run cfg sched (init p0 bs progs))) (st_cur (run cfg sched (init p0 bs progs)))) as [tl E].
    rewrite E in I. exists tl. rewrite I, <- app_assoc. reflexivity.
Qed.

Lemma serial_safe_full cfg p0 bs progs sched :
  serial_run cfg sched (init p0 bs progs) ->
  let st := run cfg sched (init p0 bs progs) in
  st_crashed st = false /\
  forall r s o p, nth_error (st_rs st) r = Some (RDone s o) -> nth_error progs r = Some p ->
                  o = answer cfg p (snd s) /\
                  nth_error (committed st) (fst s) = Some (snd s) /\
                  In (snd s) (seq_versions cfg bs p0) /\
                  (forall rows, o = Ok rows -> rows_live (snd s) rows) /\
                  ((forall ps, In ps (seq_versions cfg bs p0) -> exists rows, answer cfg p ps = Ok rows) ->
                   exists rows, o = Ok rows /\ rows_live (snd s) rows).
Proof.
  intros Hs st. destruct (serial_safe cfg p0 bs progs sched Hs) as [A B]. split; [exact A|].
  intros r s o p Hn Hp. destruct (B r s o p Hn Hp) as (B1 & B2 & B3).
  assert (Hin : In (snd s) (seq_versions cfg bs p0)).
  { destruct (committed_prefix cfg p0 bs progs sched) as [rest E]. rewrite E. apply in_or_app. left.
    eapply nth_error_In; eauto. }
  repeat split; auto. intros Hsound. destruct (Hsound _ Hin) as [rows E]. exists rows.
  assert (o = Ok rows) by congruence. split; auto.
Qed.
