(* Model_ItemCache.v -- the write-back item cache of semadb (definitions only).

   M = shard/cache/itemcache.go (ItemCache[K,V]: items map with IsDirty / IsDeleted,
       isAllInCache, Get, GetMany, Put, Delete, ForEach, Count, Flush, UpdateBucket)
       generic in the Storable instance, and its instances
         plain vector            shard/vectorstore/plain.go    n<id>v
         binary quantised point  shard/vectorstore/binary.go   n<id>q | n<id>v
         product quantised point shard/vectorstore/product.go  n<id>v + n<id>q
         graph node              shard/index/vamana/node.go    n<id>e
         text posting set        shard/index/text/text.go      t<term>s
         text document record    shard/index/text/text.go      d<id>
   S = a plain finite map  id -> option item  (absmap / nabs, spec_step, obs_ok).

   Reading conventions
   - The cache does not own its bucket: every operation takes the bucket as an
     argument.  This is UpdateBucket: dispatch.go / search.go install the bucket
     handle of the running bbolt transaction before every use.
   - A bucket is only ever looked at through its lookup function
     [kv = bytes -> option bytes] (ReadFrom uses bucket.Get only) and through
     the list of its keys (bucket.ForEach).  WriteTo / DeleteFrom are lists of
     actions (key, Some value) = Put, (key, None) = Delete, so that the two text
     items, which delete their key when they become empty, fit.
   - Go's nil / empty slice distinction is not observable through len(): an
     absent vector or code is the empty list.
   - In-place mutation of a cached pointer item (Fit re-encoding every point,
     ClearNeighbours / AddNeighbour on a graph node, CheckedAdd / CheckedRemove on
     a posting set) is the operation c_modify = Get, then replace the value
     WITHOUT touching IsDirty: persisting it relies on the item's own flag. *)
From Coq Require Import List NArith Bool.
From Semadb Require Import Bytes U64 KeyLayout Model_C19.
Import ListNotations.
Open Scope N_scope.

(* ------------------------------------------------------------------------ *)
(* 1. lookup view of a bucket, write actions                                  *)

Definition kv := bytes -> option bytes.
Definition action := (bytes * option bytes)%type.

Definition kv_upd (k : bytes) (a : option bytes) (g : kv) : kv :=
  fun k' => if bytes_eqb k k' then a else g k'.
Fixpoint kv_apply (acts : list action) (g : kv) : kv :=
  match acts with
  | [] => g
  | (k, a) :: r => kv_apply r (kv_upd k a g)
  end.
Definition kv_eq (g g' : kv) : Prop := forall k, g k = g' k.
Definition kv_empty : kv := fun _ => None.

(* ------------------------------------------------------------------------ *)
(* 2. bucket implementations (diskstore.Bucket: Get, Put, Delete, ForEach)    *)

Record BucketImpl : Type := {
  bk : Type;
  bk_get : bk -> bytes -> option bytes;
  bk_put : bytes -> bytes -> bk -> bk;
  bk_del : bytes -> bk -> bk;
  bk_keys : bk -> list bytes            (* the keys ForEach visits, in its order *)
}.

(* The laws a backend has to satisfy.  bbolt and the in-memory store are ASSUMED
   to satisfy them (trusted base); the two list implementations below are
   proved to. *)
Record BucketLaws (B : BucketImpl) : Prop := {
  bl_get_put : forall b k v k', bk_get B (bk_put B k v b) k' = if bytes_eqb k k' then Some v else bk_get B b k';
  bl_get_del : forall b k k', bk_get B (bk_del B k b) k' = if bytes_eqb k k' then None else bk_get B b k';
  bl_keys : forall b k, In k (bk_keys B b) <-> bk_get B b k <> None;
  bl_keys_nodup : forall b, NoDup (bk_keys B b)
}.

Fixpoint bk_apply (B : BucketImpl) (acts : list action) (b : bk B) : bk B :=
  match acts with
  | [] => b
  | (k, Some v) :: r => bk_apply B r (bk_put B k v b)
  | (k, None) :: r => bk_apply B r (bk_del B k b)
  end.

(* association lists; first match wins *)
Definition alist := list (bytes * bytes).
Fixpoint al_get (b : alist) (k : bytes) : option bytes :=
  match b with
  | [] => None
  | (k', v) :: r => if bytes_eqb k' k then Some v else al_get r k
  end.
Definition al_del (k : bytes) (b : alist) : alist :=
  filter (fun kv => negb (bytes_eqb k (fst kv))) b.
Definition al_put_front (k v : bytes) (b : alist) : alist := (k, v) :: al_del k b.
Definition al_put_back (k v : bytes) (b : alist) : alist := al_del k b ++ [(k, v)].
Fixpoint mem_bytes_b (k : bytes) (l : list bytes) : bool :=
  match l with [] => false | x :: r => bytes_eqb k x || mem_bytes_b k r end.
Fixpoint dedup (l : list bytes) : list bytes :=
  match l with
  | [] => []
  | x :: r => if mem_bytes_b x r then dedup r else x :: dedup r
  end.

(* newest first *)
Definition AL : BucketImpl := {|
  bk := alist; bk_get := al_get; bk_put := al_put_front; bk_del := al_del;
  bk_keys := fun b => dedup (map fst b) |}.
(* oldest first, enumerated backwards: a second backend with another ForEach order *)
Definition AL2 : BucketImpl := {|
  bk := alist; bk_get := al_get; bk_put := al_put_back; bk_del := al_del;
  bk_keys := fun b => rev (dedup (map fst b)) |}.

(* ------------------------------------------------------------------------ *)
(* 3. Storable                                                               *)

Record Storable : Type := {
  st_id : Type;
  st_item : Type;
  st_eqb : st_id -> st_id -> bool;
  st_writes : st_id -> st_item -> list action;      (* WriteTo *)
  st_del_keys : st_id -> list bytes;                (* DeleteFrom; also every key the id owns *)
  st_read : st_id -> kv -> option st_item;          (* ReadFrom; None = ErrNotFound *)
  st_id_from_key : bytes -> option st_id;           (* IdFromKey *)
  st_self_dirty : st_item -> bool;                  (* CheckAndClearDirty: the answer ... *)
  st_clear_dirty : st_item -> st_item               (* ... and the effect on the item *)
}.

(* what WriteTo Puts *)
Definition keys_of (S : Storable) (i : st_id S) (v : st_item S) : list (bytes * bytes) :=
  flat_map (fun a => match snd a with Some x => [(fst a, x)] | None => [] end) (st_writes S i v).
Definition st_dels (S : Storable) (i : st_id S) : list action :=
  map (fun k => (k, None)) (st_del_keys S i).

(* Specification side of an instance:
   sp_norm      what a cold read gives back for an item (dirty flag cleared; a
                quantised point loses its full vector once it has a code);
   sp_valid     the item can be written for this id over this bucket and read back
                (word ranges of the codecs; a non-empty document; for a quantised
                point without code: no stale code under 'q');
   sp_deletable Delete is used on this cache (not on posting sets: ReadFrom never
                reports ErrNotFound there). *)
Record StorableSpec (S : Storable) : Type := {
  sp_norm : st_item S -> st_item S;
  sp_valid : st_id S -> st_item S -> kv -> Prop;
  sp_deletable : bool
}.
Arguments sp_norm {S}. Arguments sp_valid {S}. Arguments sp_deletable {S}.

Record StorableLaws (S : Storable) (P : StorableSpec S) : Prop := {
  sl_eqb : forall i j, st_eqb S i j = true <-> i = j;
  (* ReadFrom looks only at the keys of its id; ids own disjoint keys *)
  sl_read_ext : forall i g g', (forall k, In k (st_del_keys S i) -> g k = g' k) -> st_read S i g = st_read S i g';
  sl_keys_disjoint : forall i j k, In k (st_del_keys S i) -> In k (st_del_keys S j) -> i = j;
  sl_writes_own : forall i v k a, In (k, a) (st_writes S i v) -> In k (st_del_keys S i);
  sl_idfk_own : forall k i, st_id_from_key S k = Some i -> In k (st_del_keys S i);
  (* WriteTo then ReadFrom; DeleteFrom then ReadFrom *)
  sl_read_write : forall i v g, sp_valid P i v g -> st_read S i (kv_apply (st_writes S i v) g) = Some (sp_norm P v);
  sl_read_deleted : forall i g, sp_deletable P = true -> st_read S i (kv_apply (st_dels S i) g) = None;
  sl_read_normal : forall i g w, st_read S i g = Some w -> sp_norm P w = w;
  sl_norm_idem : forall v, sp_norm P (sp_norm P v) = sp_norm P v;
  sl_norm_clean : forall v, st_self_dirty S (sp_norm P v) = false;
  sl_norm_clear : forall v, sp_norm P (st_clear_dirty S v) = sp_norm P v;
  sl_clear_clean : forall v, st_self_dirty S (st_clear_dirty S v) = false;
  sl_valid_ext : forall i v g g', (forall k, In k (st_del_keys S i) -> g k = g' k) -> sp_valid P i v g -> sp_valid P i v g';
  sl_valid_clear : forall i v g, sp_valid P i v g -> sp_valid P i (st_clear_dirty S v) g;
  sl_valid_written : forall i v g, sp_valid P i v g -> sp_valid P i v (kv_apply (st_writes S i v) g)
}.

(* The well-formedness predicate ForEach and Count rely on: every stored item
   has a key from which IdFromKey recovers its id, and every key IdFromKey
   accepts belongs to a readable item. *)
Record Enumerable (S : Storable) : Prop := {
  en_complete : forall i g w, st_read S i g = Some w ->
                exists k, g k <> None /\ st_id_from_key S k = Some i;
  en_sound : forall i g k, g k <> None -> st_id_from_key S k = Some i -> st_read S i g <> None
}.
(* Count counts KEYS: one enumerating key per id in this bucket *)
Definition enum_unique (S : Storable) (g : kv) : Prop :=
  forall k k' i, g k <> None -> g k' <> None ->
    st_id_from_key S k = Some i -> st_id_from_key S k' = Some i -> k = k'.

(* ------------------------------------------------------------------------ *)
(* 4. the cache                                                              *)

Fixpoint ic_lookup {K V} (eqb : K -> K -> bool) (i : K) (l : list (K * V)) : option V :=
  match l with
  | [] => None
  | (j, e) :: r => if eqb i j then Some e else ic_lookup eqb i r
  end.
Fixpoint ic_set {K V} (eqb : K -> K -> bool) (i : K) (e : V) (l : list (K * V)) : list (K * V) :=
  match l with
  | [] => [(i, e)]
  | (j, e') :: r => if eqb i j then (j, e) :: r else (j, e') :: ic_set eqb i e r
  end.

Section ItemCache.
Variable S : Storable.
Variable B : BucketImpl.

Definition entry : Type := (st_item S * bool * bool)%type.      (* value, IsDirty, IsDeleted *)
Record cache : Type := mkCache { c_items : list (st_id S * entry); c_all : bool (* isAllInCache *) }.
Definition c_empty : cache := mkCache [] false.                 (* NewItemCache *)

Definition lookup (i : st_id S) (l : list (st_id S * entry)) : option entry := ic_lookup (st_eqb S) i l.
Definition setit (i : st_id S) (e : entry) (l : list (st_id S * entry)) := ic_set (st_eqb S) i e l.

(* Get *)
Definition c_get (i : st_id S) (c : cache) (b : bk B) : option (st_item S) * cache :=
  match lookup i (c_items c) with
  | Some (v, _, true) => (None, c)
  | Some (v, _, false) => (Some v, c)
  | None => match st_read S i (bk_get B b) with
            | None => (None, c)
            | Some v => (Some v, mkCache (setit i (v, false, false) (c_items c)) (c_all c))
            end
  end.

(* GetMany: not-found ids are skipped *)
Fixpoint c_get_many (ids : list (st_id S)) (c : cache) (b : bk B) : list (st_item S) * cache :=
  match ids with
  | [] => ([], c)
  | i :: r => let '(x, c1) := c_get i c b in
              let '(xs, c2) := c_get_many r c1 b in
              (match x with Some v => v :: xs | None => xs end, c2)
  end.

(* Put *)
Definition c_put (i : st_id S) (v : st_item S) (c : cache) : cache :=
  mkCache (setit i (v, true, false) (c_items c)) (c_all c).

(* Delete (one id; Delete(ids...) is the sequence) *)
Definition c_delete (i : st_id S) (c : cache) (b : bk B) : cache :=
  match lookup i (c_items c) with
  | Some (v, d, _) => mkCache (setit i (v, d, true) (c_items c)) (c_all c)
  | None => match st_read S i (bk_get B b) with
            | None => c
            | Some v => mkCache (setit i (v, false, true) (c_items c)) (c_all c)
            end
  end.

(* Get followed by an in-place mutation of the returned pointer *)
Definition c_modify (i : st_id S) (f : st_item S -> st_item S) (c : cache) (b : bk B) : cache :=
  let c1 := snd (c_get i c b) in
  match lookup i (c_items c1) with
  | Some (v, d, false) => mkCache (setit i (f v, d, false) (c_items c1)) (c_all c1)
  | _ => c1
  end.

(* ForEach: merge the bucket into the cache (unless isAllInCache), then visit
   the non-deleted items.  ok = false: ReadFrom failed on an enumerated id and
   ForEach returned that error. *)
Fixpoint load_keys (ks : list bytes) (g : kv) (l : list (st_id S * entry)) : bool * list (st_id S * entry) :=
  match ks with
  | [] => (true, l)
  | k :: r => match st_id_from_key S k with
              | None => load_keys r g l
              | Some i => match lookup i l with
                          | Some _ => load_keys r g l
                          | None => match st_read S i g with
                                    | None => (false, l)
                                    | Some v => load_keys r g (setit i (v, false, false) l)
                                    end
                          end
              end
  end.
Definition live_items (l : list (st_id S * entry)) : list (st_id S * st_item S) :=
  flat_map (fun x : st_id S * entry => match x with (i, (v, _, del)) => if del then [] else [(i, v)] end) l.
Definition c_foreach (c : cache) (b : bk B) : bool * list (st_id S * st_item S) * cache :=
  if c_all c then (true, live_items (c_items c), c)
  else let '(ok, l) := load_keys (bk_keys B b) (bk_get B b) (c_items c) in
       if ok then (true, live_items l, mkCache l true) else (false, [], mkCache l false).

(* Count: bucket keys whose id is not cached + non-deleted cached items *)
Definition count_key (l : list (st_id S * entry)) (k : bytes) : bool :=
  match st_id_from_key S k with
  | Some i => match lookup i l with None => true | Some _ => false end
  | None => false
  end.
Definition c_count (c : cache) (b : bk B) : nat :=
  (length (filter (count_key (c_items c)) (bk_keys B b)) + length (live_items (c_items c)))%nat.

(* Flush.  `item.IsDirty || item.value.CheckAndClearDirty()`: the item's own flag
   is consulted -- and cleared -- only when IsDirty is false. *)
Fixpoint flush_items (l : list (st_id S * entry)) (b : bk B) : list (st_id S * entry) * bk B :=
  match l with
  | [] => ([], b)
  | (i, (v, d, del)) :: r =>
      if del then flush_items r (bk_apply B (st_dels S i) b)
      else if d then
        let '(r', b') := flush_items r (bk_apply B (st_writes S i v) b) in ((i, (v, false, false)) :: r', b')
      else if st_self_dirty S v then
        let v' := st_clear_dirty S v in
        let '(r', b') := flush_items r (bk_apply B (st_writes S i v') b) in ((i, (v', false, false)) :: r', b')
      else
        let '(r', b') := flush_items r b in ((i, (v, false, false)) :: r', b')
  end.
Definition c_flush (c : cache) (b : bk B) : cache * bk B :=
  let '(l, b') := flush_items (c_items c) b in (mkCache l (c_all c), b').

(* ---------------- operation sequences ---------------- *)

Inductive op : Type :=
| OGet (i : st_id S)
| OGetMany (ids : list (st_id S))
| OPut (i : st_id S) (v : st_item S)
| ODelete (i : st_id S)
| OModify (i : st_id S) (f : st_item S -> st_item S)
| OForEach
| OCount
| OFlush.

Inductive obs : Type :=
| ObsGet (r : option (st_item S))
| ObsMany (l : list (st_item S))
| ObsEach (ok : bool) (l : list (st_id S * st_item S))
| ObsCount (n : nat)
| ObsUnit.

Definition step (o : op) (c : cache) (b : bk B) : cache * bk B * obs :=
  match o with
  | OGet i => let '(r, c') := c_get i c b in (c', b, ObsGet r)
  | OGetMany ids => let '(l, c') := c_get_many ids c b in (c', b, ObsMany l)
  | OPut i v => (c_put i v c, b, ObsUnit)
  | ODelete i => (c_delete i c b, b, ObsUnit)
  | OModify i f => (c_modify i f c b, b, ObsUnit)
  | OForEach => let '(ok, l, c') := c_foreach c b in (c', b, ObsEach ok l)
  | OCount => (c, b, ObsCount (c_count c b))
  | OFlush => let '(c', b') := c_flush c b in (c', b', ObsUnit)
  end.

Fixpoint run (ops : list op) (c : cache) (b : bk B) : cache * bk B * list obs :=
  match ops with
  | [] => (c, b, [])
  | o :: r => let '(c1, b1, x) := step o c b in
              let '(c2, b2, xs) := run r c1 b1 in (c2, b2, x :: xs)
  end.

(* ---------------- transactions on a shared cache (cache/manager.go) ------
   TRead   a search: reads only, the cache stays in the manager;
   TWrite  a write batch: operations, Flush inside the callback, bbolt commit;
   TFail   a failed batch: bbolt rolls the bucket back, the manager scraps the
           caches the transaction wrote.
   t_drop: the manager hands out a fresh cache instead of the previous one
           (limit 0 = disabled, eviction by checkAndPrune, Release, restart). *)
Inductive tkind : Type := TRead | TWrite | TFail.
Record txn : Type := mkTxn { t_drop : bool; t_ops : list op; t_kind : tkind }.

Definition read_only (o : op) : bool :=
  match o with OGet _ | OGetMany _ | OForEach | OCount => true | _ => false end.

Definition run_txn (t : txn) (c : cache) (b : bk B) : cache * bk B * list obs :=
  let c0 := if t_drop t then c_empty else c in
  let '(c1, b1, xs) := run (t_ops t) c0 b in
  match t_kind t with
  | TRead => (c1, b1, xs)
  | TWrite => let '(c2, b2) := c_flush c1 b1 in (c2, b2, xs)
  | TFail => (c_empty, b, xs)
  end.

Fixpoint run_txs (ts : list txn) (c : cache) (b : bk B) : cache * bk B * list (list obs) :=
  match ts with
  | [] => (c, b, [])
  | t :: r => let '(c1, b1, x) := run_txn t c b in
              let '(c2, b2, xs) := run_txs r c1 b1 in (c2, b2, x :: xs)
  end.

Definition same_history (t t' : txn) : Prop := t_ops t = t_ops t' /\ t_kind t = t_kind t'.

(* ---------------- abstract view ---------------- *)

Definition absmap (c : cache) (g : kv) (i : st_id S) : option (st_item S) :=
  match lookup i (c_items c) with
  | Some (_, _, true) => None
  | Some (v, _, false) => Some v
  | None => st_read S i g
  end.

Variable P : StorableSpec S.

Definition amap : Type := st_id S -> option (st_item S).
Definition amap_eq (m m' : amap) : Prop := forall i, m i = m' i.
(* the view answers may depend on: absmap up to what a cold read returns *)
Definition nabs (c : cache) (g : kv) : amap := fun i => option_map (sp_norm P) (absmap c g i).
Definition amap_upd (i : st_id S) (x : option (st_item S)) (m : amap) : amap :=
  fun j => if st_eqb S i j then x else m j.

(* representation invariant ("repr" of DESIGN 4.8) *)
Record inv (c : cache) (g : kv) : Prop := {
  inv_nodup : NoDup (map fst (c_items c));
  inv_clean : forall i v, lookup i (c_items c) = Some (v, false, false) -> st_self_dirty S v = false ->
              st_read S i g = Some (sp_norm P v);
  inv_valid : forall i v d, lookup i (c_items c) = Some (v, d, false) -> d = true \/ st_self_dirty S v = true ->
              sp_valid P i v g;
  inv_all : c_all c = true -> forall k i, g k <> None -> st_id_from_key S k = Some i -> lookup i (c_items c) <> None;
  inv_del : sp_deletable P = false -> forall i v d, lookup i (c_items c) <> Some (v, d, true)
}.

(* nothing unpersisted is left: no IsDirty, no IsDeleted, and every cached value
   is what the bucket alone decodes to (an item whose own flag survived because
   IsDirty short-circuited CheckAndClearDirty has been written already) *)
Definition settled (c : cache) (g : kv) : Prop :=
  forall i v d del, lookup i (c_items c) = Some (v, d, del) ->
    d = false /\ del = false /\ st_read S i g = Some (sp_norm P v).

(* legality of an operation in a state; operations that enumerate need the
   instance to be Enumerable, Count needs one enumerating key per id *)
Definition wf_op (c : cache) (g : kv) (o : op) : Prop :=
  match o with
  | OPut i v => sp_valid P i v g
  | ODelete _ => sp_deletable P = true
  | OModify i f =>
      (forall v v', sp_norm P v = sp_norm P v' -> sp_norm P (f v) = sp_norm P (f v')) /\
      (forall v, absmap c g i = Some v -> f v = v \/ (st_self_dirty S (f v) = true /\ sp_valid P i (f v) g))
  | OForEach => Enumerable S
  | OCount => Enumerable S /\ enum_unique S g
  | _ => True
  end.
Fixpoint wf_run (ops : list op) (c : cache) (b : bk B) : Prop :=
  match ops with
  | [] => True
  | o :: r => wf_op c (bk_get B b) o /\ let '(c1, b1, _) := step o c b in wf_run r c1 b1
  end.
Definition wf_txn (t : txn) (c : cache) (b : bk B) : Prop :=
  wf_run (t_ops t) (if t_drop t then c_empty else c) b /\
  (t_kind t = TRead -> forallb read_only (t_ops t) = true).
Fixpoint wf_txs (ts : list txn) (c : cache) (b : bk B) : Prop :=
  match ts with
  | [] => True
  | t :: r => wf_txn t c b /\ let '(c1, b1, _) := run_txn t c b in wf_txs r c1 b1
  end.

(* ---------------- the reference: a plain finite map ---------------- *)

Definition spec_step (o : op) (m : amap) : amap :=
  match o with
  | OPut i v => amap_upd i (Some (sp_norm P v)) m
  | ODelete i => amap_upd i None m
  | OModify i f => amap_upd i (option_map (fun w => sp_norm P (f w)) (m i)) m
  | _ => m
  end.
Fixpoint spec_run (ops : list op) (m : amap) : amap :=
  match ops with [] => m | o :: r => spec_run r (spec_step o m) end.

Definition norm_listing (l : list (st_id S * st_item S)) : list (st_id S * st_item S) :=
  map (fun x => (fst x, sp_norm P (snd x))) l.
Definition is_listing (m : amap) (l : list (st_id S * st_item S)) : Prop :=
  NoDup (map fst l) /\ forall i w, In (i, w) l <-> m i = Some w.
Definition found (m : amap) (ids : list (st_id S)) : list (st_item S) :=
  flat_map (fun i => match m i with Some w => [w] | None => [] end) ids.

Definition obs_ok (m : amap) (o : op) (x : obs) : Prop :=
  match o, x with
  | OGet i, ObsGet r => option_map (sp_norm P) r = m i
  | OGetMany ids, ObsMany l => map (sp_norm P) l = found m ids
  | OForEach, ObsEach ok l => ok = true /\ is_listing m (norm_listing l)
  | OCount, ObsCount n => exists l, is_listing m l /\ n = length l
  | OPut _ _, ObsUnit | ODelete _, ObsUnit | OModify _ _, ObsUnit | OFlush, ObsUnit => True
  | _, _ => False
  end.
Fixpoint trace_ok (m : amap) (ops : list op) (xs : list obs) : Prop :=
  match ops, xs with
  | [], [] => True
  | o :: r, x :: s => obs_ok m o x /\ trace_ok (spec_step o m) r s
  | _, _ => False
  end.

End ItemCache.

Arguments mkCache {S}. Arguments c_items {S}. Arguments c_all {S}. Arguments c_empty {S}.
Arguments OGet {S}. Arguments OGetMany {S}. Arguments OPut {S}. Arguments ODelete {S}.
Arguments OModify {S}. Arguments OForEach {S}. Arguments OCount {S}. Arguments OFlush {S}.
Arguments ObsGet {S}. Arguments ObsMany {S}. Arguments ObsEach {S}. Arguments ObsCount {S}. Arguments ObsUnit {S}.
Arguments mkTxn {S}. Arguments t_drop {S}. Arguments t_ops {S}. Arguments t_kind {S}.

(* observations of two executions of one history: equal up to sp_norm and up
   to the order in which ForEach visits *)
Inductive perm_eq {A} : list A -> list A -> Prop :=
| perm_eq_intro l l' : (forall x, In x l <-> In x l') -> NoDup l -> NoDup l' -> length l = length l' -> perm_eq l l'.

Definition obs_equiv {S} (P : StorableSpec S) (x y : obs S) : Prop :=
  match x, y with
  | ObsGet r, ObsGet r' => option_map (sp_norm P) r = option_map (sp_norm P) r'
  | ObsMany l, ObsMany l' => map (sp_norm P) l = map (sp_norm P) l'
  | ObsEach ok l, ObsEach ok' l' => ok = true /\ ok' = true /\ perm_eq (norm_listing S P l) (norm_listing S P l')
  | ObsCount n, ObsCount n' => n = n'
  | ObsUnit, ObsUnit => True
  | _, _ => False
  end.

(* ------------------------------------------------------------------------ *)
(* 5. instances                                                              *)

(* node ids are uint64.  The bound is written with the bit length so that its
   normal form on a variable stays small (n <? 2^64 unfolds to 3^64 cases). *)
Definition fits64 (n : N) : bool := Nat.leb (N.size_nat n) 64.
Definition u64id : Type := { n : N | fits64 n = true }.
Definition u64_val (i : u64id) : N := proj1_sig i.
Definition mk_u64 (n : N) : option u64id :=
  match bool_dec (fits64 n) true with
  | left H => Some (exist _ n H)
  | right _ => None
  end.
Definition u64_eqb (i j : u64id) : bool := u64_val i =? u64_val j.

Definition sfx_v : N := 118.   (* 'v' *)
Definition sfx_q : N := 113.   (* 'q' *)
Definition sfx_e : N := 101.   (* 'e' *)
(* the generated layout must still say so (checked in Proofs_C08.suffixes_ok) *)
Definition suffixes_ok_b : bool :=
  match plain_suffixes, bq_suffixes, edge_suffixes with
  | [a], [b; c], [d] => (a =? sfx_v) && (b =? sfx_q) && (c =? sfx_v) && (d =? sfx_e)
  | _, _, _ => false
  end.

Definition is_bytes (k : bytes) : bool := forallb (fun x => x <? 256) k.

(* conversion.NodeIdFromKey tried with each accepted suffix in turn; a Go byte
   slice only holds bytes, hence the is_bytes guard *)
Fixpoint node_idfk_go (sfx : list N) (k : bytes) : option u64id :=
  match sfx with
  | [] => None
  | s :: r => match node_id_from_key k s with
              | Some n => mk_u64 n
              | None => node_idfk_go r k
              end
  end.
Definition node_idfk (sfx : list N) (k : bytes) : option u64id :=
  if is_bytes k then node_idfk_go sfx k else None.

Definition nkey (i : u64id) (s : N) : bytes := node_key (u64_val i) s.
Definition is_nil {A} (l : list A) : bool := match l with [] => true | _ => false end.

(* --- plain vector: plainPoint, value type, never self-dirty --- *)
Definition plain_inst : Storable := {|
  st_id := u64id; st_item := list N; st_eqb := u64_eqb;
  st_writes := fun i v => [(nkey i sfx_v, Some (f32s_le v))];
  st_del_keys := fun i => [nkey i sfx_v];
  st_read := fun i g => option_map f32s_of_le (g (nkey i sfx_v));
  st_id_from_key := node_idfk plain_suffixes;
  st_self_dirty := fun _ => false;
  st_clear_dirty := fun v => v |}.
Definition f32_words (v : list N) : Prop := Forall (fun x => x < 4294967296) v.
Definition u64_words (v : list N) : Prop := Forall (fun x => x < two64) v.
Definition plain_spec : StorableSpec plain_inst := 
  Build_StorableSpec plain_inst
    (fun v : list N => v)
    (fun (_ : u64id) (v : list N) (_ : kv) => f32_words v)
    true.

(* --- binary quantised point: *binaryQuantizedPoint --- *)
Record bq_item : Type := mkBq { bq_vec : list N; bq_code : list N; bq_dirty : bool }.
Definition bq_writes (i : u64id) (v : bq_item) : list action :=
  if negb (is_nil (bq_code v)) then [(nkey i sfx_q, Some (edges_le (bq_code v)))]
  else if negb (is_nil (bq_vec v)) then [(nkey i sfx_v, Some (f32s_le (bq_vec v)))]
  else [].
Definition bq_read (i : u64id) (g : kv) : option bq_item :=
  match g (nkey i sfx_q) with
  | Some b => Some (mkBq [] (edges_of_le b) false)        (* the full vector is not loaded *)
  | None => match g (nkey i sfx_v) with
            | Some b => Some (mkBq (f32s_of_le b) [] false)
            | None => None
            end
  end.
Definition binary_inst_with (accepted : list N) : Storable := {|
  st_id := u64id; st_item := bq_item; st_eqb := u64_eqb;
  st_writes := bq_writes;
  st_del_keys := fun i => [nkey i sfx_v; nkey i sfx_q];
  st_read := bq_read;
  st_id_from_key := node_idfk accepted;
  st_self_dirty := bq_dirty;
  st_clear_dirty := fun v => mkBq (bq_vec v) (bq_code v) false |}.
Definition binary_inst : Storable := binary_inst_with bq_idfromkey_suffixes.
(* the pinned tree before repair F3: only 'v' was accepted *)
Definition binary_inst_v0 : Storable := binary_inst_with [sfx_v].
Definition bq_norm (v : bq_item) : bq_item :=
  if is_nil (bq_code v) then mkBq (bq_vec v) [] false else mkBq [] (bq_code v) false.
Definition bq_valid (i : u64id) (v : bq_item) (g : kv) : Prop :=
  f32_words (bq_vec v) /\ u64_words (bq_code v) /\
  (bq_code v <> [] \/ (bq_vec v <> [] /\ g (nkey i sfx_q) = None)).
Definition binary_spec_with (a : list N) : StorableSpec (binary_inst_with a) := 
  Build_StorableSpec (binary_inst_with a)
    (bq_norm)
    (bq_valid)
    true.
Definition binary_spec : StorableSpec binary_inst := binary_spec_with bq_idfromkey_suffixes.

(* --- product quantised point: *productQuantizedPoint; centroid ids are raw bytes --- *)
Definition pq_writes (i : u64id) (v : bq_item) : list action :=
  (if negb (is_nil (bq_vec v)) then [(nkey i sfx_v, Some (f32s_le (bq_vec v)))] else []) ++
  (if negb (is_nil (bq_code v)) then [(nkey i sfx_q, Some (bq_code v))] else []).
Definition pq_read (i : u64id) (g : kv) : option bq_item :=
  match g (nkey i sfx_q) with
  | Some b => Some (mkBq [] b false)
  | None => match g (nkey i sfx_v) with
            | Some b => Some (mkBq (f32s_of_le b) [] false)
            | None => None
            end
  end.
Definition product_inst : Storable := {|
  st_id := u64id; st_item := bq_item; st_eqb := u64_eqb;
  st_writes := pq_writes;
  st_del_keys := fun i => [nkey i sfx_v; nkey i sfx_q];
  st_read := pq_read;
  st_id_from_key := node_idfk [sfx_v];
  st_self_dirty := bq_dirty;
  st_clear_dirty := fun v => mkBq (bq_vec v) (bq_code v) false |}.
Definition pq_valid (i : u64id) (v : bq_item) (g : kv) : Prop :=
  f32_words (bq_vec v) /\ (bq_code v <> [] \/ (bq_vec v <> [] /\ g (nkey i sfx_q) = None)).
Definition product_spec : StorableSpec product_inst := 
  Build_StorableSpec product_inst
    (bq_norm)
    (pq_valid)
    true.

(* --- graph node: *graphNode --- *)
Definition node_item : Type := (list N * bool)%type.       (* edges, isDirty *)
Definition node_inst : Storable := {|
  st_id := u64id; st_item := node_item; st_eqb := u64_eqb;
  st_writes := fun i v => [(nkey i sfx_e, Some (edges_le (fst v)))];
  st_del_keys := fun i => [nkey i sfx_e];
  st_read := fun i g => option_map (fun b => (edges_of_le b, false)) (g (nkey i sfx_e));
  st_id_from_key := node_idfk edge_suffixes;
  st_self_dirty := snd;
  st_clear_dirty := fun v => (fst v, false) |}.
Definition node_spec : StorableSpec node_inst := 
  Build_StorableSpec node_inst
    (fun v : node_item => (fst v, false))
    (fun (_ : u64id) (v : node_item) (_ : kv) => u64_words (fst v))
    true.

(* --- text posting set: *setCacheItem.  The roaring serialisation is external:
   the instance is generic in a codec (enc, dec). --- *)
Definition set_item : Type := (list N * bool)%type.        (* document ids, isDirty *)
Definition textset_inst (enc : list N -> bytes) (dec : bytes -> list N) : Storable := {|
  st_id := bytes; st_item := set_item; st_eqb := bytes_eqb;
  st_writes := fun t v => if is_nil (fst v) then [(term_key t, None)] else [(term_key t, Some (enc (fst v)))];
  st_del_keys := fun t => [term_key t];
  st_read := fun t g => Some (match g (term_key t) with Some b => (dec b, false) | None => ([], false) end);
  st_id_from_key := term_from_key;
  st_self_dirty := snd;
  st_clear_dirty := fun v => (fst v, false) |}.
Definition textset_spec enc dec : StorableSpec (textset_inst enc dec) := 
  Build_StorableSpec (textset_inst enc dec)
    (fun v : set_item => (fst v, false))
    (fun (_ : bytes) (_ : set_item) (_ : kv) => True)
    false.

(* --- text document record: docCacheItem (value type); msgpack is external:
   generic in the type T of the term table and a codec --- *)
Definition doc_idfk (k : bytes) : option u64id :=
  if is_bytes k then match doc_id_from_key k with Some n => mk_u64 n | None => None end else None.
Definition textdoc_inst (T : Type) (enc : T * N -> bytes) (dec : bytes -> T * N) : Storable := {|
  st_id := u64id; st_item := (T * N)%type; st_eqb := u64_eqb;
  st_writes := fun i v => if snd v =? 0 then [(doc_key (u64_val i), None)]
                          else [(doc_key (u64_val i), Some (enc v))];
  st_del_keys := fun i => [doc_key (u64_val i)];
  st_read := fun i g => option_map dec (g (doc_key (u64_val i)));
  st_id_from_key := doc_idfk;
  st_self_dirty := fun _ => false;
  st_clear_dirty := fun v => v |}.
Definition textdoc_spec T enc dec : StorableSpec (textdoc_inst T enc dec) := 
  Build_StorableSpec (textdoc_inst T enc dec)
    (fun v : T * N => v)
    (fun (_ : u64id) (v : T * N) (_ : kv) => snd v <> 0)
    true.

(* ------------------------------------------------------------------------ *)
(* 6. the non-serial use of DESIGN 4.8 / 4.11 (finding F6)
   A reader registers a fresh cache while a writer is in flight: its bucket
   handle is a snapshot b0 that predates the writer's commit.  The reader
   populates the cache (reader_ops); the writer, on its own cache, runs
   writer_ops and flushes, producing b1, and commits.  The reader's cache stays
   in the manager and the next transaction uses it over b1. *)
Definition stale_state (S : Storable) (B : BucketImpl)
    (reader_ops writer_ops : list (op S)) (b0 : bk B) : cache S * bk B :=
  let '(cr, _, _) := run S B reader_ops c_empty b0 in
  let '(_, b1, _) := run_txn S B (mkTxn false writer_ops TWrite) c_empty b0 in
  (cr, b1).

(* ------------------------------------------------------------------------ *)
(* 7. observations of the plain instance as instance-free data (examples)    *)
Inductive vobs : Type :=
| VGet (r : option (list N)) | VMany (l : list (list N)) | VEach (ok : bool) (l : list (N * list N))
| VCount (n : nat) | VUnit.
Definition view (x : obs plain_inst) : vobs :=
  match x with
  | ObsGet r => VGet r
  | ObsMany l => VMany l
  | ObsEach ok l => VEach ok (map (fun p : u64id * list N => (u64_val (fst p), snd p)) l)
  | ObsCount n => VCount n
  | ObsUnit => VUnit
  end.
