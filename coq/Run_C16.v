(* Run_C16.v -- verdicts on two-tenant scenarios observed on the real HTTP handler
   stack (harness/c16.go).  One case = the two user ids, their MaxCollections, the
   interleaved history; per step: who acted, the request, the observed status class,
   the ids the answer carried, and BOTH users' complete observable views after the
   step (each taken with that user's own X-User-Id header, plus the directory tree
   below userCollections/<id>).

   Codes (+ 1000 * (step index + 1)):
   SPECFAIL 101 the other user's API view changed during the step
            102 the answer carried a collection id / point id that belongs only to the other user
            103 a creation was refused for quota although the actor's own count is below its limit
            104 the other user's directory tree changed during the step
            105 a request with a forbidden X-User-Id (".", "..", containing '/' or '\') was not answered 400
   MISMATCH 201 the status class differs from the model's (Model_C16.http_step).
   An isolation breach (101-104) anywhere in the history is reported before a 105,
   a 105 before a 201. *)
From Coq Require Import List NArith Bool Arith.
From Semadb Require Import Bytes Pack Model_C16.
Import ListNotations.
Open Scope N_scope.

Record c16view := mkv {
  vw_codes : list N;                          (* HTTP status of every request made to take the view *)
  vw_cols : list bytes;                       (* GET /collections, ids sorted *)
  vw_info : list (bytes * list (bytes * N));  (* per collection: GET /collections/c -> (shard id, point count) *)
  vw_points : list (bytes * list (bytes * N));(* per collection: every stored point (id, digest of its document) *)
  vw_dirs : list bytes                        (* relative paths below userCollections/<id>, sorted *)
}.

Inductive c16kind :=
| KCreate (c : bytes) | KList | KGet (c : bytes) | KDelete (c : bytes)
| KPoint (c : bytes).                         (* insert / update / delete / search points *)

Record c16step := mks {
  s_who : N;                (* 0 = user A, 1 = user B *)
  s_api : N;                (* 1 | 2 *)
  s_kind : c16kind;
  s_class : N;              (* 0: 2xx, 1: 409 exists, 2: 403 quota, 3: 404, 4: 400, 9: anything else;
                               7: a 2xx vector search whose reported distances are not the distances from the query to
                               the vectors of the returned points (judged by the harness on small integers) *)
  s_ret_cols : list bytes;  (* collection ids in the answer *)
  s_ret_pts : list bytes;   (* point ids in the answer *)
  s_va : c16view;           (* view of A after the step *)
  s_vb : c16view            (* view of B after the step *)
}.

Record c16case := mkc {
  c_ida : bytes; c_idb : bytes; c_maxa : N; c_maxb : N;
  c_va0 : c16view; c_vb0 : c16view;
  c_steps : list c16step
}.

(* ---- equality of observations ---- *)
Fixpoint list_eqb {A} (e : A -> A -> bool) (a b : list A) : bool :=
  match a, b with
  | [], [] => true
  | x :: a', y :: b' => e x y && list_eqb e a' b'
  | _, _ => false
  end.
Definition pair_eqb {A B} (ea : A -> A -> bool) (eb : B -> B -> bool) (x y : A * B) : bool :=
  ea (fst x) (fst y) && eb (snd x) (snd y).
Definition bn_eqb := pair_eqb bytes_eqb N.eqb.
Definition coll_eqb := pair_eqb bytes_eqb (list_eqb bn_eqb).

Definition api_eqb (v w : c16view) : bool :=
  list_eqb N.eqb (vw_codes v) (vw_codes w) && list_eqb bytes_eqb (vw_cols v) (vw_cols w) &&
  list_eqb coll_eqb (vw_info v) (vw_info w) && list_eqb coll_eqb (vw_points v) (vw_points w).
Definition dirs_eqb (v w : c16view) : bool := list_eqb bytes_eqb (vw_dirs v) (vw_dirs w).

Definition mem (x : bytes) (l : list bytes) : bool := existsb (bytes_eqb x) l.
Definition point_ids (v : c16view) : list bytes := flat_map (fun e => map fst (snd e)) (vw_points v).

(* something in [ret] belongs to the other user (before the step) and not to the actor
   (neither before nor after the step) *)
Definition foreign (ret other own own' : list bytes) : bool :=
  existsb (fun x => mem x other && negb (mem x own) && negb (mem x own')) ret.

Definition first_fail (l : list (bool * N)) : N :=
  fold_right (fun (p : bool * N) acc => if fst p then acc else snd p) 0 l.

(* ---- the model's answer class ---- *)
Definition class_of (a : answer) : N :=
  match a with AInvalid => 4 | AExists => 1 | AQuota => 2 | ANotFound => 3 | _ => 0 end.
Definition op_of (api : N) (k : c16kind) (maxc : N) : op :=
  match k with
  | KCreate c => OCreate api c maxc
  | KList => OList
  | KGet c => OGet api c
  | KDelete c => ODelete api c
  | KPoint c => OGet api c
  end.
Definition is_create (k : c16kind) : bool := match k with KCreate _ => true | _ => false end.

Definition tag (i code : N) : N := if code =? 0 then 0 else code + 1000 * (i + 1).
Definition keep (old new : N) : N := if old =? 0 then new else old.

Fixpoint judge (c : c16case) (i : N) (st : state) (va vb : c16view) (steps : list c16step)
         (acc : N * N * N) : N * N * N :=
  match steps with
  | [] => acc
  | s :: r =>
      let actorA := s_who s =? 0 in
      let idx := if actorA then c_ida c else c_idb c in
      let maxc := if actorA then c_maxa c else c_maxb c in
      let vx := if actorA then va else vb in
      let vy := if actorA then vb else va in
      let vx' := if actorA then s_va s else s_vb s in
      let vy' := if actorA then s_vb s else s_va s in
      let iso := first_fail
        [ (negb (s_class s =? 7), 106);
          (api_eqb vy vy', 101);
          (dirs_eqb vy vy', 104);
          (* (the own view of a forbidden id is not taken: no 102 judgement for it) *)
          (negb (user_ok_b idx && foreign (s_ret_cols s) (vw_cols vy) (vw_cols vx) (vw_cols vx')), 102);
          (negb (user_ok_b idx && foreign (s_ret_pts s) (point_ids vy) (point_ids vx) (point_ids vx')), 102);
          (negb (is_create (s_kind s) && (s_class s =? 2) && (N.of_nat (length (vw_cols vx)) <? maxc)), 103) ] in
      let forb := if user_ok_b idx then 0 else if s_class s =? 4 then 0 else 105 in
      let sa := http_step [] idx (op_of (s_api s) (s_kind s) maxc) st in
      let mdl := if class_of (snd sa) =? s_class s then 0 else 201 in
      let '(a1, a2, a3) := acc in
      judge c (i + 1) (fst sa) (s_va s) (s_vb s) r
            (keep a1 (tag i iso), keep a2 (tag i forb), keep a3 (tag i mdl))
  end.

Definition verdict (c : c16case) : N :=
  let '(a1, a2, a3) := judge c 0 (mkst [] []) (c_va0 c) (c_vb0 c) (c_steps c) (0, 0, 0) in
  if negb (a1 =? 0) then a1 else if negb (a2 =? 0) then a2 else a3.

Fixpoint bad_from (i : N) (cs : list c16case) : list (N * N) :=
  match cs with
  | [] => []
  | c :: r => let v := verdict c in
              if v =? 0 then bad_from (i + 1) r else (i, v) :: bad_from (i + 1) r
  end.
Definition bad (cs : list c16case) : list (N * N) := bad_from 0 cs.
