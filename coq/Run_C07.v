(* Run_C07.v -- verdict for C07 (all-or-nothing). The harness fails the k-th
   failable storage operation of a batch, for every k, on the live shard. A
   batch that reported the injected failure (OErr 77) -- like a batch rejected
   by validation -- must leave every later answer unchanged: it is replaced by
   a no-op in the reference history, and the counts, documents, id reads and
   all query answers observed right after it (warm, and cold on a copy of the
   file opened by a fresh instance) are judged against the unchanged reference.
   A batch that reported success although a fault fired is judged as a normal
   successful batch: all of its effects must be visible. *)
From Coq Require Import List NArith ZArith Bool.
From Semadb Require Import Bytes Pack Value Obs Run_C08.
Import ListNotations.
Open Scope N_scope.

Definition neutralise (st : step) : step :=
  match s_out st with
  | OErr 77 => mkStep (BDelete []) (OOk []) (s_count st) (s_live st) (s_queries st) (s_lower st) (s_extra st)
  | OErr 78 => mkStep (BDelete []) (OOk []) (s_count st) (s_live st) (s_queries st) (s_lower st) (s_extra st)
  | _ => st
  end.

(* OErr 79: the process was killed right after the commit of an insert batch and the file reopened:
   either nothing or everything of the batch must be there *)
Definition as_applied (st : step) : step :=
  match s_out st with
  | OErr 79 => mkStep (s_batch st) (OOk []) (s_count st) (s_live st) (s_queries st) (s_lower st) (s_extra st)
  | _ => neutralise st
  end.
Definition as_dropped (st : step) : step :=
  match s_out st with
  | OErr 79 => mkStep (BDelete []) (OOk []) (s_count st) (s_live st) (s_queries st) (s_lower st) (s_extra st)
  | _ => neutralise st
  end.

Definition verdict (h : hist) : N :=
  let v1 := Run_C08.verdict (mkHist (h_schema h) (h_maxsize h) (h_cfg h) (map as_dropped (h_steps h))) in
  if v1 =? 0 then 0
  else if existsb (fun st => match s_out st with OErr 79 => true | _ => false end) (h_steps h)
       then let v2 := Run_C08.verdict (mkHist (h_schema h) (h_maxsize h) (h_cfg h) (map as_applied (h_steps h))) in
            if v2 =? 0 then 0 else v1
       else v1.

Fixpoint bad_from (i : N) (cs : list hist) : list (N * N) :=
  match cs with
  | [] => []
  | c :: r => let v := verdict c in
              if v =? 0 then bad_from (i + 1) r else (i, v) :: bad_from (i + 1) r
  end.
Definition bad (cs : list hist) : list (N * N) := bad_from 0 cs.
