(* Props_C14.v -- property C14: start-up rebalancing moves every record and
   shard to its owner without loss.  Only statements; every proof is
   `exact <lemma>`.

   The model (Model_C14.v): a cluster state maps a node to its records and
   files; [send_file fixed fa src dst p] is the chunk loop of sendShardFile
   against RPCSendShard ([fixed = false]: the pinned receiver, always appends;
   [fixed = true]: truncates at chunk 0, fix 0e52263; [fa = Some k]: the
   transfer dies at chunk index k, whoever failed or was killed);
   [sync_all fixed plan] runs Sync on the nodes of [plan] in that order, each
   with its own faults; [reach fixed st0 st]: st is reached from st0 by ANY
   sequence of single file transfers and record-group transfers of any nodes
   with any faults (every interleaving of the phases of all nodes, any number
   of runs).  All statements hold for every element type A of the contents,
   every checksum type H and function [hash], every chunk size >= 1, every
   routing [owner_r] / [owner_f].  Hypotheses on the initial placement st0:
   [good st0] = the copies of one path (one key) held by several nodes are
   equal, and no file is empty (bbolt files never are; see c14_empty_file). *)
From Coq Require Import List NArith Bool Arith.
From Semadb Require Import Bytes Model_C13 Model_C14 Proofs_C14.
Import ListNotations.

(* --- the chunks sent for a file: their concatenation is the file, every data chunk is
       non-empty and at most [chunk] long, and the number of RPCs is ceil(len/chunk) + 1
       (the terminal empty chunk); len = 0 gives ONE RPC with index 0 --- *)
Theorem c14_chunking : forall (A : Type) (chunk : nat) (f : list A), (1 <= chunk)%nat ->
  concat (rpc_chunks chunk f) = f /\
  length (rpc_chunks chunk f) = S (ceil_div (length f) chunk) /\
  (exists ds, rpc_chunks chunk f = ds ++ [[]] /\
              Forall (fun c => c <> [] /\ (length c <= chunk)%nat) ds /\ (f <> [] -> ds <> [])).
Proof. exact chunking_clean. Qed.
Print Assumptions c14_chunking.

Theorem c14_ceil_div : forall a b, (1 <= b)%nat -> (b * ceil_div a b < a + b /\ a <= b * ceil_div a b)%nat.
Proof. exact ceil_div_spec. Qed.
Print Assumptions c14_ceil_div.

(* --- no loss: in EVERY reachable state every record and every shard file of the initial
       placement exists, byte-identical, on at least one node.  With the repaired receiver
       this needs nothing about the checksum; with the pinned (appending) receiver it needs
       that no other content has the checksum of an original file --- *)
Theorem c14_no_loss : forall (A H : Type) (H_dec : forall a b : H, {a = b} + {a <> b}) (hash : list A -> H) (h0 : H)
    (chunk : nat) (owner_r : key -> node) (owner_f : path -> node), (1 <= chunk)%nat ->
  forall (fixed : bool) (st0 st : state A),
    good st0 -> fixed = true \/ collision_free hash st0 ->
    reach H_dec hash h0 chunk owner_r owner_f fixed st0 st ->
    no_loss st0 st.
Proof. exact @thm_no_loss. Qed.
Print Assumptions c14_no_loss.

(* every run of Sync on any nodes in any order with any fault plan, every schedule of single
   phases, and every sequence of such runs is covered by [reach] *)
Theorem c14_reach_sync : forall (A H : Type) (H_dec : forall a b : H, {a = b} + {a <> b}) (hash : list A -> H) (h0 : H)
    (chunk : nat) (owner_r : key -> node) (owner_f : path -> node) (fixed : bool),
  (forall plan (st : state A),
     reach H_dec hash h0 chunk owner_r owner_f fixed st (fst (sync_all H_dec hash h0 chunk owner_r owner_f fixed plan st))) /\
  (forall sched (st : state A),
     reach H_dec hash h0 chunk owner_r owner_f fixed st (run_phases H_dec hash h0 chunk owner_r owner_f fixed sched st)) /\
  (forall a b c : state A, reach H_dec hash h0 chunk owner_r owner_f fixed a b ->
     reach H_dec hash h0 chunk owner_r owner_f fixed b c -> reach H_dec hash h0 chunk owner_r owner_f fixed a c).
Proof. exact @reach_sync. Qed.
Print Assumptions c14_reach_sync.

(* the hypothesis on the checksum is needed for the pinned receiver: with a constant checksum
   a transfer interrupted at chunk 1 and then repeated removes the source although the
   destination holds partial ++ full *)
Theorem c14_hash_collision_refuted :
  good ex_stc /\ file ex_stc ex_a ex_p1 = Some [1; 2]%N /\
  reach unit_dec hash_c tt 1 (fun _ => ex_b) (fun _ => ex_b) false ex_stc ex_c2 /\
  file ex_c1 ex_b ex_p1 = Some [1]%N /\
  file ex_c2 ex_b ex_p1 = Some [1; 1; 2]%N /\ (forall n, file ex_c2 n ex_p1 <> Some [1; 2]%N).
Proof. exact ex_collision. Qed.
Print Assumptions c14_hash_collision_refuted.

(* --- convergence: a fault-free Sync of all nodes, in ANY order, returns nil on every node and
       puts every item exactly on its owner, byte-identical, and nothing anywhere else.
       Unconditional for the repaired receiver; for the pinned one under the hypothesis that
       every path is on one node only (so that no stale copy pre-exists at a destination) --- *)
Theorem c14_converges : forall (A H : Type) (H_dec : forall a b : H, {a = b} + {a <> b}) (hash : list A -> H) (h0 : H)
    (chunk : nat) (owner_r : key -> node) (owner_f : path -> node), (1 <= chunk)%nat ->
  forall (fixed : bool) (st0 : state A) (order : list node),
    good st0 -> fixed = true \/ once_files st0 -> covers order st0 ->
    converged owner_r owner_f st0 (fst (sync_all H_dec hash h0 chunk owner_r owner_f fixed (fault_free order) st0)) /\
    snd (sync_all H_dec hash h0 chunk owner_r owner_f fixed (fault_free order) st0) = map (fun _ => true) order.
Proof. exact @thm_converges. Qed.
Print Assumptions c14_converges.

(* the same for the two phases of the nodes in any interleaving (every node that holds
   records runs its record phase at least once, likewise for shards) *)
Theorem c14_converges_any_phase_order : forall (A H : Type) (H_dec : forall a b : H, {a = b} + {a <> b})
    (hash : list A -> H) (h0 : H) (chunk : nat) (owner_r : key -> node) (owner_f : path -> node), (1 <= chunk)%nat ->
  forall (fixed : bool) (st0 : state A) (sched : list phase),
    good st0 -> fixed = true \/ once_files st0 -> Forall phase_ff sched -> covers_phases sched st0 ->
    converged owner_r owner_f st0 (run_phases H_dec hash h0 chunk owner_r owner_f fixed sched st0).
Proof. exact @thm_converges_phases. Qed.
Print Assumptions c14_converges_any_phase_order.

(* --- resume (repaired receiver): after ANY interrupted history -- faults at any chunk of any
       transfer, between the phases, between a record transfer and the local delete, any
       number of partial runs -- a later fault-free Sync of the nodes converges --- *)
Theorem c14_resume : forall (A H : Type) (H_dec : forall a b : H, {a = b} + {a <> b}) (hash : list A -> H) (h0 : H)
    (chunk : nat) (owner_r : key -> node) (owner_f : path -> node), (1 <= chunk)%nat ->
  forall (st0 st : state A) (order : list node),
    good st0 -> reach H_dec hash h0 chunk owner_r owner_f true st0 st -> covers order st ->
    converged owner_r owner_f st0 (fst (sync_all H_dec hash h0 chunk owner_r owner_f true (fault_free order) st)) /\
    snd (sync_all H_dec hash h0 chunk owner_r owner_f true (fault_free order) st) = map (fun _ => true) order.
Proof. exact @thm_resume. Qed.
Print Assumptions c14_resume.

(* --- resume is FALSE for the pinned receiver (finding F8, repaired by 0e52263): a transfer
       interrupted after k >= 1 chunks leaves the non-empty partial file c; every later
       fault-free attempt appends the whole file again, its checksum never matches, the
       attempt fails, the source keeps the file and the owner never gets it --- *)
Theorem c14_retry_append_refuted : forall (A H : Type) (H_dec : forall a b : H, {a = b} + {a <> b}) (hash : list A -> H)
    (h0 : H) (chunk : nat), (1 <= chunk)%nat ->
  forall src dst p (st : state A) f k,
    src <> dst -> file st src p = Some f -> f <> [] -> file st dst p = None ->
    (1 <= k < length (rpc_chunks chunk f))%nat -> (forall g, hash g = hash f -> g = f) ->
    let st1 := fst (send_file H_dec hash h0 chunk false (Some k) src dst p st) in
    let c := concat (firstn k (rpc_chunks chunk f)) in
    c <> [] /\
    forall n, file (retries H_dec hash h0 chunk false n src dst p st1) src p = Some f /\
              (exists g, file (retries H_dec hash h0 chunk false n src dst p st1) dst p = Some (c ++ g) /\
                         length g = (n * length f)%nat) /\
              snd (send_file H_dec hash h0 chunk false None src dst p
                     (retries H_dec hash h0 chunk false n src dst p st1)) = false.
Proof. exact @retry_append_clean. Qed.
Print Assumptions c14_retry_append_refuted.

(* --- a source file is removed only after the destination confirmed a complete copy: whenever
       one transfer (any fault, either receiver) removes the source file, it returned nil and
       the destination file has the checksum of the source file at that moment -- hence IS the
       source file when no other content has that checksum; with the repaired receiver it is
       the source file whatever the checksum function --- *)
Theorem c14_source_removed_only_after_verified : forall (A H : Type) (H_dec : forall a b : H, {a = b} + {a <> b})
    (hash : list A -> H) (h0 : H) (chunk : nat), (1 <= chunk)%nat ->
  forall fixed fa src dst p (st : state A) f,
    src <> dst -> file st src p = Some f -> f <> [] ->
    file (fst (send_file H_dec hash h0 chunk fixed fa src dst p st)) src p = None ->
    snd (send_file H_dec hash h0 chunk fixed fa src dst p st) = true /\
    exists c, file (fst (send_file H_dec hash h0 chunk fixed fa src dst p st)) dst p = Some c /\ hash c = hash f /\
              ((forall g, hash g = hash f -> g = f) -> c = f).
Proof. exact @source_removed_clean. Qed.
Print Assumptions c14_source_removed_only_after_verified.

Theorem c14_source_removed_fixed : forall (A H : Type) (H_dec : forall a b : H, {a = b} + {a <> b})
    (hash : list A -> H) (h0 : H) (chunk : nat), (1 <= chunk)%nat ->
  forall fa src dst p (st : state A) f,
    src <> dst -> file st src p = Some f ->
    file (fst (send_file H_dec hash h0 chunk true fa src dst p st)) src p = None ->
    file (fst (send_file H_dec hash h0 chunk true fa src dst p st)) dst p = Some f.
Proof. exact @source_removed_fixed. Qed.
Print Assumptions c14_source_removed_fixed.

(* --- what the code does with an EMPTY shard file (outside the property: a bbolt file is never
       empty): the only RPC has chunk index 0 and no data, the receiver answers a checksum only
       for an empty chunk with index > 0, so the reply carries 0; whenever the checksum of the
       empty file is not 0 (xxhash64: 0xEF46DB3751D8E999) the sender reports a mismatch, keeps
       the file, and every Sync of that node fails --- *)
Theorem c14_empty_file_never_moves : forall (A H : Type) (H_dec : forall a b : H, {a = b} + {a <> b})
    (hash : list A -> H) (h0 : H) (chunk : nat) (fixed : bool) src dst p (st : state A),
  src <> dst -> file st src p = Some [] -> hash [] <> h0 ->
  snd (send_file H_dec hash h0 chunk fixed None src dst p st) = false /\
  file (fst (send_file H_dec hash h0 chunk fixed None src dst p st)) src p = Some [] /\
  length (rpc_chunks chunk (@nil A)) = 1%nat.
Proof. exact @thm_empty_file. Qed.
Print Assumptions c14_empty_file_never_moves.

(* ------------------------------------------------------------------ *)
From Coq Require Import String.
(* non-vacuity: concrete instances computed by the kernel.  Three servers n1 n2 n3 (routing =
   Model_C13.rv xxh64), data placed for the old list [n1; n2]: n1 holds the records u1/c1,
   u2/c1 and the files s1 (10 bytes), s2; n2 holds the record u5/c9 and the file s5.  With
   the new list s1 and s5 belong to n3, u1/c1 to n2, the rest stays. *)
Example c14_ex_hypotheses :
  good ex_st0 /\ once_files ex_st0 /\ collision_free id_hash ex_st0 /\ covers [ex_n3; ex_n1; ex_n2] ex_st0.
Proof. exact ex_good. Qed.

Definition ex_sync (fixed : bool) :=
  sync_all N.eq_dec xxh64 0%N 4 (own_r ex_servers) (own_f ex_servers) fixed.
Definition ex_where (st : state N) (p : path) := map (fun n => file st n p) ex_servers.
Definition ex_where_r (st : state N) (k : key) := map (fun n => rec_ st n k) ex_servers.

Example c14_ex_owners :
  map (own_f ex_servers) [ex_p1; ex_p2; ex_p3] = [ex_n3; ex_n1; ex_n3] /\
  map (own_r ex_servers) [str "u1/c1"%string; str "u2/c1"%string; str "u5/c9"%string] = [ex_n2; ex_n1; ex_n2] /\
  xxh64 [] = 17241709254077376921%N.
Proof. vm_compute. repeat split; reflexivity. Qed.

(* chunk size 4: the 10-byte file s1 is sent as 4 + 4 + 2 + the empty chunk *)
Example c14_ex_chunks : rpc_chunks 4 ex_f1 = [[1; 2; 3; 4]; [5; 6; 7; 8]; [9; 10]; []]%N /\ rpc_chunks 4 (@nil N) = [[]].
Proof. vm_compute. split; reflexivity. Qed.

(* a fault-free start-up in the order n3, n1, n2 *)
Example c14_ex_converges :
  let r := ex_sync true (fault_free [ex_n3; ex_n1; ex_n2]) ex_st0 in
  snd r = [true; true; true] /\
  ex_where (fst r) ex_p1 = [None; None; Some ex_f1] /\ ex_where (fst r) ex_p2 = [Some ex_f2; None; None] /\
  ex_where (fst r) ex_p3 = [None; None; Some ex_f3] /\
  ex_where_r (fst r) (str "u1/c1"%string) = [None; Some [1; 1]%N; None] /\
  ex_where_r (fst r) (str "u2/c1"%string) = [Some [2; 2]%N; None; None].
Proof. vm_compute. repeat split; reflexivity. Qed.

(* run 1: n1's transfer of s1 dies at chunk 2 (8 of 10 bytes are on n3), n2 dies between its
   phases; nothing is lost; run 2 (repaired receiver) converges *)
Definition ex_plan1 : list (node * nfault) :=
  [ (ex_n1, mkF (fun _ => RNone) (fun _ => Some 2%nat) false); (ex_n2, mkF (fun _ => RNone) (fun _ => None) true) ].
Example c14_ex_resume :
  let r1 := ex_sync true ex_plan1 ex_st0 in
  let r2 := ex_sync true (fault_free [ex_n2; ex_n1; ex_n3]) (fst r1) in
  snd r1 = [false; false] /\
  ex_where (fst r1) ex_p1 = [Some ex_f1; None; Some [1; 2; 3; 4; 5; 6; 7; 8]%N] /\
  ex_where (fst r1) ex_p3 = [None; Some ex_f3; None] /\
  ex_where_r (fst r1) (str "u1/c1"%string) = [None; Some [1; 1]%N; None] /\
  snd r2 = [true; true; true] /\
  ex_where (fst r2) ex_p1 = [None; None; Some ex_f1] /\ ex_where (fst r2) ex_p3 = [None; None; Some ex_f3].
Proof. vm_compute. repeat split; reflexivity. Qed.

(* the same history on the PINNED receiver: the second run appends to the partial file, the
   checksum differs, Sync of n1 fails again, s1 stays on n1 and n3 holds 8 + 10 bytes *)
Example c14_ex_retry_append :
  let r1 := ex_sync false ex_plan1 ex_st0 in
  let r2 := ex_sync false (fault_free [ex_n2; ex_n1; ex_n3]) (fst r1) in
  let r3 := ex_sync false (fault_free [ex_n1]) (fst r2) in
  snd r2 = [true; false; true] /\
  ex_where (fst r2) ex_p1 = [Some ex_f1; None; Some (app [1; 2; 3; 4; 5; 6; 7; 8]%N ex_f1)] /\
  snd r3 = [false] /\
  ex_where (fst r3) ex_p1 = [Some ex_f1; None; Some (app [1; 2; 3; 4; 5; 6; 7; 8]%N (app ex_f1 ex_f1))].
Proof. vm_compute. repeat split; reflexivity. Qed.

(* every fault position of the transfer of s1 (4 RPCs): what n3 holds, whether n1 keeps the file *)
Example c14_ex_every_chunk :
  map (fun k => let st := fst (send_file N.eq_dec xxh64 0%N 4 true (Some k) ex_n1 ex_n3 ex_p1 ex_st0) in
                (file st ex_n3 ex_p1, file st ex_n1 ex_p1)) [0; 1; 2; 3; 4; 5]%nat =
  [ (None, Some ex_f1); (Some [1; 2; 3; 4]%N, Some ex_f1); (Some [1; 2; 3; 4; 5; 6; 7; 8]%N, Some ex_f1);
    (Some ex_f1, Some ex_f1); (Some ex_f1, Some ex_f1); (Some ex_f1, None) ].
Proof. vm_compute. reflexivity. Qed.

(* an empty file: the transfer fails and leaves an empty file on the destination *)
Example c14_ex_empty_file :
  let st := mk_state [(ex_n1, mkN [] [(ex_p1, @nil N)])] in
  let r := send_file N.eq_dec xxh64 0%N 4 true None ex_n1 ex_n3 ex_p1 st in
  snd r = false /\ file (fst r) ex_n1 ex_p1 = Some [] /\ file (fst r) ex_n3 ex_p1 = Some [].
Proof. vm_compute. repeat split; reflexivity. Qed.

(* ---------------------------------------------------------------------------
   Start-up order. The model delivers a hand-over to a node that accepts it; in the code that means the receiving
   node is listening. Two nodes that each hold something of the other (every server renamed, a combined add and
   remove) only finish their start-up synchronisation because every node listens BEFORE it starts to send.
   gen/gen_startup_order.py reads the order of the calls main.go makes on the node it creates off the source on
   every run; the harness brings its nodes up in the same order (harness/startnode.go, then Serve, then Sync). *)
From Coq Require Import String.
From Semadb Require StartupOrder.
Theorem c14_node_listens_before_it_sends :
  StartupOrder.startup_order = ["NewNode"; "RegisterMetrics"; "Serve"; "Sync"]%string.
Proof. reflexivity. Qed.
Print Assumptions c14_node_listens_before_it_sends.
