(* Proofs_C11b.v -- C11: scrapped elements are never selected again; locks are
   released (current version of With); progress under disjoint writers. *)
From Coq Require Import List Arith Bool ZArith Lia PeanoNat.
From Semadb Require Import Model_C11 Proofs_C11.
Import ListNotations.

(* ------------------------------------------------------------------ *)
(* scrapped is never reset; a selected element is not scrapped          *)
(* ------------------------------------------------------------------ *)
Lemma step_scrapped_mono : forall fixed safe limit st t st' e, Inv0 st -> step fixed safe limit st t = Some st' ->
  e_scrapped (elems st e) = true -> e_scrapped (elems st' e) = true.
Proof.
  intros fixed safe limit st t st' e I H Hs. step_field I H.
  all: try match goal with
       | |- context [commit_all ?sf ?bad ?st ?W] =>
           destruct (commit_all_elems sf bad W st e) as ((_ & _ & _ & _ & V) & _); simpl; auto
       end.
  all: simpl; upd_cases; simpl; auto.
  all: try (rewrite (i_a0 _ I) in Hs by lia; discriminate Hs).
Qed.

Lemma next_scrapped_mono : forall fixed safe limit st l e, Inv0 st ->
  e_scrapped (elems st e) = true -> e_scrapped (elems (next fixed safe limit st l) e) = true.
Proof.
  intros fixed safe limit st l e I Hs. unfold next. destruct (lstep fixed safe limit st l) eqn:E; auto.
  destruct l as [t|n]; simpl in E.
  - eapply step_scrapped_mono; eauto.
  - destruct (free (mlock st)); [|discriminate]. injection E as <-. exact Hs.
Qed.
Lemma run_scrapped_mono : forall fixed safe limit ls st e, Inv0 st ->
  e_scrapped (elems st e) = true -> e_scrapped (elems (run fixed safe limit ls st) e) = true.
Proof.
  induction ls; simpl; intros st e I Hs; auto.
  apply IHls; [now apply next_Inv0|now apply next_scrapped_mono].
Qed.

Lemma select_not_scrapped : forall fixed safe limit st t st' e, Inv0 st -> step fixed safe limit st t = Some st' ->
  selects st t st' e -> e_scrapped (elems st e) = false.
Proof.
  intros fixed safe limit st t st' e I H [Hn (w & c & Hp & He)]. step_field I H.
  all: simpl in Hp; rewrite upd_eq in Hp; simpl in Hp; try discriminate Hp.
  all: try (injection Hp as Hp1 Hp2; subst; simpl in * ).
  all: try (rewrite (i_a0 _ I) by lia; reflexivity).
  all: auto.
  all: try (exfalso; eapply Hn; eauto).
Qed.

Lemma thm_scrapped_not_reused : forall fixed safe limit st e, reachable fixed safe limit st ->
  e_scrapped (elems st e) = true ->
  forall ls t st3, let st2 := run fixed safe limit ls st in
    step fixed safe limit st2 t = Some st3 -> ~ selects st2 t st3 e.
Proof.
  intros fixed safe limit st e R Hs ls t st3 st2 H Hsel.
  pose proof (reachable_Inv0 _ _ _ _ R) as I.
  assert (I2 : Inv0 st2) by (apply run_Inv0; auto).
  pose proof (run_scrapped_mono fixed safe limit ls st e I Hs) as Hs2.
  pose proof (select_not_scrapped _ _ _ _ _ _ _ I2 H Hsel). fold st2 in Hs2. congruence.
Qed.

(* ------------------------------------------------------------------ *)
(* Inv1: invariants of the CURRENT version of With (fixed = true)      *)
(* ------------------------------------------------------------------ *)
Record Inv1 (safe : bool) (st : state) : Prop := {
  i_L : forall n e t, lookup n (mmap st) = Some e -> e_writer (elems st e) = Some t ->
          e_wheld (elems st e) = true ->
          lookup n (written (txs st t)) = Some e /\ done (txs st t) = false;
  i_K : forall t, done (txs st t) = true ->
          match ph (txs st t) with PCreate w | PWait w _ => w_ro w = true | _ => True end;
  i_M : forall t w, ph (txs st t) = PCreate w -> lookup (w_n w) (mmap st) = None;
  i_K2 : forall t w e, ph (txs st t) = PWait w e -> has_key (w_n w) (written (txs st t)) = false;
  i_K3 : forall t w e, ph (txs st t) = PLock w e -> safe = true -> done (txs st t) = false ->
           has_key (w_n w) (written (txs st t)) = false
}.

Lemma commit_facts : forall st t safe bad, Inv0 st -> done (txs st t) = false ->
  let W := written (txs st t) in
  let st1 := commit_all safe bad st W in
  (forall e, (exists n, lookup n W = Some e) ->
      e_writer (elems st e) = Some t /\ e_wheld (elems st e) = true /\
      e_writer (elems st1 e) = None /\ e_wheld (elems st1 e) = false) /\
  (forall e, (forall n, lookup n W <> Some e) ->
      e_writer (elems st1 e) = e_writer (elems st e) /\ e_wheld (elems st1 e) = e_wheld (elems st e)) /\
  (forall e, (exists n, lookup n W = Some e) \/ (forall n, lookup n W <> Some e)) /\
  txs st1 = txs st /\ mlock st1 = mlock st /\ nexte st1 = nexte st.
Proof.
  intros st t safe bad I Hdone W st1.
  destruct (commit_view st t safe bad I) as (V0 & V1 & V2 & Dec).
  destruct (commit_all_frame safe bad (written (txs st t)) st) as (Fn & Fm & Fc & Ft).
  repeat split; auto.
  - destruct H as [n D]. apply (i_c4 _ I t n e D Hdone).
  - destruct H as [n D]. apply (i_c4 _ I t n e D Hdone).
  - apply (V1 e H).
  - apply (V1 e H).
  - apply (V2 e H).
  - apply (V2 e H).
Qed.

Ltac done_false J t E :=
  match goal with
  | |- done (txs ?st t) = false =>
      let Ed := fresh "Ed" in let Kk := fresh "Kk" in
      destruct (done (txs st t)) eqn:Ed; auto; pose proof (i_K _ _ J t Ed) as Kk; rewrite E in Kk; simpl in Kk; congruence
  end.

Lemma step_L : forall safe limit st t st', Inv0 st -> Inv1 safe st -> step true safe limit st t = Some st' ->
  forall n e t', lookup n (mmap st') = Some e -> e_writer (elems st' e) = Some t' ->
          e_wheld (elems st' e) = true ->
          lookup n (written (txs st' t')) = Some e /\ done (txs st' t') = false.
Proof.
  intros safe limit st t st' I J H. step_field I H.
  all: try match goal with
       | D : done (txs ?st ?t) = false |- context [commit_all ?sf ?bad ?st _] =>
           destruct (commit_facts st t sf bad I D) as (C1 & C2 & Dec & Ct & Cm & Cn);
           simpl; intros n' e' t' Hl Hw Hh; apply commit_all_map_sub in Hl; rewrite Ct;
           destruct (Dec e') as [Dd|Dd];
           [destruct (C1 e' Dd) as (_ & _ & X & _); congruence|];
           destruct (C2 e' Dd) as (Cw & Ch); rewrite Cw in Hw; rewrite Ch in Hh; destruct (i_L _ _ J _ _ _ Hl Hw Hh) as (A & B);
           unfold upd; destruct (Nat.eqb_spec t' t); [subst; exfalso; eapply Dd; eauto|auto]
       end.
  all: simpl; intros n' e' t' Hl Hw Hh; map_hyp Hl.
  all: try match type of Hl with (if ?b then _ else _) = _ => destruct b eqn:Eb; [apply Nat.eqb_eq in Eb; inversion Hl; subst|] end.
  all: simpl in Hw, Hh; upd_cases; simpl in Hw, Hh; try discriminate.
  all: try (destruct (i_L _ _ J _ _ _ Hl Hw Hh) as (A & B)).
  all: try (injection Hw as Hw; subst).
  all: simpl; upd_cases; simpl; try rewrite lookup_set_key; try rewrite Nat.eqb_refl; try split; eauto; try congruence.
  all: try (rewrite E3 in A; discriminate A).
  all: try (done_false J t E).
  all: try (rewrite Eb; try rewrite Nat.eqb_refl; auto).
  all: try (destruct (i_a1 _ I _ _ Hl) as (Ha & Hb & Hc)).
  all: try (exfalso; lia).
  all: try match goal with |- (if ?a =? ?b then _ else _) = _ => destruct (Nat.eqb_spec a b) end; auto.
  all: try congruence.
  all: try (pose proof (i_M _ _ J t _ E) as Hm; subst; congruence).
  all: try (pose proof (i_K2 _ _ J t _ _ E) as Hk; unfold has_key in Hk; match goal with e0 : w_n _ = _ |- _ => rewrite e0 in Hk end; rewrite A in Hk; discriminate).
Qed.

Lemma step_K : forall safe limit st t st', Inv0 st -> Inv1 safe st -> step true safe limit st t = Some st' ->
  forall t', done (txs st' t') = true ->
          match ph (txs st' t') with PCreate w | PWait w _ => w_ro w = true | _ => True end.
Proof.
  intros safe limit st t st' I J H. step_field I H.
  all: try match goal with
       | D : done (txs ?st ?t) = false |- context [commit_all ?sf ?bad ?st _] =>
           destruct (commit_facts st t sf bad I D) as (C1 & C2 & Dec & Ct & Cm & Cn); simpl; rewrite Ct
       end.
  all: simpl; intros t' Hd; upd_cases; simpl in *; auto.
  all: try (apply (i_K _ _ J); auto).
  all: try (pose proof (i_K _ _ J t Hd) as Kk; rewrite E in Kk; simpl in Kk; auto).
  all: try (rewrite Hd in *; simpl in *; destruct ro; simpl in *; congruence).
  all: try congruence.
Qed.

Lemma step_M : forall fixed safe limit st t st', Inv0 st -> Inv1 safe st -> step fixed safe limit st t = Some st' ->
  forall t' w, ph (txs st' t') = PCreate w -> lookup (w_n w) (mmap st') = None.
Proof.
  intros fixed safe limit st t st' I J H. step_field I H.
  all: repeat match goal with Hf : free (mlock _) = true |- _ => apply free_none in Hf end.
  all: try match goal with
       | D : done (txs ?st ?t) = false |- context [commit_all ?sf ?bad ?st _] =>
           destruct (commit_facts st t sf bad I D) as (C1 & C2 & Dec & Ct & Cm & Cn); simpl; rewrite Ct
       end.
  all: simpl; intros t' w' Hp; upd_cases; simpl in Hp; try discriminate Hp.
  all: try (pose proof (i_m2 _ I _ _ Hp) as Hm; congruence).
  all: try (injection Hp as Hp; subst; simpl; auto).
  all: try (apply (i_M _ _ J _ _ Hp)).
Qed.

Lemma step_K2 : forall safe limit st t st', Inv0 st -> Inv1 safe st -> step true safe limit st t = Some st' ->
  forall t' w e, ph (txs st' t') = PWait w e -> has_key (w_n w) (written (txs st' t')) = false.
Proof.
  intros safe limit st t st' I J H. step_field I H.
  all: try match goal with
       | D : done (txs ?st ?t) = false |- context [commit_all ?sf ?bad ?st _] =>
           destruct (commit_facts st t sf bad I D) as (C1 & C2 & Dec & Ct & Cm & Cn); simpl; rewrite Ct
       end.
  all: simpl; intros t' w' e' Hp; upd_cases; simpl in Hp; try discriminate Hp.
  all: try (injection Hp as Hp; subst; simpl; auto).
  all: try (apply (i_K2 _ _ J _ _ _ Hp)).
  all: try congruence.
  all: destruct safe; simpl in *; auto; apply (i_K3 _ _ J _ _ _ E); auto.
Qed.

Lemma step_K3 : forall fixed safe limit st t st', Inv0 st -> Inv1 safe st -> step fixed safe limit st t = Some st' ->
  forall t' w e, ph (txs st' t') = PLock w e -> safe = true -> done (txs st' t') = false ->
          has_key (w_n w) (written (txs st' t')) = false.
Proof.
  intros fixed safe limit st t st' I J H. step_field I H.
  all: try match goal with
       | D : done (txs ?st ?t) = false |- context [commit_all ?sf ?bad ?st _] =>
           destruct (commit_facts st t sf bad I D) as (C1 & C2 & Dec & Ct & Cm & Cn); simpl; rewrite Ct
       end.
  all: simpl; intros t' w' e' Hp Hsf Hd; upd_cases; simpl in Hp, Hd; try discriminate Hp.
  all: try (injection Hp as Hp1 Hp2; subst; simpl; auto).
  all: try (apply (i_K3 _ _ J _ _ _ Hp); auto).
  all: try congruence.
  all: try (simpl in *; rewrite Hd in *; simpl in *; unfold has_key; match goal with Hx : lookup _ _ = None |- _ => rewrite Hx end; reflexivity).
Qed.

Lemma step_Inv1 : forall safe limit st t st', Inv0 st -> Inv1 safe st -> step true safe limit st t = Some st' -> Inv1 safe st'.
Proof.
  intros safe limit st t st' I J H. constructor.
  - eapply step_L; eauto.
  - eapply step_K; eauto.
  - eapply step_M; eauto.
  - eapply step_K2; eauto.
  - eapply step_K3; eauto.
Qed.
Lemma del_Inv1 : forall safe st n, Inv0 st -> Inv1 safe st -> mlock st = None -> Inv1 safe (set_map st (remove_key n (mmap st))).
Proof.
  intros safe st n I J Hm. constructor; simpl.
  - intros n' e t Hl. apply lookup_remove_some in Hl. destruct Hl as [Hl _]. now apply (i_L _ _ J).
  - apply (i_K _ _ J).
  - intros t w Hp. pose proof (i_m2 _ I _ _ Hp). congruence.
  - apply (i_K2 _ _ J).
  - apply (i_K3 _ _ J).
Qed.
Lemma next_Inv1 : forall safe limit st l, Inv0 st -> Inv1 safe st -> Inv1 safe (next true safe limit st l).
Proof.
  intros safe limit st l I J. unfold next. destruct (lstep true safe limit st l) eqn:E; auto.
  destruct l as [t|n]; simpl in E.
  - eapply step_Inv1; eauto.
  - destruct (free (mlock st)) eqn:F; [|discriminate]. injection E as <-. apply del_Inv1; auto. now apply free_none.
Qed.
Lemma init_Inv1 : forall safe progs, Inv1 safe (init progs).
Proof.
  intros safe progs. constructor; intros; try rewrite init_ph in *; try rewrite init_written in *; simpl in *;
    try discriminate; auto.
Qed.
Lemma run_Inv01 : forall safe limit ls st, Inv0 st -> Inv1 safe st ->
  Inv0 (run true safe limit ls st) /\ Inv1 safe (run true safe limit ls st).
Proof.
  induction ls; simpl; intros st I J; auto.
  apply IHls; [now apply next_Inv0|now apply next_Inv1].
Qed.

(* ------------------------------------------------------------------ *)
(* locks are released                                                  *)
(* ------------------------------------------------------------------ *)
Lemma thm_locks_released : forall safe limit progs ls,
  let st := run true safe limit ls (init progs) in
  all_done st -> locks_released st.
Proof.
  intros safe limit progs ls st Hall.
  destruct (run_Inv01 safe limit ls (init progs) (init_Inv0 progs) (init_Inv1 safe progs)) as [I J]. fold st in I, J.
  split.
  - destruct (mlock st) as [t|] eqn:Hm; auto.
    destruct (i_m1 _ I _ Hm) as (w & Hp). destruct (Hall t) as [[Hph _] _]. congruence.
  - intros n e Hl. split.
    + destruct (e_writer (elems st e)) as [t|] eqn:Hw; auto.
      destruct (Hall t) as [[Hph _] Hd].
      destruct (e_wheld (elems st e)) eqn:Hh.
      * destruct (i_L _ _ J _ _ _ Hl Hw Hh). congruence.
      * destruct (i_c2 _ I _ _ Hw Hh) as (w & Hp). congruence.
    + destruct (e_readers (elems st e)) as [|t r] eqn:Hr; auto.
      assert (Hin : In t (e_readers (elems st e))) by (rewrite Hr; simpl; auto).
      pose proof (i_b1 _ I _ _ Hin) as Hb. destruct (Hall t) as [[Hph _] _]. rewrite Hph in Hb. discriminate.
Qed.


(* ------------------------------------------------------------------ *)
(* progress under disjoint writers                                     *)
(* ------------------------------------------------------------------ *)
Definition InvQ (st : state) : Prop :=
  forall e t' t w, e_writer (elems st e) = Some t' -> done (txs st t') = true ->
    ph (txs st t) = PLock w e -> w_ro w = false -> done (txs st t) = false -> False.

Lemma writer_names : forall st e t', Inv0 st -> e_writer (elems st e) = Some t' ->
  (exists w, ph (txs st t') = PWait w e /\ e_name (elems st e) = w_n w /\ w_ro w = false) \/
  has_key (e_name (elems st e)) (written (txs st t')) = true.
Proof.
  intros st e t' I Hw. destruct (e_wheld (elems st e)) eqn:Hh.
  - right. now apply (i_c5 _ I).
  - left. destruct (i_c2 _ I _ _ Hw Hh) as (w & Hp). exists w. split; auto.
    destruct (i_a2 _ I t' e) as (_ & _ & w' & Hw' & Hn); [rewrite Hp; reflexivity|].
    rewrite Hp in Hw'. simpl in Hw'. injection Hw' as <-. split; auto.
    now destruct (i_c1 _ I _ _ _ Hp) as (_ & _ & ?).
Qed.

Lemma registered_writer_live : forall safe st n e t', Inv0 st -> Inv1 safe st ->
  lookup n (mmap st) = Some e -> e_writer (elems st e) = Some t' -> done (txs st t') = false.
Proof.
  intros safe st n e t' I J Hl Hw. destruct (e_wheld (elems st e)) eqn:Hh.
  - now destruct (i_L _ _ J _ _ _ Hl Hw Hh).
  - destruct (i_c2 _ I _ _ Hw Hh) as (w & Hp). destruct (i_c1 _ I _ _ _ Hp) as (_ & _ & Hr).
    destruct (done (txs st t')) eqn:Hd; auto. pose proof (i_K _ _ J _ Hd) as Kk. rewrite Hp in Kk. congruence.
Qed.

Lemma Q_commit_arg : forall st s tq e w, Inv0 st -> disjoint_writers st ->
  ph (txs st s) = PIdle -> done (txs st s) = false -> e_writer (elems st e) = Some s ->
  ph (txs st tq) = PLock w e -> w_ro w = false -> done (txs st tq) = false -> tq <> s -> False.
Proof.
  intros st s tq e w I Dj Hs Hds Hw Hp Hro Hdq Hne.
  destruct (i_a2 _ I tq e) as (_ & _ & w' & Hw' & Hn); [rewrite Hp; reflexivity|].
  rewrite Hp in Hw'. simpl in Hw'. injection Hw' as <-.
  destruct (writer_names st e s I Hw) as [(w2 & Hp2 & _)|Hk]; [congruence|].
  apply Hne. apply (Dj tq s (w_n w)).
  - split; auto. right. rewrite Hp. simpl. now rewrite Hro.
  - split; auto. left. now rewrite <- Hn.
Qed.

Lemma step_Q : forall safe limit st s st', Inv0 st -> Inv1 safe st -> InvQ st -> disjoint_writers st ->
  step true safe limit st s = Some st' -> InvQ st'.
Proof.
  intros safe limit st s st' I J Q Dj H. unfold InvQ. step_field I H.
  all: try match goal with
       | D : done (txs ?st ?t) = false |- context [commit_all ?sf ?bad ?st _] =>
           destruct (commit_facts st t sf bad I D) as (C1 & C2 & Dec & Ct & Cm & Cn); simpl; rewrite Ct
       end.
  all: simpl; intros e' tq' tq w' Hw Hd Hp Hro Hnd.
  all: upd_cases; simpl in *; try discriminate; try congruence.
  all: try match goal with Hw : e_writer (elems (commit_all _ _ _ _) ?e) = _ |- _ => destruct (Dec e) as [Dd|Dd]; [destruct (C1 e Dd) as (_ & _ & X & _); congruence| destruct (C2 e Dd) as (Cw & Ch); rewrite Cw in Hw] end.
  all: try solve [eapply Q; eauto].
  all: try match goal with Hl : lookup _ (mmap ?st) = Some ?e, Hw : e_writer (elems ?st ?e) = Some ?t' |- _ => pose proof (registered_writer_live _ _ _ _ _ I J Hl Hw); congruence end.
  all: try solve [eapply (Q_commit_arg st s); eauto].
  all: try (pose proof (i_K _ _ J _ Hd) as Kk; rewrite E in Kk; simpl in Kk; congruence).
Qed.

Lemma next_Q : forall safe limit st l, Inv0 st -> Inv1 safe st -> InvQ st -> disjoint_writers st ->
  InvQ (next true safe limit st l).
Proof.
  intros safe limit st l I J Q Dj. unfold next. destruct (lstep true safe limit st l) eqn:E; auto.
  destruct l as [t|n]; simpl in E.
  - eapply step_Q; eauto.
  - destruct (free (mlock st)); [|discriminate]. injection E as <-. exact Q.
Qed.

Lemma run_always_Q : forall safe limit ls st, Inv0 st -> Inv1 safe st -> InvQ st ->
  always disjoint_writers true safe limit ls st ->
  let st' := run true safe limit ls st in Inv0 st' /\ Inv1 safe st' /\ InvQ st' /\ disjoint_writers st'.
Proof.
  induction ls; simpl; intros st I J Q A; auto.
  destruct A as [Dj A]. apply IHls; auto.
  - now apply next_Inv0.
  - now apply next_Inv1.
  - now apply next_Q.
Qed.

Ltac enabled Hp :=
  unfold step; rewrite Hp;
  repeat match goal with
         | |- context [match ?x with _ => _ end] => let E := fresh "En" in destruct x eqn:E
         | |- context [if ?x then _ else _] => let E := fresh "En" in destruct x eqn:E
         end; try (eexists; reflexivity); simpl in *; try discriminate; try congruence.

Lemma progress_state : forall safe limit st, Inv0 st -> Inv1 safe st -> InvQ st -> disjoint_writers st ->
  (exists t, ~ finished (txs st t)) -> exists t st', step true safe limit st t = Some st'.
Proof.
  intros safe limit st I J Q Dj [t0 Hnf].
  destruct (mlock st) as [h|] eqn:Hm.
  { destruct (i_m1 _ I _ Hm) as (w & Hp). exists h. enabled Hp. }
  (* the manager mutex is free *)
  assert (Hfree : free (mlock st) = true) by (rewrite Hm; reflexivity).
  destruct (ph (txs st t0)) eqn:Hp.
  - (* PIdle *) exists t0. unfold finished in Hnf. enabled Hp. all: try (exfalso; apply Hnf; auto).
  - pose proof (i_m2 _ I _ _ Hp). congruence.
  - (* PLock *) destruct (w_ro w) eqn:Hro; [exists t0; enabled Hp|].
    destruct (done (txs st t0)) eqn:Hd; [exists t0; enabled Hp|].
    destruct (negb safe && has_key (w_n w) (written (txs st t0))) eqn:Hk0; [exists t0; enabled Hp|].
    assert (Hk : has_key (w_n w) (written (txs st t0)) = false).
    { destruct safe; simpl in Hk0; auto. apply (i_K3 _ _ J _ _ _ Hp); auto. }
    destruct (e_writer (elems st e)) as [t'|] eqn:Hw; [|exists t0; enabled Hp].
    exfalso.
    destruct (i_a2 _ I t0 e) as (_ & _ & w' & Hw' & Hn); [rewrite Hp; reflexivity|].
    rewrite Hp in Hw'. simpl in Hw'. injection Hw' as <-.
    assert (Ha0 : active_writer st t0 (w_n w)).
    { split; auto. right. rewrite Hp. simpl. now rewrite Hro. }
    destruct (done (txs st t')) eqn:Hd'.
    + eapply Q; eauto.
    + destruct (writer_names st e t' I Hw) as [(w2 & Hp2 & Hn2 & Hr2)|Hk2].
      * assert (t0 = t').
        { apply (Dj t0 t' (w_n w)); auto. split; auto. right. rewrite Hp2. simpl. rewrite Hr2. congruence. }
        subst. congruence.
      * assert (t0 = t').
        { apply (Dj t0 t' (w_n w)); auto. split; auto. left. congruence. }
        subst. congruence.
  - (* PWait *) destruct (e_readers (elems st e)) as [|r rs] eqn:Hr; [exists t0; enabled Hp|].
    assert (Hin : In r (e_readers (elems st e))) by (rewrite Hr; simpl; auto).
    pose proof (i_b1 _ I _ _ Hin) as Hb. exists r.
    destruct (ph (txs st r)) eqn:Hpr; simpl in Hb; try discriminate Hb; enabled Hpr.
  - exists t0. enabled Hp.
  - exists t0. enabled Hp.
  - exists t0. enabled Hp.
  - exists t0. enabled Hp.
  - exists t0. enabled Hp.
Qed.

Lemma init_Q : forall progs, InvQ (init progs).
Proof. intros progs e t' t w Hw. simpl in Hw. discriminate. Qed.

Lemma thm_progress : forall safe limit progs ls,
  always disjoint_writers true safe limit ls (init progs) ->
  let st := run true safe limit ls (init progs) in
  (exists t, ~ finished (txs st t)) -> exists t st', step true safe limit st t = Some st'.
Proof.
  intros safe limit progs ls A st Hex.
  destruct (run_always_Q safe limit ls (init progs) (init_Inv0 progs) (init_Inv1 safe progs) (init_Q progs) A) as (I & J & Q & Dj).
  eapply progress_state; eauto.
Qed.
