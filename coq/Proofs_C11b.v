(* Proofs_C11b.v -- C11: scrapped elements are never selected again; locks are
   released (current version of With); progress under disjoint writers. *)
From Coq Require Import List Arith Bool ZArith Lia PeanoNat.
From Semadb Require Import Model_C11 Proofs_C11.
Import ListNotations.

(* ------------------------------------------------------------------ *)
(* scrapped is never reset; a selected element is not scrapped          *)
(* ------------------------------------------------------------------ *)
Lemma step_scrapped_mono : forall fixed limit st t st' e, Inv0 st -> step fixed limit st t = Some st' ->
  e_scrapped (elems st e) = true -> e_scrapped (elems st' e) = true.
Proof.
  intros fixed limit st t st' e I H Hs. step_field I H.
  all: try match goal with
       | |- context [commit_all ?bad ?st ?W] =>
           destruct (commit_all_elems bad W st e) as [V1 V2];
           destruct (in_dec Nat.eq_dec e (map snd W)) as [Hin|Hin];
           [destruct (V1 Hin) as (_ & _ & _ & _ & _ & _ & V); simpl; rewrite V, Hs; apply orb_true_r
           |simpl; rewrite (V2 Hin); exact Hs]
       end.
  all: simpl; upd_cases; simpl; auto.
  all: try (rewrite (i_a0 _ I) in Hs by lia; discriminate Hs).
Qed.

Lemma next_scrapped_mono : forall fixed limit st l e, Inv0 st ->
  e_scrapped (elems st e) = true -> e_scrapped (elems (next fixed limit st l) e) = true.
Proof.
  intros fixed limit st l e I Hs. unfold next. destruct (lstep fixed limit st l) eqn:E; auto.
  destruct l as [t|n]; simpl in E.
  - eapply step_scrapped_mono; eauto.
  - destruct (free (mlock st)); [|discriminate]. injection E as <-. exact Hs.
Qed.
Lemma run_scrapped_mono : forall fixed limit ls st e, Inv0 st ->
  e_scrapped (elems st e) = true -> e_scrapped (elems (run fixed limit ls st) e) = true.
Proof.
  induction ls; simpl; intros st e I Hs; auto.
  apply IHls; [now apply next_Inv0|now apply next_scrapped_mono].
Qed.

Lemma select_not_scrapped : forall fixed limit st t st' e, Inv0 st -> step fixed limit st t = Some st' ->
  selects st t st' e -> e_scrapped (elems st e) = false.
Proof.
  intros fixed limit st t st' e I H [Hn (w & c & Hp & He)]. step_field I H.
  all: simpl in Hp; rewrite upd_eq in Hp; simpl in Hp; try discriminate Hp.
  all: try (injection Hp as Hp1 Hp2; subst; simpl in * ).
  all: try (rewrite (i_a0 _ I) by lia; reflexivity).
  all: auto.
  all: try (exfalso; eapply Hn; eauto).
Qed.

Lemma thm_scrapped_not_reused : forall fixed limit st e, reachable fixed limit st ->
  e_scrapped (elems st e) = true ->
  forall ls t st3, let st2 := run fixed limit ls st in
    step fixed limit st2 t = Some st3 -> ~ selects st2 t st3 e.
Proof.
  intros fixed limit st e R Hs ls t st3 st2 H Hsel.
  pose proof (reachable_Inv0 _ _ _ R) as I.
  assert (I2 : Inv0 st2) by (apply run_Inv0; auto).
  pose proof (run_scrapped_mono fixed limit ls st e I Hs) as Hs2.
  pose proof (select_not_scrapped _ _ _ _ _ _ I2 H Hsel). fold st2 in Hs2. congruence.
Qed.
