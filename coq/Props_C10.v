(* Props_C10.v -- property C10: the persisted similarity graph stays well-formed after every
   write.  Only statements; every proof is `exact <lemma of Proofs_Vamana.v>`.

   Model: Model_Vamana.v (shared with C03).  [wf P g live] is the invariant of the property
   text: one graph node and one stored vector for the entry node and for every id of [live]
   (= node ids of the live points carrying the vector field) and for nothing else; every edge
   leads to an existing node other than its source; out-degree <= degree bound except at the
   entry node; the recorded maximum id bounds every id but the entry node's.  [wf_b] is its
   boolean form -- the clauses 141..145 of Model_C10.wf_code, which the replay evaluates on
   the buckets dumped from the real shard after every batch.

   All theorems hold for EVERY distance function d (no metric axioms are needed), every
   alpha, every degree bound R >= 1 and search size L >= 1 (validation: 32..64, 25..75),
   every query vector, every batch and history whose ids are neither 0 nor the entry id
   (the code rejects those; node ids come from the allocator, >= 2: the c10_alloc theorems).
   The NumCPU-1 insert workers of a batch are modelled as one sequential order of single
   inserts (see Model_Vamana.v); product-quantiser training is outside the model. *)
From Coq Require Import List NArith ZArith QArith Bool.
From Semadb Require Import Model_Vamana Proofs_Vamana.
Import ListNotations.

(* the boolean checker decides the invariant *)
Theorem c10_wf_b_correct : forall vec (P : params) (g : graph vec) (live : list N),
  wf_b P g live = true <-> wf P g live.
Proof. exact wf_b_wf. Qed.
Print Assumptions c10_wf_b_correct.

(* On a well-formed graph greedySearch never hits a missing node, a missing vector or runs
   out of fuel (fuel = stored vectors + 1), whatever the query, limit <= search size and
   pre-filter (members without a vector, unknown ids, the entry id ... anything). *)
Theorem c10_search_never_fails : forall vec (d : vec -> vec -> Q) (P : params) (g : graph vec) live
    (q : vec) (k Lq : nat) (flt : option (list N)),
  wf P g live -> (k <= Lq)%nat ->
  exists rs vis, greedy_search d g q k Lq flt = Ok (rs, vis).
Proof. exact greedy_search_never_fails. Qed.
Print Assumptions c10_search_never_fails.

(* (b) insertSinglePoint of a point on a well-formed graph (after the classification raised
   the maximum id) takes no error branch and yields a well-formed graph with the id added.
   Freshness of the id is not even needed. *)
Theorem c10_insert_preserves_wf : forall vec (d : vec -> vec -> Q) (P : params),
  (1 <= pR P)%nat -> (1 <= pL P)%nat ->
  forall (g : graph vec) live (id : N) (v : vec),
  wf P g live -> id <> START ->
  exists g', insert_single d P (bump g id) id v = Ok g' /\ wf P g' (id :: live).
Proof. exact insert_new_wf. Qed.
Print Assumptions c10_insert_preserves_wf.

(* (d) insertUpdateDelete with ARBITRARY mixed changes -- inserts, vector updates, vector
   removals / deletes, whole neighbourhoods deleted at once, the same id several times --
   takes no error branch and preserves well-formedness.  [batch_live] is the id-level mirror
   of the classification (Model_Vamana.v); c10_batch_live_spec reads it for batches that
   name every id at most once. *)
Theorem c10_batch_preserves_wf : forall vec (d : vec -> vec -> Q) (P : params),
  (1 <= pR P)%nat -> (1 <= pL P)%nat ->
  forall (g : graph vec) live (changes : list (N * option vec)),
  wf P g live -> Forall (fun c => fst c <> START /\ fst c <> 0%N) changes ->
  exists g', vamana_batch d P g changes = Ok g' /\ wf P g' (batch_live live changes).
Proof. exact vamana_batch_wf. Qed.
Print Assumptions c10_batch_preserves_wf.

Theorem c10_batch_live_spec : forall vec (changes : list (N * option vec)) live,
  NoDup (map fst changes) ->
  forall x, In x (batch_live live changes) <->
            (exists v, In (x, Some v) changes) \/ (In x live /\ ~ In (x, None) changes).
Proof. exact batch_live_spec. Qed.
Print Assumptions c10_batch_live_spec.

(* delete-only batches, any number of ids, whole neighbourhoods included *)
Theorem c10_delete_preserves_wf : forall vec (d : vec -> vec -> Q) (P : params),
  (1 <= pR P)%nat -> (1 <= pL P)%nat ->
  forall (g : graph vec) live (dl : list N),
  wf P g live -> NoDup dl -> ~ In START dl -> ~ In 0%N dl ->
  exists g' live', vamana_batch d P g (map (fun i => (i, None)) dl) = Ok g' /\ wf P g' live' /\
                   forall x, In x live' <-> In x live /\ ~ In x dl.
Proof. exact delete_batch_wf. Qed.
Print Assumptions c10_delete_preserves_wf.

(* (g) every history of batches from the empty index (the first touch creates the entry node
   with an arbitrary vector v0) runs without error and ends well-formed *)
Theorem c10_wf_reachable : forall vec (d : vec -> vec -> Q) (P : params),
  (1 <= pR P)%nat -> (1 <= pL P)%nat ->
  forall (v0 : vec) (batches : list (list (N * option vec))),
  Forall (Forall (fun c => fst c <> START /\ fst c <> 0%N)) batches ->
  exists g, run_history d P v0 empty_graph batches = Ok g /\
            (wf P g (history_live [] batches) \/ (g = empty_graph /\ history_live [] batches = [])).
Proof. exact history_from_empty_wf. Qed.
Print Assumptions c10_wf_reachable.

(* the node id allocator: ids handed out are fresh, never 0 or the entry id; an id is never
   twice in use nor both in use and on the free list *)
Theorem c10_alloc_fresh : forall c used, idc_inv c used ->
  ~ In (fst (idc_next c)) used /\ fst (idc_next c) <> START /\ fst (idc_next c) <> 0%N /\
  idc_inv (snd (idc_next c)) (fst (idc_next c) :: used).
Proof. exact idc_next_inv. Qed.
Print Assumptions c10_alloc_fresh.

Theorem c10_alloc_free : forall c used x, idc_inv c used -> In x used ->
  idc_inv (idc_free c x) (filter (fun y => negb (N.eqb y x)) used).
Proof. exact idc_free_inv. Qed.
Print Assumptions c10_alloc_free.

Theorem c10_alloc_init : idc_inv idc_new [].
Proof. exact idc_new_inv. Qed.
Print Assumptions c10_alloc_init.

(* ---- Examples: concrete graphs, evaluated ---- *)
Definition exV := (Z * Z)%type.
Definition ex_d (a b : exV) : Q :=
  inject_Z ((fst a - fst b) * (fst a - fst b) + (snd a - snd b) * (snd a - snd b)).
Definition ex_P := mkParams 3 (12 # 10) 5.
Definition ex_ins (l : list (N * exV)) : list (N * option exV) := map (fun p => (fst p, Some (snd p))) l.
Definition ex_b1 := ex_ins [(2%N, (0, 0)%Z); (3%N, (1, 0)%Z); (4%N, (0, 1)%Z); (5%N, (5, 5)%Z); (6%N, (6, 5)%Z); (7%N, (2, 2)%Z)].
(* delete 3, update 4, insert 8, remove the vector of an unknown point 9 *)
Definition ex_b2 : list (N * option exV) := [(3%N, None); (4%N, Some (9, 9)%Z); (8%N, Some (1, 1)%Z); (9%N, None)].
(* delete the whole neighbourhood 2,5,6 and re-use the freed id 3 *)
Definition ex_b3 : list (N * option exV) := [(2%N, None); (5%N, None); (6%N, None); (3%N, Some (3, 3)%Z)].
Definition ex_run (bs : list (list (N * option exV))) := run_history ex_d ex_P (100, 100)%Z empty_graph bs.
Definition ex_check (bs : list (list (N * option exV))) : option (list (N * list N) * N * bool) :=
  match ex_run bs with
  | Ok g => Some (edges g, maxid g, wf_b ex_P g (history_live [] bs))
  | Err _ => None
  end.

Example ex_c10_build : ex_check [ex_b1] =
  Some ([(1, [5; 6; 7]); (5, [6; 7; 1]); (3, [2; 7; 1]); (7, [3; 5; 1]); (6, [5; 1]); (2, [1; 3; 4]); (4, [2; 1])]%N, 7%N, true).
Proof. vm_compute. reflexivity. Qed.
Example ex_c10_mixed : ex_check [ex_b1; ex_b2] =
  Some ([(1, [4]); (6, [5; 1; 4]); (4, [6; 1]); (2, [8; 1]); (8, [7; 2; 1]); (7, [8; 5; 1]); (5, [6; 7; 1])]%N, 8%N, true).
Proof. vm_compute. reflexivity. Qed.
Example ex_c10_neighbourhood : ex_check [ex_b1; ex_b2; ex_b3] =
  Some ([(8, [7; 1]); (4, [1]); (3, [7; 1]); (1, [4; 3]); (7, [8; 3; 1])]%N, 8%N, true).
Proof. vm_compute. reflexivity. Qed.
Example ex_c10_hyps : Forall (Forall (fun c : N * option exV => fst c <> START /\ fst c <> 0%N)) [ex_b1; ex_b2; ex_b3].
Proof. repeat constructor; simpl; discriminate. Qed.
(* the checker rejects a dangling edge, a self loop, an over-full node, a stale maximum id *)
Example ex_c10_wf_b_rejects :
  map (fun g => wf_b ex_P g [2%N]) [
    mkGraph [(1, [2]); (2, [3])]%N [(1%N, (0, 0)%Z); (2%N, (1, 1)%Z)] 2;
    mkGraph [(1, [2]); (2, [2])]%N [(1%N, (0, 0)%Z); (2%N, (1, 1)%Z)] 2;
    mkGraph [(1, [2]); (2, [1; 1; 1; 1])]%N [(1%N, (0, 0)%Z); (2%N, (1, 1)%Z)] 2;
    mkGraph [(1, [2]); (2, [1])]%N [(1%N, (0, 0)%Z); (2%N, (1, 1)%Z)] 1;
    mkGraph [(1, [2; 2; 2; 2]); (2, [1])]%N [(1%N, (0, 0)%Z); (2%N, (1, 1)%Z)] 2 ] = [false; false; false; false; true].
Proof. vm_compute. reflexivity. Qed.
Example ex_c10_alloc : fst (idc_next idc_new) = 2%N /\
  fst (idc_next (idc_free (snd (idc_next (snd (idc_next idc_new)))) 2)) = 2%N.
Proof. vm_compute. split; reflexivity. Qed.

(* FINDING (predicted by the model, then reproduced on the real shard: see the report).  When one batch names the same id twice -- Shard.UpdatePoints does not
   reject a request that lists a point twice -- the classification sees the vector store
   before any update of the batch is applied: "set the vector, then remove it" is classified
   update + delete, the node is deleted and then RE-INSERTED with the first vector.  The graph
   stays well-formed (c10_batch_preserves_wf covers such batches), but it keeps a node and a
   vector for a point whose vector field was removed last: *)
Definition ex_dup : list (N * option exV) := [(5%N, Some (7, 7)%Z); (5%N, None)].
Theorem c10_same_id_twice_refuted :
  exists g', vamana_batch ex_d ex_P
               (match ex_run [ex_b1] with Ok g => g | Err _ => empty_graph end) ex_dup = Ok g' /\
             lookup 5%N (vecs g') = Some (7, 7)%Z /\ In 5%N (batch_live [7; 6; 5; 4; 3; 2]%N ex_dup).
Proof. eexists. split; [vm_compute; reflexivity|]. split; [vm_compute; reflexivity|]. vm_compute. left. reflexivity. Qed.
Print Assumptions c10_same_id_twice_refuted.
