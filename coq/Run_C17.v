(* Run_C17.v -- verdicts on what the harness observed on in-process clusters of
   1..3 ClusterNodes.  A history is replayed against ONE collection-level
   reference store (C01's apply_spec; C02's answer for filter queries; C06's
   select / sort comparator).  Codes: 0 OK; 1xx the observation violates the
   property (SPECFAIL); 2xx the code differs from the mechanism model
   (MISMATCH: which rows a limit / offset selects, the float32 limit formula,
   curateFailedPoints).  In a history the code is offset by 1000 * (step + 1). *)
From Coq Require Import List NArith ZArith QArith Bool.
From Semadb Require Import Bytes Pack Value Obs Dyadic Model_C01 Model_C02 Model_C06 Model_C17.
Import ListNotations.
Open Scope N_scope.

(* a shard as observed after a write: index of the server holding it, the point count GetShardsInfo
   reported (None when it could not be asked), every live point with its stored document (read from the
   shard itself, not through the cluster) *)
Record oshard := mkOS { os_server : N; os_count : option N; os_points : store }.

(* message codes of a FailedPoint: 0 "not found", 1 the text of ErrShardUnavailable, 2 anything else *)
Inductive cop :=
| CEntry (k : N)                         (* the following requests enter through node k *)
| CClose (k : N)                         (* server k is closed from here on *)
| CInsert (ps : list (uuid * doc)) (err : bool) (failed : N) (after : list oshard)
| CUpdate (ps : list (uuid * doc)) (err : bool) (resp : list (uuid * N)) (after : list oshard)
| CDelete (ids : list uuid) (err : bool) (resp : list (uuid * N)) (after : list oshard)
(* direct: for vector queries, every shard's full answer to the unpaged request, asked at the shard *)
| CSearch (rq : request) (out : qout) (direct : list (list row))
(* a collection that lives in ONE shard, every server up, no sort keys, no paging: the cluster hands the shard's
   answer through unchanged -- same points in the same order (for a composite of a ranking sub-query and a
   filter: ranked points first, then the points only the filter matched, C06) *)
| CPass (rq : request) (out : qout) (shard_rows : list row).

Inductive c17case :=
| CHist (nservers : N) (sc : schema) (maxsize maxlimit : N) (ops : list cop)
(* the per-shard limit computed with Go's float32 arithmetic (the expression of SearchPoints) *)
| CLimit (limit nshards maxlimit observed : N)
(* one call of cluster.VerifCurateFailedPoints *)
| CCurate (all success : list uuid) (is_complete : bool) (observed : list (uuid * N))
(* a request of the scaffolding of a history, made on a healthy cluster (every server up), failed: creating the
   collection, reading its record back through a node, filling or searching it before the recorded part starts,
   reading a shard on the server that owns it. what: 1 CreateCollection, 2 GetCollection, 3 InsertPoints,
   4 SearchPoints, 5 DeleteCollection, 6 GetShardsInfo, 7 a shard read on its owner; 8: a search answer already
   handed to its caller was modified by a later search; 9: with every server up and every shard request taking
   longer than usual (but well below the RPC timeout) an update reported failed points or a search failed or
   missed stored points; 0: that slow scenario went as the theorems say (no failed point, every point returned) *)
| CUnexpected (what : N).

(* ------------------------------------------------------------------ helpers *)

Definition union (shs : list oshard) : store := concat (map os_points shs).
Definition is_up (closed : option N) (sh : oshard) : bool :=
  match closed with Some k => negb (os_server sh =? k) | None => true end.
Definition counts_ok (shs : list oshard) : bool :=
  forallb (fun sh => match os_count sh with
                     | Some k => k =? N.of_nat (length (os_points sh))
                     | None => true
                     end) shs.
Definition ids_eqb (a b : list uuid) : bool := list_eqb bytes_eqb a b.

Fixpoint pure_filter (q : query) : bool :=
  match q with
  | QAnd qs | QOr qs => forallb pure_filter qs
  | QText _ _ _ _ _ _ | QFlat _ _ _ _ _ | QVamana _ _ _ _ _ _ => false
  | _ => true
  end.

(* the document a shard puts into a result row (Model_C06: raw document, selected fields, or none) *)
Definition sel_doc (r : request) (d : doc) : option doc :=
  if decodes r then select_doc (rq_select r) d else Some d.
Definition expect_doc (r : request) (d : doc) : option (option doc) :=
  match rq_select r, rq_sort r with
  | [], [] => Some None
  | _, _ => match sel_doc r d with Some d' => Some (Some d') | None => None end
  end.
Definition odoc_sim (a b : option doc) : bool :=
  match a, b with
  | None, None => true
  | Some x, Some y => doc_sim x y && doc_sim y x
  | _, _ => false
  end.

Fixpoint ordered (cmp : row -> row -> comparison) (l : list row) : bool :=
  match l with
  | [] => true
  | x :: r => match r with
              | [] => true
              | y :: _ => match cmp x y with Gt => false | _ => ordered cmp r end
              end
  end.

(* number of rows a shard with k rows contributes: |page o' l' A| *)
Definition page_count (o' l' k : N) : N :=
  let rest := k - o' in if l' =? 0 then rest else N.min l' rest.

Fixpoint sumN (l : list N) : N := match l with [] => 0 | x :: r => x + sumN r end.

Fixpoint pointwise (f : row -> row -> bool) (a b : list row) : bool :=
  match a, b with
  | [], [] => true
  | x :: a', y :: b' => f x y && pointwise f a' b'
  | _, _ => false
  end.

Definition cmp_eq (c : comparison) : bool := match c with Eq => true | _ => false end.

Definition opt_N_eqb (a b : option N) : bool :=
  match a, b with Some x, Some y => x =? y | None, None => true | _, _ => false end.

(* the rows a shard holding [s] answers to a filter request before paging, in the order of its own sort
   (any order when there are no sort keys); None = the model cannot judge *)
Definition shard_full (sc : schema) (r : request) (s : store) : option (list row) :=
  match answer sc [] s (rq_query r) with
  | None => None
  | Some ids =>
      match map_opt (fun id => match st_get id s with
                               | Some d => match expect_doc r d with
                                           | Some od => Some (mkRow id od None None 0)
                                           | None => None
                                           end
                               | None => None
                               end) ids with
      | None => None
      | Some rows => Some (match rq_sort r with [] => rows | keys => sort_by (row_cmp keys) rows end)
      end
  end.

(* ------------------------------------------------------------------ searches *)

Definition judge_search (sc : schema) (maxlimit : N) (closed : option N) (shs : list oshard) (ref : store)
           (r : request) (o : qout) (direct : list (list row)) : N :=
  let keys := rq_sort r in
  let limit := rq_limit r in
  let n := N.of_nat (length shs) in
  let l' := per_shard_limit limit n maxlimit in
  let o' := per_shard_offset (rq_offset r) n in
  let up := forallb (is_up closed) shs in
  match o with
  | QError _ => if up then 108 else 0
  | QRows rows =>
      let ids := map r_id rows in
      if (N.to_nat limit <? length rows)%nat || negb (nodup_ids ids) then 104 else
      if negb (ordered (row_cmp keys) rows) then 106 else
      if negb up then 0 else      (* an answer although a shard was unavailable: only the bounds above *)
      if pure_filter (rq_query r) then
        match answer sc [] ref (rq_query r) with
        | None => 290
        | Some expect =>
            if negb (forallb (fun x => mem_bytes (r_id x) expect &&
                                       match st_get (r_id x) ref with
                                       | Some d => match expect_doc r d with
                                                   | Some od => odoc_sim (r_doc x) od
                                                   | None => false
                                                   end
                                       | None => false
                                       end) rows) then 105 else
            if (rq_offset r =? 0) && (N.of_nat (length expect) <=? l') && negb (same_ids ids expect) then 107 else
            match map_opt (fun sh => shard_full sc r (os_points sh)) shs with
            | None => 291
            | Some fulls =>
                let total := N.min limit (sumN (map (fun a => page_count o' l' (N.of_nat (length a))) fulls)) in
                if negb (N.of_nat (length rows) =? total) then 201 else
                match keys with
                | [] => 0
                | _ => if pointwise (fun x y => cmp_eq (row_cmp keys x y)) rows (cluster_search keys limit (rq_offset r) maxlimit fulls)
                       then 0 else 201
                end
            end
        end
      else
        (* vector query: the shards' own full answers were recorded.  Which of several points at the SAME
           distance a shard returns is not determined (C04), so a row is compared with the reference store for
           its document and with the shard answers for its distance / score / hybrid values *)
        let all := concat direct in
        if negb (forallb (fun x => match st_get (r_id x) ref with
                                   | Some d => match expect_doc r d with
                                               | Some od => odoc_sim (r_doc x) od
                                               | None => false
                                               end
                                   | None => false
                                   end &&
                                   existsb (fun y => opt_N_eqb (r_dist x) (r_dist y) && opt_N_eqb (r_score x) (r_score y) &&
                                                     (r_hybrid x =? r_hybrid y)) all) rows) then 105 else
        if negb (length direct =? length shs)%nat then 291 else
        let total := N.min limit (sumN (map (fun a => page_count o' l' (N.of_nat (length a))) direct)) in
        if negb (N.of_nat (length rows) =? total) then 201 else
        if pointwise (fun x y => cmp_eq (hyb_cmp x y)) rows (cluster_search [] limit (rq_offset r) maxlimit direct)
        then 0 else 201
  end.

(* ------------------------------------------------------------------ writes *)

(* update / delete: [base] = the points the available shards hold (the whole reference when all are up),
   [rest] = the points of unavailable shards *)
Definition judge_write (sc : schema) (maxsize : N) (closed : option N) (shs : list oshard) (ref : store)
           (b : batch) (requested : list uuid) (err : bool) (resp : list (uuid * N)) (after : list oshard)
  : N * store :=
  let up := forallb (is_up closed) shs in
  let base := if up then ref else union (filter (is_up closed) shs) in
  let rest := if up then [] else union (filter (fun sh => negb (is_up closed sh)) shs) in
  match apply_spec sc maxsize b base with
  | (_, SErr _) =>
      (* the batch is refused by the shard whose point it does not fit (an ill-typed indexed field): that shard's
         transaction fails as a whole and its RPC returns an error -- it has not answered. Every other available
         shard applies its part; an id no answering shard processed is reported, with the message of an incomplete
         answer (never "not found": not every shard answered) *)
      match b with
      | BUpdate ps =>
          (* judged with the fan-out model the theorems of Props_C17 speak about (Model_C17.update_points): the
             collection is what the shards held before, a shard of an unavailable server is down *)
          let c := map (fun sh => mkShard (os_points sh) (is_up closed sh)) shs in
          let '(c', resp_m) := update_points sc maxsize ps c in
          if err then (108, ref) else
          if negb (store_eqb (union after) (flat c') && counts_ok after) then (101, ref) else
          if negb (ids_eqb (map fst resp) (map fst resp_m)) then (102, ref) else
          if negb (list_eqb N.eqb (map snd resp) (map snd resp_m)) then (103, ref) else
          (0, flat c')
      | _ => (290, ref)
      end
  | (base', SOk _) =>
      let expected := base' ++ rest in
      if err then (108, ref) else
      if negb (store_eqb (union after) expected && counts_ok after) then (101, ref) else
      if negb (ids_eqb (map fst resp) (filter (fun id => negb (st_mem id base)) requested)) then (102, ref) else
      if negb (forallb (fun p => snd p =? (if up then 0 else 1)) resp) then (103, ref) else
      (0, expected)
  end.

Definition judge_insert (sc : schema) (closed : option N) (shs : list oshard) (ref : store)
           (ps : list (uuid * doc)) (err : bool) (failed : N) (after : list oshard) : N * store :=
  let up := forallb (is_up closed) shs in
  if negb up then (292, ref) else         (* the harness inserts only while every server is up *)
  match insert_spec sc ps ref with
  | (_, SErr _) => (290, ref)
  | (ref', SOk _) =>
      if err || negb (failed =? 0) then (108, ref) else
      if negb (store_eqb (union after) ref' && counts_ok after) then (101, ref) else (0, ref')
  end.

Fixpoint judge_ops (sc : schema) (maxsize maxlimit : N) (i : N) (closed : option N) (shs : list oshard)
         (ref : store) (ops : list cop) : N :=
  match ops with
  | [] => 0
  | op :: rest =>
      let continue (c : N) (closed' : option N) (shs' : list oshard) (ref' : store) :=
        if c =? 0 then judge_ops sc maxsize maxlimit (i + 1) closed' shs' ref' rest else c + 1000 * (i + 1) in
      match op with
      | CEntry _ => continue 0 closed shs ref
      | CClose k => continue 0 (Some k) shs ref
      | CInsert ps err failed after =>
          let '(c, ref') := judge_insert sc closed shs ref ps err failed after in continue c closed after ref'
      | CUpdate ps err resp after =>
          let '(c, ref') := judge_write sc maxsize closed shs ref (BUpdate ps) (map fst ps) err resp after in
          continue c closed after ref'
      | CDelete ids err resp after =>
          let '(c, ref') := judge_write sc maxsize closed shs ref (BDelete ids) ids err resp after in
          continue c closed after ref'
      | CSearch r o direct => continue (judge_search sc maxlimit closed shs ref r o direct) closed shs ref
      | CPass r o srows =>
          continue (match o with
                    | QError _ => 108
                    | QRows rows =>
                        (* which of several points at the same distance comes first, or makes the cut of the ranking
                           sub-query, is not determined (these are two separate searches): the hybrid values agree
                           position by position, no point comes twice *)
                        if list_eqb (fun x y => r_hybrid x =? r_hybrid y) rows srows && nodup_ids (map r_id rows)
                        then 0 else 109
                    end) closed shs ref
      end
  end.

Fixpoint resp_eqb (a b : list (uuid * N)) : bool :=
  match a, b with
  | [], [] => true
  | (x, m) :: a', (y, k) :: b' => bytes_eqb x y && (m =? k) && resp_eqb a' b'
  | _, _ => false
  end.

Definition verdict (c : c17case) : N :=
  match c with
  | CHist _ sc maxsize maxlimit ops => judge_ops sc maxsize maxlimit 0 None [] [] ops
  | CLimit limit n maxlimit observed =>
      if per_shard_limit limit n maxlimit =? observed then 0 else 1203
  | CCurate all success is_complete observed =>
      if negb (ids_eqb (map fst observed) (filter (fun id => negb (mem_bytes id success)) all)) then 1102 else
      if negb (forallb (fun p => snd p =? failed_msg is_complete) observed) then 1103 else
      if resp_eqb observed (curate_failed all success is_complete) then 0 else 1204
  | CUnexpected what => if what =? 0 then 0 else 1120 + what
  end.

Fixpoint bad_from (i : N) (cs : list c17case) : list (N * N) :=
  match cs with
  | [] => []
  | c :: r => let v := verdict c in
              if v =? 0 then bad_from (i + 1) r else (i, v) :: bad_from (i + 1) r
  end.
Definition bad (cs : list c17case) : list (N * N) := bad_from 0 cs.
