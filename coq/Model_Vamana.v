(* Model_Vamana.v -- executable mechanism model of shard/index/vamana (greedySearch,
   robustPrune, insertSinglePoint, EdgeScan, pruneDeleteNeighbour, removeInboundEdges,
   insertUpdateDelete, Search) and of DistSet.  Definitions only (shared by C03 and C10).

   Conventions / modelling decisions (all deliberate, see DESIGN.md 4.3 / 4.10):
   * node store and vector store are association lists N -> _ with unique keys
     (ItemCache over a bucket: Get fails on a missing key, GetMany SILENTLY SKIPS missing
     keys, Put overwrites, Delete removes).  [put] conses in front: the enumeration order of
     the stores (Go map iteration in ItemCache.ForEach, random) only decides the order of
     the rescue edges appended to the start node.
   * vectors are abstract ([vec]); [d from to] is the index distance
     (vecStore.DistanceFromFloat q / DistanceFromPoint p).  Distances live in Q.
   * a DistSet element carries its point (id + vector), as in Go.  Cached neighbour points
     (graphNode.neighbours) are assumed coherent with the vector store: the model reads the
     vector at the time a neighbour is offered.  (In the code this holds whenever a node id
     is changed at most once per batch: every inbound edge of an updated point is rebuilt
     from fresh GetMany results before the point is re-inserted.)
   * CONCURRENCY: the NumCPU-1 insert workers of insertUpdateDelete are modelled as SOME
     sequential order of single inserts -- here the queue order, the classification of a
     change seeing the effect of every earlier insert.  Every atomic step of the code
     happens under the node's edge lock, and the invariants proved in Proofs_Vamana.v are
     invariants of each such step.
   * loops that Go writes as index loops are structural recursions; greedySearch recurses
     on explicit fuel (each iteration visits a new element, fuel = number of stored vectors
     + 1 suffices -- proved); out-of-fuel, missing node and missing vector are distinct
     error values. *)
From Coq Require Import List NArith QArith Bool Arith.
Import ListNotations.

Definition START : N := 1.

Inductive error :=
| EFuel                          (* model artefact, proved unreachable *)
| EMissingNode (n : N)           (* nodeStore.Get failed *)
| EMissingVec (n : N)            (* vecStore.Get failed *)
| ESearchSize                    (* searchSize < k *)
| ENoDeletedNeighbour (n : N)    (* pruneDeleteNeighbour: "no neighbours to be deleted" *)
| EBadId (n : N).                (* change for id 0 or the start id *)

Inductive result (A : Type) := Ok (a : A) | Err (e : error).
Arguments Ok {A} a.
Arguments Err {A} e.

Definition bind {A B} (r : result A) (f : A -> result B) : result B :=
  match r with Ok a => f a | Err e => Err e end.

Definition memb (x : N) (l : list N) : bool := existsb (N.eqb x) l.

(* ---- association lists ---- *)
Fixpoint lookup {A} (x : N) (l : list (N * A)) : option A :=
  match l with [] => None | (k, v) :: r => if N.eqb x k then Some v else lookup x r end.
Definition del {A} (x : N) (l : list (N * A)) : list (N * A) :=
  filter (fun p => negb (N.eqb (fst p) x)) l.
Definition put {A} (x : N) (v : A) (l : list (N * A)) : list (N * A) := (x, v) :: del x l.
Definition dels {A} (xs : list N) (l : list (N * A)) : list (N * A) :=
  filter (fun p => negb (memb (fst p) xs)) l.
(* ItemCache.GetMany: missing ids are skipped *)
Definition get_many {A} (ids : list N) (l : list (N * A)) : list (N * A) :=
  flat_map (fun i => match lookup i l with Some v => [(i, v)] | None => [] end) ids.

Fixpoint split_last {A} (l : list A) : option (list A * A) :=
  match l with
  | [] => None
  | x :: r => match split_last r with None => Some ([], x) | Some (p, a) => Some (x :: p, a) end
  end.

Definition Qlt_b (a b : Q) : bool := negb (Qle_bool b a).

Record params := mkParams { pR : nat; pAlpha : Q; pL : nat }.

Section Vamana.
Variable vec : Type.
Variable d : vec -> vec -> Q.

Record graph := mkGraph { edges : list (N * list N); vecs : list (N * vec); maxid : N }.

(* ---- DistSet ---- *)
Record item := mkItem { it_id : N; it_vec : vec; it_d : Q; it_vis : bool; it_pr : bool }.
Record distset := mkDS { items : list item; seen : list N; cap : nat }.
Definition empty_ds (c : nat) : distset := mkDS [] [] c.
Definition ids (l : list item) : list N := map it_id l.

(* "for i := len-1; i > 0 && items[i].Distance < items[i-1].Distance; i-- { swap }":
   [rpre] is the reversed prefix left of the moving element [x], [suf] what it has passed *)
Fixpoint bubble (rpre : list item) (x : item) (suf : list item) : list item :=
  match rpre with
  | [] => x :: suf
  | y :: r => if Qlt_b (it_d x) (it_d y) then bubble r x (y :: suf) else rev_append rpre (x :: suf)
  end.
Definition push_bubble (pre : list item) (x : item) : list item := bubble (rev pre) x [].

(* DistSet.AddWithLimit for one point; [dist] is ds.distFn.  A point seen before is skipped
   (and stays seen); when full and STRICTLY farther than the last: skipped; otherwise
   appended or written over the last element, then bubbled towards the front while
   strictly smaller.  cap = 0: Go indexes items[-1] and panics (limit 0 is rejected by
   validation); the model skips. *)
Definition add_with_limit (dist : vec -> Q) (ds : distset) (p : N * vec) : distset :=
  let '(id, v) := p in
  if memb id (seen ds) then ds else
  let dd := dist v in
  let nw := mkItem id v dd false false in
  let seen' := id :: seen ds in
  let full := Nat.eqb (length (items ds)) (cap ds) in
  match split_last (items ds) with
  | None => if full then mkDS (items ds) seen' (cap ds) else mkDS (push_bubble [] nw) seen' (cap ds)
  | Some (pre, lst) =>
      if full && Qlt_b (it_d lst) dd then mkDS (items ds) seen' (cap ds)
      else if Nat.ltb (length (items ds)) (cap ds) then mkDS (push_bubble (items ds) nw) seen' (cap ds)
      else mkDS (push_bubble pre nw) seen' (cap ds)
  end.
Definition add_all_with_limit (dist : vec -> Q) (ds : distset) (ps : list (N * vec)) : distset :=
  fold_left (add_with_limit dist) ps ds.

(* DistSet.Add: append unless seen; no limit, no ordering *)
Definition add (dist : vec -> Q) (ds : distset) (p : N * vec) : distset :=
  let '(id, v) := p in
  if memb id (seen ds) then ds
  else mkDS (items ds ++ [mkItem id v (dist v) false false]) (id :: seen ds) (cap ds).
Definition add_all (dist : vec -> Q) (ds : distset) (ps : list (N * vec)) : distset :=
  fold_left (add dist) ps ds.

(* DistSet.Sort with sortedUntil = 0 (every set Sort is called on was filled by Add /
   AddAlreadyUnique only): insertion sort, each element bubbled while strictly smaller *)
Definition sort_items (l : list item) : list item := fold_left push_bubble l [].

(* ---- greedySearch ---- *)
Record gstate := mkGS { gs_search : distset; gs_visited : list item; gs_result : option distset }.

(* first unvisited element: (visited prefix, element, rest) *)
Fixpoint split_unvisited (l : list item) : option (list item * item * list item) :=
  match l with
  | [] => None
  | x :: r => if it_vis x then
                match split_unvisited r with
                | Some (p, y, s) => Some (x :: p, y, s)
                | None => None
                end
              else Some ([], x, r)
  end.
Definition set_vis (x : item) : item := mkItem (it_id x) (it_vec x) (it_d x) true (it_pr x).

Inductive gstep := GDone | GNext (st : gstate) | GFail (e : error).

(* one iteration of "for i := 0; i < min(len(searchSet.items), searchSize); { ... i = 0 }":
   the scan for the first unvisited element among the first min(len, searchSize) *)
Definition gs_step (g : graph) (dist : vec -> Q) (Lq : nat) (flt : option (list N)) (st : gstate) : gstep :=
  let S := gs_search st in
  match split_unvisited (firstn Lq (items S)) with
  | None => GDone
  | Some (pre, x, post) =>
      let items' := pre ++ set_vis x :: post ++ skipn Lq (items S) in
      (* visitedSet.AddAlreadyUnique(distElem): the copy taken before the flag is set *)
      let V' := gs_visited st ++ [x] in
      match lookup (it_id x) (edges g) with
      | None => GFail (EMissingNode (it_id x))
      | Some es =>
          (* node.LoadNeighbours = vecStore.GetMany(edges): missing vectors are skipped *)
          let S' := add_all_with_limit dist (mkDS items' (seen S) (cap S)) (get_many es (vecs g)) in
          let rs' := match flt, gs_result st with
                     | Some f, Some r => if memb (it_id x) f
                                         then Some (add_with_limit dist r (it_id x, it_vec x))
                                         else Some r
                     | _, r => r
                     end in
          GNext (mkGS S' V' rs')
      end
  end.

Fixpoint gs_loop (fuel : nat) (g : graph) (dist : vec -> Q) (Lq : nat) (flt : option (list N)) (st : gstate)
  {struct fuel} : result gstate :=
  match gs_step g dist Lq flt st with
  | GDone => Ok st
  | GFail e => Err e
  | GNext st' => match fuel with O => Err EFuel | S f => gs_loop f g dist Lq flt st' end
  end.

(* greedySearch(query, k, searchSize, filter) = (result set, sorted visited set).
   [flt]: the filter bitmap as the list of its members in iteration order (ascending). *)
Definition greedy_search_fuel (fuel : nat) (g : graph) (q : vec) (k Lq : nat) (flt : option (list N))
  : result (distset * list item) :=
  let dist := d q in
  if Nat.ltb Lq k then Err ESearchSize else
  let S0 := empty_ds Lq in
  let '(S1, rs) :=
    match flt with
    | None => (S0, None)
    | Some f => let fps := get_many (firstn Lq f) (vecs g) in
                (add_all dist S0 fps, Some (add_all_with_limit dist (empty_ds k) fps))
    end in
  match lookup START (vecs g) with
  | None => Err (EMissingVec START)
  | Some sv =>
      let S2 := add_with_limit dist S1 (START, sv) in
      match gs_loop fuel g dist Lq flt (mkGS S2 [] rs) with
      | Err e => Err e
      | Ok st => Ok (match gs_result st with Some r => r | None => gs_search st end,
                     sort_items (gs_visited st))
      end
  end.
Definition greedy_search (g : graph) := greedy_search_fuel (S (length (vecs g))) g.

(* ---- robustPrune ---- *)
(* The pruneRemoved flag of a candidate is written by the inner loop ("alpha * d(chosen, n) <
   n.Distance") of every candidate chosen before it and read once, when the candidate's turn
   comes: at that time it is  initial flag || some already chosen c marks it.  [acc] = the
   neighbours added so far (AddNeighbour), which are exactly the chosen candidates. *)
Definition pruned (alpha : Q) (acc : list (N * vec)) (n : item) : bool :=
  it_pr n || existsb (fun c => Qlt_b (alpha * d (snd c) (it_vec n)) (it_d n)) acc.

(* returns the new neighbour list (id, point) of [self].
   The degree test "edgeCount >= DegreeBound -> break" comes AFTER the candidate has been added. *)
Fixpoint rp_loop (P : params) (self : N) (acc : list (N * vec)) (cands : list item) : list (N * vec) :=
  match cands with
  | [] => acc
  | c :: rest =>
      if pruned (pAlpha P) acc c || N.eqb (it_id c) self then rp_loop P self acc rest
      else let acc' := acc ++ [(it_id c, it_vec c)] in
           if Nat.leb (pR P) (length acc') then acc'
           else rp_loop P self acc' rest
  end.
Definition robust_prune (P : params) (self : N) (cands : list item) : list (N * vec) := rp_loop P self [] cands.

(* ---- insertSinglePoint ---- *)
Definition set_edges (g : graph) (x : N) (es : list N) : graph := mkGraph (put x es (edges g)) (vecs g) (maxid g).

(* "for _, nB := range nodeA.neighbours": ask B to add A *)
Definition back_edge (P : params) (id : N) (v : vec) (g : graph) (nb : N * vec) : result graph :=
  let '(nB, vB) := nb in
  match lookup nB (edges g) with
  | None => Err (EMissingNode nB)
  | Some eB =>
      if Nat.ltb (pR P) (length eB + 1) then
        let cs := add (d vB) (add_all (d vB) (empty_ds (length eB + 1)) (get_many eB (vecs g))) (id, v) in
        Ok (set_edges g nB (map fst (robust_prune P nB (sort_items (items cs)))))
      else Ok (set_edges g nB (eB ++ [id]))
  end.

Fixpoint fold_res {A B} (f : A -> B -> result A) (l : list B) (a : A) : result A :=
  match l with [] => Ok a | b :: r => bind (f a b) (fold_res f r) end.

Definition insert_single (P : params) (g : graph) (id : N) (v : vec) : result graph :=
  let g1 := mkGraph (edges g) (put id v (vecs g)) (maxid g) in
  match greedy_search g1 v 1 (pL P) None with
  | Err e => Err e
  | Ok (_, visited) =>
      let eA := robust_prune P id visited in
      fold_res (back_edge P id v) eA (set_edges g1 id (map fst eA))
  end.

(* "if point.Id > v.maxNodeId.Load() { Store }" of the insert classification *)
Definition bump (g : graph) (id : N) : graph := mkGraph (edges g) (vecs g) (N.max (maxid g) id).

(* ---- EdgeScan ---- *)
Definition edge_scan (g : graph) (D : list N) : list N * list N :=
  let valid := filter (fun p => negb (memb (fst p) D)) (edges g) in
  let to_prune := map fst (filter (fun p => existsb (fun t => memb t D) (snd p)) valid) in
  let has_inbound := flat_map snd valid in
  let to_save := filter (fun x => negb (memb x has_inbound) && negb (N.eqb x START)) (map fst valid) in
  (to_prune, to_save).

(* ---- pruneDeleteNeighbour: new edge list of A ---- *)
Definition pdn_edges (P : params) (g : graph) (A : N) (vA : vec) (eA : list N) (D : list N) : result (list N) :=
  let valid0 := filter (fun t => negb (memb t D)) eA in
  let to_expand := filter (fun t => memb t D) eA in
  match to_expand with
  | [] => Err (ENoDeletedNeighbour A)
  | _ =>
      let expanded := get_many to_expand (edges g) in
      let validC := valid0 ++ flat_map (fun p => filter (fun t => negb (memb t D)) (snd p)) expanded in
      (* the candidate set may contain A itself (a deleted neighbour pointing back) *)
      let cs := sort_items (items (add_all (d vA) (empty_ds (length eA * 2)) (get_many validC (vecs g)))) in
      if Nat.ltb (pR P) (length cs) then Ok (map fst (robust_prune P A cs))
      else Ok (map it_id (filter (fun it => negb (N.eqb (it_id it) A)) cs))
  end.

Definition prune_delete_neighbour (P : params) (D : list N) (g : graph) (A : N) : result graph :=
  (* toPrunePoints / toPruneNodes are fetched with GetMany and walked by a common index: a
     missing entry would misalign them (or index out of range); the model reports it *)
  match lookup A (vecs g), lookup A (edges g) with
  | None, _ => Err (EMissingVec A)
  | _, None => Err (EMissingNode A)
  | Some vA, Some eA => bind (pdn_edges P g A vA eA D) (fun es => Ok (set_edges g A es))
  end.

(* startNode.AddNeighbourIfNotExists(point) for every rescued point other than the start node *)
Definition rescue (es : list N) (pts : list (N * vec)) : list N :=
  fold_left (fun es p => if N.eqb (fst p) START then es else if memb (fst p) es then es else es ++ [fst p]) pts es.

(* ---- removeInboundEdges ---- *)
Definition remove_inbound (P : params) (g : graph) (D : list N) : result graph :=
  let '(to_prune, to_save) := edge_scan g D in
  bind (fold_res (prune_delete_neighbour P D) to_prune g) (fun g1 =>
  match to_save with
  | [] => Ok g1
  | _ => match lookup START (edges g1) with
         | None => Err (EMissingNode START)
         | Some es => Ok (set_edges g1 START (rescue es (get_many to_save (vecs g1))))
         end
  end).

(* ---- insertUpdateDelete ---- *)
Record bstate := mkBS { bs_g : graph; bs_upd : list (N * vec); bs_del : list N }.

Definition classify (P : params) (st : bstate) (c : N * option vec) : result bstate :=
  let '(id, ov) := c in
  if N.eqb id START || N.eqb id 0 then Err (EBadId id) else
  match lookup id (vecs (bs_g st)), ov with
  | None, None => Ok st                                                       (* skip *)
  | None, Some v => bind (insert_single P (bump (bs_g st) id) id v)           (* insert *)
                         (fun g' => Ok (mkBS g' (bs_upd st) (bs_del st)))
  | Some _, Some v => Ok (mkBS (bs_g st) (bs_upd st ++ [(id, v)]) (bs_del st))  (* update *)
  | Some _, None => Ok (mkBS (bs_g st) (bs_upd st) (bs_del st ++ [id]))       (* delete *)
  end.

Definition delete_nodes (g : graph) (xs : list N) : graph := mkGraph (dels xs (edges g)) (dels xs (vecs g)) (maxid g).

Definition vamana_batch (P : params) (g : graph) (changes : list (N * option vec)) : result graph :=
  bind (fold_res (classify P) changes (mkBS g [] [])) (fun st =>
  let D := map fst (bs_upd st) ++ bs_del st in
  bind (match D with [] => Ok (bs_g st) | _ => remove_inbound P (bs_g st) D end) (fun g2 =>
  fold_res (fun g c => insert_single P g (fst c) (snd c)) (bs_upd st) (delete_nodes g2 (bs_del st)))).

(* the set of ids carrying a vector after the batch, computed on ids only (mirror of the
   classification): cur = ids present so far, upd / del = ids classified update / delete *)
Fixpoint batch_cls (cur upd dl : list N) (changes : list (N * option vec)) : list N * list N * list N :=
  match changes with
  | [] => (cur, upd, dl)
  | (id, ov) :: r =>
      match memb id cur, ov with
      | false, None => batch_cls cur upd dl r
      | false, Some _ => batch_cls (id :: cur) upd dl r
      | true, Some _ => batch_cls cur (upd ++ [id]) dl r
      | true, None => batch_cls cur upd (dl ++ [id]) r
      end
  end.
Definition batch_live (live : list N) (changes : list (N * option vec)) : list N :=
  let '(cur, upd, dl) := batch_cls live [] [] changes in
  upd ++ filter (fun x => negb (memb x dl)) cur.

(* NewIndexVamana.setupStartNode: first touch creates the entry node with a random unit
   vector [v0] *)
Definition setup_start (v0 : vec) (g : graph) : graph :=
  match lookup START (vecs g) with
  | Some _ => g
  | None => mkGraph (put START [] (edges g)) (put START v0 (vecs g)) (maxid g)
  end.
Definition empty_graph : graph := mkGraph [] [] 0.

Fixpoint run_history (P : params) (v0 : vec) (g : graph) (batches : list (list (N * option vec))) : result graph :=
  match batches with
  | [] => Ok g
  | b :: r => bind (vamana_batch P (setup_start v0 g) b) (fun g' => run_history P v0 g' r)
  end.
Fixpoint history_live (live : list N) (batches : list (list (N * option vec))) : list N :=
  match batches with [] => live | b :: r => history_live (batch_live live b) r end.

(* ---- Search: post-processing ---- *)
Record sres := mkRes { sr_id : N; sr_dist : Q; sr_hybrid : Q }.
Definition post_process (k : nat) (w : Q) (its : list item) : list sres :=
  map (fun it => mkRes (it_id it) (it_d it) (-1 * it_d it * w))
      (firstn k (filter (fun it => negb (N.eqb (it_id it) START)) its)).
Definition search (g : graph) (q : vec) (k Lq : nat) (w : Q) (flt : option (list N)) : result (list sres) :=
  match greedy_search g q k Lq flt with
  | Err e => Err e
  | Ok (rs, _) => Ok (post_process k w (items rs))
  end.

(* ---- well-formedness (C10) ---- *)
Definition dom {A} (l : list (N * A)) : list N := map fst l.

Definition wf (P : params) (g : graph) (live : list N) : Prop :=
  NoDup (dom (edges g)) /\ NoDup (dom (vecs g)) /\
  (forall x, In x (dom (edges g)) <-> x = START \/ In x live) /\
  (forall x, In x (dom (vecs g)) <-> x = START \/ In x live) /\
  (forall x es t, In (x, es) (edges g) -> In t es -> In t (dom (edges g)) /\ t <> x) /\
  (forall x es, In (x, es) (edges g) -> x <> START -> (length es <= pR P)%nat) /\
  (forall x, In x (dom (edges g)) -> x <> START -> (x <= maxid g)%N).

Fixpoint nodupb (l : list N) : bool := match l with [] => true | x :: r => negb (memb x r) && nodupb r end.
Definition subsetb (a b : list N) : bool := forallb (fun x => memb x b) a.

Definition wf_b (P : params) (g : graph) (live : list N) : bool :=
  let nodes := dom (edges g) in
  nodupb nodes && nodupb (dom (vecs g)) &&
  subsetb nodes (START :: live) && subsetb (START :: live) nodes &&
  subsetb (dom (vecs g)) (START :: live) && subsetb (START :: live) (dom (vecs g)) &&
  forallb (fun e => forallb (fun t => memb t nodes && negb (N.eqb t (fst e))) (snd e)) (edges g) &&
  forallb (fun e => N.eqb (fst e) START || Nat.leb (length (snd e)) (pR P)) (edges g) &&
  forallb (fun n => N.eqb n START || N.leb n (maxid g)) nodes.

(* reachability from the entry node *)
Inductive reach (g : graph) : N -> Prop :=
| reach_start : reach g START
| reach_step : forall x es t, reach g x -> lookup x (edges g) = Some es -> In t es -> reach g t.

End Vamana.

Arguments mkGraph {vec}. Arguments edges {vec}. Arguments vecs {vec}. Arguments maxid {vec}.
Arguments mkItem {vec}. Arguments it_id {vec}. Arguments it_vec {vec}. Arguments it_d {vec}.
Arguments it_vis {vec}. Arguments it_pr {vec}.
Arguments mkDS {vec}. Arguments items {vec}. Arguments seen {vec}. Arguments cap {vec}.
Arguments empty_ds {vec}. Arguments ids {vec}. Arguments bubble {vec}. Arguments push_bubble {vec}.
Arguments add_with_limit {vec}. Arguments add_all_with_limit {vec}. Arguments add {vec}. Arguments add_all {vec}.
Arguments sort_items {vec}. Arguments mkGS {vec}. Arguments gs_search {vec}. Arguments gs_visited {vec}.
Arguments gs_result {vec}. Arguments split_unvisited {vec}. Arguments set_vis {vec}.
Arguments GDone {vec}. Arguments GNext {vec}. Arguments GFail {vec}.
Arguments gs_step {vec}. Arguments gs_loop {vec}. Arguments greedy_search_fuel {vec}. Arguments greedy_search {vec}.
Arguments pruned {vec}. Arguments rp_loop {vec}. Arguments robust_prune {vec}.
Arguments set_edges {vec}. Arguments back_edge {vec}. Arguments insert_single {vec}. Arguments bump {vec}.
Arguments edge_scan {vec}. Arguments pdn_edges {vec}. Arguments prune_delete_neighbour {vec}.
Arguments rescue {vec}. Arguments remove_inbound {vec}.
Arguments mkBS {vec}. Arguments bs_g {vec}. Arguments bs_upd {vec}. Arguments bs_del {vec}.
Arguments classify {vec}. Arguments delete_nodes {vec}. Arguments vamana_batch {vec}.
Arguments batch_cls {vec}. Arguments batch_live {vec}. Arguments setup_start {vec}. Arguments empty_graph {vec}.
Arguments run_history {vec}. Arguments history_live {vec}.
Arguments post_process {vec}. Arguments search {vec}.
Arguments wf {vec}. Arguments wf_b {vec}. Arguments reach {vec}.

(* ---- shard/idcounter.go: internal node ids (NextId / FreeId); uint64 overflow not modelled.
   NewIdCounter re-reads the free list through a Go map (any order, duplicates collapsed): the
   invariant below is insensitive to the order. ---- *)
Record idcounter := mkIdc { ic_free : list N; ic_next : N }.
Definition idc_new : idcounter := mkIdc [] 2.
Definition idc_next (c : idcounter) : N * idcounter :=
  match ic_free c with
  | [] => (ic_next c, mkIdc [] (ic_next c + 1))
  | x :: r => (x, mkIdc r (ic_next c))
  end.
Definition idc_free (c : idcounter) (x : N) : idcounter := mkIdc (ic_free c ++ [x]) (ic_next c).
(* [used] = node ids of the live points: no id is twice in use, none is both in use and free,
   all lie in [2, next) *)
Definition idc_inv (c : idcounter) (used : list N) : Prop :=
  NoDup (ic_free c ++ used) /\ (2 <= ic_next c)%N /\
  (forall x, In x (ic_free c ++ used) -> (2 <= x < ic_next c)%N).
