(* Run_C05.v -- verdict for C05: every text query recorded in a history. *)
From Coq Require Import List NArith ZArith QArith Bool.
From Semadb Require Import Bytes Pack Value Obs Dyadic Model_C01 Model_C02 Model_C04 Model_C05.
Import ListNotations.
Open Scope N_scope.

Definition judge_query (sc : schema) (st : step) (rq : request * qout) : N :=
  let '(r, o) := rq in
  match rq_query r with
  | QText prop op terms limit w qfilter =>
      match schema_get prop sc with
      | Some IText =>
          let tk := find_tokens (s_extra st) in
          match corpus prop tk (s_live st),
                match qfilter with None => Some (map fst (s_live st)) | Some f => answer sc (s_lower st) (s_live st) f end with
          | Some c, Some allowed =>
              let uterms := dedup_b terms in
              let matching := filter (fun d => text_matches op uterms d && mem_bytes (td_id d) allowed) c in
              match map_opt (fun d => option_map (fun s => (td_id d, s)) (score_ref uterms c (find_logs (s_extra st)) d)) matching with
              | None => 291
              | Some cands =>
                  match o with
                  | QError _ => 179
                  | QRows rows => let k := text_code limit w cands rows in if k =? 0 then 0 else 170 + k
                  end
              end
          | _, _ => 290
          end
      | _ => 290
      end
  | _ => 0
  end.

Fixpoint first_nonzero (l : list N) : N :=
  match l with [] => 0 | x :: r => if x =? 0 then first_nonzero r else x end.

Fixpoint judge_steps (sc : schema) (i : N) (steps : list step) : N :=
  match steps with
  | [] => 0
  | st :: rest =>
      match s_out st with
      | OCrash _ => 0
      | _ =>
          let c := first_nonzero (map (judge_query sc st) (s_queries st)) in
          if c =? 0 then judge_steps sc (i + 1) rest else c + 1000 * (i + 1)
      end
  end.

Definition verdict (h : hist) : N := judge_steps (h_schema h) 0 (h_steps h).

Fixpoint bad_from (i : N) (cs : list hist) : list (N * N) :=
  match cs with
  | [] => []
  | c :: r => let v := verdict c in
              if v =? 0 then bad_from (i + 1) r else (i, v) :: bad_from (i + 1) r
  end.
Definition bad (cs : list hist) : list (N * N) := bad_from 0 cs.
