(* Model_C05M.v -- mechanism model M of the text index
   (/repo/shard/index/text/text.go), definitions only.

   State of one indexText:
     setCache  term -> roaring set of document ids   (bucket key  t<term>s)
     docCache  id   -> {terms: term -> frequency, length}   (bucket key  d<id LE8>)
     numDocs   uint64                                 (bucket key  _numDocuments)
   Roaring sets are duplicate-free id lists (the order of a list is not
   observable: every statement about them is about membership, NoDup and
   length).  Go maps (Frequencies, Terms, queryTerms) are association lists
   with distinct keys; the iteration order of a Go map is arbitrary, the model
   fixes one, and every theorem of Props_C05.v is about lookups / membership
   only, i.e. invariant under that order.

   Ids are the point ids as byte strings (uuid), the same type Model_C05.v
   uses for td_id; the text index itself sees the uint64 node id, an
   injective renaming of the live points (C01).

   A write: dispatch.go/preProcessText hands Document{Id, Text} with Text = ""
   when the field is absent, removed or the point is deleted; parallelAnalyse
   turns it into (Id, Frequencies, Length = number of tokens).  In the model a
   change is (id, tokens); tokens = [] is Length 0.  The analyser itself is
   outside (the harness calls the same analyser independently). *)
From Coq Require Import List NArith ZArith QArith Qabs Bool Sorted.
From Semadb Require Import Bytes Value Obs Dyadic Model_C01 Model_C02 Model_C04 Model_C05.
Import ListNotations.
Open Scope N_scope.

(* ------------------------- association lists over byte-string keys -------- *)
Fixpoint al_get {V} (k : bytes) (l : list (bytes * V)) : option V :=
  match l with
  | [] => None
  | (k0, v0) :: r => if bytes_eqb k k0 then Some v0 else al_get k r
  end.
(* replace the entry of k, or append a new one *)
Fixpoint al_put {V} (k : bytes) (v : V) (l : list (bytes * V)) : list (bytes * V) :=
  match l with
  | [] => [(k, v)]
  | (k0, v0) :: r => if bytes_eqb k k0 then (k0, v) :: r else (k0, v0) :: al_put k v r
  end.
Definition al_del {V} (k : bytes) (l : list (bytes * V)) : list (bytes * V) :=
  filter (fun kv => negb (bytes_eqb k (fst kv))) l.
Definition al_has {V} (k : bytes) (l : list (bytes * V)) : bool :=
  match al_get k l with Some _ => true | None => false end.

(* ------------------------- id sets (roaring64.Bitmap) --------------------- *)
Definition idset := list uuid.
(* CheckedAdd / CheckedRemove (the returned "changed" flag only drives isDirty) *)
Definition set_add (id : uuid) (s : idset) : idset := if mem_bytes id s then s else id :: s.
Definition set_remove (id : uuid) (s : idset) : idset := filter (fun x => negb (bytes_eqb x id)) s.
(* roaring64.FastAnd / FastOr: of NO sets both are the empty bitmap *)
Definition fast_and (sets : list idset) : idset :=
  match sets with [] => [] | s :: r => fold_left ids_inter r s end.
Definition fast_or (sets : list idset) : idset := fold_left ids_union sets [].
Definition set_is_empty (s : idset) : bool := match s with [] => true | _ => false end.

(* ------------------------- the index state -------------------------------- *)
Definition freqtab := list (bytes * N).                     (* map[string]Term *)
Definition docitem := (freqtab * N)%type.                   (* docCacheItem{Terms, Length} *)
Record tindex := mkTI {
  ti_post : list (bytes * idset);      (* setCache + bucket: term -> set; absent = empty set *)
  ti_docs : list (uuid * docitem);     (* docCache + bucket *)
  ti_num  : N }.                       (* numDocs *)
Definition ti_empty : tindex := mkTI [] [] 0.

(* setCache.Get(term): always an item, empty when the key is absent (ReadFrom) *)
Definition post_get (t : bytes) (p : list (bytes * idset)) : idset :=
  match al_get t p with Some s => s | None => [] end.
Definition post_add (id : uuid) (t : bytes) (p : list (bytes * idset)) : list (bytes * idset) :=
  al_put t (set_add id (post_get t p)) p.
Definition post_remove (id : uuid) (t : bytes) (p : list (bytes * idset)) : list (bytes * idset) :=
  al_put t (set_remove id (post_get t p)) p.

(* parallelAnalyse:  for _, t := range tokens { freq[t.Term]++ } ; Length = len(tokens) *)
Definition tab_get (t : bytes) (m : freqtab) : N := match al_get t m with Some f => f | None => 0 end.
Definition count_terms (toks : list bytes) : freqtab :=
  fold_left (fun m t => al_put t (tab_get t m + 1) m) toks [].

(* numDocs-- on a uint64 *)
Definition u64_dec (n : N) : N := if n =? 0 then 18446744073709551615 else n - 1.
(* numDocs++ : documents are keyed by distinct uint64 node ids, so numDocs <= 2^64 - 1 before any
   increment that the code can reach with a new id; the increment is modelled without wrap *)
Definition u64_inc (n : N) : N := n + 1.

(* processAnalysedDoc: four-way split on (exists, Length == 0) *)
Definition process_doc (st : tindex) (ch : uuid * list bytes) : tindex :=
  let '(id, toks) := ch in
  let fr := count_terms toks in
  let len := N.of_nat (length toks) in
  match al_get id (ti_docs st), len =? 0 with
  | None, true => st                                                          (* skip *)
  | None, false =>                                                            (* insert *)
      mkTI (fold_left (fun p tf => post_add id (fst tf) p) fr (ti_post st))
           (al_put id (fr, len) (ti_docs st))
           (u64_inc (ti_num st))
  | Some (old, _), true =>                                                    (* delete *)
      mkTI (fold_left (fun p tf => post_remove id (fst tf) p) old (ti_post st))
           (al_del id (ti_docs st))
           (u64_dec (ti_num st))
  | Some (old, _), false =>                                                   (* update *)
      let p1 := fold_left (fun p tf => if al_has (fst tf) fr then p else post_remove id (fst tf) p)
                          old (ti_post st) in
      let p2 := fold_left (fun p tf => if al_has (fst tf) old then p else post_add id (fst tf) p)
                          fr p1 in
      mkTI p2 (al_put id (fr, len) (ti_docs st)) (ti_num st)
  end.

(* flush: setCacheItem.WriteTo deletes the key of an empty set *)
Definition flush (st : tindex) : tindex :=
  mkTI (filter (fun kv => negb (set_is_empty (snd kv))) (ti_post st)) (ti_docs st) (ti_num st).

(* InsertUpdateDelete: one batch of changes, then flush *)
Definition batch_c := list (uuid * list bytes).
Definition apply_batch (st : tindex) (b : batch_c) : tindex := flush (fold_left process_doc b st).
Definition run_hist (h : list batch_c) : tindex := fold_left apply_batch h ti_empty.

(* ------------------------- Search ------------------------------------------ *)
(* queryTerms := set of the analysed query tokens; sets per term; FastAnd / FastOr; filter *)
Definition term_sets (uterms : list bytes) (st : tindex) : list idset :=
  map (fun t => post_get t (ti_post st)) uterms.
Definition matchM (op : N) (terms : list bytes) (filt : option idset) (st : tindex) : idset :=
  let sets := term_sets (dedup_b terms) st in
  let fs := if op =? OP_ALL then fast_and sets else fast_or sets in
  match filt with None => fs | Some f => ids_inter fs f end.

(* the integers that enter the score of document id, one tuple per distinct query term:
   (frequency of t in the document, document length, numDocs, cardinality of the set of t).
   None = docCache.Get fails (Search returns an error) *)
Definition comps_of (st : tindex) (uterms : list bytes) (id : uuid) : option (list (N * N * N * N)) :=
  match al_get id (ti_docs st) with
  | None => None
  | Some (fr, len) =>
      Some (map (fun t => (tab_get t fr, len, ti_num st, N.of_nat (length (post_get t (ti_post st))))) uterms)
  end.

(* the tf-idf formula on those integers, exact in Q, the logarithm taken from a table
   (same shape as Model_C05.score_ref) *)
Definition score_comps (logs : list (N * N * N)) (cs : list (N * N * N * N)) : option Q :=
  fold_right (fun c acc =>
                let '(f, len, n, df) := c in
                match acc, log_of n df logs with
                | Some a, Some l => Some (a + (Qmake (Z.of_N f) (Z.to_pos (Z.of_N len))) * l)%Q
                | _, _ => None
                end) (Some 0%Q) cs.

(* slices.SortFunc is not stable: [srt] is ANY function; the theorems assume it
   returns a sorted permutation.  If more than limit results: keep the first
   limit and rebuild the set from them.  Result: (finalSet, results). *)
Definition searchM (srt : list uuid -> list uuid) (op : N) (terms : list bytes) (filt : option idset)
           (limit : N) (st : tindex) : idset * list uuid :=
  let m := matchM op terms filt st in
  let res := srt m in
  if limit <? N.of_nat (length res)
  then let kept := firstn (N.to_nat limit) res in (fold_left (fun s id => set_add id s) kept [], kept)
  else (m, res).

(* ------------------------- the corpus of a history ------------------------- *)
(* the last change of every id; [] = never written, blanked, removed or deleted *)
Definition cur_tokens (h : list batch_c) (id : uuid) : list bytes :=
  match al_get id (rev (concat h)) with Some toks => toks | None => [] end.
(* c lists exactly the ids whose current token list is non-empty, once each *)
Definition corpus_rep (c : list tdoc) (tok : uuid -> list bytes) : Prop :=
  NoDup (map td_id c) /\
  forall id toks, In (mkTdoc id toks) c <-> (toks <> [] /\ tok id = toks).
Definition corpus_of_hist (h : list batch_c) : list tdoc :=
  flat_map (fun id => match cur_tokens h id with [] => [] | _ => [mkTdoc id (cur_tokens h id)] end)
           (dedup_b (map fst (concat h))).
Fixpoint find_doc (id : uuid) (c : list tdoc) : option tdoc :=
  match c with [] => None | d :: r => if bytes_eqb id (td_id d) then Some d else find_doc id r end.

(* ------------------------- specification-level vocabulary of Props_C05.v --- *)
(* allowed: the id list the spec side (Run_C05.judge_query) intersects with *)
Definition allowed_ok (filt : option idset) (allowed : list uuid) (c : list tdoc) : Prop :=
  match filt with
  | Some f => forall x, mem_bytes x allowed = mem_bytes x f
  | None => forall d, In d c -> mem_bytes (td_id d) allowed = true
  end.

(* non-increasing score order *)
Definition score_ge (score : uuid -> Q) (a b : uuid) : Prop := (score b <= score a)%Q.

(* the tokens the live store gives to every id: the text at [path] analysed through the table [tk]
   (absent point, absent / non-string field, text missing from the table: no tokens) *)
Definition live_tokens (path : bytes) (tk : list (bytes * list bytes)) (live : store) (id : uuid) : list bytes :=
  match st_get id live with
  | Some d => match prop_value path d with
              | QFound (VStr s) => match tokens_of s tk with Some toks => toks | None => [] end
              | _ => []
              end
  | None => []
  end.

Local Open Scope Q_scope.
(* |a - b| <= tol * max(1, |b|) *)
Definition close_rel (tol a b : Q) : Prop :=
  (1 <= Qabs b /\ Qabs (a - b) <= tol * Qabs b) \/ (Qabs b <= 1 /\ Qabs (a - b) <= tol).
Definition row_ok (tol : Q) (cands : list (uuid * Q)) (r : row) : Prop :=
  exists s b, In (r_id r, s) cands /\ r_score r = Some b /\ f32_finite b = true /\
              close_rel tol (f32_to_Q b) s.

(* what code 0 of text_code means *)
Definition text_rows_spec (limit : N) (w : option N) (cands : list (uuid * Q)) (rows : list row) : Prop :=
  NoDup (map r_id rows) /\
  (forall r, In r rows -> row_ok (1 # 10000) cands r) /\
  length rows = Nat.min (N.to_nat limit) (length cands) /\
  (exists ss, map row_score rows = map Some ss /\
              StronglySorted (fun a b => b <= a) ss /\
              forall c, In c cands -> ~ In (fst c) (map r_id rows) ->
                        forall x, In x ss -> snd c <= x + (1 # 10000) * (1 + Qabs x)) /\
  (forall r x, In r rows -> row_score r = Some x ->
               close_rel (1 # 1000000) (f32_to_Q (r_hybrid r)) (weight_q w * x)) /\
  (forall r, In r rows -> r_dist r = None).
