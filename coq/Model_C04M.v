(* Model_C04M.v -- mechanism model of the flat vector search (definitions only).

   (a) shard/index/flat/flat.go, IndexFlat.Search: the bounded insertion that
       is folded over the vector store in the (arbitrary) order in which
       ItemCache.ForEach enumerates a Go map;
   (b) shard/cache/itemcache.go, ItemCache.ForEach: which ids are enumerated,
       from the bucket keys through Storable.IdFromKey merged with the cache;
   (c) shard/vectorstore/{plain,binary,product}.go: which keys a stored point
       occupies in the bucket of its vector store.

   The relational specification (what an exact k-nearest selection is) is
   `ksel` below; the coded checker used on observations of the real code is
   `ksel_code` of Model_C04.v. *)
From Coq Require Import List NArith ZArith QArith Bool Arith Sorted Permutation.
From Semadb Require Import Bytes U64 KeyLayout Model_C19.
Import ListNotations.

(* ------------------------------------------------------------------------ *)
(* (a) the bounded insertion                                                 *)
(* ------------------------------------------------------------------------ *)

Section Fold.
  Context {A : Type}.
  Variable d : A -> Q.        (* distFn(point); NaN is outside the property *)

  (* The slice `res` is kept REVERSED: the head of the list is res[len(res)-1]
     (the worst result so far), the last element of the list is res[0].  Every
     operation of flat.go touches the end of the slice, i.e. the head here.

        for i := len(res)-1; i > 0 && *res[i].Distance < *res[i-1].Distance; i-- { swap(res[i], res[i-1]) }

     `bubble_rev r x` = the slice r with x appended, after that loop: x moves
     towards the front while it is STRICTLY smaller than its predecessor y
     (it stops as soon as d y <= d x). *)
  Fixpoint bubble_rev (r : list A) (x : A) : list A :=
    match r with
    | [] => [x]
    | y :: r' => if Qle_bool (d y) (d x) then x :: y :: r' else y :: bubble_rev r' x
    end.

  (* One call of the closure passed to ForEach, for a point that passed the
     filter.  cap(res) = limit throughout (append below capacity never
     reallocates).  None = run-time panic.

        if len(res) == cap(res) && dist >= *res[len(res)-1].Distance { return nil }
        if len(res) < cap(res) { res = append(res, sr) } else { res[len(res)-1] = sr }
        bubble

     With limit = 0: len(res) == cap(res) holds for the empty slice and the
     second operand indexes res[-1]: index out of range. *)
  Definition flat_step (limit : nat) (r : list A) (x : A) : option (list A) :=
    if (length r =? limit)%nat then
      match r with
      | [] => None
      | w :: r' => if Qle_bool (d w) (d x) then Some r          (* skip *)
                   else Some (bubble_rev r' x)                   (* overwrite the last, bubble *)
      end
    else Some (bubble_rev r x).                                  (* append, bubble *)

  Fixpoint flat_run_rev (limit : nat) (r : list A) (order : list A) : option (list A) :=
    match order with
    | [] => Some r
    | x :: o => match flat_step limit r x with
                | Some r' => flat_run_rev limit r' o
                | None => None
                end
    end.

  (* the slice returned by Search, front first; None = panic *)
  Definition flat_run (limit : nat) (order : list A) : option (list A) :=
    option_map (@rev A) (flat_run_rev limit [] order).

  Definition flat_fold (limit : nat) (order : list A) : list A :=
    match flat_run limit order with Some l => l | None => [] end.

  (* `if filter != nil && !filter.Contains(point.Id()) { return nil }` comes first *)
  Definition flat_search (keep : A -> bool) (limit : nat) (order : list A) : option (list A) :=
    flat_run limit (filter keep order).
End Fold.

(* ---------- the relational specification: an exact k-smallest selection ---------- *)

Definition nondecreasing (l : list Q) : Prop := StronglySorted Qle l.

(* ties are free: any res with these five properties is a right answer *)
Definition ksel {A I : Type} (id : A -> I) (d : A -> Q) (k : nat) (cands res : list A) : Prop :=
  NoDup (map id res) /\
  incl res cands /\
  length res = Nat.min k (length cands) /\
  nondecreasing (map d res) /\
  (forall c, In c cands -> ~ In c res -> forall r, In r res -> (d r <= d c)%Q).

(* the same, with the candidates that were left out named explicitly *)
Definition ksel_split {A : Type} (d : A -> Q) (k : nat) (cands res : list A) : Prop :=
  exists dropped,
    Permutation cands (res ++ dropped) /\
    length res = Nat.min k (length cands) /\
    nondecreasing (map d res) /\
    (forall r c, In r res -> In c dropped -> (d r <= d c)%Q).

(* ------------------------------------------------------------------------ *)
(* (b) ItemCache.ForEach: which ids are enumerated                           *)
(* ------------------------------------------------------------------------ *)

(* Storable.IdFromKey as a list of accepted key suffixes:
     plainPoint, productQuantizedPoint:  NodeIdFromKey(key, 'v')
     binaryQuantizedPoint:               NodeIdFromKey(key, s) for s in bq_idfromkey_suffixes (generated) *)
Fixpoint id_from_key (accepted : list N) (key : bytes) : option N :=
  match accepted with
  | [] => None
  | s :: r => match node_id_from_key key s with Some id => Some id | None => id_from_key r key end
  end.

(* the bucket.ForEach part: for every key, in bucket order, IdFromKey; skip if
   the id is already in ic.items (`have`), otherwise read it (which puts it
   into ic.items).  Returns the ids read, in order. *)
Fixpoint scan_ids (accepted : list N) (have : list N) (keys : list bytes) : list N :=
  match keys with
  | [] => []
  | k :: r =>
      match id_from_key accepted k with
      | Some id => if existsb (N.eqb id) have then scan_ids accepted have r
                   else id :: scan_ids accepted (id :: have) r
      | None => scan_ids accepted have r
      end
  end.

(* a cache entry: value and IsDeleted (IsDirty plays no role in ForEach) *)
Record centry (V : Type) := mkCE { ce_val : V; ce_deleted : bool }.
Arguments mkCE {V}. Arguments ce_val {V}. Arguments ce_deleted {V}.
Definition cache (V : Type) := list (N * centry V).      (* ic.items; keys pairwise distinct *)

Definition cache_ids {V} (c : cache V) : list N := map fst c.
Definition live_items {V} (c : cache V) : list (N * V) :=
  flat_map (fun e : N * centry V => if ce_deleted (snd e) then [] else [(fst e, ce_val (snd e))]) c.

(* ids handed to fn by ForEach when isAllInCache is false: the cached entries
   that are not deleted, and the ids scanned from the bucket.  The real order
   is that of a Go map range: any permutation of this list. *)
Definition enum_ids_cache {V} (accepted : list N) (keys : list bytes) (c : cache V) : list N :=
  map fst (live_items c) ++ scan_ids accepted (cache_ids c) keys.

(* over an empty cache (cold) *)
Definition enum_ids (accepted : list N) (keys : list bytes) : list N := scan_ids accepted [] keys.

(* with values: `read` is Storable.ReadFrom on the current bucket; a failing
   read (cache.ErrNotFound included) aborts ForEach with an error = None *)
Fixpoint read_all {V} (read : N -> option V) (ids : list N) : option (list (N * V)) :=
  match ids with
  | [] => Some []
  | id :: r => match read id, read_all read r with
               | Some v, Some l => Some ((id, v) :: l)
               | _, _ => None
               end
  end.

Definition enum_items {V} (accepted : list N) (read : N -> option V) (keys : list bytes) (c : cache V)
  : option (list (N * V)) :=
  match read_all read (scan_ids accepted (cache_ids c) keys) with
  | Some new => Some (live_items c ++ new)
  | None => None
  end.

(* ------------------------------------------------------------------------ *)
(* (c) the keys a stored point occupies                                      *)
(* ------------------------------------------------------------------------ *)

Definition suf_v : N := 118.   (* 'v' full float32 vector *)
Definition suf_q : N := 113.   (* 'q' quantised code *)

(* plainPoint.WriteTo: 'v' *)
Definition plain_keys (ids : list N) : list bytes := map (fun id => node_key id suf_v) ids.

(* productQuantizedPoint.WriteTo: 'v' always (every written point carries its
   vector), 'q' as well once the point has centroid ids *)
Definition product_keys (items : list (N * bool)) : list bytes :=
  flat_map (fun it : N * bool => if snd it then [node_key (fst it) suf_q; node_key (fst it) suf_v]
                      else [node_key (fst it) suf_v]) items.

(* binaryQuantizedPoint.WriteTo: 'q' only if the point has a binary vector,
   else 'v'.  A point flushed before the threshold was learned and re-encoded
   by Fit keeps its old 'v' key next to the new 'q' key. *)
Inductive bq_keys := BQ_v | BQ_q | BQ_qv.
Definition binary_keys (items : list (N * bq_keys)) : list bytes :=
  flat_map (fun it : N * bq_keys => match snd it with
                      | BQ_v => [node_key (fst it) suf_v]
                      | BQ_q => [node_key (fst it) suf_q]
                      | BQ_qv => [node_key (fst it) suf_q; node_key (fst it) suf_v]
                      end) items.

(* IdFromKey of the pinned tree (before commit 02e68e0, defect F3) *)
Definition bq_idfromkey_suffixes_v0 : list N := [suf_v].

(* ---------- the key-level state machine of a vector store ---------- *)

(* what a cached point carries / what is in the bucket, per id *)
Record kentry := mkKE { ke_deleted : bool; ke_dirty : bool; ke_vec : bool; ke_code : bool }.
Record kstate := mkKS {
  ks_cache : list (N * kentry);          (* ic.items *)
  ks_bucket : list (N * N);              (* node keys present: (id, suffix) *)
  ks_trained : bool }.                   (* threshold / centroids present *)

Inductive kstore := KPlain | KBinary | KProduct.

Definition kcache_get (id : N) (c : list (N * kentry)) : option kentry :=
  option_map snd (find (fun e : N * kentry => N.eqb (fst e) id) c).
Definition kcache_set (id : N) (e : kentry) (c : list (N * kentry)) : list (N * kentry) :=
  (id, e) :: filter (fun x : N * kentry => negb (N.eqb (fst x) id)) c.
Definition bucket_has (b : list (N * N)) (id s : N) : bool :=
  existsb (fun k : N * N => N.eqb (fst k) id && N.eqb (snd k) s) b.
Definition bucket_add (b : list (N * N)) (id s : N) : list (N * N) :=
  if bucket_has b id s then b else (id, s) :: b.
Definition bucket_del (b : list (N * N)) (id : N) : list (N * N) :=
  filter (fun k : N * N => negb (N.eqb (fst k) id)) b.

(* ReadFrom: 'q' first, then 'v' (binary, product); 'v' (plain) *)
Definition kread (st : kstore) (b : list (N * N)) (id : N) : option kentry :=
  match st with
  | KPlain => if bucket_has b id suf_v then Some (mkKE false false true false) else None
  | _ => if bucket_has b id suf_q then Some (mkKE false false false true)
         else if bucket_has b id suf_v then Some (mkKE false false true false) else None
  end.

(* WriteTo *)
Definition kwrite (st : kstore) (b : list (N * N)) (id : N) (e : kentry) : list (N * N) :=
  match st with
  | KPlain => bucket_add b id suf_v
  | KBinary => if ke_code e then bucket_add b id suf_q
               else if ke_vec e then bucket_add b id suf_v else b
  | KProduct => let b1 := if ke_vec e then bucket_add b id suf_v else b in
                if ke_code e then bucket_add b1 id suf_q else b1
  end.

Inductive kop :=
| KSet (id : N)        (* Set(id, vector): Put a dirty point; encoded iff the quantiser is trained *)
| KDelete (id : N)     (* Delete(id) *)
| KFit                 (* Fit() when the trigger is reached: load all, train, re-encode, mark dirty *)
| KFlush               (* Flush() *)
| KDrop.               (* the cache is dropped (eviction, reopen); only legal when nothing is dirty *)

Definition kaccepted (st : kstore) (bq : list N) : list N :=
  match st with KBinary => bq | _ => [suf_v] end.

(* ids IdFromKey yields over the bucket that are not cached yet, first occurrence wins *)
Fixpoint kscan (acc : list N) (have : list N) (b : list (N * N)) : list N :=
  match b with
  | [] => []
  | (id, s) :: r => if existsb (N.eqb s) acc && negb (existsb (N.eqb id) have)
                    then id :: kscan acc (id :: have) r else kscan acc have r
  end.

(* ForEach: load what the scan finds, then visit the non-deleted entries.
   (The isAllInCache flag is not modelled: it only skips a scan that would find
   nothing new, as long as the bucket is written through this cache only; that
   is the cache invariant of C08.) *)
Definition kload (st : kstore) (bq : list N) (s : kstate) : list (N * kentry) :=
  ks_cache s ++
  flat_map (fun id => match kread st (ks_bucket s) id with Some e => [(id, e)] | None => [] end)
           (kscan (kaccepted st bq) (map fst (ks_cache s)) (ks_bucket s)).
Definition kenum (st : kstore) (bq : list N) (s : kstate) : list N :=
  map fst (filter (fun e : N * kentry => negb (ke_deleted (snd e))) (kload st bq s)).

Definition kflush (st : kstore) (s : kstate) : kstate :=
  let b := fold_left (fun (b : list (N * N)) (e : N * kentry) =>
             if ke_deleted (snd e) then bucket_del b (fst e)
             else if ke_dirty (snd e) then kwrite st b (fst e) (snd e) else b) (ks_cache s) (ks_bucket s) in
  let c := flat_map (fun e : N * kentry => if ke_deleted (snd e) then []
                              else [(fst e, mkKE false false (ke_vec (snd e)) (ke_code (snd e)))]) (ks_cache s) in
  mkKS c b (ks_trained s).

Definition kstep (st : kstore) (bq : list N) (s : kstate) (o : kop) : kstate :=
  match o with
  | KSet id =>
      let coded := match st with KPlain => false | _ => ks_trained s end in
      mkKS (kcache_set id (mkKE false true true coded) (ks_cache s)) (ks_bucket s) (ks_trained s)
  | KDelete id =>
      match kcache_get id (ks_cache s) with
      | Some e => mkKS (kcache_set id (mkKE true (ke_dirty e) (ke_vec e) (ke_code e)) (ks_cache s))
                       (ks_bucket s) (ks_trained s)
      | None => match kread st (ks_bucket s) id with
                | Some e => mkKS (kcache_set id (mkKE true false (ke_vec e) (ke_code e)) (ks_cache s))
                                 (ks_bucket s) (ks_trained s)
                | None => s
                end
      end
  | KFit =>
      match st with
      | KPlain => s
      | _ => if ks_trained s then s else
             (* binary: BinaryVector = encode(point.Vector), empty if the vector was not loaded;
                product: CentroidIds = make([]uint8, NumSubVectors) *)
             mkKS (map (fun e : N * kentry => if ke_deleted (snd e) then e
                                 else (fst e, mkKE false true (ke_vec (snd e))
                                                   (match st with KBinary => ke_vec (snd e) | _ => true end)))
                       (kload st bq s))
                  (ks_bucket s) true
      end
  | KFlush => kflush st s
  | KDrop => if existsb (fun e : N * kentry => ke_dirty (snd e) || ke_deleted (snd e)) (ks_cache s) then s
             else mkKS [] (ks_bucket s) (ks_trained s)
  end.

Definition krun (st : kstore) (bq : list N) (s : kstate) (ops : list kop) : kstate :=
  fold_left (kstep st bq) ops s.

(* the abstract content: ids set and not deleted since *)
Fixpoint klive (ops : list kop) (acc : list N) : list N :=
  match ops with
  | [] => acc
  | KSet id :: r => klive r (if existsb (N.eqb id) acc then acc else id :: acc)
  | KDelete id :: r => klive r (filter (fun x => negb (N.eqb x id)) acc)
  | _ :: r => klive r acc
  end.

Definition kstate0 (trained : bool) : kstate := mkKS [] [] trained.
