(* Model_C04M.v -- mechanism model of the flat vector search (definitions only).

   (a) shard/index/flat/flat.go, IndexFlat.Search: the bounded insertion that
       is folded over the vector store in the (arbitrary) order in which
       ItemCache.ForEach enumerates a Go map;
   (b) shard/cache/itemcache.go, ItemCache.ForEach: which ids are enumerated,
       from the bucket keys through Storable.IdFromKey merged with the cache;
   (c) shard/vectorstore/{plain,binary,product}.go: which keys a stored point
       occupies in the bucket of its vector store.

   The relational specification (what an exact k-nearest selection is) is
   `ksel` below; the coded checker used on observations of the real code is
   `ksel_code` of Model_C04.v. *)
From Coq Require Import List NArith ZArith QArith Bool Arith Sorted Permutation.
From Semadb Require Import Bytes U64 KeyLayout Model_C19 Value Obs Dyadic Model_C01 Model_C02 Model_C04.
Import ListNotations.

(* ------------------------------------------------------------------------ *)
(* (a) the bounded insertion                                                 *)
(* ------------------------------------------------------------------------ *)

Section Fold.
  Context {A : Type}.
  Variable d : A -> Q.        (* distFn(point); NaN is outside the property *)

  (* The slice `res` is kept REVERSED: the head of the list is res[len(res)-1]
     (the worst result so far), the last element of the list is res[0].  Every
     operation of flat.go touches the end of the slice, i.e. the head here.

        for i := len(res)-1; i > 0 && *res[i].Distance < *res[i-1].Distance; i-- { swap(res[i], res[i-1]) }

     `bubble_rev r x` = the slice r with x appended, after that loop: x moves
     towards the front while it is STRICTLY smaller than its predecessor y
     (it stops as soon as d y <= d x). *)
  Fixpoint bubble_rev (r : list A) (x : A) : list A :=
    match r with
    | [] => [x]
    | y :: r' => if Qle_bool (d y) (d x) then x :: y :: r' else y :: bubble_rev r' x
    end.

  (* One call of the closure passed to ForEach, for a point that passed the
     filter.  cap(res) = limit throughout (append below capacity never
     reallocates).  None = run-time panic.

        if len(res) == cap(res) && dist >= *res[len(res)-1].Distance { return nil }
        if len(res) < cap(res) { res = append(res, sr) } else { res[len(res)-1] = sr }
        bubble

     With limit = 0: len(res) == cap(res) holds for the empty slice and the
     second operand indexes res[-1]: index out of range. *)
  Definition flat_step (limit : nat) (r : list A) (x : A) : option (list A) :=
    if (length r =? limit)%nat then
      match r with
      | [] => None
      | w :: r' => if Qle_bool (d w) (d x) then Some r          (* skip *)
                   else Some (bubble_rev r' x)                   (* overwrite the last, bubble *)
      end
    else Some (bubble_rev r x).                                  (* append, bubble *)

  Fixpoint flat_run_rev (limit : nat) (r : list A) (order : list A) : option (list A) :=
    match order with
    | [] => Some r
    | x :: o => match flat_step limit r x with
                | Some r' => flat_run_rev limit r' o
                | None => None
                end
    end.

  (* the slice returned by Search, front first; None = panic *)
  Definition flat_run (limit : nat) (order : list A) : option (list A) :=
    option_map (@rev A) (flat_run_rev limit [] order).

  Definition flat_fold (limit : nat) (order : list A) : list A :=
    match flat_run limit order with Some l => l | None => [] end.

  (* `if filter != nil && !filter.Contains(point.Id()) { return nil }` comes first *)
  Definition flat_search (keep : A -> bool) (limit : nat) (order : list A) : option (list A) :=
    flat_run limit (filter keep order).
End Fold.

(* ---------- the relational specification: an exact k-smallest selection ---------- *)

Definition nondecreasing (l : list Q) : Prop := StronglySorted Qle l.

(* ties are free: any res with these five properties is a right answer *)
Definition ksel {A I : Type} (id : A -> I) (d : A -> Q) (k : nat) (cands res : list A) : Prop :=
  NoDup (map id res) /\
  incl res cands /\
  length res = Nat.min k (length cands) /\
  nondecreasing (map d res) /\
  (forall c, In c cands -> ~ In c res -> forall r, In r res -> (d r <= d c)%Q).

(* the same, with the candidates that were left out named explicitly *)
Definition ksel_split {A : Type} (d : A -> Q) (k : nat) (cands res : list A) : Prop :=
  exists dropped,
    Permutation cands (res ++ dropped) /\
    length res = Nat.min k (length cands) /\
    nondecreasing (map d res) /\
    (forall r c, In r res -> In c dropped -> (d r <= d c)%Q).


(* ---------- what the coded checker `ksel_code` of Model_C04.v guarantees ---------- *)

(* the distances of the rows that have one *)
Definition row_dists (rows : list row) : list Q :=
  flat_map (fun r => match row_dist r with Some d => [d] | None => [] end) rows.

(* what verdict 0 of ksel_code guarantees about the reported rows *)
Definition rows_ksel (k : N) (cs : list cand) (rows : list row) : Prop :=
  (* no id twice *)
  NoDup (map r_id rows) /\
  (* every row is a candidate and reports a non-NaN distance that the candidate's judgement accepts *)
  (forall r, In r rows -> exists c q, In c cs /\ c_id c = r_id r /\ find_cand (r_id r) cs = Some c /\
                                   row_dist r = Some q /\ dist_ok c q = true) /\
  (* as many rows as the limit allows *)
  N.of_nat (length rows) = N.min k (N.of_nat (length cs)) /\
  (* in non-decreasing distance order *)
  nondecreasing (row_dists rows) /\
  (* no exactly-judged candidate that was left out is strictly closer than a reported row *)
  (forall c q, In c cs -> ~ In (c_id c) (map r_id rows) -> c_spec c = DExact q ->
               forall r dr, In r rows -> row_dist r = Some dr -> (dr <= q)%Q).

(* link with `ksel` when every candidate is judged exactly *)
Definition cand_q (c : cand) : Q := match c_spec c with DExact q => q | _ => 0%Q end.
Definition all_exact (cs : list cand) : Prop := forall c, In c cs -> exists q, c_spec c = DExact q.
(* the candidates the rows name *)
Definition sel_of (cs : list cand) (rows : list row) : list cand :=
  flat_map (fun r => match find_cand (r_id r) cs with Some c => [c] | None => [] end) rows.
Definition row_matches (cs : list cand) (c : cand) (r : row) : Prop :=
  In c cs /\ c_id c = r_id r /\ exists q, row_dist r = Some q /\ (q == cand_q c)%Q.


(* ------------------------------------------------------------------------ *)
(* (b) ItemCache.ForEach: which ids are enumerated                           *)
(* ------------------------------------------------------------------------ *)

(* Storable.IdFromKey as a list of accepted key suffixes:
     plainPoint, productQuantizedPoint:  NodeIdFromKey(key, 'v')
     binaryQuantizedPoint:               NodeIdFromKey(key, s) for s in bq_idfromkey_suffixes (generated) *)
Fixpoint id_from_key (accepted : list N) (key : bytes) : option N :=
  match accepted with
  | [] => None
  | s :: r => match node_id_from_key key s with Some id => Some id | None => id_from_key r key end
  end.

(* the bucket.ForEach part: for every key, in bucket order, IdFromKey; skip if
   the id is already in ic.items (`have`), otherwise read it (which puts it
   into ic.items).  Returns the ids read, in order. *)
Fixpoint scan_ids (accepted : list N) (have : list N) (keys : list bytes) : list N :=
  match keys with
  | [] => []
  | k :: r =>
      match id_from_key accepted k with
      | Some id => if existsb (N.eqb id) have then scan_ids accepted have r
                   else id :: scan_ids accepted (id :: have) r
      | None => scan_ids accepted have r
      end
  end.

(* a cache entry: value and IsDeleted (IsDirty plays no role in ForEach) *)
Record centry (V : Type) := mkCE { ce_val : V; ce_deleted : bool }.
Arguments mkCE {V}. Arguments ce_val {V}. Arguments ce_deleted {V}.
Definition cache (V : Type) := list (N * centry V).      (* ic.items; keys pairwise distinct *)

Definition cache_ids {V} (c : cache V) : list N := map fst c.
Definition live_items {V} (c : cache V) : list (N * V) :=
  flat_map (fun e : N * centry V => if ce_deleted (snd e) then [] else [(fst e, ce_val (snd e))]) c.

(* ids handed to fn by ForEach when isAllInCache is false: the cached entries
   that are not deleted, and the ids scanned from the bucket.  The real order
   is that of a Go map range: any permutation of this list. *)
Definition enum_ids_cache {V} (accepted : list N) (keys : list bytes) (c : cache V) : list N :=
  map fst (live_items c) ++ scan_ids accepted (cache_ids c) keys.

(* over an empty cache (cold) *)
Definition enum_ids (accepted : list N) (keys : list bytes) : list N := scan_ids accepted [] keys.

(* with values: `read` is Storable.ReadFrom on the current bucket; a failing
   read (cache.ErrNotFound included) aborts ForEach with an error = None *)
Fixpoint read_all {V} (read : N -> option V) (ids : list N) : option (list (N * V)) :=
  match ids with
  | [] => Some []
  | id :: r => match read id, read_all read r with
               | Some v, Some l => Some ((id, v) :: l)
               | _, _ => None
               end
  end.

Definition enum_items {V} (accepted : list N) (read : N -> option V) (keys : list bytes) (c : cache V)
  : option (list (N * V)) :=
  match read_all read (scan_ids accepted (cache_ids c) keys) with
  | Some new => Some (live_items c ++ new)
  | None => None
  end.

(* ------------------------------------------------------------------------ *)
(* (c) the keys a stored point occupies                                      *)
(* ------------------------------------------------------------------------ *)

Definition suf_v : N := 118.   (* 'v' full float32 vector *)
Definition suf_q : N := 113.   (* 'q' quantised code *)

(* plainPoint.WriteTo: 'v' *)
Definition plain_keys (ids : list N) : list bytes := map (fun id => node_key id suf_v) ids.

(* productQuantizedPoint.WriteTo: 'v' always (every written point carries its
   vector), 'q' as well once the point has centroid ids *)
Definition product_keys (items : list (N * bool)) : list bytes :=
  flat_map (fun it : N * bool => if snd it then [node_key (fst it) suf_q; node_key (fst it) suf_v]
                      else [node_key (fst it) suf_v]) items.

(* binaryQuantizedPoint.WriteTo: 'q' only if the point has a binary vector,
   else 'v'.  A point flushed before the threshold was learned and re-encoded
   by Fit keeps its old 'v' key next to the new 'q' key. *)
Inductive bq_keys := BQ_v | BQ_q | BQ_qv.
Definition binary_keys (items : list (N * bq_keys)) : list bytes :=
  flat_map (fun it : N * bq_keys => match snd it with
                      | BQ_v => [node_key (fst it) suf_v]
                      | BQ_q => [node_key (fst it) suf_q]
                      | BQ_qv => [node_key (fst it) suf_q; node_key (fst it) suf_v]
                      end) items.

(* IdFromKey of the pinned tree (before commit 02e68e0, defect F3) *)
Definition bq_idfromkey_suffixes_v0 : list N := [suf_v].


(* ---------- specification vocabulary for the enumeration theorems ---------- *)

(* a bucket key yields this id *)
Definition yields (accepted : list N) (keys : list bytes) (id : N) : Prop :=
  exists k, In k keys /\ id_from_key accepted k = Some id.

Definition foreign (k : bytes) : Prop := forall s, node_id_from_key k s = None.
Definition ids_ok (ids : list N) : Prop := forall id, In id ids -> id < two64.   (* ids are uint64 *)

(* a bucket = the point keys in any order, plus keys that are not node keys
   (the persisted threshold / centroids) *)
Definition bucket_of (keys point_keys : list bytes) : Prop :=
  exists other, Permutation keys (point_keys ++ other) /\ forall k, In k other -> foreign k.

(* the cache is in sync with the bucket (what holds after Flush once every item has been loaded) *)
Record in_sync {V} (accepted : list N) (read : N -> option V) (keys : list bytes) (c : cache V) : Prop := {
  sync_nodup : NoDup (cache_ids c);                                      (* ic.items is a map *)
  sync_live : forall id e, In (id, e) c -> ce_deleted e = false;         (* Flush dropped the deleted entries *)
  sync_val : forall id e, In (id, e) c -> read id = Some (ce_val e);     (* ReadFrom decodes what was written *)
  sync_all : forall id, yields accepted keys id -> In id (cache_ids c);  (* everything has been loaded *)
  sync_keys : forall id, In id (cache_ids c) -> yields accepted keys id  (* enumeration invariant of section 3 *)
}.


(* ---------- the key-level state machine of a vector store ---------- *)

(* Every operation of a vector store acts on each id separately (ItemCache is a
   map from ids, the bucket a map from node keys (id, suffix)); only the
   "trained" flag (threshold / centroids present) is global, and Fit treats all
   loaded points alike.  So the state is given per id: the cache entry if any,
   which of the two keys are in the bucket, the trained flag (the same at every
   id), and -- ghost -- whether the id is stored (Set and not deleted since). *)

(* what a cached point carries *)
Record kentry := mkKE { ke_deleted : bool; ke_dirty : bool; ke_vec : bool; ke_code : bool }.
Record fstate := mkF {
  f_entry : option kentry;      (* ic.items[id] *)
  f_q : bool;                   (* bucket has NodeKey(id,'q') *)
  f_v : bool;                   (* bucket has NodeKey(id,'v') *)
  f_trained : bool;
  f_live : bool }.              (* ghost: the abstract content *)

Inductive kstore := KPlain | KBinary | KProduct.
(* store kind, and whether IdFromKey accepts 'q' / 'v' *)
Record kcfg := mkCfg { k_store : kstore; k_acc_q : bool; k_acc_v : bool }.
Definition cfg_of (st : kstore) (accepted : list N) : kcfg :=
  mkCfg st (existsb (N.eqb suf_q) accepted) (existsb (N.eqb suf_v) accepted).

(* ReadFrom: 'q' first, then 'v' (binary, product); 'v' only (plain) *)
Definition fread (st : kstore) (f : fstate) : option kentry :=
  match st with
  | KPlain => if f_v f then Some (mkKE false false true false) else None
  | _ => if f_q f then Some (mkKE false false false true)
         else if f_v f then Some (mkKE false false true false) else None
  end.

(* IdFromKey succeeds on one of the keys of this id (cf. id_from_key_node_key) *)
Definition fyields (c : kcfg) (f : fstate) : bool := (f_q f && k_acc_q c) || (f_v f && k_acc_v c).

(* the bucket scan of ForEach, at this id: not cached, some key yields the id, read it *)
Definition fload (c : kcfg) (f : fstate) : fstate :=
  match f_entry f with
  | Some _ => f
  | None => if fyields c f then
              match fread (k_store c) f with
              | Some e => mkF (Some e) (f_q f) (f_v f) (f_trained f) (f_live f)
              | None => f           (* ForEach fails with ErrNotFound *)
              end
            else f
  end.

(* does ForEach hand this id to its callback *)
Definition fenum (c : kcfg) (f : fstate) : bool :=
  match f_entry (fload c f) with Some e => negb (ke_deleted e) | None => false end.

Inductive pop := PSet | PDelete | PFit | PFlush | PEvict | PNop.
Definition all_pops : list pop := [PSet; PDelete; PFit; PFlush; PEvict; PNop].

Definition fstep (c : kcfg) (f : fstate) (o : pop) : fstate :=
  let st := k_store c in
  match o with
  | PSet =>      (* Set(id, vector): Put a dirty point, encoded iff the quantiser is trained *)
      let coded := match st with KPlain => false | _ => f_trained f end in
      mkF (Some (mkKE false true true coded)) (f_q f) (f_v f) (f_trained f) true
  | PDelete =>   (* ItemCache.Delete: mark; an uncached id is read first, ErrNotFound is ignored *)
      let e' := match f_entry f with
                | Some e => Some (mkKE true (ke_dirty e) (ke_vec e) (ke_code e))
                | None => match fread st f with
                          | Some e => Some (mkKE true false (ke_vec e) (ke_code e))
                          | None => None
                          end
                end in
      mkF e' (f_q f) (f_v f) (f_trained f) false
  | PFit =>      (* Fit() once the trigger is reached: ForEach, train, re-encode every visited point, mark dirty *)
      match st with
      | KPlain => f
      | _ => if f_trained f then f else
             let g := fload c f in
             let e' := match f_entry g with
                       | Some e => if ke_deleted e then Some e
                                   else Some (mkKE false true (ke_vec e)
                                                   (* binary: encode(point.Vector), empty if the vector is not loaded;
                                                      product: make([]uint8, NumSubVectors) *)
                                                   (match st with KBinary => ke_vec e | _ => true end))
                       | None => None
                       end in
             mkF e' (f_q g) (f_v g) true (f_live g)
      end
  | PFlush =>    (* ItemCache.Flush: DeleteFrom + drop deleted entries, WriteTo dirty ones *)
      match f_entry f with
      | None => f
      | Some e =>
          if ke_deleted e then mkF None false false (f_trained f) (f_live f)
          else if ke_dirty e then
            let clean := Some (mkKE false false (ke_vec e) (ke_code e)) in
            match st with
            | KPlain => mkF clean (f_q f) true (f_trained f) (f_live f)
            | KBinary => if ke_code e then mkF clean true (f_v f) (f_trained f) (f_live f)
                         else if ke_vec e then mkF clean (f_q f) true (f_trained f) (f_live f)
                         else mkF clean (f_q f) (f_v f) (f_trained f) (f_live f)
            | KProduct => mkF clean (f_q f || ke_code e) (f_v f || ke_vec e) (f_trained f) (f_live f)
            end
          else f
      end
  | PEvict =>    (* the entry leaves the cache (eviction, reopen); dirty or deleted entries are never dropped *)
      match f_entry f with
      | Some e => if ke_dirty e || ke_deleted e then f else mkF None (f_q f) (f_v f) (f_trained f) (f_live f)
      | None => f
      end
  | PNop => f
  end.

(* the store as a whole *)
Inductive kop :=
| KSet (id : N) | KDelete (id : N)
| KFit                 (* Fit() with the trigger reached; below the trigger Fit does nothing *)
| KFlush
| KEvict (id : N)      (* one clean entry leaves the cache *)
| KDropCache.          (* the whole cache is dropped (manager eviction, shard reopen) *)

Definition proj (o : kop) (id : N) : pop :=
  match o with
  | KSet i => if N.eqb i id then PSet else PNop
  | KDelete i => if N.eqb i id then PDelete else PNop
  | KFit => PFit
  | KFlush => PFlush
  | KEvict i => if N.eqb i id then PEvict else PNop
  | KDropCache => PEvict
  end.

Definition kstate := N -> fstate.
Definition kstep (c : kcfg) (s : kstate) (o : kop) : kstate := fun id => fstep c (s id) (proj o id).
Definition krun (c : kcfg) (s : kstate) (ops : list kop) : kstate := fold_left (kstep c) ops s.
(* a new, empty store; trained from the start = binary quantiser with a fixed threshold *)
Definition fstate0 (trained : bool) : fstate := mkF None false false trained false.
Definition kstate0 (trained : bool) : kstate := fun _ => fstate0 trained.

Definition enumerated (c : kcfg) (s : kstate) (id : N) : bool := fenum c (s id).
Definition stored (s : kstate) (id : N) : bool := f_live (s id).

(* the configurations of the three stores; the binary one from the generated constant *)
Definition cfg_plain : kcfg := cfg_of KPlain plain_suffixes.
Definition cfg_product : kcfg := cfg_of KProduct [suf_v].
Definition cfg_binary : kcfg := cfg_of KBinary bq_idfromkey_suffixes.
Definition cfg_binary_v0 : kcfg := cfg_of KBinary bq_idfromkey_suffixes_v0.
