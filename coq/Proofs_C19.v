(* Proofs_C19.v -- lemmas about the encodings of Model_C19.v *)
From Coq Require Import List NArith ZArith Lia Bool Arith.
From Coq Require Import ZifyBool ZifyN ZifyNat.
From Semadb Require Import Bytes U64 KeyLayout Model_C19.
Import ListNotations.
Open Scope N_scope.

(* ---- obligations on the generated constants (re-checked on every build) ---- *)
Lemma layout_ok : layout_ok_b = true. Proof. vm_compute. reflexivity. Qed.
Lemma i64_mask_ok : i64_xor_mask = two63. Proof. reflexivity. Qed.
Lemma f64_norm_ok : f64_normalises_zero = true. Proof. reflexivity. Qed.
Lemma f64_masks_ok : f64_pos_mask = two63 /\ f64_neg_mask = ones64 /\
  f64_dec_test_mask = two63 /\ f64_dec_pos_mask = two63 /\ f64_dec_neg_mask = ones64.
Proof. repeat split; reflexivity. Qed.
Lemma widths_ok : u64_width = 8%nat /\ f32_width = 4%nat. Proof. split; reflexivity. Qed.
Lemma node_layout_ok : node_from_len = 10%nat /\ node_from_prefix = node_prefix /\
  node_from_suffix_pos = 9%nat /\ node_from_off = 1%nat /\ node_from_tail = 1%nat.
Proof. repeat split; reflexivity. Qed.
Lemma doc_layout_ok : doc_from_len = 9%nat /\ doc_from_prefix = doc_prefix /\ doc_id_off = 1%nat.
Proof. repeat split; reflexivity. Qed.
Lemma term_layout_ok : term_from_minlen = 2%nat /\ term_from_prefix = term_prefix /\ term_from_suffix = term_suffix.
Proof. repeat split; reflexivity. Qed.
Lemma prefixes_distinct : node_prefix <> point_prefix /\ term_prefix <> doc_prefix /\
  term_prefix <> 95 /\ doc_prefix <> 95 /\ node_prefix <> 95 /\ suffix_id <> suffix_data.
Proof. repeat split; discriminate. Qed.

Lemma two64_eq : two64 = 256 ^ N.of_nat 8. Proof. reflexivity. Qed.

(* ------------------------------ int64 ------------------------------------- *)
Open Scope Z_scope.

Definition i64_key (z : Z) : N := Z.to_N (z + 9223372036854775808).

Lemma i64_key_bound z : in_i64 z -> (i64_key z < two64)%N.
Proof. unfold in_i64, i64_key, two64. lia. Qed.

Lemma i64_lxor z : in_i64 z -> N.lxor (i64_to_u64 z) two63 = i64_key z.
Proof.
  intros Hz. pose proof (i64_to_u64_bound z) as Hb.
  rewrite lxor_two63 by exact Hb.
  unfold i64_to_u64, i64_key, in_i64, two63, two64 in *.
  destruct (Z.ltb_spec z 0).
  - assert (E : z mod 18446744073709551616 = z + 18446744073709551616)
      by (Z.div_mod_to_equations; lia).
    rewrite E in *.
    destruct (N.ltb_spec (Z.to_N (z + 18446744073709551616)) 9223372036854775808); lia.
  - rewrite Z.mod_small in * by lia.
    destruct (N.ltb_spec (Z.to_N z) 9223372036854775808); lia.
Qed.

Lemma enc_i64_key z : in_i64 z -> enc_i64 z = be 8 (i64_key z).
Proof. intros Hz. unfold enc_i64. rewrite i64_mask_ok. now rewrite i64_lxor. Qed.

Lemma enc_i64_compare a b : in_i64 a -> in_i64 b ->
  lex_compare (enc_i64 a) (enc_i64 b) = Z.compare a b.
Proof.
  intros Ha Hb. rewrite !enc_i64_key by assumption.
  rewrite be_compare by (rewrite <- two64_eq; now apply i64_key_bound).
  unfold i64_key, in_i64 in *.
  destruct (Z.compare_spec a b); [apply N.compare_eq_iff | apply N.compare_lt_iff | apply N.compare_gt_iff]; lia.
Qed.

Lemma dec_enc_i64 z : in_i64 z -> dec_i64 (enc_i64 z) = z.
Proof.
  intros Hz. unfold dec_i64. rewrite enc_i64_key by exact Hz.
  rewrite unbe_be by (rewrite <- two64_eq; now apply i64_key_bound).
  rewrite i64_mask_ok, lxor_two63 by (now apply i64_key_bound).
  unfold i64_key, u64_to_i64, in_i64, two63 in *.
  destruct (N.ltb_spec (Z.to_N (z + 9223372036854775808)) 9223372036854775808) as [L|G].
  - destruct (N.ltb_spec (Z.to_N (z + 9223372036854775808) + 9223372036854775808) 9223372036854775808); lia.
  - destruct (N.ltb_spec (Z.to_N (z + 9223372036854775808) - 9223372036854775808) 9223372036854775808); lia.
Qed.

Lemma enc_i64_length z : length (enc_i64 z) = 8%nat.
Proof. unfold enc_i64. apply be_length. Qed.

(* ------------------------------ uint64 ------------------------------------ *)
Open Scope N_scope.

Lemma enc_u64_compare a b : a < two64 -> b < two64 ->
  lex_compare (enc_u64 a) (enc_u64 b) = N.compare a b.
Proof. intros; unfold enc_u64; apply be_compare; now rewrite <- two64_eq. Qed.

Lemma dec_enc_u64 a : a < two64 -> dec_u64 (enc_u64 a) = a.
Proof. intros; unfold dec_u64, enc_u64; apply unbe_be; now rewrite <- two64_eq. Qed.

(* ------------------------------ float64 ----------------------------------- *)

(* the key as a number *)
Definition f64_keyN (b : N) : N :=
  let b1 := if f64_is_zero b then 0 else b in
  if b1 <? two63 then b1 + two63 else ones64 - b1.

Lemma f64_keyN_bound b : b < two64 -> f64_keyN b < two64.
Proof.
  unfold f64_keyN, f64_is_zero, two63, two64, ones64. intros Hb.
  destruct (N.eqb_spec b 0); cbn [orb].
  - cbn. lia.
  - destruct (N.eqb_spec b 9223372036854775808).
    + cbn. lia.
    + destruct (N.ltb_spec b 9223372036854775808); lia.
Qed.

Lemma enc_f64_keyN b : b < two64 -> enc_f64 b = be 8 (f64_keyN b).
Proof.
  intros Hb. unfold enc_f64, enc_f64_with. rewrite f64_norm_ok. cbn [andb].
  destruct f64_masks_ok as (-> & -> & _).
  f_equal. unfold f64_keyN.
  set (b1 := if f64_is_zero b then 0 else b).
  assert (Hb1 : b1 < two64) by (unfold b1; destruct (f64_is_zero b); unfold two64 in *; lia).
  assert (Hnz : b1 <> two63).
  { unfold b1, f64_is_zero. destruct (N.eqb_spec b 0); cbn [orb]; [unfold two63; lia|].
    destruct (N.eqb_spec b two63); [unfold two63; lia|assumption]. }
  unfold f64_ge0.
  destruct (N.ltb_spec b1 two63) as [L|G]; cbn [orb].
  - now apply lxor_two63_low.
  - destruct (N.eqb_spec b1 two63); [contradiction|].
    now apply lxor_ones64.
Qed.

Lemma f64_keyN_compare a b : a < two64 -> b < two64 ->
  N.compare (f64_keyN a) (f64_keyN b) = Z.compare (f64_ord a) (f64_ord b).
Proof.
  intros Ha Hb. unfold f64_keyN, f64_ord, f64_is_zero, two63, two64, ones64 in *.
  destruct (N.eqb_spec a 0); destruct (N.eqb_spec a 9223372036854775808);
  destruct (N.eqb_spec b 0); destruct (N.eqb_spec b 9223372036854775808); cbn [orb]; try lia;
  repeat match goal with |- context [N.ltb ?x ?y] => destruct (N.ltb_spec x y) end; try lia;
  match goal with |- _ = Z.compare ?x ?y =>
    destruct (Z.compare_spec x y);
    [apply N.compare_eq_iff | apply N.compare_lt_iff | apply N.compare_gt_iff]; lia end.
Qed.

Lemma enc_f64_compare a b : a < two64 -> b < two64 ->
  lex_compare (enc_f64 a) (enc_f64 b) = Z.compare (f64_ord a) (f64_ord b).
Proof.
  intros Ha Hb. rewrite !enc_f64_keyN by assumption.
  rewrite be_compare by (rewrite <- two64_eq; now apply f64_keyN_bound).
  now apply f64_keyN_compare.
Qed.

Lemma land_two63_test u : u < two64 -> (N.land u two63 =? 0) = (u <? two63).
Proof.
  intros Hu. destruct (N.ltb_spec u two63) as [L|G].
  - rewrite land_low_two63 by exact L. reflexivity.
  - apply N.eqb_neq. intros E.
    pose proof (N.add_nocarry_lxor u two63 E) as H.
    rewrite lxor_two63_high in H by assumption. unfold two63 in *. lia.
Qed.

Lemma dec_enc_f64 b : b < two64 ->
  dec_f64 (enc_f64 b) = if f64_is_zero b then 0 else b.
Proof.
  intros Hb. rewrite enc_f64_keyN by exact Hb. unfold dec_f64.
  pose proof (f64_keyN_bound b Hb) as Hk.
  rewrite unbe_be by (now rewrite <- two64_eq).
  destruct f64_masks_ok as (_ & _ & -> & -> & ->).
  rewrite land_two63_test by exact Hk.
  unfold f64_keyN in *. set (b1 := if f64_is_zero b then 0 else b) in *.
  assert (Hb1 : b1 < two64) by (unfold b1; destruct (f64_is_zero b); unfold two64 in *; lia).
  destruct (N.ltb_spec b1 two63) as [L|G].
  - destruct (N.ltb_spec (b1 + two63) two63) as [L'|G']; [unfold two63 in *; lia|]. cbn [negb].
    rewrite lxor_two63_high by (unfold two63, two64 in *; lia). lia.
  - destruct (N.ltb_spec (ones64 - b1) two63) as [L'|G']; cbn [negb].
    + rewrite lxor_ones64 by (unfold ones64, two64 in *; lia). unfold ones64, two64 in *. lia.
    + assert (b1 = two63) by (unfold ones64, two63, two64 in *; lia).
      exfalso. unfold b1, f64_is_zero in H.
      destruct (N.eqb_spec b 0); cbn [orb] in H; [unfold two63 in H; lia|].
      destruct (N.eqb_spec b two63); [unfold two63 in H; lia|]. contradiction.
Qed.

Lemma f64_eq_norm b : f64_eq (if f64_is_zero b then 0 else b) b = true.
Proof.
  unfold f64_eq, f64_is_zero, f64_ord, two63.
  destruct (N.eqb_spec b 0); cbn [orb]; [subst; reflexivity|].
  destruct (N.eqb_spec b 9223372036854775808); [subst; reflexivity|].
  apply Z.eqb_refl.
Qed.

(* the pinned encoder (before repair F1) breaks the order at -0.0 *)
Lemma enc_f64_v0_negzero :
  lex_lt (enc_f64_v0 two63) (enc_f64_v0 18442240474082181120) = true   (* key(-0.0) < key(-Inf) *)
  /\ f64_lt 18442240474082181120 two63 = true                          (* although -Inf < -0.0 *)
  /\ f64_nan (dec_f64 (enc_f64_v0 two63)) = true.                      (* and it decodes to NaN *)
Proof. vm_compute. repeat split. Qed.

(* ------------------------------ words -------------------------------------- *)

Lemma f32s_roundtrip xs : Forall (fun x => x < 4294967296) xs -> f32s_of_le (f32s_le xs) = xs.
Proof.
  intros H. unfold f32s_of_le, f32s_le. apply dec_enc_words; [unfold f32_width; lia|].
  eapply Forall_impl; [|exact H]. intros a Ha. exact Ha.
Qed.

Lemma edges_roundtrip xs : Forall (fun x => x < two64) xs -> edges_of_le (edges_le xs) = xs.
Proof.
  intros H. unfold edges_of_le, edges_le. apply dec_enc_words; [unfold u64_width; lia|].
  eapply Forall_impl; [|exact H]. intros a Ha. exact Ha.
Qed.

Lemma u64_le_roundtrip n : n < two64 -> u64_of_le (u64_le n) = n.
Proof.
  intros Hn. unfold u64_of_le, u64_le.
  rewrite firstn_all2 by (rewrite le_length; lia).
  apply unle_le. exact Hn.
Qed.

(* ------------------------------ keys --------------------------------------- *)

Lemma nth_last_app {A} (l : list A) x d : nth (length l) (l ++ [x]) d = x.
Proof. rewrite app_nth2 by lia. now rewrite Nat.sub_diag. Qed.

Lemma nth8_le id s : nth 8 (le u64_width id ++ [s]) 256 = s.
Proof. pose proof (nth_last_app (le u64_width id) s 256) as H. rewrite le_length in H. exact H. Qed.

Lemma node_key_length id s : length (node_key id s) = 10%nat.
Proof. unfold node_key. cbn [length]. rewrite app_length, le_length. reflexivity. Qed.

Lemma node_key_roundtrip id s : id < two64 -> node_id_from_key (node_key id s) s = Some id.
Proof.
  intros Hid. unfold node_id_from_key. rewrite node_key_length.
  destruct node_layout_ok as (-> & -> & -> & -> & ->).
  cbn [Nat.eqb negb]. unfold node_key at 1. cbn [nth]. rewrite N.eqb_refl. cbn [negb].
  unfold node_key at 1. cbn [nth].
  rewrite nth8_le.
  rewrite N.eqb_refl. cbn [negb].
  unfold node_key. cbn [skipn Nat.sub].
  rewrite firstn_app, le_length.
  change (8 - u64_width)%nat with 0%nat. change (firstn 0 [s]) with (@nil N). rewrite app_nil_r.
  rewrite firstn_all2 by (rewrite le_length; unfold u64_width; lia).
  f_equal. apply unle_le. exact Hid.
Qed.

Lemma node_key_other_suffix id s s' : s <> s' -> node_id_from_key (node_key id s) s' = None.
Proof.
  intros Hs. unfold node_id_from_key. rewrite node_key_length.
  destruct node_layout_ok as (-> & -> & -> & -> & ->).
  cbn [Nat.eqb negb]. unfold node_key at 1. cbn [nth]. rewrite N.eqb_refl. cbn [negb].
  unfold node_key at 1. cbn [nth].
  rewrite nth8_le.
  destruct (N.eqb_spec s s'); [contradiction|reflexivity].
Qed.

Lemma app_inj_length {A} (a b c d : list A) : length a = length c -> a ++ b = c ++ d -> a = c /\ b = d.
Proof.
  revert c; induction a as [|x a IH]; intros [|y c] Hl H; cbn in *; try discriminate; auto.
  inversion H; subst. destruct (IH c ltac:(lia) H2). subst. auto.
Qed.

Lemma node_key_inj id s id' s' : id < two64 -> id' < two64 ->
  node_key id s = node_key id' s' -> id = id' /\ s = s'.
Proof.
  intros H1 H2 E. unfold node_key in E. apply (f_equal (@tl N)) in E. cbn [tl] in E. rename E into E'.
  apply app_inj_length in E'; [|now rewrite !le_length].
  destruct E' as [El Es]. split.
  - apply (le_inj u64_width); assumption.
  - now inversion Es.
Qed.

Lemma point_key_inj u s u' s' : length u = length u' ->
  point_key u s = point_key u' s' -> u = u' /\ s = s'.
Proof.
  intros Hl E. unfold point_key in E. apply (f_equal (@tl N)) in E. cbn [tl] in E. rename E into E'.
  apply app_inj_length in E'; [|assumption]. destruct E' as [-> Es]. split; [reflexivity|now inversion Es].
Qed.

Lemma node_point_keys_disjoint id s u s' : node_key id s <> point_key u s'.
Proof. unfold node_key, point_key. intros E. apply (f_equal (hd 0)) in E. cbn [hd] in E. now apply (proj1 prefixes_distinct). Qed.

Lemma doc_key_roundtrip id : id < two64 -> doc_id_from_key (doc_key id) = Some id.
Proof.
  intros Hid. unfold doc_id_from_key, doc_key. cbn [length]. rewrite le_length.
  destruct doc_layout_ok as (-> & -> & ->). change u64_width with 8%nat.
  cbn [Nat.eqb negb nth]. rewrite N.eqb_refl. cbn [negb skipn].
  f_equal. now apply unle_le.
Qed.

Lemma doc_key_inj a b : a < two64 -> b < two64 -> doc_key a = doc_key b -> a = b.
Proof. intros Ha Hb E. unfold doc_key in E. apply (f_equal (@tl N)) in E. cbn [tl] in E. apply (le_inj u64_width); assumption. Qed.

Lemma last_app1 {A} (l : list A) x d : last (l ++ [x]) d = x.
Proof. induction l as [|y l IH]; [reflexivity|]. cbn [app]. destruct (l ++ [x]) eqn:E; [destruct l; discriminate|]. exact IH. Qed.

Lemma removelast_app1 {A} (l : list A) x : removelast (l ++ [x]) = l.
Proof. rewrite removelast_app by discriminate. cbn. apply app_nil_r. Qed.

Lemma term_key_roundtrip t : term_from_key (term_key t) = Some t.
Proof.
  unfold term_from_key, term_key. destruct term_layout_ok as (-> & -> & ->).
  cbn [length]. rewrite app_length. cbn [length].
  replace (S (length t + 1) <? 2)%nat with false by (symmetry; apply Nat.ltb_ge; lia).
  cbn [nth]. rewrite N.eqb_refl. cbn [negb].
  change (term_prefix :: t ++ [term_suffix]) with ((term_prefix :: t) ++ [term_suffix]).
  rewrite last_app1, N.eqb_refl. cbn [negb]. cbn [app tl].
  now rewrite removelast_app1.
Qed.

Lemma term_key_inj a b : term_key a = term_key b -> a = b.
Proof.
  intros E. pose proof (term_key_roundtrip a) as Ha. rewrite E, term_key_roundtrip in Ha. now inversion Ha.
Qed.

Lemma term_doc_keys_disjoint t id : term_key t <> doc_key id.
Proof. unfold term_key, doc_key. intros E. apply (f_equal (hd 0)) in E. cbn [hd] in E. now apply (proj1 (proj2 prefixes_distinct)). Qed.

Lemma reserved_not_term t : term_key t <> num_docs_key.
Proof. unfold term_key. intros E. apply (f_equal (hd 0)) in E. vm_compute in E. discriminate. Qed.
Lemma reserved_not_doc id : doc_key id <> num_docs_key.
Proof. unfold doc_key. intros E. apply (f_equal (hd 0)) in E. vm_compute in E. discriminate. Qed.
Lemma reserved_not_node id s : node_key id s <> max_node_id_key /\ node_key id s <> bq_threshold_key.
Proof. unfold node_key. split; intros E; apply (f_equal (hd 0)) in E; vm_compute in E; discriminate. Qed.
