(* Model_C14.v -- start-up rebalancing (cluster/sync.go, RPCSendShard and
   RPCSetNodeKeyValue of cluster/rpchandlers.go), definitions only.

   A cluster state maps every node (host name) to its record map (bucket
   userCollections of nodedb.bbolt: key = userId "/" collectionId) and its
   file map (rootDir/userCollections/<user>/<collection>/<shard>/sharddb.bbolt,
   path = (user, collection, shard)).  File contents are lists over an
   arbitrary element type A (bytes for the theorems; one token per chunk in
   Run_C14, so that 16 MiB files cost nothing).

   M : [send_file] is the chunk loop of sendShardFile against RPCSendShard
       (chunk size [chunk]; one RPC per Read result, the terminal empty chunk;
       checksum reply only for an empty chunk with index > 0; checksum compare;
       RemoveAll of the source).  [fixed = false] is the PINNED receiver
       (always O_APPEND), [fixed = true] the repaired one (O_TRUNC at chunk 0,
       fix 0e52263).  [fail_at = Some k]: the transfer dies at chunk index k
       (error or kill of sender or receiver: chunks < k are on the destination,
       the partial file stays); k = number of RPCs: every chunk was written and
       acknowledged but the sender died before it acted on the reply.
       [sync_shards], [sync_records], [sync_node], [sync_all] follow
       syncShards / syncUserCollections / Sync / the start-up of all nodes.
   S : [no_loss], [converged], [step] / [reach] (every interleaving of
       transfers of all nodes with arbitrary faults). *)
From Coq Require Import List NArith Bool Arith Relations.
From Semadb Require Import Bytes Model_C13.
Import ListNotations.

Definition node := bytes.
Definition key := bytes.
Definition value := bytes.
Definition path := (bytes * bytes * bytes)%type.      (* user, collection, shard id *)

Definition node_dec : forall a b : node, {a = b} + {a <> b} := list_eq_dec N.eq_dec.
Definition key_dec : forall a b : key, {a = b} + {a <> b} := list_eq_dec N.eq_dec.
Definition path_dec (a b : path) : {a = b} + {a <> b}.
Proof. repeat decide equality. Defined.

(* ------------------------------------------------------------------ *)
(* association lists (a bbolt bucket / a directory tree)                  *)

Section AL.
  Context {K V : Type} (K_dec : forall a b : K, {a = b} + {a <> b}).
  Fixpoint al_get (k : K) (m : list (K * V)) : option V :=
    match m with
    | [] => None
    | (k', v) :: r => if K_dec k k' then Some v else al_get k r
    end.
  Fixpoint al_del (k : K) (m : list (K * V)) : list (K * V) :=
    match m with
    | [] => []
    | (k', v) :: r => if K_dec k k' then al_del k r else (k', v) :: al_del k r
    end.
  Definition al_put (k : K) (v : V) (m : list (K * V)) : list (K * V) := (k, v) :: al_del k m.
  Definition al_keys (m : list (K * V)) : list K := nodup K_dec (map fst m).
End AL.

(* ------------------------------------------------------------------ *)
(* cluster states                                                         *)

Record nstate (A : Type) := mkN { recs : list (key * value); files : list (path * list A) }.
Arguments mkN {A} _ _.
Arguments recs {A} _.
Arguments files {A} _.

Definition state (A : Type) := node -> nstate A.
Definition empty_state {A} : state A := fun _ => mkN [] [].

Definition upd {A} (st : state A) (n : node) (x : nstate A) : state A :=
  fun m => if node_dec m n then x else st m.

Definition file {A} (st : state A) (n : node) (p : path) : option (list A) := al_get path_dec p (files (st n)).
Definition rec_ {A} (st : state A) (n : node) (k : key) : option value := al_get key_dec k (recs (st n)).

Definition set_file {A} (st : state A) (n : node) (p : path) (c : list A) : state A :=
  upd st n (mkN (recs (st n)) (al_put path_dec p c (files (st n)))).
Definition del_file {A} (st : state A) (n : node) (p : path) : state A :=
  upd st n (mkN (recs (st n)) (al_del path_dec p (files (st n)))).
Definition put_rec {A} (st : state A) (n : node) (k : key) (v : value) : state A :=
  upd st n (mkN (al_put key_dec k v (recs (st n))) (files (st n))).
Definition del_rec {A} (st : state A) (n : node) (k : key) : state A :=
  upd st n (mkN (al_del key_dec k (recs (st n))) (files (st n))).

(* a state given as a list of (node, content) *)
Definition mk_state {A} (l : list (node * nstate A)) : state A :=
  fun n => match al_get node_dec n l with Some x => x | None => mkN [] [] end.

(* faults of the record phase, per destination: the RPC fails (nothing is
   written: RPCSetNodeKeyValue is one bbolt transaction), or the RPC succeeded
   but the sender died / failed before its local delete *)
Inductive rfault := RNone | RFailSend | RFailDelete.

Record nfault := mkF {
  nf_rec : node -> rfault;            (* per destination *)
  nf_file : path -> option nat;       (* per transferred file: dies at this chunk index *)
  nf_crash : bool                     (* the node dies between the two phases *)
}.
Definition no_fault : nfault := mkF (fun _ => RNone) (fun _ => None) false.

Definition fails_at (fa : option nat) (i : nat) : bool :=
  match fa with Some k => (k =? i)%nat | None => false end.
Definition is_nil {A} (l : list A) : bool := match l with [] => true | _ => false end.

Section Model.
  Context {A H : Type}.
  Variable H_dec : forall a b : H, {a = b} + {a <> b}.
  Variable hash : list A -> H.          (* FileHash: xxhash64 of the whole file *)
  Variable h0 : H.                      (* the zero value of RPCSendShardResponse.Checksum *)
  Variable chunk : nat.                 (* CHUNKSIZE *)
  Variable owner_r : key -> node.       (* RendezvousHash(userId of the key, Servers, 1)[0] *)
  Variable owner_f : path -> node.      (* RendezvousHash(shardId, Servers, 1)[0] *)

  (* ---- sendShardFile: what f.Read returns, call after call.  Every Read
     result is one RPC; the last Read returns (0, io.EOF): the terminal empty
     chunk.  An empty file gives the single chunk [] with index 0. *)
  Fixpoint data_chunks (fuel : nat) (f : list A) : list (list A) :=
    match fuel with
    | O => []
    | S n => match f with
             | [] => []
             | _ :: _ => firstn chunk f :: data_chunks n (skipn chunk f)
             end
    end.
  Definition rpc_chunks (f : list A) : list (list A) := data_chunks (length f) f ++ [[]].

  (* ---- RPCSendShard on the receiver, one call: (new file content, reply.Checksum).
     [cur] is the destination file before the call (None: does not exist). *)
  Definition recv_chunk (fixed : bool) (cur : option (list A)) (i : nat) (d : list A) : list A * H :=
    let base := match cur with
                | None => []                                              (* O_CREATE *)
                | Some c => if fixed && (i =? 0)%nat then [] else c          (* O_TRUNC at chunk 0 / O_APPEND *)
                end in
    let f' := base ++ d in
    (f', if (0 <? i)%nat && is_nil d then hash f' else h0).

  (* ---- the sender's loop `for i := 0; ; i++`: returns the destination file
     and Some (checksum of the last reply) when all chunks went through *)
  Fixpoint send_loop (fixed : bool) (fa : option nat) (i : nat) (cs : list (list A))
           (cur : option (list A)) (ck : H) : option (list A) * option H :=
    match cs with
    | [] => (cur, Some ck)
    | c :: r =>
        if fails_at fa i then (cur, None)
        else let '(f', ck') := recv_chunk fixed cur i c in
             send_loop fixed fa (S i) r (Some f') ck'
    end.

  (* ---- sendShardFile(dst, p) on node src; the boolean is "returned nil" *)
  Definition send_file (fixed : bool) (fa : option nat) (src dst : node) (p : path) (st : state A)
    : state A * bool :=
    match file st src p with
    | None => (st, false)                                  (* os.Open fails *)
    | Some f =>
        let cs := rpc_chunks f in
        let '(cur, res) := send_loop fixed fa 0 cs (file st dst p) h0 in
        let st1 := match cur with Some c => set_file st dst p c | None => st end in
        match res with
        | None => (st1, false)
        | Some ck =>
            if fails_at fa (length cs) then (st1, false)   (* died before acting on the last reply *)
            else if H_dec ck (hash f)
                 then (del_file st1 src p, true)           (* os.RemoveAll(shard dir) *)
                 else (st1, false)                         (* checksum mismatch *)
        end
    end.

  (* ---- syncShards on node s.  One worker per destination sends its files one
     after the other and stops at its first error; workers of different
     destinations touch different destination nodes and different source paths,
     so running them one after the other gives the same state.  [dead] = the
     destinations whose worker has stopped. *)
  Fixpoint shards_loop (fixed : bool) (ff : path -> option nat) (s : node) (ps : list path)
           (dead : list node) (st : state A) : state A * list node :=
    match ps with
    | [] => (st, dead)
    | p :: r =>
        let d := owner_f p in
        if in_dec node_dec d dead then shards_loop fixed ff s r dead st
        else let '(st', ok) := send_file fixed (ff p) s d p st in
             shards_loop fixed ff s r (if ok then dead else d :: dead) st'
    end.

  Definition to_move (s : node) (st : state A) : list path :=
    filter (fun p => if node_dec (owner_f p) s then false else true) (al_keys path_dec (files (st s))).

  Definition sync_shards (fixed : bool) (ff : path -> option nat) (s : node) (st : state A) : state A * bool :=
    let '(st', dead) := shards_loop fixed ff s (to_move s st) [] st in
    (st', is_nil dead).

  (* ---- syncUserCollections on node s: one RPCSetNodeKeyValue per destination
     with all the records it owns, compare Count, delete them locally *)
  Definition group_of (d : node) (m : list (key * value)) : list (key * value) :=
    filter (fun kv => if node_dec (owner_r (fst kv)) d then true else false) m.
  Definition put_all (st : state A) (d : node) (grp : list (key * value)) : state A :=
    fold_right (fun kv acc => put_rec acc d (fst kv) (snd kv)) st grp.
  Definition del_all (st : state A) (s : node) (ks : list key) : state A :=
    fold_right (fun k acc => del_rec acc s k) st ks.

  Definition send_group (rf : rfault) (s d : node) (st : state A) : state A * bool :=
    let grp := group_of d (recs (st s)) in
    match rf with
    | RFailSend => (st, false)
    | RFailDelete => (put_all st d grp, false)
    | RNone => (del_all (put_all st d grp) s (map fst grp), true)
    end.

  Definition rec_dests (s : node) (st : state A) : list node :=
    nodup node_dec (filter (fun d => if node_dec d s then false else true)
                           (map (fun kv => owner_r (fst kv)) (recs (st s)))).

  Fixpoint groups_loop (rf : node -> rfault) (s : node) (ds : list node) (st : state A) (ok : bool)
    : state A * bool :=
    match ds with
    | [] => (st, ok)
    | d :: r => let '(st', ok') := send_group (rf d) s d st in groups_loop rf s r st' (ok && ok')
    end.

  Definition sync_records (rf : node -> rfault) (s : node) (st : state A) : state A * bool :=
    groups_loop rf s (rec_dests s st) st true.

  (* ---- Sync: the shard phase runs only when the record phase returned nil *)
  Definition sync_node (fixed : bool) (nf : nfault) (s : node) (st : state A) : state A * bool :=
    let '(st1, ok1) := sync_records (nf_rec nf) s st in
    if ok1 then (if nf_crash nf then (st1, false) else sync_shards fixed (nf_file nf) s st1)
    else (st1, false).

  (* ---- the start-up of the nodes, in the order of [plan] *)
  Fixpoint sync_all (fixed : bool) (plan : list (node * nfault)) (st : state A) : state A * list bool :=
    match plan with
    | [] => (st, [])
    | (s, nf) :: r =>
        let '(st1, ok) := sync_node fixed nf s st in
        let '(st2, oks) := sync_all fixed r st1 in
        (st2, ok :: oks)
    end.

  Definition fault_free (order : list node) : list (node * nfault) := map (fun s => (s, no_fault)) order.

  (* the phases of the nodes in ANY order: a schedule of single phases *)
  Inductive phase := PRec (s : node) (rf : node -> rfault) | PShard (s : node) (ff : path -> option nat).
  Definition run_phase (fixed : bool) (ph : phase) (st : state A) : state A :=
    match ph with
    | PRec s rf => fst (sync_records rf s st)
    | PShard s ff => fst (sync_shards fixed ff s st)
    end.
  Definition run_phases (fixed : bool) (sched : list phase) (st : state A) : state A :=
    fold_left (fun acc ph => run_phase fixed ph acc) sched st.
  Definition phase_ff (ph : phase) : Prop :=
    match ph with
    | PRec _ rf => forall d, rf d = RNone
    | PShard _ ff => forall p, ff p = None
    end.
  Definition phase_node (ph : phase) : node := match ph with PRec s _ => s | PShard s _ => s end.
  Definition is_rec (ph : phase) : bool := match ph with PRec _ _ => true | _ => false end.

  (* ---------------------------------------------------------------- S ---- *)
  (* one transfer of one file or of one record group, with any fault, between
     any two nodes the code can pair (the destination is the owner) *)
  Inductive step (fixed : bool) : state A -> state A -> Prop :=
  | step_file st src p fa : src <> owner_f p ->
      step fixed st (fst (send_file fixed fa src (owner_f p) p st))
  | step_group st src d rf : src <> d ->
      step fixed st (fst (send_group rf src d st)).
  Definition reach (fixed : bool) : state A -> state A -> Prop := clos_refl_trans_n1 _ (step fixed).

  (* hypotheses on a placement *)
  Definition agree_files (st : state A) : Prop :=
    forall n1 n2 p f1 f2, file st n1 p = Some f1 -> file st n2 p = Some f2 -> f1 = f2.
  Definition agree_recs (st : state A) : Prop :=
    forall n1 n2 k v1 v2, rec_ st n1 k = Some v1 -> rec_ st n2 k = Some v2 -> v1 = v2.
  Definition nonempty_files (st : state A) : Prop := forall n p f, file st n p = Some f -> f <> [].
  Definition good (st : state A) : Prop := agree_files st /\ agree_recs st /\ nonempty_files st.
  Definition once_files (st : state A) : Prop :=
    forall n1 n2 p, file st n1 p <> None -> file st n2 p <> None -> n1 = n2.
  Definition collision_free (st : state A) : Prop :=
    forall n p f, file st n p = Some f -> forall g, hash g = hash f -> g = f.
  (* every node that holds anything takes part *)
  Definition covers (order : list node) (st : state A) : Prop :=
    forall n, ~ In n order -> (forall p, file st n p = None) /\ (forall k, rec_ st n k = None).

  Definition covers_phases (sched : list phase) (st : state A) : Prop :=
    forall n, ((exists rf, In (PRec n rf) sched) \/ forall k, rec_ st n k = None) /\
              ((exists ff, In (PShard n ff) sched) \/ forall p, file st n p = None).

  (* n further fault-free attempts to send p from src to dst *)
  Fixpoint retries (fixed : bool) (n : nat) (src dst : node) (p : path) (st : state A) : state A :=
    match n with
    | O => st
    | S k => fst (send_file fixed None src dst p (retries fixed k src dst p st))
    end.

  (* conclusions *)
  Definition no_loss (st0 st : state A) : Prop :=
    (forall n0 p f, file st0 n0 p = Some f -> exists n, file st n p = Some f) /\
    (forall n0 k v, rec_ st0 n0 k = Some v -> exists n, rec_ st n k = Some v).
  Definition converged (st0 st : state A) : Prop :=
    (forall n0 p f, file st0 n0 p = Some f -> file st (owner_f p) p = Some f) /\
    (forall n p g, file st n p = Some g -> n = owner_f p /\ exists n0, file st0 n0 p = Some g) /\
    (forall n0 k v, rec_ st0 n0 k = Some v -> rec_ st (owner_r k) k = Some v) /\
    (forall n k w, rec_ st n k = Some w -> n = owner_r k /\ exists n0, rec_ st0 n0 k = Some w).
End Model.

(* ------------------------------------------------------------------ *)
(* routing as the code does it (Model_C13): RendezvousHash(key, servers, 1)[0] with
   xxhash64; a record is routed by the user id (its key up to the first "/"),
   a shard file by its shard id *)
Fixpoint user_of (k : bytes) : bytes :=
  match k with [] => [] | x :: r => if (x =? 47)%N then [] else x :: user_of r end.
Definition own (servers : list bytes) (k : bytes) : node :=
  match owner xxh64 k servers with Some s => s | None => [] end.
Definition own_r (servers : list bytes) (k : key) : node := own servers (user_of k).
Definition own_f (servers : list bytes) (p : path) : node := own servers (snd p).

(* ------------------------------------------------------------------ *)
(* executable instances used by the Examples *)
Definition unit_dec (a b : unit) : {a = b} + {a <> b} := match a, b with tt, tt => left eq_refl end.
(* (1) the checksum of a file is Some of the file itself: injective, and different from
   the zero checksum None *)
Definition id_hash (l : list N) : option (list N) := Some l.
Definition optl_dec : forall a b : option (list N), {a = b} + {a <> b}.
Proof. repeat decide equality. Defined.

From Coq Require Import String.
(* (2) three servers, data placed for the old list [n1; n2] *)
Definition ex_n1 : node := str "n1:9"%string. Definition ex_n2 : node := str "n2:9"%string. Definition ex_n3 : node := str "n3:9"%string.
Definition ex_servers : list bytes := [ex_n1; ex_n2; ex_n3].
Definition ex_p1 : path := (str "u1"%string, str "c1"%string, str "s1"%string).
Definition ex_p2 : path := (str "u2"%string, str "c1"%string, str "s2"%string).
Definition ex_p3 : path := (str "u1"%string, str "c1"%string, str "s5"%string).
Definition ex_f1 : list N := [1; 2; 3; 4; 5; 6; 7; 8; 9; 10]%N.
Definition ex_f2 : list N := [11; 12; 13]%N.
Definition ex_f3 : list N := [7]%N.
Definition ex_st0 : state N :=
  mk_state [ (ex_n1, mkN [(str "u1/c1"%string, [1; 1]%N); (str "u2/c1"%string, [2; 2]%N)] [(ex_p1, ex_f1); (ex_p2, ex_f2)]);
             (ex_n2, mkN [(str "u5/c9"%string, [3]%N)] [(ex_p3, ex_f3)]) ].

(* (3) two nodes, a constant checksum *)
Definition ex_a : node := str "a"%string. Definition ex_b : node := str "b"%string.
Definition ex_stc : state N := mk_state [ (ex_a, mkN [] [(ex_p1, [1; 2]%N)]) ].
