(* Proofs_C16.v -- lemmas for property C16 (tenant isolation). *)
From Coq Require Import List NArith Bool Arith Lia Sorted.
From Semadb Require Import Bytes KV Model_C16.
Import ListNotations.
Open Scope N_scope.

(* ================================================================ keys == *)

Lemma has_byte_In x b : has_byte x b = true <-> In x b.
Proof.
  induction b as [|y b IH]; cbn; [split; [discriminate|tauto]|].
  rewrite orb_true_iff, N.eqb_eq, IH. tauto.
Qed.

Lemma bytes_eqb_false a b : bytes_eqb a b = false <-> a <> b.
Proof.
  split.
  - intros H E. apply bytes_eqb_eq in E. congruence.
  - intros H. destruct (bytes_eqb a b) eqn:E; [|reflexivity]. apply bytes_eqb_eq in E. contradiction.
Qed.

Lemma bytes_eqb_refl a : bytes_eqb a a = true.
Proof. now apply bytes_eqb_eq. Qed.

Lemma plain_b_spec b : plain_b b = true <-> plain b.
Proof.
  unfold plain_b, plain. rewrite !andb_true_iff, !negb_true_iff, !bytes_eqb_false.
  split.
  - intros [[[H1 H2] H3] H4]. repeat split; auto. intros Hin. apply has_byte_In in Hin. congruence.
  - intros (H1 & H2 & H3 & H4). repeat split; auto.
    destruct (has_byte slash b) eqn:E; [|reflexivity]. apply has_byte_In in E. contradiction.
Qed.

Lemma user_ok_plain u : user_ok_b u = true -> plain u.
Proof. unfold user_ok_b. rewrite andb_true_iff. intros [H _]. now apply plain_b_spec. Qed.

Lemma plain_no_slash b : plain b -> no_slash b.
Proof. intros H. exact (proj1 H). Qed.

Lemma app_slash_inj u u' c c' :
  ~ In slash u -> ~ In slash u' -> u ++ slash :: c = u' ++ slash :: c' -> u = u' /\ c = c'.
Proof.
  revert u'. induction u as [|x u IH]; intros [|y u'] Hu Hu' E; cbn in *.
  - inversion E; auto.
  - inversion E; subst. exfalso. apply Hu'. now left.
  - inversion E; subst. exfalso. apply Hu. now left.
  - inversion E; subst. destruct (IH u') as [-> ->]; auto.
Qed.

Lemma rec_key_inj u u' c c' :
  no_slash u -> no_slash u' -> rec_key u c = rec_key u' c' -> u = u' /\ c = c'.
Proof. unfold rec_key. cbn [app]. apply app_slash_inj. Qed.

Lemma rec_key_prefix u c : is_prefix (user_prefix u) (rec_key u c) = true.
Proof.
  apply is_prefix_spec. exists c. unfold rec_key, user_prefix. now rewrite <- app_assoc.
Qed.

Lemma prefix_user u u' c' :
  no_slash u -> no_slash u' -> is_prefix (user_prefix u) (rec_key u' c') = true -> u = u'.
Proof.
  intros Hu Hu' H. apply is_prefix_spec in H. destruct H as [r H].
  unfold rec_key, user_prefix in H. rewrite <- app_assoc in H. cbn [app] in H.
  apply app_slash_inj in H; auto. now destruct H.
Qed.

Lemma prefix_other u u' c' :
  no_slash u -> no_slash u' -> u <> u' -> is_prefix (user_prefix u) (rec_key u' c') = false.
Proof.
  intros Hu Hu' Hn. destruct (is_prefix (user_prefix u) (rec_key u' c')) eqn:E; [|reflexivity].
  apply prefix_user in E; auto. contradiction.
Qed.

Lemma thm_keys_disjoint u u' c c' : no_slash u -> no_slash u' ->
  (rec_key u c = rec_key u' c' -> u = u' /\ c = c') /\
  (is_prefix (user_prefix u) (rec_key u' c') = true <-> u = u').
Proof.
  intros Hu Hu'. split; [now apply rec_key_inj|]. split; [now apply prefix_user|].
  intros ->. apply rec_key_prefix.
Qed.

(* the prefix scan of the model is the bbolt cursor loop on the keys *)
Lemma map_fst_filter {A B} (g : A -> bool) (l : list (A * B)) :
  map fst (filter (fun kv => g (fst kv)) l) = filter g (map fst l).
Proof.
  induction l as [|[k v] l IH]; cbn; [reflexivity|]. destruct (g k); cbn; now rewrite IH.
Qed.

Lemma thm_scan_is_bbolt (d : db) p : ksorted (map fst d) ->
  map fst (scan d p) = bbolt_prefix (map fst d) p /\ map fst (scan d p) = mem_prefix (map fst d) p.
Proof.
  intros Hs. unfold scan, mem_prefix. rewrite bbolt_prefix_spec by exact Hs.
  rewrite (map_fst_filter (is_prefix p)). auto.
Qed.

(* a prefix scan for u returns exactly the records of u *)
Lemma thm_scan_exact (d : db) u : no_slash u ->
  Forall (fun kv => fst kv = rec_key (r_user (snd kv)) (r_col (snd kv)) /\ no_slash (r_user (snd kv))) d ->
  scan d (user_prefix u) = filter (fun kv => bytes_eqb (r_user (snd kv)) u) d.
Proof.
  intros Hu H. unfold scan. induction H as [|[k r] d [Hk Hr] _ IH]; cbn [filter]; [reflexivity|].
  cbn [fst snd] in *. rewrite IH. subst k.
  destruct (bytes_eqb (r_user r) u) eqn:E.
  - apply bytes_eqb_eq in E. subst u. now rewrite rec_key_prefix.
  - apply bytes_eqb_false in E. rewrite prefix_other; auto.
Qed.

(* ================================================== association lists == *)
Section AssocFacts.
  Context {K V : Type} (eqb : K -> K -> bool).
  Hypothesis eqb_eq : forall a b, eqb a b = true <-> a = b.
  Variable g : K -> bool.

  Lemma al_get_In (l : list (K * V)) k v : al_get eqb l k = Some v -> In (k, v) l.
  Proof.
    induction l as [|[k' v'] t IH]; cbn; [discriminate|].
    destruct (eqb k' k) eqn:E.
    - apply eqb_eq in E. subst. intros H; inversion H; subst. now left.
    - intros H. right. auto.
  Qed.

  Lemma al_get_filter (l : list (K * V)) k : g k = true ->
    al_get eqb (filter (fun e => g (fst e)) l) k = al_get eqb l k.
  Proof.
    intros Hg. induction l as [|[k' v'] t IH]; cbn; [reflexivity|].
    destruct (eqb k' k) eqn:E.
    - assert (k' = k) by now apply eqb_eq. subst k'. rewrite Hg. cbn. now rewrite E.
    - destruct (g k'); cbn; [rewrite E|]; exact IH.
  Qed.

  Lemma al_put_filter_in (l : list (K * V)) k v : g k = true ->
    filter (fun e => g (fst e)) (al_put eqb l k v) = al_put eqb (filter (fun e => g (fst e)) l) k v.
  Proof.
    intros Hg. induction l as [|[k' v'] t IH]; cbn; [now rewrite Hg|].
    destruct (eqb k' k) eqn:E.
    - assert (k' = k) by now apply eqb_eq. subst k'. cbn. rewrite Hg. cbn. now rewrite E.
    - cbn. destruct (g k'); cbn; [rewrite E|]; now rewrite IH.
  Qed.

  Lemma al_put_filter_out (l : list (K * V)) k v : g k = false ->
    filter (fun e => g (fst e)) (al_put eqb l k v) = filter (fun e => g (fst e)) l.
  Proof.
    intros Hg. induction l as [|[k' v'] t IH]; cbn; [now rewrite Hg|].
    destruct (eqb k' k) eqn:E.
    - assert (k' = k) by now apply eqb_eq. subst k'. cbn. now rewrite Hg.
    - cbn. destruct (g k'); now rewrite IH.
  Qed.

  Lemma al_remove_filter (l : list (K * V)) k :
    filter (fun e => g (fst e)) (al_remove eqb l k) = al_remove eqb (filter (fun e => g (fst e)) l) k.
  Proof.
    induction l as [|[k' v'] t IH]; cbn; [reflexivity|].
    destruct (eqb k' k) eqn:E.
    - destruct (g k'); cbn; [rewrite E|]; exact IH.
    - cbn. destruct (g k'); cbn; [rewrite E|]; now rewrite IH.
  Qed.

  Lemma al_remove_filter_out (l : list (K * V)) k : g k = false ->
    filter (fun e => g (fst e)) (al_remove eqb l k) = filter (fun e => g (fst e)) l.
  Proof.
    intros Hg. induction l as [|[k' v'] t IH]; cbn; [reflexivity|].
    destruct (eqb k' k) eqn:E.
    - assert (k' = k) by now apply eqb_eq. subst k'. now rewrite Hg.
    - cbn. destruct (g k'); now rewrite IH.
  Qed.

  Lemma al_put_Forall (P : K * V -> Prop) (l : list (K * V)) k v :
    Forall P l -> P (k, v) -> Forall P (al_put eqb l k v).
  Proof.
    intros H Hp. induction H as [|[k' v'] t Hx Ht IH]; cbn; [now constructor|].
    destruct (eqb k' k); constructor; auto.
  Qed.

  Lemma al_remove_Forall (P : K * V -> Prop) (l : list (K * V)) k :
    Forall P l -> Forall P (al_remove eqb l k).
  Proof.
    intros H. induction H as [|[k' v'] t Hx _ IH]; cbn; [constructor|].
    destruct (eqb k' k); [exact IH|constructor; auto].
  Qed.
End AssocFacts.

Lemma filter_comm {A} (f g : A -> bool) l : filter f (filter g l) = filter g (filter f l).
Proof.
  induction l as [|x l IH]; cbn; [reflexivity|].
  destruct (g x) eqn:G, (f x) eqn:F; cbn; rewrite ?G, ?F, IH; reflexivity.
Qed.

Lemma filter_neg_nil {A} (g : A -> bool) l : filter g (filter (fun e => negb (g e)) l) = [].
Proof.
  induction l as [|x l IH]; cbn; [reflexivity|].
  destruct (g x) eqn:G; cbn; [exact IH|]. now rewrite G.
Qed.

Lemma filter_disjoint {A} (g h : A -> bool) l :
  (forall e, g e = true -> h e = false) -> filter g (filter (fun e => negb (h e)) l) = filter g l.
Proof.
  intros H. induction l as [|x l IH]; cbn; [reflexivity|].
  destruct (g x) eqn:G.
  - rewrite (H x G). cbn. rewrite G. now rewrite IH.
  - destruct (h x); cbn; rewrite ?G; exact IH.
Qed.

Lemma filter_implied {A} (g h : A -> bool) l :
  (forall e, g e = true -> h e = true) -> filter g (filter (fun e => negb (h e)) l) = [].
Proof.
  intros H. induction l as [|x l IH]; cbn; [reflexivity|].
  destruct (h x) eqn:Hx; cbn; [exact IH|].
  destruct (g x) eqn:G; [|exact IH]. rewrite (H x G) in Hx. discriminate.
Qed.

(* ================================================================ paths == *)

Lemma path_eqb_eq a b : path_eqb a b = true <-> a = b.
Proof.
  revert b. induction a as [|x a IH]; intros [|y b]; cbn; try (split; congruence).
  rewrite andb_true_iff, bytes_eqb_eq, IH. split; [intros [-> ->]; reflexivity|intros H; inversion H; auto].
Qed.

Lemma strictly_below_spec p d : strictly_below p d = true <-> exists x r, d = p ++ x :: r.
Proof.
  revert d. induction p as [|y p IH]; intros [|z d]; cbn.
  - split; [discriminate|]. intros (x & r & H). discriminate.
  - split; [eauto|reflexivity].
  - split; [discriminate|]. intros (x & r & H). discriminate.
  - rewrite andb_true_iff, bytes_eqb_eq, IH. split.
    + intros [-> (x & r & ->)]. eauto.
    + intros (x & r & H). inversion H; subst. eauto.
Qed.

Lemma split_no_slash b : ~ In slash b -> split_slash b = [b].
Proof.
  induction b as [|x b IH]; cbn; [reflexivity|]. intros H.
  destruct (x =? slash) eqn:E.
  - apply N.eqb_eq in E. subst. exfalso. apply H. now left.
  - rewrite IH; [reflexivity|]. intros X. apply H. now right.
Qed.

Lemma push_plain stk s : plain s -> push_seg stk s = s :: stk.
Proof.
  intros (_ & H1 & H2 & H3). unfold push_seg.
  apply bytes_eqb_false in H1, H2, H3. now rewrite H1, H2, H3.
Qed.

Lemma fold_push_plain l stk : Forall plain l -> fold_left push_seg l stk = rev l ++ stk.
Proof.
  revert stk. induction l as [|s l IH]; intros stk H; cbn; [reflexivity|].
  inversion H; subst. rewrite push_plain by assumption. rewrite IH by assumption.
  now rewrite <- app_assoc.
Qed.

Lemma flat_split_plain l : Forall plain l -> flat_map split_slash l = l.
Proof.
  induction 1 as [|s l Hs _ IH]; cbn; [reflexivity|].
  rewrite split_no_slash by exact (proj1 Hs). cbn. now rewrite IH.
Qed.

(* the cleaned root directory *)
Definition base (root : bytes) : path := clean_segs (split_slash root).

Lemma join_plain root l : Forall plain l -> join_clean (root :: l) = base root ++ l.
Proof.
  intros H. unfold join_clean, clean_segs, base. cbn [flat_map].
  rewrite flat_split_plain by exact H.
  rewrite fold_left_app, fold_push_plain by exact H.
  now rewrite rev_app_distr, rev_involutive.
Qed.

Lemma plain_ucols : plain ucols.
Proof. apply plain_b_spec. vm_compute. reflexivity. Qed.

Lemma user_dir_plain root u : plain u -> user_dir root u = base root ++ [ucols; u].
Proof. intros H. unfold user_dir. apply join_plain. apply Forall_cons; [exact plain_ucols|]. apply Forall_cons; [exact H|]. apply Forall_nil. Qed.
Lemma collection_dir_plain root u c : plain u -> plain c ->
  collection_dir root u c = base root ++ [ucols; u; c].
Proof.
  intros H H'. unfold collection_dir. apply join_plain. apply Forall_cons; [exact plain_ucols|].
  apply Forall_cons; [exact H|]. apply Forall_cons; [exact H'|]. apply Forall_nil.
Qed.
Lemma shard_dir_plain root u c s : plain u -> plain c -> plain s ->
  shard_dir root u c s = base root ++ [ucols; u; c; s].
Proof.
  intros H H' H''. unfold shard_dir. apply join_plain. apply Forall_cons; [exact plain_ucols|].
  apply Forall_cons; [exact H|]. apply Forall_cons; [exact H'|]. apply Forall_cons; [exact H''|]. apply Forall_nil.
Qed.

Lemma shard_dir_below_own root u c s : plain u -> plain c -> plain s ->
  strictly_below (user_dir root u) (shard_dir root u c s) = true.
Proof.
  intros Hu Hc Hs. rewrite user_dir_plain, shard_dir_plain by assumption.
  apply strictly_below_spec. exists c, [s]. now rewrite <- app_assoc.
Qed.

(* the collection directory of (u, c) and everything below it is outside the tree of u' *)
Lemma paths_disjoint root u u' c d : plain u -> plain u' -> plain c -> u <> u' ->
  d = collection_dir root u c \/ strictly_below (collection_dir root u c) d = true ->
  d <> user_dir root u' /\ strictly_below (user_dir root u') d = false.
Proof.
  intros Hu Hu' Hc Hn Hd.
  rewrite collection_dir_plain in Hd by assumption. rewrite user_dir_plain by assumption.
  assert (Hform : exists t, d = base root ++ ucols :: u :: c :: t).
  { destruct Hd as [->|Hd]; [now exists []|].
    apply strictly_below_spec in Hd. destruct Hd as (x & r & ->). exists (x :: r).
    now rewrite <- app_assoc. }
  destruct Hform as [t ->]. split.
  - intros E. apply app_inv_head in E. inversion E.
  - destruct (strictly_below (base root ++ [ucols; u']) (base root ++ ucols :: u :: c :: t)) eqn:E; [|reflexivity].
    apply strictly_below_spec in E. destruct E as (x & r & E).
    rewrite <- app_assoc in E. apply app_inv_head in E. inversion E. congruence.
Qed.

Lemma shard_dir_not_below_other root u u' c s : plain u -> plain u' -> plain c -> plain s -> u <> u' ->
  strictly_below (user_dir root u') (shard_dir root u c s) = false.
Proof.
  intros Hu Hu' Hc Hs Hn.
  apply (paths_disjoint root u u' c); auto. right.
  rewrite collection_dir_plain, shard_dir_plain by assumption.
  apply strictly_below_spec. exists s, []. now rewrite <- app_assoc.
Qed.

Lemma delete_shards_other root u u' c (f : fs) : plain u -> plain u' -> plain c -> u <> u' ->
  filter (below_b (user_dir root u')) (delete_collection_shards f root u c)
  = filter (below_b (user_dir root u')) f.
Proof.
  intros Hu Hu' Hc Hn. unfold delete_collection_shards.
  apply filter_disjoint. intros e He. unfold below_b in *.
  destruct (strictly_below (collection_dir root u c) (fst e)) eqn:E; [|reflexivity].
  destruct (paths_disjoint root u u' c (fst e)) as [_ H]; auto. congruence.
Qed.

Lemma thm_paths_disjoint root u u' c : plain u -> plain u' -> plain c -> u <> u' ->
  (forall d, d = collection_dir root u c \/ strictly_below (collection_dir root u c) d = true ->
             d <> user_dir root u' /\ strictly_below (user_dir root u') d = false) /\
  (forall s, plain s -> strictly_below (user_dir root u') (shard_dir root u c s) = false) /\
  (forall f : fs, filter (below_b (user_dir root u')) (delete_collection_shards f root u c)
                  = filter (below_b (user_dir root u')) f).
Proof.
  intros Hu Hu' Hc Hn. split; [|split].
  - intros d. now apply paths_disjoint.
  - intros s Hs. now apply shard_dir_not_below_other.
  - intros f. now apply delete_shards_other.
Qed.

(* ---- "." and ".." change the directory level ---- *)
Lemma clean_drop_dot a b : clean_segs (a ++ dot :: b) = clean_segs (a ++ b).
Proof. unfold clean_segs. rewrite !fold_left_app. reflexivity. Qed.

Lemma dot_alias root b : collection_dir root dot b = user_dir root b.
Proof.
  unfold collection_dir, user_dir, join_clean. cbn [flat_map].
  change (split_slash dot) with [dot]. rewrite !app_nil_r.
  change ([dot] ++ split_slash b) with (dot :: split_slash b).
  rewrite !app_assoc. apply clean_drop_dot.
Qed.

Lemma thm_dot_wipes root b (f : fs) :
  collection_dir root dot b = user_dir root b /\
  filter (below_b (user_dir root b)) (delete_collection_shards f root dot b) = [].
Proof.
  split; [apply dot_alias|]. unfold delete_collection_shards. rewrite dot_alias. apply filter_neg_nil.
Qed.

Lemma dotdot_ucols root : collection_dir root dotdot ucols = base root ++ [ucols].
Proof.
  unfold collection_dir, join_clean, clean_segs, base. cbn [flat_map].
  rewrite (split_no_slash ucols) by exact (proj1 plain_ucols).
  change (split_slash dotdot) with [dotdot].
  rewrite !fold_left_app. cbn [fold_left app].
  rewrite (push_plain _ ucols) by exact plain_ucols.
  change (push_seg (ucols :: fold_left push_seg (split_slash root) []) dotdot)
    with (fold_left push_seg (split_slash root) []).
  rewrite (push_plain _ ucols) by exact plain_ucols. reflexivity.
Qed.

Lemma thm_dotdot_wipes root b (f : fs) : plain b ->
  filter (below_b (user_dir root b)) (delete_collection_shards f root dotdot ucols) = [].
Proof.
  intros Hb. unfold delete_collection_shards. apply filter_implied. intros e He.
  unfold below_b in *. rewrite dotdot_ucols. rewrite user_dir_plain in He by assumption.
  apply strictly_below_spec in He. destruct He as (x & r & ->).
  apply strictly_below_spec. exists b, (x :: r). now rewrite <- !app_assoc.
Qed.

(* ============================================================ requests == *)

Lemma valid_col_plain v c : valid_col v c = true -> plain c.
Proof.
  unfold valid_col. destruct (v =? 1); intros H; apply andb_true_iff in H; destruct H as [HL HA].
  - split.
    + intros Hin. rewrite forallb_forall in HA. apply HA in Hin. vm_compute in Hin. discriminate.
    + repeat split; intros ->; vm_compute in HL; discriminate.
  - split.
    + intros Hin. rewrite forallb_forall in HA. apply HA in Hin. vm_compute in Hin. discriminate.
    + repeat split; intros ->; vm_compute in HL; discriminate.
Qed.

Lemma get_wf st u c r : wf st -> no_slash u -> get_collection (st_db st) u c = Some r ->
  r_user r = u /\ r_col r = c /\ plain u /\ plain c /\ Forall plain (r_shards r).
Proof.
  intros Hwf Hu Hg. unfold get_collection, db_get in Hg.
  apply (al_get_In bytes_eqb bytes_eqb_eq) in Hg.
  unfold wf in Hwf. rewrite Forall_forall in Hwf. apply Hwf in Hg.
  destruct Hg as (Hk & Hpu & Hpc & Hps). cbn [fst snd] in *.
  apply rec_key_inj in Hk; auto using plain_no_slash. destruct Hk as [-> ->]. auto.
Qed.

Lemma get_through_scan d u c :
  get_collection d u c = db_get (scan d (user_prefix u)) (rec_key u c).
Proof.
  unfold get_collection, db_get, scan. symmetry.
  apply (al_get_filter bytes_eqb bytes_eqb_eq (is_prefix (user_prefix u))). apply rec_key_prefix.
Qed.

Lemma view_eq root u d1 d2 (f1 f2 : fs) :
  scan d1 (user_prefix u) = scan d2 (user_prefix u) ->
  filter (below_b (user_dir root u)) f1 = filter (below_b (user_dir root u)) f2 ->
  view_of root u (mkst d1 f1) = view_of root u (mkst d2 f2).
Proof. intros H1 H2. unfold view_of, user_count. cbn [st_db st_fs]. now rewrite H1, H2. Qed.

Lemma view_inv root u st1 st2 : view_of root u st1 = view_of root u st2 ->
  scan (st_db st1) (user_prefix u) = scan (st_db st2) (user_prefix u) /\
  filter (below_b (user_dir root u)) (st_fs st1) = filter (below_b (user_dir root u)) (st_fs st2).
Proof. unfold view_of. intros H. inversion H. auto. Qed.

Lemma scan_put_other d a b c r : no_slash a -> no_slash b -> b <> a ->
  scan (db_put d (rec_key a c) r) (user_prefix b) = scan d (user_prefix b).
Proof.
  intros Ha Hb Hn. unfold scan, db_put.
  apply (al_put_filter_out bytes_eqb bytes_eqb_eq (is_prefix (user_prefix b))).
  now apply prefix_other.
Qed.
Lemma scan_remove_other d a b c : no_slash a -> no_slash b -> b <> a ->
  scan (db_remove d (rec_key a c)) (user_prefix b) = scan d (user_prefix b).
Proof.
  intros Ha Hb Hn. unfold scan, db_remove.
  apply (al_remove_filter_out bytes_eqb bytes_eqb_eq (is_prefix (user_prefix b))).
  now apply prefix_other.
Qed.
Lemma scan_put_own d u c r :
  scan (db_put d (rec_key u c) r) (user_prefix u) = db_put (scan d (user_prefix u)) (rec_key u c) r.
Proof.
  unfold scan, db_put.
  apply (al_put_filter_in bytes_eqb bytes_eqb_eq (is_prefix (user_prefix u))). apply rec_key_prefix.
Qed.
Lemma scan_remove_own d u c :
  scan (db_remove d (rec_key u c)) (user_prefix u) = db_remove (scan d (user_prefix u)) (rec_key u c).
Proof. unfold scan, db_remove. apply (al_remove_filter bytes_eqb (is_prefix (user_prefix u))). Qed.

Lemma below_put_other (f : fs) p q x : strictly_below p q = false ->
  filter (below_b p) (fs_put f q x) = filter (below_b p) f.
Proof. intros H. unfold below_b, fs_put. now apply (al_put_filter_out path_eqb path_eqb_eq (strictly_below p)). Qed.
Lemma below_put_own (f : fs) p q x : strictly_below p q = true ->
  filter (below_b p) (fs_put f q x) = fs_put (filter (below_b p) f) q x.
Proof. intros H. unfold below_b, fs_put. now apply (al_put_filter_in path_eqb path_eqb_eq (strictly_below p)). Qed.
Lemma below_get_own (f : fs) p q : strictly_below p q = true ->
  fs_get (filter (below_b p) f) q = fs_get f q.
Proof. intros H. unfold below_b, fs_get. now apply (al_get_filter path_eqb path_eqb_eq (strictly_below p)). Qed.
Lemma below_mkdir_other (f : fs) p q : strictly_below p q = false ->
  filter (below_b p) (fs_mkdir f q) = filter (below_b p) f.
Proof. intros H. unfold fs_mkdir. destruct (fs_get f q); [reflexivity|]. now apply below_put_other. Qed.
Lemma below_mkdir_own (f : fs) p q : strictly_below p q = true ->
  filter (below_b p) (fs_mkdir f q) = fs_mkdir (filter (below_b p) f) q.
Proof.
  intros H. unfold fs_mkdir. rewrite (below_get_own f p q H).
  destruct (fs_get f q); [reflexivity|]. now apply below_put_own.
Qed.

Lemma wf_put st k r (f : fs) : wf st -> rec_wf (k, r) -> wf (mkst (db_put (st_db st) k r) f).
Proof. intros H Hr. unfold wf, db_put. cbn [st_db]. now apply al_put_Forall. Qed.
Lemma wf_remove st k (f : fs) : wf st -> wf (mkst (db_remove (st_db st) k) f).
Proof. intros H. unfold wf, db_remove. cbn [st_db]. now apply al_remove_Forall. Qed.
Lemma wf_fs st (f : fs) : wf st -> wf (mkst (st_db st) f).
Proof. intros H. exact H. Qed.

Lemma has_shard_plain r s : Forall plain (r_shards r) -> has_shard r s = true -> plain s.
Proof.
  intros H Hs. unfold has_shard in Hs. apply existsb_exists in Hs. destruct Hs as (x & Hx & E).
  apply bytes_eqb_eq in E. subst x. rewrite Forall_forall in H. auto.
Qed.

(* ---- a request of user a: well-formedness is kept ---- *)
Lemma step_wf root a o st : plain a -> wf st -> op_ok o -> wf (fst (step root a o st)).
Proof.
  intros Ha Hwf Hok. pose proof (plain_no_slash a Ha) as Hna.
  destruct st as [d f]. destruct o as [v c maxc| |v c|v c|v c s|v c s x|v c s|v c];
    cbn [step st_db st_fs]; unfold with_col; cbn [st_db st_fs].
  - destruct (valid_col v c) eqn:Ev; cbn [negb]; [|exact Hwf].
    destruct (db_get d (rec_key a c)); [exact Hwf|].
    destruct (maxc <=? user_count d a); [exact Hwf|]. cbn [fst].
    apply (wf_put (mkst d f)); [exact Hwf|].
    unfold rec_wf. cbn [fst snd r_user r_col r_shards].
    split; [reflexivity|]. split; [exact Ha|]. split; [exact (valid_col_plain v c Ev)|constructor].
  - exact Hwf.
  - destruct (valid_uri v c); cbn [negb]; [|exact Hwf]. destruct (get_collection d a c); exact Hwf.
  - destruct (valid_uri v c); cbn [negb]; [|exact Hwf].
    destruct (get_collection d a c) eqn:Eg; [|exact Hwf]. cbn [fst].
    apply (wf_remove (mkst d f)). exact Hwf.
  - destruct (valid_uri v c); cbn [negb]; [|exact Hwf].
    destruct (get_collection d a c) as [r|] eqn:Eg; [|exact Hwf]. cbn [fst].
    destruct (get_wf (mkst d f) a c r Hwf Hna Eg) as (Eu & Ec & _ & Hpc & Hps).
    apply (wf_put (mkst d f)); [exact Hwf|].
    rewrite Eu, Ec. unfold rec_wf. cbn [fst snd r_user r_col r_shards].
    split; [reflexivity|]. split; [exact Ha|]. split; [exact Hpc|].
    apply Forall_app. split; [exact Hps|]. constructor; [exact Hok|constructor].
  - destruct (valid_uri v c); cbn [negb]; [|exact Hwf].
    destruct (get_collection d a c) as [r|]; [|exact Hwf].
    destruct (has_shard r s); exact Hwf.
  - destruct (valid_uri v c); cbn [negb]; [|exact Hwf].
    destruct (get_collection d a c) as [r|]; [|exact Hwf].
    destruct (has_shard r s); exact Hwf.
  - destruct (valid_uri v c); cbn [negb]; [|exact Hwf].
    destruct (get_collection d a c) as [r|]; exact Hwf.
Qed.

(* ---- a request of user a does not change the view of another user b ---- *)
Lemma step_other root a b o st : plain a -> plain b -> a <> b -> wf st -> op_ok o ->
  view_of root b (fst (step root a o st)) = view_of root b st.
Proof.
  intros Ha Hb Hn Hwf Hok.
  pose proof (plain_no_slash a Ha) as Hna. pose proof (plain_no_slash b Hb) as Hnb.
  assert (Hn' : b <> a) by congruence.
  destruct st as [d f]. destruct o as [v c maxc| |v c|v c|v c s|v c s x|v c s|v c];
    cbn [step st_db st_fs]; unfold with_col; cbn [st_db st_fs].
  - destruct (valid_col v c) eqn:Ev; cbn [negb]; [|reflexivity].
    destruct (db_get d (rec_key a c)); [reflexivity|].
    destruct (maxc <=? user_count d a); [reflexivity|]. cbn [fst].
    apply view_eq; [|reflexivity]. now apply scan_put_other.
  - reflexivity.
  - destruct (valid_uri v c); cbn [negb]; [|reflexivity]. destruct (get_collection d a c); reflexivity.
  - destruct (valid_uri v c); cbn [negb]; [|reflexivity].
    destruct (get_collection d a c) as [r|] eqn:Eg; [|reflexivity]. cbn [fst].
    destruct (get_wf (mkst d f) a c r Hwf Hna Eg) as (Eu & Ec & _ & Hpc & Hps). rewrite Eu, Ec.
    apply view_eq; [now apply scan_remove_other|].
    destruct (r_shards r); [reflexivity|]. now apply delete_shards_other.
  - destruct (valid_uri v c); cbn [negb]; [|reflexivity].
    destruct (get_collection d a c) as [r|] eqn:Eg; [|reflexivity]. cbn [fst].
    destruct (get_wf (mkst d f) a c r Hwf Hna Eg) as (Eu & Ec & _ & Hpc & Hps). rewrite Eu, Ec.
    apply view_eq; [now apply scan_put_other|].
    apply below_mkdir_other. now apply shard_dir_not_below_other.
  - destruct (valid_uri v c); cbn [negb]; [|reflexivity].
    destruct (get_collection d a c) as [r|] eqn:Eg; [|reflexivity].
    destruct (get_wf (mkst d f) a c r Hwf Hna Eg) as (Eu & Ec & _ & Hpc & Hps). rewrite Eu, Ec.
    destruct (has_shard r s) eqn:Hs; [|reflexivity]. cbn [fst].
    apply view_eq; [reflexivity|].
    apply below_put_other. apply shard_dir_not_below_other; auto. now apply (has_shard_plain r).
  - destruct (valid_uri v c); cbn [negb]; [|reflexivity].
    destruct (get_collection d a c) as [r|]; [|reflexivity]. destruct (has_shard r s); reflexivity.
  - destruct (valid_uri v c); cbn [negb]; [|reflexivity].
    destruct (get_collection d a c) as [r|] eqn:Eg; [|reflexivity]. cbn [fst].
    destruct (get_wf (mkst d f) a c r Hwf Hna Eg) as (Eu & Ec & _ & Hpc & Hps). rewrite Eu, Ec.
    apply view_eq; [reflexivity|]. now apply delete_shards_other.
Qed.

Lemma run_wf root a os : plain a -> forall st, wf st -> Forall op_ok os -> wf (run root a os st).
Proof.
  intros Ha. induction os as [|o os IH]; intros st Hwf Hok; cbn; [exact Hwf|].
  inversion Hok; subst. apply IH; [|assumption]. now apply step_wf.
Qed.

Lemma thm_noninterference root a b os : plain a -> plain b -> a <> b ->
  forall st, wf st -> Forall op_ok os ->
  view_of root b (run root a os st) = view_of root b st /\
  (forall c, get_collection (st_db (run root a os st)) b c = get_collection (st_db st) b c) /\
  list_collections (st_db (run root a os st)) b = list_collections (st_db st) b /\
  user_count (st_db (run root a os st)) b = user_count (st_db st) b.
Proof.
  intros Ha Hb Hn.
  assert (Hv : forall st, wf st -> Forall op_ok os -> view_of root b (run root a os st) = view_of root b st).
  { induction os as [|o os IH]; intros st Hwf Hok; cbn; [reflexivity|].
    inversion Hok; subst. rewrite IH; [|now apply step_wf|assumption]. now apply step_other. }
  intros st Hwf Hok. specialize (Hv st Hwf Hok). split; [exact Hv|].
  apply view_inv in Hv. destruct Hv as [Hs _].
  split; [|split].
  - intros c. rewrite !get_through_scan. now rewrite Hs.
  - unfold list_collections. now rewrite Hs.
  - unfold user_count. now rewrite Hs.
Qed.

(* the current tree: whatever the X-User-Id of the acting requests is *)
Lemma thm_http_noninterference root a b os : user_ok_b b = true -> a <> b ->
  forall st, wf st -> Forall op_ok os ->
  view_of root b (http_run root a os st) = view_of root b st.
Proof.
  intros Hb Hn. apply user_ok_plain in Hb.
  destruct (user_ok_b a) eqn:Ea.
  - assert (Ha : plain a) by now apply user_ok_plain.
    assert (E : forall st, http_run root a os st = run root a os st).
    { induction os as [|o os IH]; intros st; cbn; [reflexivity|]. unfold http_step. rewrite Ea. apply IH. }
    intros st Hwf Hok. rewrite E. now apply thm_noninterference.
  - assert (E : forall st, http_run root a os st = st).
    { induction os as [|o os IH]; intros st; cbn; [reflexivity|]. unfold http_step. rewrite Ea. apply IH. }
    intros st _ _. now rewrite E.
Qed.

(* ---- the requests of user b depend on the state only through the view of b ---- *)
Lemma step_own root b o st1 st2 : plain b -> wf st1 -> wf st2 -> op_ok o ->
  view_of root b st1 = view_of root b st2 ->
  snd (step root b o st1) = snd (step root b o st2) /\
  view_of root b (fst (step root b o st1)) = view_of root b (fst (step root b o st2)).
Proof.
  intros Hb Hwf1 Hwf2 Hok Hv. pose proof (plain_no_slash b Hb) as Hnb.
  destruct (view_inv _ _ _ _ Hv) as [Hs Hf].
  destruct st1 as [d1 f1], st2 as [d2 f2]. cbn [st_db st_fs] in Hs, Hf.
  assert (Hget : forall c, get_collection d1 b c = get_collection d2 b c).
  { intros c. rewrite !get_through_scan. now rewrite Hs. }
  assert (Hcount : user_count d1 b = user_count d2 b) by (unfold user_count; now rewrite Hs).
  destruct o as [v c maxc| |v c|v c|v c s|v c s x|v c s|v c];
    cbn [step st_db st_fs]; unfold with_col; cbn [st_db st_fs].
  - destruct (valid_col v c) eqn:Ev; cbn [negb]; [|auto].
    change (db_get d1 (rec_key b c)) with (get_collection d1 b c).
    change (db_get d2 (rec_key b c)) with (get_collection d2 b c).
    rewrite Hget. destruct (get_collection d2 b c); [auto|].
    rewrite Hcount. destruct (maxc <=? user_count d2 b); [auto|]. cbn [fst snd].
    split; [reflexivity|]. apply view_eq; [|exact Hf]. rewrite !scan_put_own. now rewrite Hs.
  - cbn [fst snd]. split; [|exact Hv]. unfold list_collections. now rewrite Hs.
  - destruct (valid_uri v c); cbn [negb]; [|auto]. rewrite Hget.
    destruct (get_collection d2 b c); auto.
  - destruct (valid_uri v c); cbn [negb]; [|auto]. rewrite Hget.
    destruct (get_collection d2 b c) as [r|] eqn:Eg; [|auto]. cbn [fst snd].
    destruct (get_wf (mkst d2 f2) b c r Hwf2 Hnb Eg) as (Eu & Ec & _ & Hpc & Hps). rewrite Eu, Ec.
    split; [reflexivity|]. apply view_eq; [rewrite !scan_remove_own; now rewrite Hs|].
    destruct (r_shards r); [exact Hf|].
    unfold delete_collection_shards. rewrite !(filter_comm (below_b (user_dir root b))). now rewrite Hf.
  - destruct (valid_uri v c); cbn [negb]; [|auto]. rewrite Hget.
    destruct (get_collection d2 b c) as [r|] eqn:Eg; [|auto]. cbn [fst snd].
    destruct (get_wf (mkst d2 f2) b c r Hwf2 Hnb Eg) as (Eu & Ec & _ & Hpc & Hps). rewrite Eu, Ec.
    split; [reflexivity|]. apply view_eq; [rewrite !scan_put_own; now rewrite Hs|].
    rewrite !below_mkdir_own by (now apply shard_dir_below_own). now rewrite Hf.
  - destruct (valid_uri v c); cbn [negb]; [|auto]. rewrite Hget.
    destruct (get_collection d2 b c) as [r|] eqn:Eg; [|auto].
    destruct (get_wf (mkst d2 f2) b c r Hwf2 Hnb Eg) as (Eu & Ec & _ & Hpc & Hps). rewrite Eu, Ec.
    destruct (has_shard r s) eqn:Hsh; [|auto]. cbn [fst snd].
    split; [reflexivity|]. apply view_eq; [exact Hs|].
    assert (Hps' : plain s) by now apply (has_shard_plain r).
    rewrite !below_put_own by (now apply shard_dir_below_own). now rewrite Hf.
  - destruct (valid_uri v c); cbn [negb]; [|auto]. rewrite Hget.
    destruct (get_collection d2 b c) as [r|] eqn:Eg; [|auto].
    destruct (get_wf (mkst d2 f2) b c r Hwf2 Hnb Eg) as (Eu & Ec & _ & Hpc & Hps). rewrite Eu, Ec.
    destruct (has_shard r s) eqn:Hsh; [|auto]. cbn [fst snd]. split; [|exact Hv].
    assert (Hps' : plain s) by now apply (has_shard_plain r).
    rewrite <- (below_get_own f1 (user_dir root b)) by (now apply shard_dir_below_own).
    rewrite <- (below_get_own f2 (user_dir root b)) by (now apply shard_dir_below_own).
    now rewrite Hf.
  - destruct (valid_uri v c); cbn [negb]; [|auto]. rewrite Hget.
    destruct (get_collection d2 b c) as [r|] eqn:Eg; [|auto]. cbn [fst snd].
    destruct (get_wf (mkst d2 f2) b c r Hwf2 Hnb Eg) as (Eu & Ec & _ & Hpc & Hps). rewrite Eu, Ec.
    split; [reflexivity|]. apply view_eq; [exact Hs|].
    unfold delete_collection_shards. rewrite !(filter_comm (below_b (user_dir root b))). now rewrite Hf.
Qed.

(* ---- any interleaving: what b is answered equals what b is answered when alone ---- *)
Lemma interleaving_gen root b h : plain b ->
  Forall (fun e : bytes * op => plain (fst e) /\ op_ok (snd e)) h ->
  forall st1 st2, wf st1 -> wf st2 -> view_of root b st1 = view_of root b st2 ->
  of_user b (snd (run_all root h st1)) = snd (run_all root (of_user b h) st2) /\
  view_of root b (fst (run_all root h st1)) = view_of root b (fst (run_all root (of_user b h) st2)).
Proof.
  intros Hb Hh. unfold of_user.
  induction Hh as [|[u o] h [Hu Hok] _ IH]; intros st1 st2 Hwf1 Hwf2 Hv; cbn [fst snd] in *.
  - cbn. auto.
  - cbn [run_all filter fst snd].
    destruct (bytes_eqb u b) eqn:E.
    + apply bytes_eqb_eq in E. subst u. cbn [run_all fst snd].
      destruct (step_own root b o st1 st2 Hb Hwf1 Hwf2 Hok Hv) as [Ha Hv'].
      destruct (IH (fst (step root b o st1)) (fst (step root b o st2))) as [I1 I2];
        [now apply step_wf|now apply step_wf|exact Hv'|].
      rewrite Ha. split; [f_equal; exact I1|exact I2].
    + assert (Hn : u <> b) by now apply bytes_eqb_false.
      destruct (IH (fst (step root u o st1)) st2) as [I1 I2];
        [now apply step_wf|exact Hwf2| |].
      { rewrite step_other; auto. }
      auto.
Qed.

Lemma thm_interleaving root b h st : plain b -> wf st ->
  Forall (fun e : bytes * op => plain (fst e) /\ op_ok (snd e)) h ->
  of_user b (snd (run_all root h st)) = snd (run_all root (of_user b h) st) /\
  view_of root b (fst (run_all root h st)) = view_of root b (fst (run_all root (of_user b h) st)).
Proof. intros Hb Hwf Hh. now apply interleaving_gen. Qed.

(* ============================================================ witnesses == *)
(* "/r", "a", "a/b", "bob", "eve", "col", "ccc", "xyz", "s1", "s2", "s9" *)
Definition w_root : bytes := [47;114].
Definition w_a : bytes := [97].
Definition w_a_b : bytes := [97;47;98].
Definition w_bob : bytes := [98;111;98].
Definition w_eve : bytes := [101;118;101].
Definition w_col : bytes := [99;111;108].
Definition w_ccc : bytes := [99;99;99].
Definition w_xyz : bytes := [120;121;122].
Definition w_s1 : bytes := [115;49].
Definition w_s2 : bytes := [115;50].
Definition w_s9 : bytes := [115;57].
Definition w_empty : state := mkst [] [].

Lemma wf_empty : wf w_empty.
Proof. constructor. Qed.

Ltac plain_by_compute := apply plain_b_spec; vm_compute; reflexivity.
Ltac ops_ok := repeat (apply Forall_cons; [first [exact I | cbn; plain_by_compute]|]); apply Forall_nil.

(* user "a/b" creates "ccc": user "a" lists it, it counts against the quota of "a" *)
Lemma thm_slash_user_refuted :
  exists root a b c, a <> b /\ plain b /\ ~ no_slash a /\ valid_col 2 c = true /\ wf w_empty /\
    let st := run root a [OCreate 2 c 3] w_empty in
    snd (step root b OList w_empty) = AList [] /\
    snd (step root b OList st) = AList [c] /\
    snd (step root b (OGet 2 ([98] ++ [slash] ++ c)) st) = ACol c [] /\
    user_count (st_db st) b = 1 /\
    snd (step root b (OCreate 2 w_xyz 1) w_empty) = ACreated /\
    snd (step root b (OCreate 2 w_xyz 1) st) = AQuota /\
    view_of root b st <> view_of root b w_empty.
Proof.
  exists w_root, w_a_b, w_a, w_ccc.
  split; [discriminate|]. split; [plain_by_compute|].
  split; [intros H; apply H; vm_compute; auto|].
  split; [vm_compute; reflexivity|]. split; [exact wf_empty|].
  cbv zeta. repeat split; try (vm_compute; reflexivity). vm_compute. discriminate.
Qed.

(* user "." : collection "bob" of user "." IS the directory of user "bob" *)
Definition w_bob_state : state :=
  run w_root w_bob [OCreate 2 w_col 3; OCreateShard 2 w_col w_s1; OWriteShard 2 w_col w_s1 7] w_empty.
Definition w_dot_ops : list op := [OCreate 2 w_bob 3; OCreateShard 2 w_bob w_s9; ODelete 2 w_bob].

Lemma wf_bob_state : wf w_bob_state.
Proof.
  apply run_wf; [plain_by_compute|exact wf_empty|].
  ops_ok.
Qed.

Lemma thm_dot_user_refuted :
  exists root a b ops st, no_slash a /\ a <> [] /\ plain b /\ a <> b /\ wf st /\ Forall op_ok ops /\
    v_dirs (view_of root b st) = [([[114]; ucols; w_bob; w_col; w_s1], 7)] /\
    v_dirs (view_of root b (run root a ops st)) = [] /\
    snd (step root b (OReadShard 2 w_col w_s1) st) = AContent (Some 7) /\
    snd (step root b (OReadShard 2 w_col w_s1) (run root a ops st)) = AContent None /\
    view_of root b (run root a ops st) <> view_of root b st.
Proof.
  exists w_root, dot, w_bob, w_dot_ops, w_bob_state.
  split; [intros H; vm_compute in H; intuition discriminate|].
  split; [discriminate|]. split; [plain_by_compute|]. split; [discriminate|].
  split; [exact wf_bob_state|].
  split; [ops_ok|].
  repeat split; try (vm_compute; reflexivity). vm_compute. discriminate.
Qed.

(* user ".." : its collection "userCollections" is the directory that holds every user *)
Definition w_two_state : state :=
  run w_root w_eve [OCreate 1 w_xyz 3; OCreateShard 1 w_xyz w_s2; OWriteShard 1 w_xyz w_s2 5] w_bob_state.
Definition w_dotdot_ops : list op := [OCreate 1 ucols 3; OCreateShard 1 ucols w_s9; ODelete 1 ucols].

Lemma wf_two_state : wf w_two_state.
Proof.
  apply run_wf; [plain_by_compute|exact wf_bob_state|].
  ops_ok.
Qed.

Lemma thm_dotdot_user_refuted :
  exists root a b b' ops st, no_slash a /\ a <> [] /\ plain b /\ plain b' /\ a <> b /\ a <> b' /\ wf st /\
    Forall op_ok ops /\ valid_col 1 ucols = true /\
    v_dirs (view_of root b st) = [([[114]; ucols; w_bob; w_col; w_s1], 7)] /\
    v_dirs (view_of root b' st) = [([[114]; ucols; w_eve; w_xyz; w_s2], 5)] /\
    v_dirs (view_of root b (run root a ops st)) = [] /\
    v_dirs (view_of root b' (run root a ops st)) = [] /\
    st_fs (run root a ops st) = [].
Proof.
  exists w_root, dotdot, w_bob, w_eve, w_dotdot_ops, w_two_state.
  split; [intros H; vm_compute in H; intuition discriminate|].
  split; [discriminate|]. split; [plain_by_compute|]. split; [plain_by_compute|].
  split; [discriminate|]. split; [discriminate|].
  split; [exact wf_two_state|].
  split; [ops_ok|].
  repeat split; vm_compute; reflexivity.
Qed.
