(* Props_C15.v -- property C15: inserted points are partitioned over shards
   within limits; quotas are enforced.  Only statements; every proof is
   `exact <lemma>`.

   distribute shards sizes maxS maxC  models cluster/placement.go
   distributePoints: shards = (Size, PointCount) of the existing shards in
   order, sizes = len(Data)+len(Id) of the id-sorted batch.  The result is the
   list of (shard index in the final shard list, start, end) plus the number
   of createShardFn calls.  Hypotheses of the quantifier: every point fits an
   empty shard (0 <= p <= maxS) and 1 <= maxC.  Existing shards may be at any
   fill level (also over a limit). *)
From Coq Require Import List NArith ZArith Bool Arith Sorted.
From Semadb Require Import Model_C15 Proofs_C15 Proofs_C15b.
Import ListNotations.
Open Scope Z_scope.

(* --- the loop returns: fuel |shards| + |points| + 1 is enough, for EVERY input --- *)
Theorem c15_terminates : forall shards sizes maxS maxC,
  Forall (fun p => 0 <= p <= maxS) sizes -> 1 <= maxC ->
  exists out created, distribute shards sizes maxS maxC = Some (out, created).
Proof. exact thm_terminates. Qed.
Print Assumptions c15_terminates.

Theorem c15_fuel_bound : forall fuel shards sizes maxS maxC,
  Forall (fun p => 0 <= p <= maxS) sizes -> 1 <= maxC ->
  (length shards + length sizes + 1 <= fuel)%nat ->
  exists out created, distribute_fuel fuel shards sizes maxS maxC = Some (out, created).
Proof. exact thm_fuel_bound. Qed.
Print Assumptions c15_fuel_bound.

(* --- every point goes to exactly one shard, as contiguous ranges in shard order:
       the ranges are non-empty, chained from 0 to n (partition_spec: chain 0 out n,
       shard indices strictly increasing and inside the final shard list), hence
       their concatenation is 0,1,...,n-1 --- *)
Theorem c15_partition : forall shards sizes maxS maxC out created,
  Forall (fun p => 0 <= p <= maxS) sizes -> 1 <= maxC ->
  distribute shards sizes maxS maxC = Some (out, created) ->
  partition_spec (length shards + created) (length sizes) out /\
  flat_map (fun a => seq (a_start a) (a_end a - a_start a)) out = seq 0 (length sizes) /\
  Forall (fun a => (a_start a < a_end a)%nat) out.
Proof. exact thm_partition. Qed.
Print Assumptions c15_partition.

(* --- no shard that receives points exceeds the point-count or the size limit --- *)
Theorem c15_limits : forall shards sizes maxS maxC out created,
  Forall (fun p => 0 <= p <= maxS) sizes -> 1 <= maxC ->
  distribute shards sizes maxS maxC = Some (out, created) ->
  forall i s e, In (i, s, e) out ->
    snd (nth i (final_shards shards created) (0, 0)) + Z.of_nat (e - s) <= maxC /\
    fst (nth i (final_shards shards created) (0, 0)) + sumZ (slice sizes s e) <= maxS.
Proof. exact thm_limits. Qed.
Print Assumptions c15_limits.

(* --- a shard is created only when needed: each of the `created` new shards
       (index |shards|+k) received a range [s,e), and -- unless it is the very first
       shard of the collection -- point s, the next unassigned one when it was
       created, does not fit the shard before it filled with that shard's own range
       (one of the two limits would be exceeded) --- *)
Theorem c15_fresh_only_when_needed : forall shards sizes maxS maxC out created,
  Forall (fun p => 0 <= p <= maxS) sizes -> 1 <= maxC ->
  distribute shards sizes maxS maxC = Some (out, created) ->
  forall k, (k < created)%nat ->
    exists s e, In ((length shards + k)%nat, s, e) out /\
      match (length shards + k)%nat with
      | O => True
      | S i => exists p, nth_error sizes s = Some p /\
                 no_fit maxS maxC (fill_after (final_shards shards created) sizes out i) p
      end.
Proof. exact thm_fresh. Qed.
Print Assumptions c15_fresh_only_when_needed.

(* range_of (used by fill_after / new_count) is the range of shard i, or the empty range *)
Theorem c15_range_of : forall out i, StronglySorted lt (map a_idx out) ->
  (forall s e, In (i, s, e) out -> range_of out i = (s, e)) /\
  ((forall s e, ~ In (i, s, e) out) -> range_of out i = (O, O)).
Proof. exact thm_range_of. Qed.
Print Assumptions c15_range_of.

(* --- point counts: sum over the final shards of (count + length of its range)
       = old total + n --- *)
Theorem c15_count_identity : forall shards sizes maxS maxC out created,
  Forall (fun p => 0 <= p <= maxS) sizes -> 1 <= maxC ->
  distribute shards sizes maxS maxC = Some (out, created) ->
  new_total (final_shards shards created) out = total_count shards + Z.of_nat (length sizes).
Proof. exact thm_count_identity. Qed.
Print Assumptions c15_count_identity.

(* the identity holds for ANY assignment that is a partition in the sense above *)
Theorem c15_count_identity_any : forall fs n out, partition_spec (length fs) n out ->
  new_total fs out = total_count fs + Z.of_nat n.
Proof. exact count_identity. Qed.
Print Assumptions c15_count_identity_any.

(* --- the checker used on the observations of the real code is exactly the spec --- *)
Theorem c15_check_dist_correct : forall shards sizes maxS maxC out created,
  check_dist shards sizes maxS maxC out created = true <->
  partition_spec (length shards + created) (length sizes) out /\
  limits_spec (final_shards shards created) sizes maxS maxC out /\
  fresh_spec shards sizes maxS maxC out created.
Proof. exact check_dist_spec. Qed.
Print Assumptions c15_check_dist_correct.

Theorem c15_model_passes_checker : forall shards sizes maxS maxC out created,
  Forall (fun p => 0 <= p <= maxS) sizes -> 1 <= maxC ->
  distribute shards sizes maxS maxC = Some (out, created) ->
  check_dist shards sizes maxS maxC out created = true.
Proof. exact thm_model_passes_checker. Qed.
Print Assumptions c15_model_passes_checker.

(* --- the hypothesis is needed: a point that fits no empty shard makes the loop
       create shards forever (no fuel is enough).  Outside the property's
       quantifier; recorded as finding F11 in DESIGN.md section 6. --- *)
Theorem c15_no_fit_diverges : forall fuel shards sizes maxS maxC,
  Forall (fun s : shard => 0 <= fst s) shards -> Forall (fun p => 0 <= p) sizes ->
  Exists (fun p => p > maxS) sizes ->
  distribute_fuel fuel shards sizes maxS maxC = None.
Proof. exact thm_no_fit_diverges. Qed.
Print Assumptions c15_no_fit_diverges.

(* --- quotas: what the two checks answer, and refusals have no side effect --- *)
Theorem c15_quota :
  (forall total n quota, insert_refused total n quota = true <-> total + n > quota) /\
  (forall count maxc ex,
     (ex = true -> create_collection count maxc ex = CrExists) /\
     (ex = false -> count >= maxc -> create_collection count maxc ex = CrQuota) /\
     (ex = false -> count < maxc -> create_collection count maxc ex = CrCreated)) /\
  (forall pl st r, snd (step pl st r) <> RespOk -> fst (step pl st r) = st).
Proof. exact thm_quota_checks. Qed.
Print Assumptions c15_quota.

Theorem c15_quota_insert : forall pl st u c n failed t, lookup st (u, c) = Some t ->
  (snd (step pl st (RInsert u c n failed)) = RespQuota <-> t + n > snd (pl u)) /\
  (snd (step pl st (RInsert u c n failed)) = RespOk <-> t + n <= snd (pl u)) /\
  (t + n <= snd (pl u) -> fst (step pl st (RInsert u c n failed)) = set_total st (u, c) (t + n - failed)).
Proof. exact step_insert_spec. Qed.
Print Assumptions c15_quota_insert.

Theorem c15_quota_create : forall pl st u c,
  (snd (step pl st (RCreate u c)) = RespExists <-> lookup st (u, c) <> None) /\
  (snd (step pl st (RCreate u c)) = RespQuota <-> lookup st (u, c) = None /\ user_count st u >= fst (pl u)) /\
  (snd (step pl st (RCreate u c)) = RespOk <-> lookup st (u, c) = None /\ user_count st u < fst (pl u)) /\
  (snd (step pl st (RCreate u c)) = RespOk -> fst (step pl st (RCreate u c)) = st ++ [((u, c), 0)]).
Proof. exact step_create_spec. Qed.
Print Assumptions c15_quota_create.

(* over ANY sequence of creations and inserts (failed ranges allowed, 0 <= failed):
   a user never has more collections than max(plan, what he started with), and no
   collection's total exceeds max(quota, what it started with) *)
Theorem c15_quota_invariant : forall pl st0 rs,
  Forall (fun e : ckey * Z => 0 <= snd e) st0 -> Forall request_ok rs ->
  (forall u, user_count (run pl st0 rs) u <= Z.max (fst (pl u)) (user_count st0 u)) /\
  (forall k t, lookup (run pl st0 rs) k = Some t -> t <= Z.max (snd (pl (fst k))) (init_total st0 k)).
Proof. exact quota_invariant. Qed.
Print Assumptions c15_quota_invariant.

(* --- non-vacuity: concrete instances computed by the kernel --- *)
(* shard 0 is 10 bytes below the size limit, shard 1 is at the count limit, shard 2
   is empty and takes 4 points (the 5th would exceed the size limit); a 4th shard is created *)
Example c15_ex_dist :
  distribute [(190, 2); (64, 5); (0, 0)] [30; 30; 30; 100; 20] 200 5
  = Some ([(2, 0, 4); (3, 4, 5)]%nat, 1%nat)
  /\ inputs_ok [(190, 2); (64, 5); (0, 0)] [30; 30; 30; 100; 20] 200 5
  /\ check_dist [(190, 2); (64, 5); (0, 0)] [30; 30; 30; 100; 20] 200 5 [(2, 0, 4); (3, 4, 5)]%nat 1 = true.
Proof.
  split; [vm_compute; reflexivity|]. split; [|vm_compute; reflexivity].
  unfold inputs_ok. repeat split; repeat constructor; simpl; try discriminate.
Qed.
(* no shard yet, count limit 2: three shards are created *)
Example c15_ex_empty :
  distribute [] [24; 24; 24; 24; 24] 1000 2 = Some ([(0, 0, 2); (1, 2, 4); (2, 4, 5)]%nat, 3%nat).
Proof. vm_compute. reflexivity. Qed.
(* the checker refuses: a shard more than needed (103), a count limit exceeded (102), a gap (101) *)
Example c15_ex_checker_refuses :
  check_dist [(0, 0)] [24; 24] 1000 2 [(0, 0, 1); (1, 1, 2)]%nat 1 = false /\
  limits_b (final_shards [(0, 1)] 0) [24; 24] 1000 2 [(0, 0, 2)]%nat = false /\
  partition_b 2 3 [(0, 0, 1); (1, 2, 3)]%nat = false.
Proof. vm_compute. repeat split; reflexivity. Qed.
(* what the property does NOT say: ranges follow the shard order, so a shard is created as soon
   as the next point does not fit the LAST shard, even if an earlier shard still has room for it
   (here point 45 would fit shard 0: 150 + 45 <= 200) *)
Example c15_ex_earlier_shard_has_room :
  distribute [(150, 0); (100, 0)] [60; 45] 200 5 = Some ([(1, 0, 1); (2, 1, 2)]%nat, 1%nat)
  /\ check_dist [(150, 0); (100, 0)] [60; 45] 200 5 [(1, 0, 1); (2, 1, 2)]%nat 1 = true.
Proof. vm_compute. split; reflexivity. Qed.
Example c15_ex_diverges : distribute [(10, 1)] [24; 300] 200 5 = None.
Proof. vm_compute. reflexivity. Qed.
(* plan: 2 collections, 5 points.  Third creation and re-creation are refused, the insert
   up to the quota passes, one more point is refused; refusals change nothing *)
Example c15_ex_quota :
  let pl := fun _ : N => (2, 5) in
  run pl [] [RCreate 1 1; RCreate 1 2; RCreate 1 3; RCreate 1 1; RInsert 1 1 5 0; RInsert 1 1 1 0]
  = [((1%N, 1%N), 5); ((1%N, 2%N), 0)]
  /\ snd (step pl [((1%N, 1%N), 5); ((1%N, 2%N), 0)] (RCreate 1 3)) = RespQuota
  /\ snd (step pl [((1%N, 1%N), 5); ((1%N, 2%N), 0)] (RCreate 1 1)) = RespExists
  /\ snd (step pl [((1%N, 1%N), 5); ((1%N, 2%N), 0)] (RInsert 1 1 1 0)) = RespQuota
  /\ snd (step pl [((1%N, 1%N), 4); ((1%N, 2%N), 0)] (RInsert 1 1 1 0)) = RespOk.
Proof. vm_compute. repeat split; reflexivity. Qed.

(* --- on a live node: when the checker accepts what the shards hold after an accepted insert, every shard holds a
   contiguous range of the id-sorted batch and every position 0..n-1 of the batch is stored exactly once *)
Theorem c15_live_checker_sound : forall n stored, live_ranges_b n stored = true ->
  (forall s, In s stored -> exists a, s = range_from a (length s))
  /\ length (concat stored) = n
  /\ forall i, (i < n)%nat -> count_n (N.of_nat i) (concat stored) = 1%nat.
Proof. exact live_ranges_sound. Qed.
Print Assumptions c15_live_checker_sound.
(* three points sorted by id over two shards: [0,2) and [2,3) pass; a shard holding positions 0 and 2 does not *)
Example c15_ex_live :
  live_ranges_b 3 [[0; 1]; [2]]%N = true /\ live_ranges_b 3 [[0; 2]; [1]]%N = false /\ live_ranges_b 3 [[0; 1]; [1; 2]]%N = false.
Proof. vm_compute. repeat split; reflexivity. Qed.

(* --- and the other way round: what the model's assignment stores passes that checker, for every result of
   distribute (the positions shard i holds are model_stored out i); the checker is exact on model-conforming runs *)
Theorem c15_live_checker_accepts_model : forall shards sizes maxS maxC out created,
  Forall (fun p => 0 <= p <= maxS) sizes -> 1 <= maxC ->
  distribute shards sizes maxS maxC = Some (out, created) ->
  live_ranges_b (length sizes) (map (model_stored out) (seq 0 (length shards + created))) = true.
Proof. exact live_checker_accepts_distribute. Qed.
Print Assumptions c15_live_checker_accepts_model.
