(* Model_C02M.v -- mechanism model M of ONE inverted index
   (shard/index/inverted/{inverted,string,array}.go), definitions only.

   The bucket maps a sortable key to a set of node ids.  A write batch runs
   processChange over a FRESH set cache (the dispatcher builds a new
   IndexInverted per Dispatch, and search.go a new one per Search) and then
   flushes the dirty sets.  Search reads the bucket through Get, ForEach,
   PrefixScan and RangeScan -- the latter two are the cursor models of KV.v
   on the sorted key list.

   The set cache is a Go map keyed by the VALUE (map[T]*setCacheItem), so its
   notion of "same entry" is Go's == on T (veqb), while the bucket's notion is
   equality of the encoded key.  An entry is loaded from, and flushed to, the
   key of the value that CREATED it.  The model is only a function of the
   bucket when   veqb a b = true  <->  enc a = enc b:
     - veqb-equal values with different keys share one entry, which is read
       from and written to the key of whichever was seen first (float64 before
       repair F1: -0.0 == +0.0 but key(-0.0) = 00..00, key(+0.0) = 80..00);
     - veqb-different values with one key would be two entries written to the
       same key, the last flushed winning (does not occur for any encoder of
       the tree).
   Roaring bitmaps are modelled as duplicate-free id lists kept in ascending
   order (a canonical form, like the serialised bitmap). *)
From Coq Require Import List NArith ZArith Bool.
From Semadb Require Import Bytes U64 KV Value Obs Model_C19 Model_C01 Model_C02.
Import ListNotations.
Open Scope N_scope.

(* ------------------------- id sets (roaring64.Bitmap) --------------------- *)
Definition idset := list N.

Fixpoint set_mem (n : N) (s : idset) : bool :=
  match s with [] => false | x :: r => (n =? x) || set_mem n r end.
Fixpoint set_ins (n : N) (s : idset) : idset :=
  match s with [] => [n] | x :: r => if n <? x then n :: s else x :: set_ins n r end.
(* CheckedAdd / CheckedRemove: the new set and "did it change" *)
Definition set_add (n : N) (s : idset) : idset * bool :=
  if set_mem n s then (s, false) else (set_ins n s, true).
Definition set_remove (n : N) (s : idset) : idset * bool :=
  if set_mem n s then (filter (fun x => negb (x =? n)) s, true) else (s, false).
Definition set_union (a b : idset) : idset := fold_left (fun acc n => fst (set_add n acc)) b a.
Definition set_inter (a b : idset) : idset := filter (fun n => set_mem n b) a.
Definition fast_or (sets : list idset) : idset := fold_left set_union sets [].
Definition fast_and (sets : list idset) : idset :=
  match sets with [] => [] | s :: r => fold_left set_inter r s end.
Definition is_empty (s : idset) : bool := match s with [] => true | _ => false end.
(* an id list denotes the set P: no duplicates, same members *)
Definition same_set (r : idset) (P : N -> Prop) : Prop := NoDup r /\ forall n, In n r <-> P n.

(* ------------------------- the bucket ------------------------------------- *)
(* association list kept sorted by key: its key list IS the cursor order *)
Definition bucket := list (bytes * idset).

Fixpoint b_get (k : bytes) (b : bucket) : option idset :=
  match b with
  | [] => None
  | (k', s) :: r => if bytes_eqb k k' then Some s else b_get k r
  end.
Fixpoint b_put (k : bytes) (s : idset) (b : bucket) : bucket :=
  match b with
  | [] => [(k, s)]
  | (k', s') :: r =>
      match lex_compare k k' with
      | Lt => (k, s) :: b
      | Eq => (k, s) :: r
      | Gt => (k', s') :: b_put k s r
      end
  end.
Definition b_del (k : bytes) (b : bucket) : bucket :=
  filter (fun e => negb (bytes_eqb k (fst e))) b.
Definition b_keys (b : bucket) : list bytes := map fst b.
(* Get + "rSet := roaring64.New(); if setBytes != nil { ReadFrom }" *)
Definition getset (k : bytes) (b : bucket) : idset :=
  match b_get k b with Some s => s | None => [] end.

(* ------------------------- IndexInverted[T] ------------------------------- *)
Section Index.
  Context {V : Type}.
  Variable enc : V -> bytes.          (* toByteSortable *)
  Variable dec : bytes -> V.          (* fromByteSortable *)
  Variable veqb : V -> V -> bool.     (* Go's == on T: map key identity and *prev != *cur *)

  Record change := mkChange { c_id : N; c_prev : option V; c_cur : option V }.
  Record citem := mkItem { it_val : V; it_set : idset; it_dirty : bool }.
  Definition cache := list citem.     (* entries in creation order *)

  (* getSetCacheItem(v, nil) followed by "set.isDirty = f(set.set) || set.isDirty" *)
  Definition upd_item (f : idset -> idset * bool) (it : citem) : citem :=
    let '(s', ch) := f (it_set it) in mkItem (it_val it) s' (ch || it_dirty it).
  Definition new_item (b : bucket) (v : V) (f : idset -> idset * bool) : citem :=
    let '(s', ch) := f (getset (enc v) b) in mkItem v s' ch.
  Fixpoint c_update (b : bucket) (v : V) (f : idset -> idset * bool) (c : cache) : cache :=
    match c with
    | [] => [new_item b v f]
    | it :: r => if veqb (it_val it) v then upd_item f it :: r else it :: c_update b v f r
    end.

  (* processChange *)
  Definition process_change (b : bucket) (ch : change) (c : cache) : cache :=
    match c_prev ch, c_cur ch with
    | None, None => c
    | None, Some cur => c_update b cur (set_add (c_id ch)) c
    | Some prev, None => c_update b prev (set_remove (c_id ch)) c
    | Some prev, Some cur =>
        if veqb prev cur then c
        else c_update b cur (set_add (c_id ch)) (c_update b prev (set_remove (c_id ch)) c)
    end.
  Definition process_batch (b : bucket) (cs : list change) : cache :=
    fold_left (fun c ch => process_change b ch c) cs [].

  (* flush: dirty sets are written, empty ones deleted.  Go ranges over the map
     in unspecified order; here creation order.  When the keys of distinct
     entries differ the order is immaterial. *)
  Definition flush_item (it : citem) (b : bucket) : bucket :=
    if it_dirty it then
      if is_empty (it_set it) then b_del (enc (it_val it)) b
      else b_put (enc (it_val it)) (it_set it) b
    else b.
  Definition flush (c : cache) (b : bucket) : bucket := fold_left (fun b it => flush_item it b) c b.

  (* InsertUpdateDelete: one batch; a history starts from the empty bucket *)
  Definition apply_batch (b : bucket) (cs : list change) : bucket := flush (process_batch b cs) b.
  Definition run_history (hs : list (list change)) : bucket := fold_left apply_batch hs [].

  (* ---- Search ---- *)
  (* the callback of the scans: getSetCacheItem(fromByteSortable k, v) on the
     per-Search cache, then "sets = append(sets, item.set)" *)
  Fixpoint scan_sets (kvs : list (bytes * idset)) (c : list (V * idset)) : list idset :=
    match kvs with
    | [] => []
    | (k, s) :: r =>
        let v := dec k in
        match find (fun e => veqb (fst e) v) c with
        | Some e => snd e :: scan_sets r c
        | None => s :: scan_sets r ((v, s) :: c)
        end
    end.
  Definition kvs_of (b : bucket) (ks : list bytes) : list (bytes * idset) :=
    map (fun k => (k, getset k b)) ks.
  Definition collect (sets : list idset) : idset :=
    match sets with [] => [] | [s] => s | _ => fast_or sets end.

  Section Backend.
    Variable range : list bytes -> option bytes -> option bytes -> bool -> list bytes.
    Variable prefix : list bytes -> bytes -> list bytes.
    (* None = "unknown inverted search operator" *)
    Definition search_with (op : N) (q e : V) (b : bucket) : option idset :=
      let qk := enc q in
      let ks := b_keys b in
      let scan := fun sel => Some (collect (scan_sets (kvs_of b sel) [])) in
      match op with
      | 0 => Some (getset qk b)
      | 1 => scan (filter (fun k => negb (bytes_eqb k qk)) ks)
      | 2 => scan (prefix ks qk)
      | 3 => scan (range ks (Some qk) None false)
      | 4 => scan (range ks (Some qk) None true)
      | 5 => scan (range ks None (Some qk) false)
      | 6 => scan (range ks None (Some qk) true)
      | 7 => scan (range ks (Some qk) (Some (enc e)) true)
      | _ => None
      end.
  End Backend.
  Definition search := search_with bbolt_range bbolt_prefix.      (* diskstore/bbolt.go *)
  Definition search_mem := search_with mem_range mem_prefix.      (* diskstore/memstore.go *)

  (* ---- what is stored, and consistent histories ---- *)
  (* the indexed field value of every node as the dispatcher sees it *)
  Definition st_step (st : N -> option V) (ch : change) : N -> option V :=
    fun n => if n =? c_id ch then c_cur ch else st n.
  Definition stored_from (st : N -> option V) (cs : list change) : N -> option V :=
    fold_left st_step cs st.
  Definition stored_after (hs : list (list change)) : N -> option V :=
    stored_from (fun _ => None) (concat hs).

  Variable valid : V -> Prop.
  Definition ovalid (o : option V) : Prop := match o with Some v => valid v | None => True end.
  (* every change carries as `prev` the value stored for that node at that
     moment (index/utils.go getOperation reads it from the stored document) *)
  Fixpoint consistent_from (st : N -> option V) (cs : list change) : Prop :=
    match cs with
    | [] => True
    | ch :: r => c_prev ch = st (c_id ch) /\ ovalid (c_prev ch) /\ ovalid (c_cur ch)
                 /\ consistent_from (st_step st ch) r
    end.
  Definition consistent (hs : list (list change)) : Prop := consistent_from (fun _ => None) (concat hs).

  (* ---- IndexInvertedArray[T] ---- *)
  Record achange := mkAChange { a_id : N; a_prev : list V; a_cur : list V }.
  Definition mem_v (v : V) (l : list V) : bool := existsb (veqb v) l.
  (* prevSet as a duplicate-free list (iteration order of the Go map unspecified) *)
  Fixpoint dedup_v (l : list V) : list V :=
    match l with [] => [] | x :: r => if mem_v x r then dedup_v r else x :: dedup_v r end.
  Definition arr_expand (a : achange) : list change :=
    map (fun v => mkChange (a_id a) None (Some v)) (filter (fun v => negb (mem_v v (a_prev a))) (a_cur a))
    ++ map (fun v => mkChange (a_id a) (Some v) None) (filter (fun v => negb (mem_v v (a_cur a))) (dedup_v (a_prev a))).
  Definition arr_apply_batch (b : bucket) (cs : list achange) : bucket :=
    apply_batch b (flat_map arr_expand cs).
  Definition arr_run_history (hs : list (list achange)) : bucket := fold_left arr_apply_batch hs [].
  (* None = "return nil, nil" on an empty query, or unsupported operator *)
  Definition arr_search (op : N) (qs : list V) (b : bucket) : option idset :=
    match qs with
    | [] => None
    | _ =>
        let res := map (fun q => getset (enc q) b) qs in      (* inner.Search(q, q, equals) *)
        match res with
        | [r] => Some r
        | _ => if op =? OP_ALL then Some (fast_and res)
               else if op =? OP_ANY then Some (fast_or res) else None
        end
    end.
  Definition ast_step (st : N -> list V) (a : achange) : N -> list V :=
    fun n => if n =? a_id a then a_cur a else st n.
  Definition astored_after (hs : list (list achange)) : N -> list V :=
    fold_left ast_step (concat hs) (fun _ => []).
  Fixpoint aconsistent_from (st : N -> list V) (cs : list achange) : Prop :=
    match cs with
    | [] => True
    | a :: r => a_prev a = st (a_id a) /\ aconsistent_from (ast_step st a) r
    end.
  Definition aconsistent (hs : list (list achange)) : Prop := aconsistent_from (fun _ => []) (concat hs).
End Index.

Arguments mkChange {V}.
Arguments mkAChange {V}.

(* shard/index/search.go searchParallel on the sub-results *)
Definition combine (is_or : bool) (sets : list idset) : idset :=
  match sets with
  | [s] => s
  | _ => if is_or then fast_or sets else fast_and sets
  end.

(* ------------------------- instances -------------------------------------- *)
(* integer index *)
Definition int_run := run_history enc_i64 Z.eqb.
Definition int_search := search enc_i64 dec_i64 Z.eqb.
Definition int_search_mem := search_mem enc_i64 dec_i64 Z.eqb.

(* float index on bit patterns; Go's == on float64 is IEEE equality *)
Definition f64_valid (b : N) : Prop := b < two64 /\ f64_nan b = false.
Definition flt_run := run_history enc_f64 f64_eq.
Definition flt_search := search enc_f64 dec_f64 f64_eq.
Definition flt_search_mem := search_mem enc_f64 dec_f64 f64_eq.
(* the same index over the encoder of the pinned tree (before repair F1) *)
Definition flt0_run := run_history enc_f64_v0 f64_eq.
Definition flt0_search := search enc_f64_v0 dec_f64 f64_eq.

(* IndexInvertedString / IndexInvertedArrayString: strings.ToLower when
   !CaseSensitive, the identity otherwise *)
Section StrIndex.
  Variable fold : bytes -> bytes.
  Definition str_change (ch : @change bytes) : @change bytes :=
    mkChange (c_id ch) (option_map fold (c_prev ch)) (option_map fold (c_cur ch)).
  Definition str_run (hs : list (list (@change bytes))) : bucket :=
    run_history enc_str bytes_eqb (map (map str_change) hs).
  Definition str_search (op : N) (q e : bytes) (b : bucket) : option idset :=
    search enc_str dec_str bytes_eqb op (fold q) (fold e) b.
  Definition str_search_mem (op : N) (q e : bytes) (b : bucket) : option idset :=
    search_mem enc_str dec_str bytes_eqb op (fold q) (fold e) b.
  (* the pinned tree before repair F2: EndValue not lower-cased *)
  Definition str_search_v0 (op : N) (q e : bytes) (b : bucket) : option idset :=
    search enc_str dec_str bytes_eqb op (fold q) e b.

  Definition sarr_change (a : @achange bytes) : @achange bytes :=
    mkAChange (a_id a) (map fold (a_prev a)) (map fold (a_cur a)).
  Definition sarr_run (hs : list (list (@achange bytes))) : bucket :=
    arr_run_history enc_str bytes_eqb (map (map sarr_change) hs).
  Definition sarr_search (op : N) (qs : list bytes) (b : bucket) : option idset :=
    arr_search enc_str op (map fold qs) b.
End StrIndex.

(* an ASCII lower-casing, for the witnesses *)
Definition ascii_lower (s : bytes) : bytes :=
  map (fun c => if (65 <=? c) && (c <=? 90) then c + 32 else c) s.

(* ------------------------- vocabulary of the statements ------------------- *)
(* the key-level predicate an operator denotes *)
Definition key_matches (op : N) (qk ek k : bytes) : bool :=
  if op =? OP_PREFIX then is_prefix qk k
  else cmp_matches op (lex_compare k qk) (lex_compare k ek).

Definition op_scan (op : N) : Prop := op = 0 \/ op = 1 \/ op = 2 \/ op = 3 \/ op = 4 \/ op = 5 \/ op = 6 \/ op = 7.
(* the operators the API accepts on integer and float indexes (models/search.go) *)
Definition op_num (op : N) : Prop := op = 0 \/ op = 1 \/ op = 3 \/ op = 4 \/ op = 5 \/ op = 6 \/ op = 7.


Definition any_str (s : bytes) : Prop := True.

Definition hs_nz_two : list (list (@change N)) :=        (* -0.0 then, in a later batch, +0.0 *)
  [[mkChange 1 None (Some two63)]; [mkChange 2 None (Some 0)]].
Definition hs_nz_one : list (list (@change N)) :=        (* both in one batch *)
  [[mkChange 1 None (Some two63); mkChange 2 None (Some 0)]].
Definition bits_m1 : N := 13830554455654793216.         (* -1.0 *)


Definition hs_fold : list (list (@change bytes)) := [[mkChange 1 None (Some [98])]].   (* "b" *)

Definition field_int (p : bytes) (d : doc) : option Z :=
  match prop_value p d with QFound (VInt x) => Some x | _ => None end.
Definition field_f64 (p : bytes) (d : doc) : option N :=
  match prop_value p d with QFound (VF64 x) => Some x | _ => None end.
Definition field_str (p : bytes) (d : doc) : option bytes :=
  match prop_value p d with QFound (VStr x) => Some x | _ => None end.
Definition field_strs (p : bytes) (d : doc) : list bytes :=
  match prop_value p d with QFound (VArr l) => str_elems l | _ => [] end.

