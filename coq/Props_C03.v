(* Props_C03.v -- property C03: graph (Vamana) vector search returns only live, in-filter
   points, correctly ranked; exact in two regimes.  Only statements; every proof is
   `exact <lemma of Proofs_Vamana.v>`.

   Model: Model_Vamana.v (shared with C10): DistSet, greedySearch, Search post-processing.
   [wf P g live] is the C10 invariant (Props_C10.v proves that every history of batches keeps
   it): live = node ids of the live points that carry the vector field.  The pre-filter is the
   list of node ids in the bitmap (the shard computes it from the filter query: C02).
   All theorems hold for EVERY distance function d, query, weight, limit k <= search size Lq
   (validation: 1 <= k <= Lq, 25 <= Lq <= 75).

   Proved in full (no _partial statement is left): the DistSet invariants (a), soundness (c),
   exactness for filters with at most searchSize members (e), reachability of every node after
   insert-only histories with at most min(R, L-1) vectors (c03_reach_insert_only), exactness
   when the whole graph fits inside the search window and is reachable (c03_exact_small), and
   their composition (c03_exact_insert_only).  "Exact k nearest" is stated as: the answer is
   sound and a candidate is left out only when the answer has k rows and the candidate is at
   least as far as every row (ties free). *)
From Coq Require Import List NArith ZArith QArith Bool Sorted.
From Semadb Require Import Model_Vamana Proofs_Vamana.
Import ListNotations.

(* (a) DistSet: after ANY sequence of AddWithLimit calls on an empty set of capacity c the ids
   are duplicate-free, at most c elements are kept, they are in non-decreasing distance order,
   each kept element is one of the offered points with its distance ... *)
Theorem c03_distset_invariants : forall vec (dist : vec -> Q) (c : nat) (ps : list (N * vec)),
  let ds := add_all_with_limit dist (empty_ds c) ps in
  NoDup (ids (items ds)) /\ (length (items ds) <= c)%nat /\
  StronglySorted Qle (map it_d (items ds)) /\
  (forall it, In it (items ds) -> In (it_id it, it_vec it) ps /\ it_d it = dist (it_vec it)).
Proof. exact distset_invariants. Qed.
Print Assumptions c03_distset_invariants.

(* ... and the kept elements are the c best of what was offered (ties free): every dropped
   point is at least as far as every kept one, and nothing is dropped while there is room *)
Theorem c03_distset_kbest : forall vec (dist : vec -> Q) (c : nat) (ps : list (N * vec)),
  NoDup (map fst ps) ->
  let ds := add_all_with_limit dist (empty_ds c) ps in
  (forall id v, In (id, v) ps -> ~ In id (ids (items ds)) ->
                forall it, In it (items ds) -> (it_d it <= dist v)%Q) /\
  length (items ds) = Nat.min c (length ps).
Proof. exact distset_kbest. Qed.
Print Assumptions c03_distset_kbest.

(* (c) soundness on every well-formed graph: the search does not fail; no duplicates; at most
   k rows; non-decreasing distances; every row is a live point carrying the field, is not the
   entry node, lies in the pre-filter when one is given; its distance is the index distance
   between the query and the STORED vector; hybrid = -(weight * distance). *)
Theorem c03_sound : forall vec (d : vec -> vec -> Q) (P : params) (g : graph vec) live
    (q : vec) (k Lq : nat) (w : Q) (flt : option (list N)),
  wf P g live -> (k <= Lq)%nat ->
  exists res, search d g q k Lq w flt = Ok res /\
    NoDup (map sr_id res) /\ (length res <= k)%nat /\ StronglySorted Qle (map sr_dist res) /\
    forall r, In r res ->
      In (sr_id r) live /\ sr_id r <> START /\ (forall f, flt = Some f -> In (sr_id r) f) /\
      (exists v, lookup (sr_id r) (vecs g) = Some v /\ sr_dist r = d q v) /\
      (sr_hybrid r == - (w * sr_dist r))%Q.
Proof. exact search_sound. Qed.
Print Assumptions c03_sound.

(* (e) a pre-filter with at most searchSize members: the answer is an exact k-smallest
   selection (by d to the query, ties free) of the filter members that have a stored vector:
   min(k, #candidates) rows, all candidates, and every candidate left out is at least as far as
   every row. *)
Theorem c03_exact_filter : forall vec (d : vec -> vec -> Q) (P : params) (g : graph vec) live
    (q : vec) (k Lq : nat) (w : Q) (f : list N),
  wf P g live -> NoDup f -> ~ In START f -> (length f <= Lq)%nat -> (k <= Lq)%nat ->
  let C := get_many f (vecs g) in
  exists res, search d g q k Lq w (Some f) = Ok res /\
    length res = Nat.min k (length C) /\ NoDup (map sr_id res) /\ StronglySorted Qle (map sr_dist res) /\
    (forall r, In r res -> exists v, In (sr_id r, v) C /\ sr_dist r = d q v) /\
    (forall id v, In (id, v) C -> ~ In id (map sr_id res) -> forall r, In r res -> (sr_dist r <= d q v)%Q).
Proof. exact search_exact_filter. Qed.
Print Assumptions c03_exact_filter.

(* (f) the whole graph fits inside the search window (nodes incl. the entry node <= searchSize)
   and every node is reachable from the entry node: the search visits every node and the
   answer is the exact k nearest of the live points -- a live point is left out only when the
   answer is full and the point is at least as far as every row (soundness: c03_sound). *)
Theorem c03_exact_small : forall vec (d : vec -> vec -> Q) (P : params) (g : graph vec) live
    (q : vec) (k Lq : nat) (w : Q),
  wf P g live -> (forall x, In x (dom (edges g)) -> reach g x) ->
  (length (edges g) <= Lq)%nat -> (k <= Lq)%nat ->
  exists res, search d g q k Lq w None = Ok res /\
    forall x v, In x live -> x <> START -> lookup x (vecs g) = Some v -> ~ In x (map sr_id res) ->
      length res = k /\ forall r, In r res -> (sr_dist r <= d q v)%Q.
Proof. exact search_exact_small. Qed.
Print Assumptions c03_exact_small.

(* (f) every insert-only history (any split into batches, any order of the workers' single
   inserts as modelled) of n <= min(degreeBound, searchSize - 1) distinct points on the fresh
   index yields a well-formed graph of n+1 nodes, all reachable from the entry node: the new
   node always gets an out-edge into the visited set and that neighbour is never full, so the
   back edge is appended, never pruned. *)
Theorem c03_reach_insert_only : forall vec (d : vec -> vec -> Q) (P : params),
  (1 <= pR P)%nat -> (1 <= pL P)%nat ->
  forall (v0 : vec) (batches : list (list (N * option vec))),
  Forall (Forall (fun c => snd c <> None /\ fst c <> START /\ fst c <> 0%N)) batches ->
  NoDup (map fst (concat batches)) ->
  (length (concat batches) <= Nat.min (pR P) (pL P - 1))%nat ->
  exists g live, run_history d P v0 (setup_start v0 empty_graph) batches = Ok g /\ wf P g live /\
    (forall x, In x (dom (edges g)) -> reach g x) /\ length (edges g) = S (length (concat batches)).
Proof. exact reach_insert_only. Qed.
Print Assumptions c03_reach_insert_only.

(* ... hence exactness of every search whose searchSize exceeds the number of vectors *)
Theorem c03_exact_insert_only : forall vec (d : vec -> vec -> Q) (P : params),
  (1 <= pR P)%nat -> (1 <= pL P)%nat ->
  forall (v0 : vec) (batches : list (list (N * option vec))) (q : vec) (k Lq : nat) (w : Q),
  Forall (Forall (fun c => snd c <> None /\ fst c <> START /\ fst c <> 0%N)) batches ->
  NoDup (map fst (concat batches)) ->
  (length (concat batches) <= Nat.min (pR P) (pL P - 1))%nat ->
  (S (length (concat batches)) <= Lq)%nat -> (k <= Lq)%nat ->
  exists g live res, run_history d P v0 (setup_start v0 empty_graph) batches = Ok g /\ wf P g live /\
    search d g q k Lq w None = Ok res /\
    forall x v, In x live -> x <> START -> lookup x (vecs g) = Some v -> ~ In x (map sr_id res) ->
      length res = k /\ forall r, In r res -> (sr_dist r <= d q v)%Q.
Proof. exact exact_insert_only. Qed.
Print Assumptions c03_exact_insert_only.

(* ---- Examples ---- *)
Definition exV := (Z * Z)%type.
Definition ex_d (a b : exV) : Q :=
  inject_Z ((fst a - fst b) * (fst a - fst b) + (snd a - snd b) * (snd a - snd b)).
Definition ex_P := mkParams 3 (12 # 10) 5.
Definition ex_show (r : result (list sres)) : option (list (N * Q * Q)) :=
  match r with Ok l => Some (map (fun x => (sr_id x, sr_dist x, sr_hybrid x)) l) | Err _ => None end.

(* a 6-point graph (built by the model from a mixed history) and a filter of 3 *)
Definition ex_hist : list (list (N * option exV)) :=
  [ [(2%N, Some (0, 0)%Z); (3%N, Some (1, 0)%Z); (4%N, Some (0, 1)%Z); (5%N, Some (5, 5)%Z); (6%N, Some (6, 5)%Z); (7%N, Some (2, 2)%Z)];
    [(3%N, None); (4%N, Some (9, 9)%Z); (8%N, Some (1, 1)%Z)] ].
Definition ex_g : graph exV :=
  match run_history ex_d ex_P (100, 100)%Z empty_graph ex_hist with Ok g => g | Err _ => empty_graph end.
Example ex_c03_graph_wf : wf_b ex_P ex_g [2; 4; 5; 6; 7; 8]%N = true.
Proof. vm_compute. reflexivity. Qed.
(* no filter: never the entry node 1 nor the deleted point 3; sorted; hybrid = -(w * dist) *)
Example ex_c03_search : ex_show (search ex_d ex_g (0, 0)%Z 4 5 2 None) =
  Some [(2%N, 0, 0); (8%N, 2, -4); (7%N, 8, -16); (5%N, 50, -100)]%Q.
Proof. vm_compute. reflexivity. Qed.
(* filter {5, 3 (deleted), 4, 7, 99 (unknown)}: the exact 2 nearest of {4, 5, 7} *)
Example ex_c03_filter : ex_show (search ex_d ex_g (0, 0)%Z 2 5 1 (Some [5; 3; 4; 7; 99]%N)) =
  Some [(7%N, 8, -8); (5%N, 50, -50)]%Q.
Proof. vm_compute. reflexivity. Qed.
Example ex_c03_filter_hyps : NoDup [5; 3; 4; 7; 99]%N /\ ~ In START [5; 3; 4; 7; 99]%N /\ (length [5; 3; 4; 7; 99]%N <= 5)%nat.
Proof. split; [repeat constructor; simpl; intuition discriminate|]. split; [simpl; intuition discriminate|simpl; repeat constructor]. Qed.

(* a 3-point insert-only build (n = 3 <= min(R, L-1) = 3): all nodes reachable, search exact *)
Definition ex_io : list (list (N * option exV)) :=
  [ [(2%N, Some (0, 0)%Z); (3%N, Some (4, 0)%Z)]; [(4%N, Some (1, 1)%Z)] ].
Definition ex_gio : graph exV :=
  match run_history ex_d ex_P (100, 100)%Z (setup_start (100, 100)%Z empty_graph) ex_io with Ok g => g | Err _ => empty_graph end.
Example ex_c03_io_edges : edges ex_gio = [(1, [2; 3; 4]); (3, [2; 1; 4]); (2, [1; 3; 4]); (4, [2; 3; 1])]%N.
Proof. vm_compute. reflexivity. Qed.
Example ex_c03_io_search : ex_show (search ex_d ex_gio (3, 0)%Z 2 5 1 None) = Some [(3%N, 1, -1); (4%N, 5, -5)]%Q.
Proof. vm_compute. reflexivity. Qed.
Example ex_c03_io_hyps :
  Forall (Forall (fun c : N * option exV => snd c <> None /\ fst c <> START /\ fst c <> 0%N)) ex_io /\
  NoDup (map fst (concat ex_io)) /\ (length (concat ex_io) <= Nat.min (pR ex_P) (pL ex_P - 1))%nat.
Proof.
  split; [repeat constructor; simpl; discriminate|]. split; [simpl; repeat constructor; simpl; intuition discriminate|].
  simpl. repeat constructor.
Qed.
(* a 5-point insert-only build with degree bound 8, search size 10: n = 5 <= min(8, 9) *)
Definition ex_P8 := mkParams 8 (12 # 10) 10.
Definition ex_io5 : list (list (N * option exV)) :=
  [ [(2%N, Some (0, 0)%Z); (3%N, Some (4, 0)%Z); (4%N, Some (1, 1)%Z)]; [(5%N, Some (9, 9)%Z)]; [(6%N, Some (2, 3)%Z)] ].
Definition ex_gio5 : graph exV :=
  match run_history ex_d ex_P8 (100, 100)%Z (setup_start (100, 100)%Z empty_graph) ex_io5 with Ok g => g | Err _ => empty_graph end.
Example ex_c03_io5_wf : wf_b ex_P8 ex_gio5 [2; 3; 4; 5; 6]%N = true /\ length (edges ex_gio5) = 6%nat.
Proof. vm_compute. split; reflexivity. Qed.
Example ex_c03_io5_search : ex_show (search ex_d ex_gio5 (2, 2)%Z 3 10 1 None) = Some [(6%N, 1, -1); (4%N, 2, -2); (2%N, 8, -8)]%Q.
Proof. vm_compute. reflexivity. Qed.

(* DistSet: capacity 2, five offers (one repeated id): the two best, sorted *)
Example ex_c03_distset :
  map (fun it => (it_id it, it_d it))
      (items (add_all_with_limit (ex_d (0, 0)%Z) (empty_ds 2)
                [(5%N, (3, 0)%Z); (6%N, (1, 0)%Z); (5%N, (0, 0)%Z); (7%N, (2, 0)%Z); (8%N, (1, 1)%Z)])) =
  [(6%N, 1); (8%N, 2)]%Q.
Proof. vm_compute. reflexivity. Qed.
