(* Model_C10.v -- the persisted Vamana graph decoded from a bucket dump and the
   coded well-formedness checker. Definitions only. *)
From Coq Require Import List NArith ZArith Bool.
From Semadb Require Import Bytes U64 KeyLayout Value Obs Model_C19 Model_C01 Model_C02 Model_C04.
Import ListNotations.
Open Scope N_scope.

Definition SUF_E : N := 101. Definition SUF_V : N := 118. Definition SUF_Q : N := 113.

Fixpoint find_bucket (name : bytes) (xs : list extra) : option (list (bytes * bytes)) :=
  match xs with
  | [] => None
  | XBucket n kvs :: r => if bytes_eqb n name then Some kvs else find_bucket name r
  | _ :: r => find_bucket name r
  end.

(* node id -> edge list *)
Definition edges_of_dump (kvs : list (bytes * bytes)) : list (N * list N) :=
  flat_map (fun kv => match node_id_from_key (fst kv) SUF_E with
                      | Some id => [(id, edges_of_le (snd kv))]
                      | None => [] end) kvs.
Definition vec_ids_of_dump (kvs : list (bytes * bytes)) : list N :=
  flat_map (fun kv => match node_id_from_key (fst kv) SUF_V, node_id_from_key (fst kv) SUF_Q with
                      | Some id, _ => [id] | None, Some id => [id] | None, None => [] end) kvs.
Definition full_vecs_of_dump (kvs : list (bytes * bytes)) : list (N * list N) :=
  flat_map (fun kv => match node_id_from_key (fst kv) SUF_V with
                      | Some id => [(id, f32s_of_le (snd kv))]
                      | None => [] end) kvs.
Fixpoint kv_get (k : bytes) (kvs : list (bytes * bytes)) : option bytes :=
  match kvs with [] => None | (k', v) :: r => if bytes_eqb k k' then Some v else kv_get k r end.

(* uuid -> node id from the points bucket dump *)
Definition node_ids_of_points (kvs : list (bytes * bytes)) : list (uuid * N) :=
  flat_map (fun kv =>
    match fst kv with
    | p :: rest => if (p =? point_prefix) && (length (fst kv) =? point_key_len)%nat && (last (fst kv) 256 =? suffix_id)
                   then [(removelast rest, u64_of_le (snd kv))] else []
    | [] => [] end) kvs.
Fixpoint assoc_id (u : uuid) (l : list (uuid * N)) : option N :=
  match l with [] => None | (k, v) :: r => if bytes_eqb u k then Some v else assoc_id u r end.

Definition memN (x : N) (l : list N) : bool := existsb (N.eqb x) l.
Fixpoint nodupN (l : list N) : bool := match l with [] => true | x :: r => negb (memN x r) && nodupN r end.
Definition subsetN (a b : list N) : bool := forallb (fun x => memN x b) a.
Definition same_setN (a b : list N) : bool := subsetN a b && subsetN b a.
Fixpoint assocN {A} (x : N) (l : list (N * A)) : option A :=
  match l with [] => None | (k, v) :: r => if x =? k then Some v else assocN x r end.

Definition vamana_bucket (prop : bytes) : bytes :=
  (* "index/vectorVamana/" ++ prop *)
  [105;110;100;101;120;47;118;101;99;116;111;114;86;97;109;97;110;97;47] ++ prop.

(* 0 = well-formed.
   141 the node set is not {entry} + node ids of live points carrying the field
   142 the stored-vector set differs from the node set       143 an edge leads to a missing node or to its source
   144 a node other than the entry node exceeds the degree bound   145 the recorded maximum node id is below an id in use
   146 node ids of live points are not unique                147 a stored full vector differs from the document's vector
   148 a live point has no node id in the points bucket      149 the dump is missing *)
Definition wf_code (prop : bytes) (degree : N) (qz : quant) (st : step) : N :=
  match find_bucket (vamana_bucket prop) (s_extra st), find_bucket points_bucket_name (s_extra st) with
  | Some kvs, Some pts =>
      let nid := node_ids_of_points pts in
      let carriers := filter (fun p => match vec_at prop (snd p) with Some _ => true | None => false end) (s_live st) in
      match map_opt (fun p => assoc_id (fst p) nid) carriers with
      | None => 148
      | Some cids =>
          let edges := edges_of_dump kvs in
          let nodes := map fst edges in
          let vids := vec_ids_of_dump kvs in
          let expect := if (match edges, vids with [], [] => true | _, _ => false end) && (match cids with [] => true | _ => false end)
                        then [] else start_id :: cids in
          if negb (nodupN cids) then 146 else
          if negb (nodupN nodes && same_setN nodes expect) then 141 else
          if negb (same_setN vids nodes) then 142 else
          if negb (forallb (fun e => forallb (fun t => memN t nodes && negb (t =? fst e)) (snd e)) edges) then 143 else
          if negb (forallb (fun e => (fst e =? start_id) || (N.of_nat (length (snd e)) <=? degree)) edges) then 144 else
          let maxid := match kv_get max_node_id_key kvs with Some b => u64_of_le b | None => 0 end in
          if negb (forallb (fun n => (n =? start_id) || (n <=? maxid)) nodes) then 145 else
          (* only judged for the plain store, where the full vector is what every search reads. The binary store
             never rewrites or reads a 'v' entry once a point is quantised; product-quantiser training overwrites
             the full vectors of the points chosen as initial centroids (k-means aliases them: DESIGN.md 6, F13),
             which no search reads afterwards -- the property only asks for one stored vector per live point. *)
          let judge_full := match qz with QNone => true | _ => false end in
          if judge_full && negb (forallb (fun p => match assoc_id (fst p) nid, vec_at prop (snd p) with
                                     | Some n, Some v => match assocN n (full_vecs_of_dump kvs) with
                                                         | Some stored => list_eqb N.eqb stored v
                                                         | None => true   (* quantised only *)
                                                         end
                                     | _, _ => false end) carriers) then 147 else 0
      end
  | _, _ => 149
  end.

(* ---- C03: soundness of a graph search answer (always) and exactness (in the two regimes) ---- *)

(* 0 = sound. 131 duplicate ids; 132 a returned point is not live / lacks the field / is outside the filter;
   133 more rows than the limit; 134 distances not non-decreasing; 135 a reported distance is not the index distance;
   136 hybrid score wrong; 137 a score was reported; 138 distance missing *)
Definition sound_code (limit : N) (w : option N) (cs : list cand) (rows : list row) : N :=
  let ids := map r_id rows in
  if negb (nodup_ids ids) then 131 else
  if negb (forallb (fun r => match find_cand (r_id r) cs with Some _ => true | None => false end) rows) then 132 else
  if negb (N.of_nat (length rows) <=? limit) then 133 else
  if negb (forallb (fun r => match r_dist r with Some b => negb (Dyadic.f32_is_nan b) | None => false end) rows) then 138 else
  let ds := flat_map (fun r => match row_dist r with Some d => [d] | None => [] end) rows in
  if negb (sorted_q ds) then 134 else
  if negb (forallb (fun r => match find_cand (r_id r) cs, row_dist r with
                            | Some c, Some d => dist_ok c d | _, _ => false end) rows) then 135 else
  if negb (forallb (hybrid_ok w) rows) then 136 else
  if negb (forallb (fun r => match r_score r with None => true | Some _ => false end) rows) then 137 else 0.
