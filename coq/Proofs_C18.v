(* Proofs_C18.v -- lemmas for property C18 (see Props_C18.v for the statements). *)
From Coq Require Import List ZArith NArith Bool String QArith Lia.
From Coq Require Import ZifyBool ZifyN ZifyNat.
From Semadb Require Import DocLimits Dyadic Model_C18.
Import ListNotations.
Open Scope Z_scope.

(* ------------------------------------------------------------------ *)
(* Side conditions on the generated constants, re-checked by computation whenever
   DocLimits.v is regenerated.  If an edit of the Go sources drops one of these checks or
   loosens an enforced limit beyond the documented one, the corresponding lemma no longer
   compiles and the check reports a broken proof obligation. *)

Definition structure_side : bool :=
  vs_recurses_and && vs_recurses_or && vs_recurses_flat_filter && vs_recurses_vamana_filter
  && vs_recurses_text_filter && vs_checks_flat_length && vs_checks_vamana_length
  && ccm_checks_flat_length && ccm_checks_vamana_length && ccm_nested_needs_map
  (* the validated value is the value the dispatcher reaches: both resolve the property by the nested walk *)
  && ccm_resolves_by_nested_walk && dispatch_resolves_by_query.
Lemma structure_side_ok : structure_side = true. Proof. reflexivity. Qed.

Definition schema_side : bool :=
  enf_schema_validates_every_value && enf_v2_create_validates_schema
  && enf_index_params_required_VectorFlat && enf_index_params_required_VectorVamana
  && enf_index_params_required_Text
  && enf_flat_validates_quantizer && enf_vamana_validates_quantizer
  (* the repairs: NaN alpha refused, triggerThreshold always range-checked, product quantizers checked
     against the index they are attached to *)
  && enf_alpha_rejects_nan && negb enf_bq_trigger_only_without_threshold
  && enf_flat_quantizer_for_index && enf_vamana_quantizer_for_index && enf_pq_subvectors_divide_size
  && sub_list enf_pq_metrics ["euclidean"; "cosine"; "dot"]%string
  && sub_list enf_pq_exempt_metrics ["hamming"; "jaccard"]%string
  && sub_range enf_flat_vector_size_min enf_flat_vector_size_max doc_flat_vector_size_min doc_flat_vector_size_max
  && sub_range enf_vector_size_min enf_vector_size_max doc_vector_size_min doc_vector_size_max
  && sub_list enf_index_types doc_index_types
  && sub_list enf_flat_metrics doc_flat_metrics && sub_list enf_metrics doc_metrics
  && sub_range enf_index_search_size_min enf_index_search_size_max doc_index_search_size_min doc_index_search_size_max
  && sub_range enf_degree_min enf_degree_max doc_degree_min doc_degree_max
  && sub_list enf_analysers doc_analysers && sub_list enf_quantizer_types doc_quantizer_types
  && sub_range enf_bq_trigger_min enf_bq_trigger_max doc_bq_trigger_min doc_bq_trigger_max
  && sub_list enf_bq_metrics doc_bq_metrics
  && sub_range enf_pq_centroids_min enf_pq_centroids_max doc_pq_centroids_min doc_pq_centroids_max
  && (doc_pq_subvectors_min <=? enf_pq_subvectors_min)
  && sub_range enf_pq_trigger_min enf_pq_trigger_max doc_pq_trigger_min doc_pq_trigger_max
  && sub_range enf_v2_collection_id_min enf_v2_collection_id_max doc_v2_collection_id_min doc_v2_collection_id_max
  (* alpha: the enforced float32 bounds lie inside the documented rational interval, and are finite *)
  && f32_finite enf_alpha_min_f32 && f32_finite enf_alpha_max_f32
  && Qleb doc_alpha_min (f32_to_Q enf_alpha_min_f32) && Qleb (f32_to_Q enf_alpha_max_f32) doc_alpha_max
  && Qltb (inject_Z (- 2 ^ 200)) (f32_to_Q enf_alpha_min_f32) && Qltb (f32_to_Q enf_alpha_max_f32) (inject_Z (2 ^ 200)).
Lemma schema_side_ok : schema_side = true. Proof. vm_compute. reflexivity. Qed.

Definition search_side : bool :=
  enf_request_validates_query && enf_request_validates_sort && enf_sort_property_nonempty
  && enf_query_property_nonempty
  && enf_query_validates_VectorFlat && enf_query_validates_VectorVamana && enf_query_validates_Text
  && enf_query_validates_String && enf_query_validates_Integer && enf_query_validates_Float
  && enf_query_validates_StringArray && enf_query_validates_and && enf_query_validates_or
  && enf_flat_validates_filter && enf_vamana_validates_filter && enf_text_validates_filter
  && enf_text_value_nonempty && enf_string_value_nonempty && enf_string_array_value_nonempty
  && (1 <=? enf_flat_query_vector_min) && (enf_flat_query_vector_max <=? doc_flat_query_vector_max)
  && (1 <=? enf_query_vector_min) && (enf_query_vector_max <=? doc_query_vector_max)
  && sub_list enf_flat_ops doc_flat_ops && sub_list enf_vamana_ops doc_vamana_ops && sub_list enf_text_ops doc_text_ops
  && sub_list enf_string_ops doc_string_ops && sub_list enf_integer_ops doc_integer_ops
  && sub_list enf_float_ops doc_float_ops && sub_list enf_string_array_ops doc_string_array_ops
  && sub_range enf_flat_limit_min enf_flat_limit_max doc_flat_limit_min doc_flat_limit_max
  && sub_range enf_vamana_limit_min enf_vamana_limit_max doc_vamana_limit_min doc_vamana_limit_max
  && sub_range enf_text_limit_min enf_text_limit_max doc_text_limit_min doc_text_limit_max
  && sub_range enf_search_size_min enf_search_size_max doc_search_size_min doc_search_size_max
  && (enf_sort_max <=? doc_sort_max) && (doc_offset_min <=? enf_offset_min)
  && sub_range enf_request_limit_min enf_request_limit_max doc_request_limit_min doc_request_limit_max.
Lemma search_side_ok : search_side = true. Proof. vm_compute. reflexivity. Qed.

Definition points_side : bool :=
  sub_range enf_points_insert_min enf_points_insert_max 1 doc_points_insert_max
  && sub_range enf_points_update_min enf_points_update_max 1 doc_points_update_max
  && sub_range enf_delete_ids_min enf_delete_ids_max 1 doc_delete_ids_max
  && enf_delete_ids_uuid
  && sub_range enf_v1_points_insert_min enf_v1_points_insert_max 1 doc_v1_points_insert_max
  && sub_range enf_v1_points_update_min enf_v1_points_update_max 1 doc_v1_points_update_max
  && sub_range enf_v1_delete_ids_min enf_v1_delete_ids_max 1 doc_v1_delete_ids_max
  && sub_range enf_v1_insert_vector_min enf_v1_insert_vector_max 1 doc_v1_insert_vector_max
  && sub_range enf_v1_update_vector_min enf_v1_update_vector_max 1 doc_v1_update_vector_max
  && sub_range enf_v1_search_vector_min enf_v1_search_vector_max 1 doc_v1_search_vector_max
  && sub_range enf_v1_search_limit_min enf_v1_search_limit_max doc_v1_search_limit_min doc_v1_search_limit_max
  && sub_range enf_v1_collection_id_min enf_v1_collection_id_max doc_v1_collection_id_min doc_v1_collection_id_max
  && sub_list enf_v1_metrics doc_v1_metrics
  (* the schema a v1 creation builds passes the v2 schema validation *)
  && sub_range enf_v1_vector_size_min enf_v1_vector_size_max enf_vector_size_min enf_vector_size_max
  && sub_list enf_v1_metrics enf_metrics && negb (mem "haversine" enf_v1_metrics)
  && in_range enf_index_search_size_min enf_index_search_size_max v1_default_search_size
  && in_range enf_degree_min enf_degree_max v1_default_degree
  && alpha_ok v1_default_alpha_f32
  && mem "vectorVamana" enf_index_types.
Lemma points_side_ok : points_side = true. Proof. vm_compute. reflexivity. Qed.

Definition handler_side : bool :=
  hdl_v2_create_validates_first && hdl_v2_insert_validates_first && hdl_v2_update_validates_first
  && hdl_v2_delete_validates_first && hdl_v2_search_validates_first
  && hdl_v1_create_validates_first && hdl_v1_insert_validates_first && hdl_v1_update_validates_first
  && hdl_v1_delete_validates_first && hdl_v1_search_validates_first
  && router_recover_outermost && router_app_headers_present && decode_validates
  && negb hdl_v1_assumes_vector_vamana.
Lemma handler_side_ok : handler_side = true. Proof. reflexivity. Qed.

(* split a side condition into its conjuncts *)
Ltac split_side H :=
  repeat match type of H with
         | (_ && _) = true => let H1 := fresh "S" in let H2 := fresh "S" in
                              apply andb_true_iff in H; destruct H as [H1 H2]; split_side H1; split_side H2
         end.

(* split a conjunction of checks syntactically (apply ... in would unfold in_range) *)
Ltac split_and H :=
  repeat match type of H with
         | (_ && _) = true => let H2 := fresh "C" in apply andb_true_iff in H; destruct H as [H H2]
         end.

Ltac peel H X := apply andb_true_iff in H; destruct H as [H X].
Ltac split_goal := repeat match goal with |- (_ && _) = true => apply andb_true_iff; split end.

(* keep the generated constants folded *)
Global Opaque
  vs_recurses_and vs_recurses_or vs_recurses_flat_filter vs_recurses_vamana_filter vs_recurses_text_filter
  vs_checks_flat_length vs_checks_vamana_length eval_recurses_and eval_recurses_or eval_recurses_flat_filter
  eval_recurses_vamana_filter eval_recurses_text_filter ccm_checks_flat_length ccm_checks_vamana_length
  ccm_nested_needs_map.

(* ------------------------------------------------------------------ *)
(* Generic facts                                                       *)

Lemma gate_true : forall f c, f = true -> gate f c = c.
Proof. intros f c ->. reflexivity. Qed.
Lemma glist_true : forall A f (l : list A), f = true -> glist f l = l.
Proof. intros A f l ->. reflexivity. Qed.
Lemma incl_glist : forall A f (l : list A), incl (glist f l) l.
Proof. intros A [] l; simpl; [apply incl_refl | apply incl_nil_l]. Qed.
Lemma incl_glist2 : forall A fe fv (l1 l2 : list A), fv = true -> incl l1 l2 -> incl (glist fe l1) (glist fv l2).
Proof. intros A fe fv l1 l2 -> H. eapply incl_tran; [apply incl_glist | exact H]. Qed.
Lemma Forall_glist : forall A (P : A -> Prop) f l, Forall P l -> Forall P (glist f l).
Proof. intros A P [] l H; simpl; [exact H | constructor]. Qed.

Lemma in_range_spec : forall lo hi x, in_range lo hi x = true <-> lo <= x <= hi.
Proof. intros. unfold in_range. rewrite andb_true_iff, !Z.leb_le. tauto. Qed.

Lemma sub_range_in : forall elo ehi dlo dhi x,
  sub_range elo ehi dlo dhi = true -> in_range elo ehi x = true -> in_range dlo dhi x = true.
Proof.
  intros elo ehi dlo dhi x Hs Hx. unfold sub_range in Hs. apply andb_true_iff in Hs. destruct Hs as [A B].
  apply Z.leb_le in A, B. apply in_range_spec in Hx. apply in_range_spec. lia.
Qed.

Lemma sub_list_mem : forall e d x, sub_list e d = true -> mem x e = true -> mem x d = true.
Proof.
  intros e d x Hs Hx. unfold sub_list in Hs. rewrite forallb_forall in Hs.
  unfold mem in Hx. apply existsb_exists in Hx. destruct Hx as [y [Hy E]].
  apply String.eqb_eq in E. subst y. auto.
Qed.

(* enforced-within-documented steps, matched syntactically on the generated names *)
Ltac use_sub :=
  match goal with
  | [ A : sub_range ?a ?b ?c ?d = true, B : in_range ?a ?b ?x = true |- in_range ?c ?d ?x = true ] =>
      exact (sub_range_in a b c d x A B)
  | [ A : sub_list ?e ?d = true, B : mem ?x ?e = true |- mem ?x ?d = true ] =>
      exact (sub_list_mem e d x A B)
  end.

Lemma seq_eq : forall a b, seq a b = true -> a = b.
Proof. intros a b H. apply String.eqb_eq. exact H. Qed.

Lemma lookup_in : forall A k (l : list (string * A)) v, lookup k l = Some v -> In (k, v) l.
Proof.
  induction l as [|[k' v'] r IH]; simpl; intros v H; [discriminate|].
  destruct (String.eqb k k') eqn:E.
  - apply String.eqb_eq in E. inversion H. subst. left. reflexivity.
  - right. auto.
Qed.

Lemma incl_flat_map_Forall : forall A B (f g : A -> list B) l,
  Forall (fun a => incl (f a) (g a)) l -> incl (flat_map f l) (flat_map g l).
Proof.
  induction 1 as [|a l Ha Hl IH]; simpl; [apply incl_refl|].
  apply incl_app; [apply incl_appl; exact Ha | apply incl_appr; exact IH].
Qed.

Lemma Forall_flat_map : forall A B (P : B -> Prop) (f : A -> list B) l,
  Forall (fun a => Forall P (f a)) l -> Forall P (flat_map f l).
Proof.
  induction 1 as [|a l Ha Hl IH]; simpl; [constructor|]. apply Forall_app. split; assumption.
Qed.

Lemma Forall_incl : forall A (P : A -> Prop) l l', incl l l' -> Forall P l' -> Forall P l.
Proof. intros A P l l' Hi Hf. rewrite Forall_forall in *. auto. Qed.

(* ------------------------------------------------------------------ *)
(* Induction over query trees (nested through option, ropts and list)  *)

Definition fil_all (P : query -> Prop) (o : option (ropts query)) : Prop :=
  match o with
  | Some r => match r_filter r with Some f => P f | None => True end
  | None => True
  end.

Section QueryInd.
  Variable P : query -> Prop.
  Hypothesis step : forall prop qflat qvam qtext qstr qint qflt qsarr qand qor,
    fil_all P qflat -> fil_all P qvam -> fil_all P qtext -> Forall P qand -> Forall P qor ->
    P (Qry prop qflat qvam qtext qstr qint qflt qsarr qand qor).

  Fixpoint query_ind' (q : query) : P q :=
    match q with
    | Qry prop qflat qvam qtext qstr qint qflt qsarr qand qor =>
      let fil (o : option (ropts query)) : fil_all P o :=
        match o return fil_all P o with
        | Some (mkR _ _ _ _ (Some f)) => query_ind' f
        | Some (mkR _ _ _ _ None) => I
        | None => I
        end in
      let fix all (l : list query) : Forall P l :=
        match l with
        | [] => Forall_nil P
        | x :: r => Forall_cons x (query_ind' x) (all r)
        end in
      step prop qflat qvam qtext qstr qint qflt qsarr qand qor (fil qflat) (fil qvam) (fil qtext) (all qand) (all qor)
    end.
End QueryInd.

Lemma forallb_Forall_impl : forall (f : query -> bool) (P : query -> Prop) l,
  Forall (fun q => f q = true -> P q) l -> forallb f l = true -> Forall P l.
Proof.
  induction 1 as [|a l Ha Hl IH]; simpl; intros H; [constructor|].
  apply andb_true_iff in H. destruct H. constructor; auto.
Qed.

(* ------------------------------------------------------------------ *)
(* ValidateSchema compares exactly the pairs of vs_pairs               *)


Lemma vs_sound : forall s q, validate_schema s q = true -> Forall pair_eq (vs_pairs s q).
Proof.
  intros s q. induction q as [prop qflat qvam qtext qstr qint qflt qsarr qand qor Hf Hv Ht Ha Ho] using query_ind'.
  pose proof structure_side_ok as SS. unfold structure_side in SS. split_side SS.
  cbn [validate_schema vs_pairs]. intros H.
  destruct (seq prop "_and").
  { rewrite ?gate_true in H by assumption. apply Forall_glist.
    apply Forall_flat_map. eapply forallb_Forall_impl; eassumption. }
  destruct (seq prop "_or").
  { rewrite ?gate_true in H by assumption. apply Forall_glist.
    apply Forall_flat_map. eapply forallb_Forall_impl; eassumption. }
  destruct (seq prop "_id"); [constructor|].
  destruct (lookup prop s) as [iv|]; [|constructor].
  destruct (seq (iv_type iv) "vectorVamana") eqn:Tv.
  { apply seq_eq in Tv. rewrite Tv in H. cbn in H.
    destruct qvam as [o|]; [|constructor]. destruct (iv_vamana iv) as [p|]; [|constructor].
    rewrite ?gate_true in H by assumption.
    apply andb_true_iff in H. destruct H as [H1 H2]. apply Forall_app. split.
    - apply Forall_glist. cbn in Hv. destruct (r_filter o); [auto | constructor].
    - apply Forall_glist. constructor; [|constructor]. unfold pair_eq. cbn. apply Z.eqb_eq in H1. symmetry. exact H1. }
  destruct (seq (iv_type iv) "vectorFlat") eqn:Tf.
  { destruct qflat as [o|]; [|constructor]. destruct (iv_flat iv) as [p|]; [|constructor].
    rewrite ?gate_true in H by assumption.
    apply andb_true_iff in H. destruct H as [H1 H2]. apply Forall_app. split.
    - apply Forall_glist. cbn in Hf. destruct (r_filter o); [auto | constructor].
    - apply Forall_glist. constructor; [|constructor]. unfold pair_eq. cbn. apply Z.eqb_eq in H1. symmetry. exact H1. }
  destruct (seq (iv_type iv) "text") eqn:Tt.
  { destruct qtext as [o|]; [|constructor].
    rewrite ?gate_true in H by assumption. apply Forall_glist.
    cbn in Ht. destruct (r_filter o); [auto | constructor]. }
  constructor.
Qed.

(* every position the evaluator reaches is a position ValidateSchema compares *)
Lemma reach_covered : forall s q, incl (eval_reach s q) (vs_pairs s q).
Proof.
  intros s q. induction q as [prop qflat qvam qtext qstr qint qflt qsarr qand qor Hf Hv Ht Ha Ho] using query_ind'.
  pose proof structure_side_ok as SS. unfold structure_side in SS. split_side SS.
  cbn [eval_reach vs_pairs].
  destruct (seq prop "_and").
  { apply incl_glist2; [assumption|]. apply incl_flat_map_Forall. exact Ha. }
  destruct (seq prop "_or").
  { apply incl_glist2; [assumption|]. apply incl_flat_map_Forall. exact Ho. }
  destruct (seq prop "_id"); [apply incl_refl|].
  destruct (lookup prop s) as [iv|]; [|apply incl_refl].
  destruct (seq (iv_type iv) "vectorVamana").
  { destruct qvam as [o|]; [|apply incl_refl]. destruct (iv_vamana iv) as [p|]; [|apply incl_refl].
    apply incl_app; [apply incl_appl | apply incl_appr].
    - apply incl_glist2; [assumption|]. cbn in Hv. destruct (r_filter o); [exact Hv | apply incl_refl].
    - replace vs_checks_vamana_length with true by (symmetry; assumption). apply incl_refl. }
  destruct (seq (iv_type iv) "vectorFlat").
  { destruct qflat as [o|]; [|apply incl_refl]. destruct (iv_flat iv) as [p|]; [|apply incl_refl].
    apply incl_app; [apply incl_appl | apply incl_appr].
    - apply incl_glist2; [assumption|]. cbn in Hf. destruct (r_filter o); [exact Hf | apply incl_refl].
    - replace vs_checks_flat_length with true by (symmetry; assumption). apply incl_refl. }
  destruct (seq (iv_type iv) "text").
  { destruct qtext as [o|]; [|apply incl_refl].
    apply incl_glist2; [assumption|]. cbn in Ht. destruct (r_filter o); [exact Ht | apply incl_refl]. }
  apply incl_refl.
Qed.

(* ------------------------------------------------------------------ *)
(* Dimensions of a validated schema are within the documented range    *)


Lemma ischema_ivalue : forall s k iv,
  validate_ischema s = true -> lookup k s = Some iv -> validate_ivalue iv = true.
Proof.
  intros s k iv H L. pose proof schema_side_ok as SS. unfold schema_side in SS. split_side SS.
  unfold validate_ischema in H. rewrite ?gate_true in H by assumption.
  rewrite forallb_forall in H. apply lookup_in in L. apply (H _ L).
Qed.

Lemma ivalue_vamana_dim : forall iv p,
  validate_ivalue iv = true -> seq (iv_type iv) "vectorVamana" = true -> iv_vamana iv = Some p ->
  validate_vamana p = true.
Proof.
  intros iv p H T E. pose proof schema_side_ok as SS. unfold schema_side in SS. split_side SS.
  unfold validate_ivalue in H. apply andb_true_iff in H. destruct H as [_ H].
  apply seq_eq in T. rewrite T in H. cbn in H. rewrite ?gate_true in H by assumption. rewrite E in H. exact H.
Qed.

Lemma ivalue_flat_dim : forall iv p,
  validate_ivalue iv = true -> seq (iv_type iv) "vectorFlat" = true -> iv_flat iv = Some p ->
  validate_flat p = true.
Proof.
  intros iv p H T E. pose proof schema_side_ok as SS. unfold schema_side in SS. split_side SS.
  unfold validate_ivalue in H. apply andb_true_iff in H. destruct H as [_ H].
  rewrite T in H. rewrite ?gate_true in H by assumption. rewrite E in H. exact H.
Qed.

Lemma vamana_dim_doc : forall p, validate_vamana p = true -> doc_dim_ok (vp_size p) = true.
Proof.
  intros p H. pose proof schema_side_ok as SS. unfold schema_side in SS. split_side SS.
  unfold validate_vamana in H. split_and H.
  unfold doc_dim_ok. apply orb_true_iff. left. use_sub.
Qed.
Lemma flat_dim_doc : forall p, validate_flat p = true -> doc_dim_ok (vp_size p) = true.
Proof.
  intros p H. pose proof schema_side_ok as SS. unfold schema_side in SS. split_side SS.
  unfold validate_flat in H. split_and H.
  unfold doc_dim_ok. apply orb_true_iff. right. use_sub.
Qed.

Lemma reach_dims : forall s q, validate_ischema s = true ->
  Forall (fun p => doc_dim_ok (fst p) = true) (eval_reach s q).
Proof.
  intros s q W. induction q as [prop qflat qvam qtext qstr qint qflt qsarr qand qor Hf Hv Ht Ha Ho] using query_ind'.
  cbn [eval_reach].
  destruct (seq prop "_and").
  { eapply Forall_incl; [apply incl_glist|]. apply Forall_flat_map. exact Ha. }
  destruct (seq prop "_or").
  { eapply Forall_incl; [apply incl_glist|]. apply Forall_flat_map. exact Ho. }
  destruct (seq prop "_id"); [constructor|].
  destruct (lookup prop s) as [iv|] eqn:L; [|constructor].
  pose proof (ischema_ivalue _ _ _ W L) as Wi.
  destruct (seq (iv_type iv) "vectorVamana") eqn:Tv.
  { destruct qvam as [o|]; [|constructor]. destruct (iv_vamana iv) as [p|] eqn:E; [|constructor].
    apply Forall_app. split.
    - eapply Forall_incl; [apply incl_glist|]. cbn in Hv. destruct (r_filter o); [exact Hv | constructor].
    - constructor; [|constructor]. cbn. apply vamana_dim_doc. eapply ivalue_vamana_dim; eassumption. }
  destruct (seq (iv_type iv) "vectorFlat") eqn:Tf.
  { destruct qflat as [o|]; [|constructor]. destruct (iv_flat iv) as [p|] eqn:E; [|constructor].
    apply Forall_app. split.
    - eapply Forall_incl; [apply incl_glist|]. cbn in Hf. destruct (r_filter o); [exact Hf | constructor].
    - constructor; [|constructor]. cbn. apply flat_dim_doc. eapply ivalue_flat_dim; eassumption. }
  destruct (seq (iv_type iv) "text").
  { destruct qtext as [o|]; [|constructor].
    eapply Forall_incl; [apply incl_glist|]. cbn in Ht. destruct (r_filter o); [exact Ht | constructor]. }
  constructor.
Qed.

(* the dimension guard of the search path *)
Lemma dimension_guard : forall s r,
  validate_ischema s = true -> validate_search s r = true ->
  Forall (fun p => fst p = snd p /\ doc_dim_ok (snd p) = true) (eval_reach s (sr_query r)).
Proof.
  intros s r W H. unfold validate_search in H. apply andb_true_iff in H. destruct H as [_ H].
  pose proof (vs_sound _ _ H) as A. pose proof (reach_covered s (sr_query r)) as B.
  pose proof (reach_dims s (sr_query r) W) as C.
  rewrite Forall_forall in *. intros p Hp. specialize (A p (B p Hp)). specialize (C p Hp).
  unfold pair_eq in A. split; [exact A | rewrite <- A; exact C].
Qed.

(* the v1 search request goes through the same evaluator with the query the handler builds *)
Lemma dimension_guard_v1 : forall s r,
  handler_search1 s r = Call OpSearch ->
  Forall (fun p => fst p = snd p) (eval_reach s (v1_query r)).
Proof.
  intros s r H. pose proof handler_side_ok as SS. unfold handler_side in SS. split_side SS.
  unfold handler_search1 in H.
  replace hdl_v1_search_validates_first with true in H by (symmetry; assumption). cbn in H.
  destruct (validate_search1 r); cbn in H; [|discriminate].
  unfold v1_dim in H. cbn [eval_reach v1_query]. cbn.
  destruct (lookup "vector" s) as [iv|]; [|constructor].
  destruct (seq (iv_type iv) "vectorVamana").
  - destruct (iv_vamana iv) as [p|]; [|constructor]. cbn in H.
    destruct (s1_len r =? vp_size p) eqn:E; [|discriminate].
    apply Z.eqb_eq in E. eapply Forall_incl with (l' := [(vp_size p, s1_len r)]).
    + apply incl_app; [eapply incl_tran; [apply incl_glist | apply incl_nil_l] | apply incl_refl].
    + constructor; [cbn; symmetry; exact E | constructor].
  - destruct (seq (iv_type iv) "vectorFlat"); [constructor|]. destruct (seq (iv_type iv) "text"); constructor.
Qed.

(* ------------------------------------------------------------------ *)
(* Write path                                                          *)

Lemma write_guard : forall s p, check_compatible s p = true -> Forall pair_eq (write_reach s p).
Proof.
  intros s p H. pose proof structure_side_ok as SS. unfold structure_side in SS. split_side SS.
  unfold check_compatible in H. rewrite forallb_forall in H.
  unfold write_reach. apply Forall_flat_map. rewrite Forall_forall. intros [k iv] Hin.
  specialize (H _ Hin). cbn [fst snd] in *.
  unfold ccm_value in H.
  replace ccm_resolves_by_nested_walk with true in H by (symmetry; assumption).
  replace dispatch_resolves_by_query with true by (symmetry; assumption). cbn iota.
  unfold dim_of.
  destruct (pval_of k p) as [| |n af ast| | | | | |] eqn:E;
    try (destruct (if seq (iv_type iv) "vectorFlat" then _ else _); apply Forall_nil).
  unfold check_prop in H.
  destruct (seq (iv_type iv) "vectorFlat") eqn:Tf.
  { destruct (iv_flat iv) as [q|]; cbn; [|constructor].
    rewrite ?gate_true in H by assumption. apply andb_true_iff in H. destruct H as [_ H].
    apply Z.eqb_eq in H. constructor; [unfold pair_eq; cbn; symmetry; exact H | constructor]. }
  destruct (seq (iv_type iv) "vectorVamana") eqn:Tv.
  { destruct (iv_vamana iv) as [q|]; cbn; [|constructor].
    rewrite ?gate_true in H by assumption. apply andb_true_iff in H. destruct H as [_ H].
    apply Z.eqb_eq in H. constructor; [unfold pair_eq; cbn; symmetry; exact H | constructor]. }
  constructor.
Qed.

Lemma write_dims : forall s p, validate_ischema s = true ->
  Forall (fun pr => doc_dim_ok (fst pr) = true) (write_reach s p).
Proof.
  intros s p W. unfold write_reach. apply Forall_flat_map. rewrite Forall_forall. intros [k iv] Hin.
  cbn [fst snd].
  generalize (if dispatch_resolves_by_query then pval_of k p else POther). intros pv.
  assert (Wi : validate_ivalue iv = true).
  { pose proof schema_side_ok as SS. unfold schema_side in SS. split_side SS.
    unfold validate_ischema in W. rewrite ?gate_true in W by assumption.
    rewrite forallb_forall in W. apply (W _ Hin). }
  unfold dim_of.
  destruct (seq (iv_type iv) "vectorFlat") eqn:Tf.
  { destruct (iv_flat iv) as [q|] eqn:E; cbn; [|constructor].
    destruct pv; try constructor; [|constructor]. cbn. apply flat_dim_doc. eapply ivalue_flat_dim; eassumption. }
  destruct (seq (iv_type iv) "vectorVamana") eqn:Tv.
  { destruct (iv_vamana iv) as [q|] eqn:E; cbn; [|constructor].
    destruct pv; try constructor; [|constructor]. cbn. apply vamana_dim_doc. eapply ivalue_vamana_dim; eassumption. }
  constructor.
Qed.

Lemma write_dimension_guard : forall s maxsize create_new p,
  validate_ischema s = true -> point_ok s maxsize create_new p = true ->
  Forall (fun pr => fst pr = snd pr /\ doc_dim_ok (snd pr) = true) (write_reach s p).
Proof.
  intros s maxsize cn p W H. unfold point_ok in H.
  apply andb_true_iff in H. destruct H as [H _]. apply andb_true_iff in H. destruct H as [H _].
  pose proof (write_guard _ _ H) as A. pose proof (write_dims s p W) as B.
  rewrite Forall_forall in *. intros pr Hp. specialize (A pr Hp). specialize (B pr Hp).
  unfold pair_eq in A. split; [exact A | rewrite <- A; exact B].
Qed.

Lemma insert_dimension_guard : forall s r,
  validate_ischema s = true -> validate_insert2 s r = true ->
  Forall (fun p => Forall (fun pr => fst pr = snd pr /\ doc_dim_ok (snd pr) = true) (write_reach s p)) (ps_points r).
Proof.
  intros s r W H. unfold validate_insert2 in H. apply andb_true_iff in H. destruct H as [_ H].
  rewrite forallb_forall in H. rewrite Forall_forall. intros p Hp.
  eapply write_dimension_guard; [exact W | apply (H _ Hp)].
Qed.
Lemma update_dimension_guard : forall s r,
  validate_ischema s = true -> validate_update2 s r = true ->
  Forall (fun p => Forall (fun pr => fst pr = snd pr /\ doc_dim_ok (snd pr) = true) (write_reach s p)) (ps_points r).
Proof.
  intros s r W H. unfold validate_update2 in H. apply andb_true_iff in H. destruct H as [_ H].
  rewrite forallb_forall in H. rewrite Forall_forall. intros p Hp.
  eapply write_dimension_guard; [exact W | apply (H _ Hp)].
Qed.

(* v1 write path: the vector has the dimension of the "vector" index *)
Lemma write_guard_v1 : forall s r n d,
  handler_insert1 s r = Call (OpInsert n) \/ handler_update1 s r = Call (OpUpdate n) ->
  v1_dim s = Some d -> Forall (fun p => p1_len p = d) (ps1_points r).
Proof.
  intros s r n d H D. pose proof handler_side_ok as SS. unfold handler_side in SS. split_side SS.
  assert (G : forall flag valid o o', flag = true -> handler_points1 flag valid s r o = Call o' -> points1_fit d r = true).
  { intros flag valid o o' -> G. unfold handler_points1 in G. cbn in G.
    destruct valid; cbn in G; [|discriminate]. rewrite D in G. destruct (points1_fit d r); [reflexivity | discriminate]. }
  assert (F : points1_fit d r = true).
  { destruct H as [H|H]; [unfold handler_insert1 in H | unfold handler_update1 in H]; eapply G; eauto. }
  unfold points1_fit in F. rewrite forallb_forall in F. rewrite Forall_forall. intros p Hp.
  specialize (F _ Hp). apply andb_true_iff in F. destruct F as [F _]. apply Z.eqb_eq in F. exact F.
Qed.

(* ------------------------------------------------------------------ *)
(* A rejected request performs no cluster call                         *)

Lemma guarded_reject : forall flag valid o, flag = true -> valid = false -> guarded flag valid o = Reject.
Proof. intros flag valid o -> ->. reflexivity. Qed.
Lemma guarded_call : forall flag valid o, valid = true -> guarded flag valid o = Call o.
Proof. intros [] valid o ->; reflexivity. Qed.

Lemma invalid_no_effect_v2 :
  (forall r, validate_create2 r = false -> handler_create2 r = Reject) /\
  (forall s r, validate_insert2 s r = false -> handler_insert2 s r = Reject) /\
  (forall s r, validate_update2 s r = false -> handler_update2 s r = Reject) /\
  (forall ids, validate_delete enf_delete_ids_min enf_delete_ids_max enf_delete_ids_uuid ids = false -> handler_delete2 ids = Reject) /\
  (forall s r, validate_search s r = false -> handler_search2 s r = Reject).
Proof.
  pose proof handler_side_ok as SS. unfold handler_side in SS. split_side SS.
  repeat split; intros; apply guarded_reject; assumption.
Qed.

Lemma points1_reject : forall flag valid s r o,
  flag = true -> valid = false -> handler_points1 flag valid s r o = Reject.
Proof. intros flag valid s r o -> ->. reflexivity. Qed.

Lemma invalid_no_effect_v1 :
  (forall r, validate_create1 r = false -> handler_create1 r = Reject) /\
  (forall s r, validate_insert1 r = false -> handler_insert1 s r = Reject) /\
  (forall s r, validate_update1 r = false -> handler_update1 s r = Reject) /\
  (forall ids, validate_delete enf_v1_delete_ids_min enf_v1_delete_ids_max true ids = false -> handler_delete1 ids = Reject) /\
  (forall s r, validate_search1 r = false -> handler_search1 s r = Reject) /\
  (* a vector whose length differs from the index dimension is refused as well *)
  (forall s r d, v1_dim s = Some d -> points1_fit d r = false ->
                 handler_insert1 s r = Reject /\ handler_update1 s r = Reject) /\
  (forall s r d, v1_dim s = Some d -> s1_len r <> d -> handler_search1 s r = Reject).
Proof.
  pose proof handler_side_ok as SS. unfold handler_side in SS. split_side SS.
  repeat split; intros.
  - apply guarded_reject; assumption.
  - apply points1_reject; assumption.
  - apply points1_reject; assumption.
  - apply guarded_reject; assumption.
  - unfold handler_search1. replace hdl_v1_search_validates_first with true by (symmetry; assumption).
    cbn. rewrite H. reflexivity.
  - unfold handler_insert1, handler_points1. replace hdl_v1_insert_validates_first with true by (symmetry; assumption).
    cbn. destruct (validate_insert1 r); cbn; [|reflexivity]. rewrite H, H0. reflexivity.
  - unfold handler_update1, handler_points1. replace hdl_v1_update_validates_first with true by (symmetry; assumption).
    cbn. destruct (validate_update1 r); cbn; [|reflexivity]. rewrite H, H0. reflexivity.
  - unfold handler_search1. replace hdl_v1_search_validates_first with true by (symmetry; assumption).
    cbn. destruct (validate_search1 r); cbn; [|reflexivity]. rewrite H.
    destruct (s1_len r =? d) eqn:E; [apply Z.eqb_eq in E; contradiction | reflexivity].
Qed.

Lemma valid_reaches_cluster :
  (forall r, validate_create2 r = true -> handler_create2 r = Call OpCreate) /\
  (forall s r, validate_insert2 s r = true -> handler_insert2 s r = Call (OpInsert (Z.of_nat (List.length (ps_points r))))) /\
  (forall s r, validate_update2 s r = true -> handler_update2 s r = Call (OpUpdate (Z.of_nat (List.length (ps_points r))))) /\
  (forall s r, validate_search s r = true -> handler_search2 s r = Call OpSearch).
Proof. repeat split; intros; apply guarded_call; assumption. Qed.

(* v1 handlers never panic on a collection created through v1 ... *)
Lemma v1_dim_of_v1_schema : forall r, v1_dim (v1_schema r) = Some (c1_vsize r).
Proof. reflexivity. Qed.

Lemma v1_no_panic : forall s,
  handler_get1 s <> Panic /\ handler_list1 [s] <> Panic /\ (forall r, handler_insert1 s r <> Panic) /\
  (forall r, handler_update1 s r <> Panic) /\ (forall r, handler_search1 s r <> Panic).
Proof.
  intros s. pose proof handler_side_ok as SS. unfold handler_side in SS. split_side SS.
  assert (A : hdl_v1_assumes_vector_vamana = false).
  { match goal with [ X : negb hdl_v1_assumes_vector_vamana = true |- _ ] => apply negb_true_iff in X; exact X end. }
  repeat split; intros.
  - unfold handler_get1, handler_get1_gen, missing_index. rewrite A. destruct (v1_dim s); discriminate.
  - unfold handler_list1, handler_list1_gen. rewrite A. discriminate.
  - unfold handler_insert1, handler_points1, handler_points1_gen, missing_index. rewrite A.
    destruct (negb hdl_v1_insert_validates_first); [discriminate|].
    destruct (negb (validate_insert1 r)); [discriminate|].
    destruct (v1_dim s) as [d|]; [destruct (points1_fit d r)|]; discriminate.
  - unfold handler_update1, handler_points1, handler_points1_gen, missing_index. rewrite A.
    destruct (negb hdl_v1_update_validates_first); [discriminate|].
    destruct (negb (validate_update1 r)); [discriminate|].
    destruct (v1_dim s) as [d|]; [destruct (points1_fit d r)|]; discriminate.
  - unfold handler_search1, handler_search1_gen, missing_index. rewrite A.
    destruct (negb hdl_v1_search_validates_first); [discriminate|].
    destruct (negb (validate_search1 r)); [discriminate|].
    destruct (v1_dim s) as [d|]; [destruct (s1_len r =? d)|]; discriminate.
Qed.

(* a collection without a vamana index named "vector" is refused by get / insert / update / search
   before any cluster call *)
Lemma v1_missing_index_rejected : forall s, v1_dim s = None ->
  handler_get1 s = Reject /\ (forall r, handler_insert1 s r = Reject) /\
  (forall r, handler_update1 s r = Reject) /\ (forall r, handler_search1 s r = Reject).
Proof.
  intros s D. pose proof handler_side_ok as SS. unfold handler_side in SS. split_side SS.
  assert (A : hdl_v1_assumes_vector_vamana = false).
  { match goal with [ X : negb hdl_v1_assumes_vector_vamana = true |- _ ] => apply negb_true_iff in X; exact X end. }
  repeat split; intros.
  - unfold handler_get1, handler_get1_gen, missing_index. rewrite D, A. reflexivity.
  - unfold handler_insert1, handler_points1, handler_points1_gen, missing_index. rewrite D, A.
    replace hdl_v1_insert_validates_first with true by (symmetry; assumption). cbn.
    destruct (validate_insert1 r); reflexivity.
  - unfold handler_update1, handler_points1, handler_points1_gen, missing_index. rewrite D, A.
    replace hdl_v1_update_validates_first with true by (symmetry; assumption). cbn.
    destruct (validate_update1 r); reflexivity.
  - unfold handler_search1, handler_search1_gen, missing_index. rewrite D, A.
    replace hdl_v1_search_validates_first with true by (symmetry; assumption). cbn.
    destruct (validate_search1 r); reflexivity.
Qed.

(* ... and a v1 creation builds a schema that passes the v2 validation *)
Lemma v1_schema_valid : forall r, validate_create1 r = true -> validate_ischema (v1_schema r) = true.
Proof.
  intros r H. pose proof points_side_ok as PS. unfold points_side in PS. split_side PS.
  pose proof schema_side_ok as SS. unfold schema_side in SS. split_side SS.
  unfold validate_create1 in H. split_and H.
  assert (V : validate_vamana (mkVP (c1_vsize r) (c1_metric r) v1_default_search_size v1_default_degree
                                    v1_default_alpha_f32 None) = true).
  { unfold validate_vamana. cbn [vp_size vp_metric vp_ssize vp_degree vp_alpha vp_quant].
    split_goal.
    all: try (first [use_sub | assumption]).
    all: try (rewrite ?gate_true by assumption; reflexivity).
    unfold haversine_ok. cbn [vp_metric vp_size]. apply orb_true_iff. left.
    destruct (seq (c1_metric r) "haversine") eqn:E; [|reflexivity].
    apply seq_eq in E. rewrite E in *.
    match goal with [ A : negb (mem "haversine" enf_v1_metrics) = true, B : mem "haversine" enf_v1_metrics = true |- _ ] =>
      rewrite B in A; discriminate end. }
  unfold validate_ischema. rewrite ?gate_true by assumption. cbn [v1_schema forallb snd].
  rewrite andb_true_r. unfold validate_ivalue. cbn [iv_type iv_vamana].
  apply andb_true_iff. split; [assumption|].
  cbn [seq String.eqb Ascii.eqb Bool.eqb]. rewrite ?gate_true by assumption. exact V.
Qed.

(* the pinned handlers (no nil test) dereferenced nil on such a collection *)
Lemma v1_nil_deref_refuted_v0 :
  validate_ischema flat_only_schema = true /\
  handler_get1_gen true flat_only_schema = Panic /\
  handler_list1_gen true [flat_only_schema] = Panic /\
  validate_search1 (mkSr1 2 10) = true /\ handler_search1_gen true flat_only_schema (mkSr1 2 10) = Panic /\
  validate_insert1 (mkPts1 [mkPt1 IdAbsent 2 20] 1000) = true /\
  handler_points1_gen true hdl_v1_insert_validates_first (validate_insert1 (mkPts1 [mkPt1 IdAbsent 2 20] 1000))
                      flat_only_schema (mkPts1 [mkPt1 IdAbsent 2 20] 1000) (OpInsert 1) = Panic.
Proof. vm_compute. repeat split; reflexivity. Qed.

(* ------------------------------------------------------------------ *)
(* Accepted requests satisfy the DOCUMENTED limits                      *)

Lemma first_code_zero : forall l, Forall (fun p : bool * N => fst p = true) l -> first_code l = 0%N.
Proof.
  induction 1 as [|[b c] l Hb Hl IH]; [reflexivity|]. cbn in *. rewrite Hb. exact IH.
Qed.

Lemma Qltb_false_le : forall x y, Qltb x y = false -> (y <= x)%Q.
Proof.
  intros x y H. unfold Qltb in H. apply andb_false_iff in H. destruct H as [H|H].
  - destruct (Qlt_le_dec y x) as [L|L]; [apply Qlt_le_weak; exact L|].
    apply Qle_bool_iff in L. rewrite L in H. discriminate.
  - apply negb_false_iff in H. apply Qeq_bool_iff in H. rewrite H. apply Qle_refl.
Qed.
Lemma Qltb_true_lt : forall x y, Qltb x y = true -> (x < y)%Q.
Proof.
  intros x y H. unfold Qltb in H. apply andb_true_iff in H. destruct H as [A B].
  apply Qle_bool_iff in A. apply negb_true_iff in B.
  destruct (Qle_lt_or_eq _ _ A) as [L|E]; [exact L|].
  apply Qeq_bool_iff in E. rewrite E in B. discriminate.
Qed.

Lemma finite_not_nan : forall a, f32_finite a = true -> f32_is_nan a = false.
Proof.
  intros a H. unfold f32_finite in H. unfold f32_is_nan. apply negb_true_iff in H. rewrite H. reflexivity.
Qed.

Lemma alpha_doc : forall a, alpha_ok a = true -> f32_in_Q doc_alpha_min doc_alpha_max a = true.
Proof.
  intros a H. pose proof schema_side_ok as SS. unfold schema_side in SS. split_side SS.
  unfold alpha_ok, alpha_ok_gen in H.
  replace enf_alpha_rejects_nan with true in H by (symmetry; assumption). cbn [negb orb] in H.
  peel H B. peel H A. apply negb_true_iff in H. rename H into N.
  unfold f32_ltb in A, B. rewrite N in A, B.
  rewrite (finite_not_nan enf_alpha_min_f32) in A by assumption.
  rewrite (finite_not_nan enf_alpha_max_f32) in B by assumption.
  cbn [negb andb] in A, B. apply negb_true_iff in A, B.
  apply Qltb_false_le in A, B.
  assert (Lo : (doc_alpha_min <= f32_to_Q a)%Q).
  { eapply Qle_trans; [|exact A]. apply Qle_bool_iff. assumption. }
  assert (Hi : (f32_to_Q a <= doc_alpha_max)%Q).
  { eapply Qle_trans; [exact B|]. apply Qle_bool_iff. assumption. }
  unfold f32_in_Q. apply andb_true_iff. split; [apply andb_true_iff; split|].
  - unfold f32_finite. apply negb_true_iff. destruct (f32_exp a =? 255) eqn:E; [|reflexivity]. exfalso.
    unfold f32_to_Q in A, B. rewrite E in A, B.
    match goal with [ X : Qltb (inject_Z (- 2 ^ 200)) _ = true, Y : Qltb _ (inject_Z (2 ^ 200)) = true |- _ ] =>
      apply Qltb_true_lt in X, Y; destruct (f32_sign a) end.
    + apply (Qlt_irrefl (inject_Z (- 2 ^ 200))). eapply Qlt_le_trans; [eassumption|]. exact A.
    + apply (Qlt_irrefl (inject_Z (2 ^ 200))). eapply Qle_lt_trans; [|eassumption]. exact B.
  - apply Qle_bool_iff. exact Lo.
  - apply Qle_bool_iff. exact Hi.
Qed.

Lemma bq_doc : forall b, validate_bq b = true -> doc_bq b = 0%N.
Proof.
  intros b H. pose proof schema_side_ok as SS. unfold schema_side in SS. split_side SS.
  unfold validate_bq, validate_bq_gen in H.
  match goal with [ X : negb enf_bq_trigger_only_without_threshold = true |- _ ] => apply negb_true_iff in X; rewrite X in H end.
  peel H M. unfold doc_bq. apply first_code_zero.
  repeat constructor; cbn [fst]; use_sub.
Qed.

Lemma pq_doc : forall p, validate_pq p = true -> doc_pq p = 0%N.
Proof.
  intros p H. pose proof schema_side_ok as SS. unfold schema_side in SS. split_side SS.
  unfold validate_pq in H. split_and H. unfold doc_pq. apply first_code_zero.
  repeat constructor; cbn [fst]; try use_sub.
  match goal with [ A : (doc_pq_subvectors_min <=? enf_pq_subvectors_min) = true,
                    B : (enf_pq_subvectors_min <=? pq_subvectors p) = true |- _ ] =>
    apply Z.leb_le in A, B; apply Z.leb_le; eapply Z.le_trans; eassumption end.
Qed.

Lemma quant_doc : forall o, validate_oquant o = true -> doc_quant o = 0%N.
Proof.
  intros [q|] H; [|reflexivity]. pose proof schema_side_ok as SS. unfold schema_side in SS. split_side SS.
  cbn [validate_oquant] in H. unfold validate_quantizer in H. apply andb_true_iff in H. destruct H as [M H].
  cbn [doc_quant].
  assert (Md : mem (qz_type q) doc_quantizer_types = true) by use_sub. rewrite Md. cbn [negb].
  destruct (qz_binary q) as [b|].
  - destruct (seq (qz_type q) "binary") eqn:Tb; [|reflexivity].
    apply bq_doc. exact H.
  - destruct (qz_product q) as [p|]; [|reflexivity].
    destruct (seq (qz_type q) "product") eqn:Tp; [|reflexivity].
    apply seq_eq in Tp. rewrite Tp in H. cbn in H. apply pq_doc. exact H.
Qed.

Lemma flat_doc : forall p, validate_flat p = true -> doc_flat p = 0%N.
Proof.
  intros p H. pose proof schema_side_ok as SS. unfold schema_side in SS. split_side SS.
  unfold validate_flat in H. split_and H. rewrite ?gate_true in * by assumption.
  unfold doc_flat. apply first_code_zero. repeat constructor; cbn [fst]; try use_sub.
  rewrite quant_doc by assumption. reflexivity.
Qed.

Lemma vamana_doc : forall p, validate_vamana p = true -> doc_vamana p = 0%N.
Proof.
  intros p H. pose proof schema_side_ok as SS. unfold schema_side in SS. split_side SS.
  unfold validate_vamana in H. split_and H. rewrite ?gate_true in * by assumption.
  unfold doc_vamana. apply first_code_zero. repeat constructor; cbn [fst]; try use_sub.
  - apply alpha_doc; assumption.
  - rewrite quant_doc by assumption. reflexivity.
Qed.

Lemma ivalue_doc : forall v, validate_ivalue v = true -> doc_ivalue v = 0%N.
Proof.
  intros v H. pose proof schema_side_ok as SS. unfold schema_side in SS. split_side SS.
  unfold validate_ivalue in H. apply andb_true_iff in H. destruct H as [M H].
  unfold doc_ivalue. assert (Md : mem (iv_type v) doc_index_types = true) by use_sub. rewrite Md. cbn [negb].
  destruct (seq (iv_type v) "vectorFlat").
  { rewrite ?gate_true in H by assumption. destruct (iv_flat v) as [p|]; [|reflexivity].
    apply flat_doc; exact H. }
  destruct (seq (iv_type v) "vectorVamana").
  { rewrite ?gate_true in H by assumption. destruct (iv_vamana v) as [p|]; [|reflexivity].
    apply vamana_doc; exact H. }
  destruct (seq (iv_type v) "text"); [|reflexivity].
  rewrite ?gate_true in H by assumption. destruct (iv_text v) as [a|]; [|reflexivity].
  assert (Ma : mem a doc_analysers = true) by use_sub. rewrite Ma. reflexivity.
Qed.

Lemma ischema_doc : forall s,
  forallb (fun kv : string * ivalue => validate_ivalue (snd kv)) s = true -> doc_ischema s = 0%N.
Proof.
  induction s as [|[k v] s IH]; intros H; [reflexivity|].
  cbn [forallb snd] in H. apply andb_true_iff in H. destruct H as [H1 H2].
  unfold doc_ischema. cbn [fold_right snd]. rewrite (ivalue_doc v H1). cbn. apply IH; assumption.
Qed.

(* enforced character ranges of collection ids lie inside the documented alphabet *)
Definition ranges_sub (a b : list (N * N)) : bool :=
  forallb (fun r => existsb (fun s => (fst s <=? fst r)%N && (snd r <=? snd s)%N) b) a.
Lemma ranges_sub_runes : forall a b l, ranges_sub a b = true -> runes_ok a l = true -> runes_ok b l = true.
Proof.
  intros a b l S H. unfold runes_ok in *. rewrite forallb_forall in *. intros x Hx.
  specialize (H x Hx). apply existsb_exists in H. destruct H as [r [Hr Hin]].
  unfold ranges_sub in S. rewrite forallb_forall in S. specialize (S r Hr).
  apply existsb_exists in S. destruct S as [t [Ht Hsub]].
  apply existsb_exists. exists t. split; [exact Ht|].
  apply andb_true_iff in Hin. destruct Hin as [H1 H2].
  apply andb_true_iff in Hsub. destruct Hsub as [H3 H4].
  apply N.leb_le in H1, H2, H3, H4. apply andb_true_iff. split; apply N.leb_le; lia.
Qed.
Lemma id_runes_side_ok :
  ranges_sub enf_v2_collection_id_runes alnum_ranges = true /\ ranges_sub enf_v1_collection_id_runes alnum_ranges = true.
Proof. vm_compute. split; reflexivity. Qed.

Lemma create2_doc : forall r, validate_create2 r = true -> nogap_create2 r = true -> doc_create2 r = 0%N.
Proof.
  intros r H G. pose proof schema_side_ok as SS. unfold schema_side in SS. split_side SS.
  unfold validate_create2 in H. split_and H. rewrite ?gate_true in * by assumption.
  unfold nogap_create2 in G.
  unfold validate_ischema in *. rewrite ?gate_true in * by assumption.
  unfold doc_create2. apply first_code_zero. repeat constructor; cbn [fst]; try use_sub.
  - apply orb_true_iff. right. eapply ranges_sub_runes; [exact (proj1 id_runes_side_ok)|assumption].
  - rewrite G. apply orb_true_r.
  - rewrite ischema_doc by assumption. reflexivity.
Qed.

(* an accepted vector index never carries a product quantizer that the vector store cannot build *)
Lemma quantizer_fits_buildable : forall p, quantizer_fits p = true -> pq_unbuildable p = false.
Proof.
  intros p H. pose proof schema_side_ok as SS. unfold schema_side in SS. split_side SS.
  unfold quantizer_fits in H. unfold pq_unbuildable. destruct (vp_quant p) as [q|]; [|reflexivity].
  destruct (seq (qz_type q) "product"); [|reflexivity]. cbn [andb] in *.
  destruct (seq (vp_metric p) "hamming" || seq (vp_metric p) "jaccard") eqn:E; [reflexivity|]. cbn [negb andb].
  assert (X : mem (vp_metric p) enf_pq_exempt_metrics = false).
  { destruct (mem (vp_metric p) enf_pq_exempt_metrics) eqn:M; [|reflexivity].
    assert (M2 : mem (vp_metric p) ["hamming"; "jaccard"]%string = true) by use_sub.
    unfold mem in M2. cbn [existsb] in M2. unfold seq in E. rewrite orb_false_r in M2. rewrite M2 in E. discriminate. }
  rewrite X in H. cbn [negb] in H. peel H D. rewrite ?gate_true in D by assumption.
  assert (M2 : mem (vp_metric p) ["euclidean"; "cosine"; "dot"]%string = true) by use_sub.
  unfold mem in M2. cbn [existsb] in M2. rewrite orb_false_r in M2. unfold seq.
  destruct (qz_product q) as [pq|]; [|reflexivity].
  rewrite D. rewrite <- orb_assoc. rewrite M2. reflexivity.
Qed.

Lemma accepted_index_buildable :
  (forall p, validate_flat p = true -> pq_unbuildable p = false) /\
  (forall p, validate_vamana p = true -> pq_unbuildable p = false).
Proof.
  pose proof schema_side_ok as SS. unfold schema_side in SS. split_side SS.
  split; intros p H; [unfold validate_flat in H | unfold validate_vamana in H];
    peel H F; rewrite ?gate_true in F by assumption; apply quantizer_fits_buildable; exact F.
Qed.

(* the gaps of the pinned tree, now closed: the witnesses are refused ... *)
Definition gap_schema_pq : ischema :=
  [("v"%string, mkIV "vectorFlat" (Some (mkVP 5 "euclidean" 0 0 0%N (Some (mkQz "product" None (Some (mkPQ 4 2 1000)))))) None None false false)].

Lemma former_gaps_rejected :
  validate_create2 (mkC2 3 [97; 98; 99]%N true (gap_schema f32_nan None)) = false /\
  validate_create2 (mkC2 3 [97; 98; 99]%N true (gap_schema f32_1_2 (Some (mkQz "binary" (Some (mkBQ true (-5) "hamming")) None)))) = false /\
  validate_create2 (mkC2 3 [97; 98; 99]%N true gap_schema_pq) = false.
Proof. vm_compute. repeat split; reflexivity. Qed.

(* ... while the pinned checks accepted them *)
Lemma former_gaps_v0 :
  alpha_ok_gen false f32_nan = true /\ f32_in_Q doc_alpha_min doc_alpha_max f32_nan = false /\
  validate_bq_gen true (mkBQ true (-5) "hamming") = true /\ doc_bq (mkBQ true (-5) "hamming") = 22%N /\
  pq_unbuildable (mkVP 5 "euclidean" 0 0 0%N (Some (mkQz "product" None (Some (mkPQ 4 2 1000))))) = true /\
  validate_oquant (Some (mkQz "product" None (Some (mkPQ 4 2 1000)))) = true.
Proof. vm_compute. repeat split; reflexivity. Qed.

(* the remaining gap: indexSchema is tagged required, a request without it is accepted *)
Lemma gap_schema_required :
  validate_create2 (mkC2 3 [97; 98; 99]%N false []) = true /\
  doc_create2 (mkC2 3 [97; 98; 99]%N false []) = 23%N.
Proof. vm_compute. split; reflexivity. Qed.

(* ---- search requests *)
Lemma ge1_chain : forall a b x, (1 <=? a) = true -> in_range a b x = true -> (1 <=? x) = true.
Proof. intros a b x A B. apply in_range_spec in B. apply Z.leb_le in A. apply Z.leb_le. lia. Qed.
Lemma le_chain : forall a b c x, (b <=? c) = true -> in_range a b x = true -> (x <=? c) = true.
Proof. intros a b c x A B. apply in_range_spec in B. apply Z.leb_le in A. apply Z.leb_le. lia. Qed.
Ltac use_chain :=
  match goal with
  | [ A : (1 <=? ?a) = true, B : in_range ?a ?b ?x = true |- (1 <=? ?x) = true ] => exact (ge1_chain a b x A B)
  | [ A : (?b <=? ?c) = true, B : in_range ?a ?b ?x = true |- (?x <=? ?c) = true ] => exact (le_chain a b c x A B)
  end.

Lemma ranked_doc_flat : forall (o : ropts query),
  in_range enf_flat_query_vector_min enf_flat_query_vector_max (r_len o) = true ->
  mem (r_op o) enf_flat_ops = true -> in_range enf_flat_limit_min enf_flat_limit_max (r_limit o) = true ->
  doc_ranked doc_flat_query_vector_max doc_flat_ops doc_flat_limit_min doc_flat_limit_max o = true.
Proof.
  intros o A B C. pose proof search_side_ok as SS. unfold search_side in SS. split_side SS.
  unfold doc_ranked. split_goal; first [use_sub | use_chain].
Qed.
Lemma ranked_doc_vamana : forall (o : ropts query),
  in_range enf_query_vector_min enf_query_vector_max (r_len o) = true ->
  mem (r_op o) enf_vamana_ops = true -> in_range enf_vamana_limit_min enf_vamana_limit_max (r_limit o) = true ->
  doc_ranked doc_query_vector_max doc_vamana_ops doc_vamana_limit_min doc_vamana_limit_max o = true.
Proof.
  intros o A B C. pose proof search_side_ok as SS. unfold search_side in SS. split_side SS.
  unfold doc_ranked. split_goal; first [use_sub | use_chain].
Qed.

Lemma nonzero_ge1 : forall x, (0 <=? x) = true -> negb (x =? 0) = true -> (1 <=? x) = true.
Proof. intros x P H. apply negb_true_iff in H. apply Z.eqb_neq in H. apply Z.leb_le in P. apply Z.leb_le. lia. Qed.

Lemma forallb_impl_Forall : forall (f g : query -> bool) l,
  Forall (fun q => f q = true -> g q = true) l -> forallb f l = true -> forallb g l = true.
Proof.
  induction 1 as [|a l Ha Hl IH]; simpl; intros H; [reflexivity|].
  apply andb_true_iff in H. destruct H. apply andb_true_iff. split; auto.
Qed.


Lemma query_doc : forall q, lens_nonneg q = true -> validate_query q = true -> doc_query q = true.
Proof.
  intros q. induction q as [prop qflat qvam qtext qstr qint qflt qsarr qand qor Hf Hv Ht Ha Ho] using query_ind'.
  intros L H. pose proof search_side_ok as SS. unfold search_side in SS. split_side SS.
  cbn [validate_query] in H.
  peel H Vid. peel H Vfor. peel H Vfand. peel H Vnor. peel H Vnand. peel H Vsarr. peel H Vflt. peel H Vint.
  peel H Vstr. peel H Vtext. peel H Vvam. peel H Vflat.
  rewrite ?gate_true in * by assumption.
  cbn [lens_nonneg] in L.
  peel L Lor. peel L Land. peel L Lsarr. peel L Lstr. peel L Ltext. peel L Lvam.
  cbn [doc_query]. split_goal.
  - exact H.
  - destruct qflat as [o|]; [|reflexivity].
    peel Vflat Vfil. peel Vflat Vlim. peel Vflat Vop. peel L Lfil. rewrite ?gate_true in * by assumption.
    apply andb_true_iff. split; [apply ranked_doc_flat; assumption|].
    cbn in Hf. destruct (r_filter o); [auto | reflexivity].
  - destruct qvam as [o|]; [|reflexivity].
    peel Vvam Vfil. peel Vvam Vge. peel Vvam Vlim. peel Vvam Vss. peel Vvam Vop. peel Lvam Lfil.
    rewrite ?gate_true in * by assumption.
    split_goal; [apply ranked_doc_vamana; assumption | use_sub |].
    cbn in Hv. destruct (r_filter o); [auto | reflexivity].
  - destruct qtext as [o|]; [|reflexivity].
    peel Vtext Vfil. peel Vtext Vlim. peel Vtext Vop. peel Ltext Lfil. rewrite ?gate_true in * by assumption.
    split_goal; try use_sub.
    + apply nonzero_ge1; assumption.
    + cbn in Ht. destruct (r_filter o); [auto | reflexivity].
  - destruct qstr as [o|]; [|reflexivity]. cbn [oall] in *. unfold validate_string in Vstr.
    peel Vstr Vr. peel Vstr Vop. rewrite ?gate_true in * by assumption. split_goal; [|use_sub].
    apply nonzero_ge1; assumption.
  - destruct qint as [o|]; [|reflexivity]. cbn [oall] in *. unfold validate_integer in Vint. peel Vint Vr. use_sub.
  - destruct qflt as [o|]; [|reflexivity]. cbn [oall] in *. unfold validate_float in Vflt. peel Vflt Vr. use_sub.
  - destruct qsarr as [o|]; [|reflexivity]. cbn [oall] in *. unfold validate_sarr in Vsarr.
    peel Vsarr Vop. rewrite ?gate_true in * by assumption. split_goal; [|use_sub].
    apply nonzero_ge1; assumption.
  - eapply forallb_impl_Forall; [|exact Vfand]. rewrite Forall_forall in *. intros x Hx Vx.
    apply Ha; [exact Hx | | exact Vx]. rewrite forallb_forall in Land. auto.
  - eapply forallb_impl_Forall; [|exact Vfor]. rewrite Forall_forall in *. intros x Hx Vx.
    apply Ho; [exact Hx | | exact Vx]. rewrite forallb_forall in Lor. auto.
Qed.

Lemma search2_doc : forall r, lens_nonneg (sr_query r) = true -> validate_request r = true -> doc_search2 r = true.
Proof.
  intros r L H. pose proof search_side_ok as SS. unfold search_side in SS. split_side SS.
  unfold validate_request in H. peel H Vlim. peel H Voff. peel H Vsp. peel H Vsn.
  rewrite ?gate_true in * by assumption.
  unfold doc_search2. split_goal.
  - apply query_doc; assumption.
  - match goal with [ A : (enf_sort_max <=? doc_sort_max) = true |- _ ] =>
      apply Z.leb_le in A, Vsn; apply Z.leb_le; eapply Z.le_trans; eassumption end.
  - exact Vsp.
  - match goal with [ A : (doc_offset_min <=? enf_offset_min) = true |- _ ] =>
      apply Z.leb_le in A, Voff; apply Z.leb_le; eapply Z.le_trans; eassumption end.
  - use_sub.
Qed.

Lemma count_doc : forall A lo hi d (l : list A),
  sub_range lo hi 1 d = true -> count_ok lo hi l = true -> doc_count d l = true.
Proof. intros A lo hi d l S H. unfold count_ok in H. unfold doc_count. eapply sub_range_in; eassumption. Qed.

Ltac use_count :=
  match goal with
  | [ A : sub_range ?lo ?hi 1 ?d = true, B : count_ok ?lo ?hi ?l = true |- doc_count ?d ?l = true ] =>
      exact (count_doc _ lo hi d l A B)
  end.

Lemma points_doc :
  (forall s r, validate_insert2 s r = true -> doc_count doc_points_insert_max (ps_points r) = true) /\
  (forall s r, validate_update2 s r = true -> doc_count doc_points_update_max (ps_points r) = true) /\
  (forall ids, validate_delete enf_delete_ids_min enf_delete_ids_max enf_delete_ids_uuid ids = true ->
               doc_count doc_delete_ids_max ids = true /\ forallb (fun b => b) ids = true) /\
  (forall r, validate_insert1 r = true ->
             doc_count doc_v1_points_insert_max (ps1_points r) = true /\
             forallb (fun p => in_range 1 doc_v1_insert_vector_max (p1_len p)) (ps1_points r) = true) /\
  (forall r, validate_update1 r = true ->
             doc_count doc_v1_points_update_max (ps1_points r) = true /\
             forallb (fun p => in_range 1 doc_v1_update_vector_max (p1_len p)) (ps1_points r) = true) /\
  (forall ids, validate_delete enf_v1_delete_ids_min enf_v1_delete_ids_max true ids = true ->
               doc_count doc_v1_delete_ids_max ids = true /\ forallb (fun b => b) ids = true).
Proof.
  pose proof points_side_ok as PS. unfold points_side in PS. split_side PS.
  repeat split.
  - intros s r H. unfold validate_insert2 in H. peel H X. use_count.
  - intros s r H. unfold validate_update2 in H. peel H X. use_count.
  - unfold validate_delete in H. peel H X. use_count.
  - unfold validate_delete in H. peel H X. rewrite ?gate_true in X by assumption. exact X.
  - unfold validate_insert1, validate_points1 in H. peel H X. use_count.
  - unfold validate_insert1, validate_points1 in H. peel H X.
    rewrite forallb_forall in *. intros p Hp. specialize (X p Hp). peel X Y. use_sub.
  - unfold validate_update1, validate_points1 in H. peel H X. use_count.
  - unfold validate_update1, validate_points1 in H. peel H X.
    rewrite forallb_forall in *. intros p Hp. specialize (X p Hp). peel X Y. use_sub.
  - unfold validate_delete in H. peel H X. use_count.
  - unfold validate_delete in H. peel H X. exact X.
Qed.

Lemma create1_doc : forall r, validate_create1 r = true -> doc_create1 r = 0%N.
Proof.
  intros r H. pose proof points_side_ok as PS. unfold points_side in PS. split_side PS.
  unfold validate_create1 in H. peel H Vm. peel H Vs. peel H Vr.
  unfold doc_create1. apply first_code_zero. repeat constructor; cbn [fst]; try use_sub.
  apply orb_true_iff. right. eapply ranges_sub_runes; [exact (proj2 id_runes_side_ok)|assumption].
Qed.

Lemma search1_doc : forall r, validate_search1 r = true -> doc_search1 r = true.
Proof.
  intros r H. pose proof points_side_ok as PS. unfold points_side in PS. split_side PS.
  unfold validate_search1 in H. peel H Vl.
  assert (R : in_range 1 doc_v1_search_vector_max (s1_len r) = true) by use_sub.
  unfold in_range in R. peel R R2. unfold doc_search1. split_goal; [exact R | exact R2 | use_sub].
Qed.
