(* Props_C20_Haversine.v -- property C20, haversine: the formula is invariant under
   swapping the two points (over R, for every function used as asin).
   Print Assumptions reports the real-number axioms of the standard library. *)
From Coq Require Import Reals.
From Semadb Require Import Model_C20_Haversine.
Open Scope R_scope.

Theorem c20_haversine_sym : forall (asin_f : R -> R) (lat1 lon1 lat2 lon2 : R),
  haversine asin_f lat1 lon1 lat2 lon2 = haversine asin_f lat2 lon2 lat1 lon1.
Proof. exact haversine_sym. Qed.
Print Assumptions c20_haversine_sym.
