(* Proofs_C11d.v -- C11: concrete witnesses (vm_compute) for the statements the
   faithful model REFUTES, and for the limitation of the package. *)
From Coq Require Import List Arith Bool ZArith Lia PeanoNat.
From Semadb Require Import Model_C11.
Import ListNotations.

Definition rep (n : nat) (l : label) := repeat l n.

Lemma stuck_run : forall fixed safe limit st, (forall t, step fixed safe limit st t = None) ->
  forall ts, run fixed safe limit (map LT ts) st = st.
Proof.
  intros fixed safe limit st Hs. induction ts as [|t ts IH]; simpl; auto.
  unfold next. simpl. rewrite Hs. exact IH.
Qed.

(* ------------------------------------------------------------------ *)
(* 1. cross writers: A,B against B,A.  Six steps take a transaction through
      its first access (manager section, createFn + register + lock,
      callback begin, end, checkAndPrune, return); the next step of each is
      the lookup of the second name, then both wait for the other's lock.
      Neither has committed or aborted: outside the progress clause of C11,
      and unreachable through the shard layer (cache names are prefixed by the
      shard file; bbolt allows one writer per file). *)
Definition cw_progs : list (list op) :=
  [[OWith 0 false OK; OWith 1 false OK; OCommit false];
   [OWith 1 false OK; OWith 0 false OK; OCommit false]].
Definition cw_sched : list label := rep 6 (LT 0) ++ rep 6 (LT 1) ++ [LT 0; LT 1].
Definition cw_st : state := Eval vm_compute in run true true (-1) cw_sched (init cw_progs).
Lemma cw_st_eq : cw_st = run true true (-1) cw_sched (init cw_progs).
Proof. vm_compute. reflexivity. Qed.
Lemma cw_stuck : forall t, step true true (-1) cw_st t = None.
Proof.
  intros [|[|t]]; [vm_compute; reflexivity|vm_compute; reflexivity|].
  unfold step, cw_st. simpl. destruct t; reflexivity.
Qed.

Lemma thm_cross_writers : exists progs ls,
  let st := run true true (-1) ls (init progs) in
  Forall wf_prog progs /\
  (forall t, step true true (-1) st t = None) /\
  (forall ts, run true true (-1) (map LT ts) st = st) /\
  ~ finished (txs st 0) /\ ~ finished (txs st 1) /\
  done (txs st 0) = false /\ done (txs st 1) = false /\
  ~ disjoint_writers st.
Proof.
  exists cw_progs, cw_sched. cbv zeta. rewrite <- cw_st_eq.
  split; [repeat constructor|].
  split; [exact cw_stuck|].
  split; [apply stuck_run; exact cw_stuck|].
  split; [intros [H _]; vm_compute in H; discriminate|].
  split; [intros [H _]; vm_compute in H; discriminate|].
  split; [vm_compute; reflexivity|].
  split; [vm_compute; reflexivity|].
  intros Dj. assert (H : 0 = 1); [|discriminate].
  apply (Dj 0 1 1); split; try (vm_compute; reflexivity); [right|left]; vm_compute; reflexivity.
Qed.

(* ------------------------------------------------------------------ *)
(* 2. the PINNED version of With (fixed = false): a writing With that arrives
      after Commit (new name 1) takes a write lock nobody releases; a later
      writer of that name waits forever.  With fixed = true the same programs
      and schedule end with every lock released. *)
Definition pc_progs : list (list op) :=
  [[OWith 0 false OK; OCommit false; OWith 1 false OK]; [OWith 1 false OK; OCommit false]].
Definition pc_sched : list label := rep 6 (LT 0) ++ [LT 0] ++ rep 6 (LT 0) ++ [LT 1; LT 1].
Definition pc_st : state := Eval vm_compute in run false false (-1) pc_sched (init pc_progs).
Lemma pc_st_eq : pc_st = run false false (-1) pc_sched (init pc_progs).
Proof. vm_compute. reflexivity. Qed.
Lemma pc_stuck : forall t, step false false (-1) pc_st t = None.
Proof.
  intros [|[|t]]; [vm_compute; reflexivity|vm_compute; reflexivity|].
  unfold step, pc_st. simpl. destruct t; reflexivity.
Qed.

Definition pc_st' : state := Eval vm_compute in run true true (-1) (pc_sched ++ rep 8 (LT 1)) (init pc_progs).
Lemma pc_st'_eq : pc_st' = run true true (-1) (pc_sched ++ rep 8 (LT 1)) (init pc_progs).
Proof. vm_compute. reflexivity. Qed.

Lemma thm_post_commit_v0 : exists progs ls st st',
  st = run false false (-1) ls (init progs) /\
  finished (txs st 0) /\ done (txs st 0) = true /\
  (exists n e, lookup n (mmap st) = Some e /\ e_writer (elems st e) = Some 0) /\
  ~ finished (txs st 1) /\
  (forall t, step false false (-1) st t = None) /\
  (forall ts, run false false (-1) (map LT ts) st = st) /\
  (* the current version on the same programs: everything finishes, locks released *)
  st' = run true true (-1) (ls ++ rep 8 (LT 1)) (init progs) /\
  finished (txs st' 0) /\ finished (txs st' 1) /\ locks_released st'.
Proof.
  exists pc_progs, pc_sched, pc_st, pc_st'.
  split; [exact pc_st_eq|].
  split; [split; vm_compute; reflexivity|].
  split; [vm_compute; reflexivity|].
  split; [exists 1, 1; split; vm_compute; reflexivity|].
  split; [intros [H _]; vm_compute in H; discriminate|].
  split; [exact pc_stuck|].
  split; [apply stuck_run; exact pc_stuck|].
  split; [exact pc_st'_eq|].
  split; [split; vm_compute; reflexivity|].
  split; [split; vm_compute; reflexivity|].
  split; [vm_compute; reflexivity|].
  intros n e Hl.
  assert (Hm : mmap pc_st' = [(1, 1); (0, 0)]) by (vm_compute; reflexivity).
  rewrite Hm in Hl. unfold lookup in Hl.
  destruct (Nat.eqb 1 n); [injection Hl as <-; split; vm_compute; reflexivity|].
  destruct (Nat.eqb 0 n); [injection Hl as <-; split; vm_compute; reflexivity|discriminate].
Qed.

(* ------------------------------------------------------------------ *)
(* 3. known finding F6: "evicting or releasing a cache at any moment is
      harmless" FAILS.  W writes A (element 0, registered, write-locked);
      the entry is released / evicted; R registers a new element 1 built from
      the storage version before W's commit; W commits (version 1); R2 is
      handed element 1: stale, and it stays in the map. *)
Definition ev_progs : list (list op) :=
  [[OWith 0 false OK; OCommit false]; [OWith 0 true OK; OCommit false]; [OWith 0 true OK; OCommit false]].
Definition ev_sched : list label :=
  rep 3 (LT 0) ++ [LDel 0] ++ rep 7 (LT 1) ++ rep 4 (LT 0) ++ rep 4 (LT 2).

Lemma thm_evict_not_harmless : exists progs ls,
  let st := run false false (-1) ls (init progs) in
  Forall wf_prog progs /\
  done (txs st 0) = true /\ failed (txs st 0) = false /\        (* W committed successfully *)
  (exists e, lookup 0 (mmap st) = Some e /\ in_cb st 2 e /\
             e_scrapped (elems st e) = false /\ e_writer (elems st e) = None /\
             e_built (elems st e) < committed st 0) /\
  stale_cb st 2 = true /\ coherentb st = false /\ ~ coherent st.
Proof.
  exists ev_progs, ev_sched. cbv zeta.
  split; [repeat constructor|].
  split; [vm_compute; reflexivity|].
  split; [vm_compute; reflexivity|].
  split.
  { exists 1. split; [vm_compute; reflexivity|]. split.
    - eexists _, _. split; vm_compute; reflexivity.
    - split; [vm_compute; reflexivity|]. split; [vm_compute; reflexivity|]. vm_compute. lia. }
  split; [vm_compute; reflexivity|].
  split; [vm_compute; reflexivity|].
  intros Co. specialize (Co 0 1). 
  assert (H : e_built (elems (run false false (-1) ev_sched (init ev_progs)) 1) = committed (run false false (-1) ev_sched (init ev_progs)) 0).
  { apply Co; vm_compute; reflexivity. }
  vm_compute in H. discriminate.
Qed.

(* the run of the witness is not clean: the Release removes a write-locked entry *)
Lemma ev_not_clean : ~ clean false false (-1) ev_sched (init ev_progs).
Proof.
  unfold ev_sched. simpl. intros (_ & _ & _ & ([Kp _] & _)).
  specialize (Kp 0 0). 
  match type of Kp with ?A -> ?B -> _ =>
    assert (HA : A) by (vm_compute; reflexivity); assert (HB : B) by (left; vm_compute; discriminate) end.
  destruct (Kp HA HB) as [X|X]; vm_compute in X; discriminate.
Qed.

(* ------------------------------------------------------------------ *)
(* 4. exclusion fails as well once a write-locked entry leaves the map -- here
      without any environment step: T0's writing callback fails, T1 writes A on a
      new element 1, T0's Commit(true) deletes the NAME A (element 1's entry),
      T2 registers element 2 and reads it, T1's second writing access finds
      element 2 under A, has A in its written caches, takes no lock: a writing
      callback overlaps a reader's callback on element 2. *)
Definition ex_progs : list (list op) :=
  [[OWith 0 false CbFail; OCommit true];
   [OWith 0 false OK; OWith 0 false OK; OCommit false];
   [OWith 0 true OK; OCommit false]].
Definition ex_sched : list label :=
  rep 3 (LT 0) ++ rep 4 (LT 0) ++ rep 3 (LT 1) ++ [LT 0] ++ rep 3 (LT 2) ++ rep 3 (LT 1) ++ rep 4 (LT 1).

Lemma thm_exclusion_needs_clean : exists progs ls,
  let st := run false false (-1) ls (init progs) in
  Forall wf_prog progs /\ (forall l, In l ls -> exists t, l = LT t) /\
  (exists t t' e, t <> t' /\ in_cb_writing st t e /\ in_cb st t' e) /\ ~ excl st.
Proof.
  exists ex_progs, ex_sched. cbv zeta.
  split; [repeat constructor|].
  split.
  { intros l Hin. unfold ex_sched, rep in Hin. simpl in Hin.
    repeat (destruct Hin as [<-|Hin]; [eauto|]). destruct Hin. }
  assert (W : in_cb_writing (run false false (-1) ex_sched (init ex_progs)) 1 2).
  { eexists _, _. split; [vm_compute; reflexivity|]. split; reflexivity. }
  assert (R : in_cb (run false false (-1) ex_sched (init ex_progs)) 2 2).
  { eexists _, _. split; [vm_compute; reflexivity|reflexivity]. }
  split; [exists 1, 2, 2; split; [discriminate|auto]|].
  intros (_ & _ & X & _). specialize (X 1 2 2 W R). discriminate.
Qed.

(* ------------------------------------------------------------------ *)
(* 5. the scrapped check and the call of the callback are two steps: a reader
      that passed the check can be overtaken by ANOTHER READER of the same
      element whose callback fails (both hold read locks; `scrapped` is written
      under a read lock).  The callback then starts on a scrapped element. *)
Definition sr_progs : list (list op) :=
  [[OWith 0 true OK; OCommit false]; [OWith 0 true OK; OCommit false]; [OWith 0 true CbFail; OCommit true]].
Definition sr_sched : list label := rep 8 (LT 0) ++ rep 3 (LT 1) ++ rep 5 (LT 2).

Definition sr_st : state := Eval vm_compute in run true true (-1) sr_sched (init sr_progs).
Definition sr_st' : state := Eval vm_compute in run true true (-1) (sr_sched ++ [LT 1]) (init sr_progs).
Lemma sr_st_eq : sr_st = run true true (-1) sr_sched (init sr_progs).
Proof. vm_compute. reflexivity. Qed.

Lemma thm_scrapped_check_race : exists progs ls w c st st',
  st = run true true (-1) ls (init progs) /\
  ph (txs st 1) = PReady w c /\ e_scrapped (elems st (c_e c)) = true /\
  step true true (-1) st 1 = Some st' /\ in_cb st' 1 (c_e c) /\
  w_ro w = true /\ c_rl c = Some (c_e c).
Proof.
  exists sr_progs, sr_sched, (mkW 0 true OK), (mkC 0 true (Some 0) true), sr_st, sr_st'.
  split; [exact sr_st_eq|].
  split; [vm_compute; reflexivity|].
  split; [vm_compute; reflexivity|].
  split; [vm_compute; reflexivity|].
  split; [eexists _, _; split; vm_compute; reflexivity|].
  split; reflexivity.
Qed.

(* ------------------------------------------------------------------ *)
(* 6. before the repair (fixed = true, safe = false): a READ access that
      arrives after the Commit of its own transaction finds the name in the
      transaction's written caches and uses the shared element without any
      lock -- here while another transaction writes it. *)
Definition lr_progs : list (list op) :=
  [[OWith 0 false OK; OCommit false; OWith 0 true OK]; [OWith 0 false OK; OCommit false]].
Definition lr_sched : list label := rep 6 (LT 0) ++ [LT 0] ++ rep 5 (LT 1) ++ rep 4 (LT 0).

Lemma thm_late_reader_v1 : exists progs ls,
  let st := run true false (-1) ls (init progs) in
  done (txs st 0) = true /\ in_cb st 0 0 /\ in_cb_writing st 1 0 /\ holds_write st 1 0 /\ ~ excl st.
Proof.
  exists lr_progs, lr_sched. cbv zeta.
  assert (R : in_cb (run true false (-1) lr_sched (init lr_progs)) 0 0).
  { eexists _, _. split; [vm_compute; reflexivity|reflexivity]. }
  assert (W : in_cb_writing (run true false (-1) lr_sched (init lr_progs)) 1 0).
  { eexists _, _. split; [vm_compute; reflexivity|]. split; reflexivity. }
  split; [vm_compute; reflexivity|]. split; [exact R|]. split; [exact W|].
  split; [split; vm_compute; reflexivity|].
  intros (_ & _ & X & _). specialize (X 1 0 0 W R). discriminate.
Qed.

(* ------------------------------------------------------------------ *)
(* 7. the repaired manager on the schedules of 3, 4 and 6 *)
Lemma thm_repaired_on_witnesses :
  (let st := run true true (-1) ev_sched (init ev_progs) in
   coherentb st = true /\ stale_cb st 2 = false /\ mmap st = [(0, 2)] /\ committed st 0 = 1 /\
   e_built (elems st 2) = 1 /\ e_scrapped (elems st 1) = true) /\
  (let st := run true true (-1) ex_sched (init ex_progs) in
   mmap st = [(0, 1)] /\ ph (txs st 2) = PIn (mkW 0 true OK) (mkC 2 false None true)) /\
  (let st := run true true (-1) lr_sched (init lr_progs) in
   holds_write st 1 0 /\ ph (txs st 0) = PRet false None false true).
Proof. vm_compute. repeat split; reflexivity. Qed.
