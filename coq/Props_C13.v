(* Props_C13.v -- property C13: routing is a deterministic, order-independent,
   minimally disruptive function of (key, set of server names).
   Only statements; every proof is `exact <lemma>` (or a direct instance).

   All theorems are quantified over EVERY hash function, key, server list (of
   any size) and topK.  The only hypothesis is that the scores hash(key ++ s)
   of the servers in the list are pairwise distinct (NoDup); without it the
   statement is false (c13_collision_refuted).  "Every server owns a share of
   a large key set" is a statistical statement about xxHash: it is evaluated
   as a TEST by the harness (stats.share_test, verdict 141) and is NOT proved. *)
From Coq Require Import List NArith Bool Permutation Sorted.
From Semadb Require Import Bytes Model_C13 Proofs_C13.
Import ListNotations.
Open Scope N_scope.

(* rv (sort of the (score, server) pairs, as the Go code does) is "the first k
   servers in ascending order of hash (key ++ server)" *)
Theorem c13_rv_spec : forall hash key servers k,
  rv hash key servers k = firstn k (sort_on (fun s => hash (key ++ s)) servers)
  /\ length (rv hash key servers k) = Nat.min k (length servers).
Proof. intros. split; [exact (rv_simple hash key servers k)|exact (rv_length hash key servers k)]. Qed.
Print Assumptions c13_rv_spec.

(* order independence: every node computes the same result whatever the order
   of its server list *)
Theorem c13_perm_invariant : forall hash key s1 s2 k,
  Permutation s1 s2 -> NoDup (map (fun s => hash (key ++ s)) s1) ->
  rv hash key s1 k = rv hash key s2 k.
Proof. exact rv_perm_invariant. Qed.
Print Assumptions c13_perm_invariant.

(* ... and whatever the sorting algorithm: ANY arrangement [out] of the scored
   slice that is sorted by score (what slices.SortFunc, stable or not, returns)
   yields the result of rv.  [srt] form: any function returning a sorted
   permutation of its input. *)
Theorem c13_any_sort : forall hash key servers k (out : list (N * bytes)),
  Permutation out (decorate hash key servers) ->
  Sorted (fun a b => fst a <= fst b) out ->
  NoDup (map (fun s => hash (key ++ s)) servers) ->
  map snd (firstn k out) = rv hash key servers k.
Proof. exact rv_any_sort. Qed.
Print Assumptions c13_any_sort.

Theorem c13_any_sort_fn : forall (srt : list (N * bytes) -> list (N * bytes)),
  (forall l, Permutation (srt l) l /\ Sorted (fun a b => fst a <= fst b) (srt l)) ->
  forall hash key s1 s2 k,
  Permutation s1 s2 -> NoDup (map (fun s => hash (key ++ s)) s1) ->
  map snd (firstn k (srt (decorate hash key s2))) = rv hash key s1 k.
Proof.
  intros srt Hsrt hash key s1 s2 k P Hnd.
  rewrite (rv_perm_invariant hash key s1 s2 k P Hnd).
  apply rv_any_sort; [exact (proj1 (Hsrt _))|exact (proj2 (Hsrt _))|].
  eapply Permutation_NoDup; [|exact Hnd]. now apply Permutation_map.
Qed.
Print Assumptions c13_any_sort_fn.

(* the owner is a server of the list with the smallest score; a non-empty list has an owner *)
Theorem c13_owner_is_argmin : forall hash key servers,
  (servers <> [] -> exists o, owner hash key servers = Some o) /\
  (forall o, owner hash key servers = Some o ->
     In o servers /\ forall s, In s servers -> hash (key ++ o) <= hash (key ++ s)).
Proof. intros. split; [exact (owner_exists hash key servers)|exact (owner_some_argmin hash key servers)]. Qed.
Print Assumptions c13_owner_is_argmin.

(* adding one server: a key either stays where it was or moves to the new server *)
Theorem c13_add_server : forall hash key servers new,
  NoDup (map (fun s => hash (key ++ s)) (new :: servers)) ->
  owner hash key (new :: servers) = Some new \/
  owner hash key (new :: servers) = owner hash key servers.
Proof. intros hash key servers new H. exact (owner_add hash key servers (new :: servers) new (Permutation_refl _) H). Qed.
Print Assumptions c13_add_server.

(* the same with the new server inserted at any position, or more generally for
   any list that is a permutation of new :: servers *)
Theorem c13_add_server_anywhere : forall hash key servers servers' new,
  Permutation servers' (new :: servers) ->
  NoDup (map (fun s => hash (key ++ s)) servers') ->
  owner hash key servers' = Some new \/ owner hash key servers' = owner hash key servers.
Proof. exact owner_add. Qed.
Print Assumptions c13_add_server_anywhere.

Theorem c13_add_server_middle : forall hash key l1 l2 new,
  NoDup (map (fun s => hash (key ++ s)) (l1 ++ new :: l2)) ->
  owner hash key (l1 ++ new :: l2) = Some new \/
  owner hash key (l1 ++ new :: l2) = owner hash key (l1 ++ l2).
Proof.
  intros hash key l1 l2 new H. apply owner_add; [|exact H].
  symmetry. apply Permutation_middle.
Qed.
Print Assumptions c13_add_server_middle.

(* removing one server: only keys owned by the removed server change owner *)
Theorem c13_remove_server : forall hash key servers r,
  NoDup (map (fun s => hash (key ++ s)) servers) ->
  owner hash key servers <> Some r ->
  owner hash key (remove bytes_eq_dec r servers) = owner hash key servers.
Proof. exact owner_remove. Qed.
Print Assumptions c13_remove_server.

(* the same for any list that contains exactly the other servers (any order) *)
Theorem c13_remove_server_any : forall hash key servers servers' r,
  (forall s, In s servers' <-> In s servers /\ s <> r) ->
  NoDup (map (fun s => hash (key ++ s)) servers') ->
  owner hash key servers <> Some r ->
  owner hash key servers' = owner hash key servers.
Proof. exact owner_remove_gen. Qed.
Print Assumptions c13_remove_server_any.

(* the distinct-score hypothesis is needed: with a constant hash two nodes that
   hold the same servers in a different order disagree *)
(* every placement call site of cluster/actions.go and cluster/sync.go (the list RoutingSites.routing_sites is
   regenerated from the source on every run; the translator refuses a call site that is not
   `RendezvousHash(<id of the record at hand>, c.Servers, 1)[0]`) computes `owner`: the same server on every
   node, whatever the order of its server list *)
Theorem c13_sites_route_by_key : forall hash key s1 s2 site,
  In site RoutingSites.routing_sites ->
  Permutation s1 s2 -> NoDup (map (fun s => hash (key ++ s)) s1) ->
  site_owner site hash key s1 = site_owner site hash key s2.
Proof. exact sites_route_by_key. Qed.
Print Assumptions c13_sites_route_by_key.

(* the generated list is consistent: its length, and every file it names (actions.go, sync.go) has call sites in it *)
Theorem c13_sites_listed : length RoutingSites.routing_sites = RoutingSites.n_routing_sites /\
  (forall f, In f RoutingSites.routing_files ->
     exists fu k e, In (f, fu, k, e) RoutingSites.routing_sites).
Proof. exact sites_listed. Qed.
Print Assumptions c13_sites_listed.

Theorem c13_collision_refuted :
  Permutation [[1]; [2]] [[2]; [1]] /\
  rv (fun _ => 0) [] [[1]; [2]] 1 = [[1]] /\ rv (fun _ => 0) [] [[2]; [1]] 1 = [[2]] /\
  owner (fun _ => 0) [] [[1]; [2]] <> owner (fun _ => 0) [] [[2]; [1]].
Proof. exact const_hash_order_dependent. Qed.
Print Assumptions c13_collision_refuted.

(* the selection checker used for verdict 101 accepts exactly one list when the
   scores are distinct: the model's result *)
Theorem c13_sel_ok_sound : forall hash key servers k obs,
  NoDup (map (fun s => hash (key ++ s)) servers) ->
  length obs = Nat.min k (length servers) ->
  sel_ok obs (decorate hash key servers) 0 = true ->
  obs = rv hash key servers k.
Proof. exact sel_ok_sound. Qed.
Print Assumptions c13_sel_ok_sound.

(* the model hash is a 64-bit word; w64 is reduction modulo 2^64 *)
Theorem c13_xxh64_word : forall b x, xxh64 b < 2 ^ 64 /\ w64 x = x mod 2 ^ 64.
Proof. intros. split; [exact (xxh64_lt b)|exact (w64_mod x)]. Qed.
Print Assumptions c13_xxh64_word.

(* --- non-vacuity: the hypotheses hold for xxh64 on concrete cluster configurations --- *)
From Coq Require Import String.
Definition ex_servers : list bytes :=
  map str ["host-0:11001"; "host-1:11001"; "host-2:11001"; "host-3:11001"; "host-4:11001"]%string.
Definition ex_key : bytes := str "user-42".

(* published xxHash64 test vectors (seed 0) *)
Example c13_ex_xxh64 :
  xxh64 [] = 17241709254077376921 /\ xxh64 (str "a") = 15154266338359012955 /\
  xxh64 (str "Nobody inspects the spammish repetition") = 18144624926692707313.
Proof. vm_compute. repeat split; reflexivity. Qed.

Example c13_ex_distinct : NoDup (map (fun s => xxh64 (ex_key ++ s)) ex_servers).
Proof. apply nodupN_sound. vm_compute. reflexivity. Qed.

Example c13_ex_perm :
  rv xxh64 ex_key (rev ex_servers) 2 = rv xxh64 ex_key ex_servers 2 /\
  rv xxh64 ex_key ex_servers 2 = [str "host-3:11001"; str "host-4:11001"].
Proof.
  split; [|vm_compute; reflexivity].
  symmetry. apply c13_perm_invariant; [apply Permutation_rev|exact c13_ex_distinct].
Qed.

Example c13_ex_add_remove :
  owner xxh64 ex_key ex_servers = Some (str "host-3:11001") /\
  (* removing another server: unchanged; removing the owner: the key moves *)
  owner xxh64 ex_key (remove bytes_eq_dec (str "host-1:11001") ex_servers) = Some (str "host-3:11001") /\
  owner xxh64 ex_key (remove bytes_eq_dec (str "host-3:11001") ex_servers) = Some (str "host-4:11001") /\
  (* adding a server: user-42 stays, user-A moves to the new server *)
  owner xxh64 ex_key (str "host-5:11001" :: ex_servers) = Some (str "host-3:11001") /\
  owner xxh64 (str "user-A") ex_servers = Some (str "host-0:11001") /\
  owner xxh64 (str "user-A") (str "host-5:11001" :: ex_servers) = Some (str "host-5:11001").
Proof. vm_compute. repeat split; reflexivity. Qed.
