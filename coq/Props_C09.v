(* Props_C09.v -- property C09: concurrent searches and writes are safe and every search
   sees committed data.  Only statements; every proof is `exact <lemma>`.

   Model (Model_C09.v): committed versions `committed st = st_hist st ++ [st_cur st]` of the points
   bucket (node id -> point id, document), one per finished batch call; `cfg_index cfg ps` is the
   index content belonging to points bucket ps.  One writer (lock the shared cache and update it in
   place -> storage commit -> unlock; a rejected batch rolls back and scraps the cache), any number of
   readers (begin = snapshot of the current version; acquire = the registered cache, whatever version
   it reflects, OVERWRITING its single bucket handle -- or a private cold cache when it is
   write-locked; search = any adaptive program of point reads and scans answered from the cached
   items or through the cache's current handle; lookup of every found node in the reader's own
   snapshot; end = the handle dies), and an environment thread that removes the manager entry at any
   time.  A schedule is ANY list of thread ids (`run cfg sched st`, threads that cannot move are
   skipped); `init p0 bs progs` = cold start with points bucket p0, batch stream bs and one search
   program per reader (warm and partially warm starts are reached by scheduling readers first).
   `cfg_guarded` = fix 581ddda present (a bucket of an ended transaction fails cleanly).

   Quantifiers: every configuration (any index function, any batch semantics), every initial bucket,
   every batch stream, any number of readers with arbitrary search programs, every schedule. *)
From Coq Require Import List NArith ZArith Arith Bool.
From Semadb Require Import Bytes Value Obs Model_C01 Model_C09 Proofs_C09 Proofs_C09b ItemCacheLocks.
From Semadb Require Run_C09.
Import ListNotations.
Open Scope nat_scope.

(* ---- serial schedules (transactions do not overlap: a thread moves only while every other thread is
   outside a transaction): no crash, and every search returns exactly the sequential answer on its
   snapshot -- so it fails only if the search would fail when run alone on that committed version,
   and every returned point is live in the reader's snapshot version.
   Deviation from DESIGN 4.9, which asks only that CACHE ACCESSES do not overlap: a reader's block has
   to start at its begin (the snapshot), not at its cache acquisition -- otherwise the statement is
   false, c09_spurious_refuted is a schedule with non-overlapping cache accesses that fails. *)
Theorem c09_serial_safe :
  forall (cfg : config) (p0 : pstore) (bs : list batch) (progs : list prog) (sched : list tid),
    serial_run cfg sched (init p0 bs progs) ->
    let st := run cfg sched (init p0 bs progs) in
    st_crashed st = false /\
    forall r s o p, nth_error (st_rs st) r = Some (RDone s o) -> nth_error progs r = Some p ->
      o = answer cfg p (snd s) /\
      nth_error (committed st) (fst s) = Some (snd s) /\
      In (snd s) (seq_versions cfg bs p0) /\
      (forall rows, o = Ok rows -> rows_live (snd s) rows) /\
      ((forall ps, In ps (seq_versions cfg bs p0) -> exists rows, answer cfg p ps = Ok rows) ->
       exists rows, o = Ok rows /\ rows_live (snd s) rows).
Proof. exact serial_safe_full. Qed.
Print Assumptions c09_serial_safe.

(* ---- EVERY schedule: a point a search returns (it passed the lookup in the reader's own snapshot) is
   live in the reader's snapshot version with exactly the returned document; that version is a
   committed one and it was the current version at the reader's begin step, which lies between the
   search's start and end (the window the harness records). *)
Theorem c09_results_were_live :
  forall (cfg : config) (p0 : pstore) (bs : list batch) (progs : list prog) (sched : list tid)
         (r : nat) (s : snapshot) (rows : list prow),
    let st0 := init p0 bs progs in
    nth_error (st_rs (run cfg sched st0)) r = Some (RDone s (Ok rows)) ->
    rows_live (snd s) rows /\
    nth_error (committed (run cfg sched st0)) (fst s) = Some (snd s) /\
    exists pre post p, sched = pre ++ TReader r :: post /\
                       nth_error (st_rs (run cfg pre st0)) r = Some (RIdle p) /\
                       cur_snapshot (run cfg pre st0) = s.
Proof. exact results_were_live. Qed.
Print Assumptions c09_results_were_live.

(* the same liveness in the vocabulary of the reference store of C01 *)
Theorem c09_rows_live_in_store :
  forall (ps : pstore) (rows : list prow),
    NoDup (map fst (store_of ps)) -> rows_live ps rows ->
    Forall (fun r => st_get (fst (snd r)) (store_of ps) = Some (snd (snd r))) rows.
Proof. exact rows_live_store. Qed.
Print Assumptions c09_rows_live_in_store.

(* ---- final state: once the writer has finished its batches, the committed versions are the sequential
   application of the batches in call (= commit) order -- on the reference spec of C01 whenever the
   batch semantics refines it: S_{k+1} = fst (apply_spec b_k S_k) if the batch succeeds, S_k
   otherwise; a cold cache agrees with the index of the final version; the registered (warm) cache
   agrees with it too PROVIDED the schedule was calm: no storage commit while a reader's transaction
   is open and no removal of the manager entry (eviction, Release, scrap by a failing reader) while
   the writer holds its write lock (C11's finding; c09_evict_stale_refuted_v0 is the counterexample). *)
Theorem c09_final_state :
  forall (cfg : config) (p0 : pstore) (bs : list batch) (progs : list prog) (sched : list tid),
    let st := run cfg sched (init p0 bs progs) in
    writer_finished st ->
    committed st = seq_versions cfg bs p0 /\
    st_cur st = last (seq_versions cfg bs p0) [] /\
    (forall sc maxsize, refines_spec cfg sc maxsize ->
       map store_of (committed st) = spec_versions sc maxsize bs (store_of p0)) /\
    (forall h, coherent cfg (st_cur st) (empty_cache h)) /\
    (calm_run cfg sched (init p0 bs progs) ->
     forall cid, st_mgr st = Some cid ->
       exists c, nth_error (st_heap st) cid = Some c /\ coherent cfg (st_cur st) c).
Proof. exact final_state. Qed.
Print Assumptions c09_final_state.

(* coherent caches (cold or warm) answer every read like the index of that version: warm = cold *)
Theorem c09_coherent_answers :
  forall (cfg : config) (ps : pstore) (c : cache),
    coherent cfg ps c ->
    (forall k, cache_get cfg ps c k = idx_get (cfg_index cfg ps) k) /\
    cache_scan cfg ps c = scan_result (idx_get (cfg_index cfg ps)) (cfg_keys cfg).
Proof. exact coherent_answers. Qed.
Print Assumptions c09_coherent_answers.

(* at every moment the committed versions are a prefix of the sequential timeline *)
Theorem c09_committed_prefix :
  forall (cfg : config) (p0 : pstore) (bs : list batch) (progs : list prog) (sched : list tid),
    exists rest, seq_versions cfg bs p0 = committed (run cfg sched (init p0 bs progs)) ++ rest.
Proof. exact committed_prefix. Qed.
Print Assumptions c09_committed_prefix.

(* the timeline the running check judges against is this spec timeline (batch outputs checked first, code 101) *)
Theorem c09_run_timeline :
  forall (sc : schema) (maxsize : N) (bs : list (batch * bout)) (s : store),
    Run_C09.outputs_ok sc maxsize bs s = true ->
    Run_C09.versions sc maxsize bs s = spec_versions sc maxsize (map fst bs) s.
Proof. exact run_versions_spec. Qed.
Print Assumptions c09_run_timeline.

(* ---- the known finding behind code 191: a reader with snapshot v0 uses the shared cache after the
   writer updated it to I_1, committed v1 and unlocked; it finds the node inserted by that batch and
   fails the lookup in its own snapshot.  The cache accesses of the two transactions do not overlap
   (cache_serial_run), the search succeeds sequentially on v0 and on v1; with or without fix 581ddda. *)
Theorem c09_spurious_refuted :
  forall g : bool,
    let cfg := toy_cfg g in
    let st0 := init w_p0 [w_batch] [w_q_get] in
    let st := run cfg w_sched_spurious st0 in
    cache_serial_run cfg w_sched_spurious st0 /\
    nth_error (st_rs st) 0 = Some (RDone (0, w_p0) FailNotExist) /\
    st_crashed st = false /\ writer_finished st /\
    answer cfg w_q_get w_p0 = Ok [(1%N, (w_id1, w_doc))] /\
    answer cfg w_q_get (st_cur st) = Ok [(2%N, (w_id2, w_doc)); (1%N, (w_id1, w_doc))].
Proof. exact spurious_refuted. Qed.
Print Assumptions c09_spurious_refuted.

(* ---- the shared bucket handle: three readers of the same version, no writer at all.  The reader
   whose handle was installed last finishes first; the other one then misses in the cache and scans
   through the dead handle: a clean error "transaction has ended" with fix 581ddda (code 192), a
   process crash in the pinned tree.  Each search alone answers correctly. *)
Theorem c09_shared_handle_refuted :
  let st0 := init w_p0 [] [w_q_scan; w_q_get; w_q_get] in
  (forall g r, r < 3 ->
     answer (toy_cfg g) (nth r [w_q_scan; w_q_get; w_q_get] PFail) w_p0 = Ok [(1%N, (w_id1, w_doc))]) /\
  (let st := run (toy_cfg true) w_sched_shared st0 in
   st_crashed st = false /\
   st_rs st = [RDone (0, w_p0) FailHandleDead; RDone (0, w_p0) (Ok [(1%N, (w_id1, w_doc))]);
               RDone (0, w_p0) (Ok [(1%N, (w_id1, w_doc))])]) /\
  (let st := run (toy_cfg false) w_sched_shared st0 in
   st_crashed st = true /\ nth_error (st_rs st) 0 = Some (RDone (0, w_p0) Crashed)).
Proof. exact shared_handle_refuted. Qed.
Print Assumptions c09_shared_handle_refuted.

(* ---- what fix 581ddda establishes: with the guard no schedule crashes the process, every outcome is Ok
   or a clean failure *)
Theorem c09_guard_no_crash :
  forall (cfg : config) (p0 : pstore) (bs : list batch) (progs : list prog) (sched : list tid),
    cfg_guarded cfg = true ->
    let st := run cfg sched (init p0 bs progs) in
    st_crashed st = false /\
    forall r s o, nth_error (st_rs st) r = Some (RDone s o) ->
                  match o with Ok _ | FailNotExist | FailHandleDead | FailOther => True | Crashed => False end.
Proof. exact guard_no_crash_init. Qed.
Print Assumptions c09_guard_no_crash.

(* ---- why c09_final_state needs `calm` for the warm cache: the manager entry is evicted while the writer
   holds its lock, a reader registers a cache built from the old snapshot, the commit does not reach
   it: after the writer has finished the registered cache still answers with I_0 (C11 / C08: F6).
   _v0: this is the manager BEFORE fix 2d185e4 (a successful Commit now discards a cache registered under
   the name in the meantime; Props_C11.c11_coherent is the statement for the repaired manager). The model of
   this file keeps the pinned commit step: it allows MORE behaviours than the repaired code, so what is
   proved here for every schedule still holds of the code; this witness no longer describes it. *)
Theorem c09_evict_stale_refuted_v0 :
  let cfg := toy_cfg true in
  let st0 := init w_p0 [w_batch] [w_q_get] in
  let st := run cfg w_sched_evict st0 in
  writer_finished st /\ st_crashed st = false /\
  exists cid c, st_mgr st = Some cid /\ nth_error (st_heap st) cid = Some c /\
                cache_get cfg (st_cur st) c 0%N = Some [1%N] /\
                idx_get (cfg_index cfg (st_cur st)) 0%N = Some [2%N; 1%N].
Proof. exact evict_stale_refuted. Qed.
Print Assumptions c09_evict_stale_refuted_v0.

(* ---- the forced schedules of the check (harness/c09forced.go): the writer is stopped INSIDE its write
   transaction -- it has write-locked the registered cache cid and updated it in place to the index of the
   version it is about to commit (nx = Some _) or is going to roll back (nx = None); the storage has not
   committed.  ANY state of that shape (not only reachable ones; whatever the shared cache holds, whatever
   the other readers are doing), any idle reader r with any search program p: letting r alone run, after
   finitely many steps (and for every larger number: a finished reader does not move) its search has ended
   with snapshot = the current committed version and outcome = exactly the sequential answer on it -- it
   took a private cold cache, so it saw nothing of the writer's uncommitted update -- and nothing else
   has changed: not the heap (so not the write-locked cache), not the committed versions, not the
   writer's phase or its remaining batches, no other reader; the manager entry only if the program itself
   gives up (`answer` = FailOther: With scraps the cache of that name -- the manager entry the WRITER is
   holding, C11's finding). *)
Theorem c09_inside_write_window :
  forall (cfg : config) (st : state) (cid : nat) (nx : option pstore) (r : nat) (p : prog),
    st_crashed st = false ->
    st_wph st = WInTx cid nx -> st_mgr st = Some cid ->
    nth_error (st_rs st) r = Some (RIdle p) ->
    exists n0, forall n, n0 <= n ->
      let st' := run cfg (repeat (TReader r) n) st in
      nth_error (st_rs st') r = Some (RDone (cur_snapshot st) (answer cfg p (st_cur st))) /\
      st_crashed st' = false /\
      st_heap st' = st_heap st /\ st_hist st' = st_hist st /\ st_cur st' = st_cur st /\
      st_wph st' = st_wph st /\ st_todo st' = st_todo st /\
      (forall r', r' <> r -> nth_error (st_rs st') r' = nth_error (st_rs st) r') /\
      st_mgr st' = match answer cfg p (st_cur st) with FailOther => None | _ => Some cid end.
Proof. exact inside_write_window. Qed.
Print Assumptions c09_inside_write_window.

(* ---- the seeded defect "the writer releases the cache lock before the storage commit" (codes 171 / 191).
   `w_early_unlock` is the state of the toy configuration in which the writer has updated the registered
   cache to the index of the next version w_p1 and is inside its transaction -- with the write lock
   dropped (st_wph = WIdle instead of WInTx 0 (Some w_p1), nothing else differs): the only committed
   version is w_p0, the registered cache is coherent with w_p1 and not write-locked.  A search run
   start-to-end from there acquires the shared cache, finds node 2 under key 0 and fails the lookup in
   its own snapshot: FailNotExist, although it answers Ok on the only committed version; from the state
   WITH the lock held the same five steps end in that Ok answer (c09_inside_write_window).
   This state is NOT a state of the model: the model's writer unlocks after the storage commit
   (WInTx -> WCommitted -> WIdle), and in every state reachable from a cold start by any schedule every
   item of every cache object is an entry of the index of a COMMITTED version unless the object is
   write-locked by the writer inside its transaction (lemma c09_lock_covers_commit in Proofs_C09b.v, for
   all configurations) -- hence the last conjunct: no initial bucket, batch stream, readers and
   schedule reach it. *)
Theorem c09_early_unlock_refuted :
  let cfg := toy_cfg true in
  let locked := run cfg [TWriter] (init w_p0 [w_batch] [w_q_get]) in
  let st := w_early_unlock in
  st_wph locked = WInTx 0 (Some w_p1) /\ st_wph st = WIdle /\
  st = mkState (st_hist locked) (st_cur locked) (st_heap locked) (st_mgr locked) WIdle
               (st_todo locked) (st_rs locked) (st_crashed locked) /\
  committed st = [w_p0] /\ st_mgr st = Some 0 /\ wheld st 0 = false /\
  (exists c, nth_error (st_heap st) 0 = Some c /\ coherent cfg w_p1 c /\
             idx_get (c_items c) 0%N = Some [2%N; 1%N] /\
             idx_get (cfg_index cfg (st_cur st)) 0%N = Some [1%N]) /\
  nth_error (st_rs (run cfg (repeat (TReader 0) 5) st)) 0 = Some (RDone (0, w_p0) FailNotExist) /\
  answer cfg w_q_get (st_cur st) = Ok [(1%N, (w_id1, w_doc))] /\
  nth_error (st_rs (run cfg (repeat (TReader 0) 5) locked)) 0 = Some (RDone (0, w_p0) (Ok [(1%N, (w_id1, w_doc))])) /\
  (forall g p0 bs progs sched, run (toy_cfg g) sched (init p0 bs progs) <> st).
Proof. exact early_unlock_refuted. Qed.
Print Assumptions c09_early_unlock_refuted.

(* ------------------------------------------------------------------ the hypotheses are satisfiable *)
(* a serial schedule with a warm-up reader, a full write transaction and two more readers: all finish
   with the sequential answers (the last two see the inserted point) *)
Definition ex_sched_serial : list tid :=
  [TReader 0; TReader 0; TReader 0; TReader 0; TReader 0;
   TWriter; TWriter; TWriter;
   TReader 1; TReader 1; TReader 1; TReader 1; TReader 1; TReader 1;
   TEvict;
   TReader 2; TReader 2; TReader 2; TReader 2; TReader 2].
Example ex_serial :
  let cfg := toy_cfg false in
  let st0 := init w_p0 [w_batch] [w_q_get; w_q_scan; w_q_get] in
  serial_run cfg ex_sched_serial st0 /\ calm_run cfg ex_sched_serial st0 /\
  writer_finished (run cfg ex_sched_serial st0) /\
  map (fun ph => match ph with RDone s (Ok rows) => (fst s, map fst rows) | _ => (9, []) end)
      (st_rs (run cfg ex_sched_serial st0)) = [(0, [1%N]); (1, [2%N; 1%N]); (1, [2%N; 1%N])].
Proof. vm_compute. repeat split. Qed.

(* a calm schedule that is not serial: two readers interleaved step by step, then the writer *)
Definition ex_sched_calm : list tid :=
  [TReader 0; TReader 1; TReader 0; TReader 1; TReader 0; TReader 1; TReader 0; TReader 1; TReader 0; TReader 1;
   TWriter; TWriter; TWriter].
Example ex_calm :
  let cfg := toy_cfg true in
  let st0 := init w_p0 [w_batch] [w_q_get; w_q_get] in
  calm_run cfg ex_sched_calm st0 /\ ~ serial_run cfg ex_sched_calm st0 /\
  writer_finished (run cfg ex_sched_calm st0) /\
  exists cid, st_mgr (run cfg ex_sched_calm st0) = Some cid.
Proof.
  split; [vm_compute; repeat split|]. split; [vm_compute; intuition discriminate|].
  split; [vm_compute; repeat split|]. vm_compute. eexists. reflexivity.
Qed.

(* the toy configuration applies batches by the reference spec of C01 *)
Example ex_refines : forall g, refines_spec (toy_cfg g) [] 1000%N.
Proof. intros g. apply spec_apply_refines. Qed.

(* the sequential answers of the witness queries are Ok on every version of the witness timeline *)
Example ex_sound :
  forall ps, In ps (seq_versions (toy_cfg true) [w_batch] w_p0) ->
             exists rows, answer (toy_cfg true) w_q_scan ps = Ok rows.
Proof. intros ps [<-|[<-|[]]]; vm_compute; eexists; reflexivity. Qed.

(* the order of one write batch in the model is the bracket that gen/gen_tx_order.py reads off shard/shard.go on every
   run (TxOrder.tx_bracket: new cache transaction, storage transaction begins, callback, storage transaction ends,
   cache Commit): the cache stays write-locked across the storage commit, nothing is committed before the second
   step, exactly one version is appended by it, the third step only releases the lock. A code change that settles
   the cache transaction inside the storage transaction is refused by the translator. *)
Theorem c09_writer_follows_bracket : forall cfg st st1 st2 st3,
  st_wph st = WIdle ->
  step_writer cfg st = Some st1 -> step_writer cfg st1 = Some st2 -> step_writer cfg st2 = Some st3 ->
  step_events (st_wph st) (st_wph st1) ++ step_events (st_wph st1) (st_wph st2) ++ step_events (st_wph st2) (st_wph st3)
    = TxOrder.tx_bracket true /\
  (exists cid nx, st_wph st1 = WInTx cid nx /\ committed st1 = committed st /\ wheld st1 cid = true /\
                  (exists ok, st_wph st2 = WCommitted cid ok /\ wheld st2 cid = true /\
                              committed st2 = committed st ++ [st_cur st2] /\ st_heap st2 = st_heap st1)) /\
  st_wph st3 = WIdle /\ committed st3 = committed st2.
Proof. exact writer_follows_bracket. Qed.
Print Assumptions c09_writer_follows_bracket.

Example ex_bracket :
  let cfg := toy_cfg true in
  let st := init w_p0 [w_batch] [] in
  match step_writer cfg st with
  | Some st1 => match step_writer cfg st1 with
                | Some st2 => match step_writer cfg st2 with
                              | Some st3 => st_wph st = WIdle /\ committed st3 = [w_p0; w_p1]
                              | None => False
                              end
                | None => False
                end
  | None => False
  end.
Proof. vm_compute. split; reflexivity. Qed.

(* the hypotheses of c09_inside_write_window on a reachable state: the writer has locked and updated the
   registered cache (key 0 already lists the node 2 it is about to commit) and is stopped inside its
   transaction; the idle reader's search (point read + full scan), run start to end, answers from the
   only committed version w_p0; the write-locked cache, the writer and the manager entry are untouched *)
Example ex_inside_window :
  let cfg := toy_cfg true in
  let st := run cfg [TWriter] (init w_p0 [w_batch] [w_q_scan]) in
  let st' := run cfg (repeat (TReader 0) 6) st in
  st_crashed st = false /\ st_wph st = WInTx 0 (Some w_p1) /\ st_mgr st = Some 0 /\
  nth_error (st_rs st) 0 = Some (RIdle w_q_scan) /\
  (exists c, nth_error (st_heap st) 0 = Some c /\ idx_get (c_items c) 0%N = Some [2%N; 1%N]) /\
  answer cfg w_q_scan (st_cur st) = Ok [(1%N, (w_id1, w_doc))] /\
  nth_error (st_rs st') 0 = Some (RDone (0, w_p0) (Ok [(1%N, (w_id1, w_doc))])) /\
  st_heap st' = st_heap st /\ st_wph st' = st_wph st /\ st_mgr st' = Some 0.
Proof.
  vm_compute. repeat (split; [reflexivity|]).
  split; [eexists; split; reflexivity|]. repeat (split; [reflexivity|]). reflexivity.
Qed.

(* the same with a batch that is going to roll back (nx = None: the id exists already) *)
Example ex_inside_window_rollback :
  let cfg := toy_cfg true in
  let st := run cfg [TWriter] (init w_p0 [w_batch_bad] [w_q_scan]) in
  let st' := run cfg (repeat (TReader 0) 6) st in
  st_crashed st = false /\ st_wph st = WInTx 0 None /\ st_mgr st = Some 0 /\
  nth_error (st_rs st) 0 = Some (RIdle w_q_scan) /\
  nth_error (st_rs st') 0 = Some (RDone (0, w_p0) (Ok [(1%N, (w_id1, w_doc))])) /\
  st_heap st' = st_heap st /\ st_wph st' = st_wph st /\ st_mgr st' = Some 0.
Proof. vm_compute. repeat (split; [reflexivity|]). reflexivity. Qed.

(* ---------------------------------------------------------------------------
   Lock discipline of the item caches. The models treat every operation of an ItemCache as atomic with respect to
   the other operations on the same cache, and the cache manager sizes every registered cache (SizeInMemory) while
   their users run. gen/gen_itemcache_locks.py reads shard/cache/itemcache.go on every run and refuses any shape
   other than: an exported method that works on the item map holds the cache mutex for its whole body; an
   unexported helper that does is only called from such methods. *)
Theorem c09_itemcache_methods_locked :
  forallb (fun m => let '(_, touches, locks, exported) := m in implb (touches && exported) locks)
          ItemCacheLocks.itemcache_methods = true
  /\ (8 <= length ItemCacheLocks.itemcache_methods)%nat.
Proof. vm_compute. split; [reflexivity|repeat constructor]. Qed.
Print Assumptions c09_itemcache_methods_locked.
