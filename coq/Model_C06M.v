(* Model_C06M.v -- Prop-level vocabulary for the theorems of C06 (Props_C06.v):
   contributions of the children of a merge, the child-wise view of `eval` on
   composite nodes, comparators that are total preorders, "sorted permutation",
   ties of sort keys, non-overlapping select paths.  Definitions only. *)
From Coq Require Import List NArith ZArith QArith Bool Sorted Permutation.
From Semadb Require Import Bytes U64 Value Obs Dyadic Model_C19 Model_C01 Model_C02 Model_C04 Model_C06.
Import ListNotations.
Open Scope N_scope.

(* ---------------- merge ---------------- *)

Definition rk_ids (l : list rk) : list uuid := map k_id l.

(* the entries of the children that contain `id`, in child order *)
Definition contribs (id : uuid) (children : list (list rk)) : list rk :=
  flat_map (fun c => match rk_find id c with Some e => [e] | None => [] end) children.

(* the sum as the code forms it: ((h1 + h2) + h3) + ...  (Qplus, no normalisation) *)
Definition sum_left (l : list Q) : Q :=
  match l with [] => 0%Q | x :: r => fold_left Qplus r x end.

Fixpoint first_some {A} (l : list (option A)) : option A :=
  match l with
  | [] => None
  | Some x :: _ => Some x
  | None :: r => first_some r
  end.

(* does searchParallel keep the entry? (_or: always; _and: only members of the final set) *)
Definition kept_in (is_or : bool) (final : list uuid) (id : uuid) : bool := is_or || mem_bytes id final.

(* ---------------- eval on composite nodes, child-wise ---------------- *)

(* the children of a composite node evaluated left to right, threading the recorded standalone answers
   (the same recursion as the local `step` of Model_C06.eval) *)
Definition eval_list (sc : schema) (t : list (bytes * bytes)) (live : store) :=
  fix go (qs : list query) (subs : list (list row))
    : option (list (list uuid) * list (list rk) * list bool * list (list row)) :=
    match qs with
    | [] => Some ([], [], [], subs)
    | c :: r =>
        match eval sc t live c subs with
        | None => None
        | Some (s, rkd, fl, subs') =>
            match go r subs' with
            | None => None
            | Some (ss, rks, fls, subs'') => Some (s :: ss, rkd :: rks, fl :: fls, subs'')
            end
        end
    end.

(* FastOr / FastAnd of the children's sets *)
Definition set_combine (is_or : bool) (ss : list (list uuid)) : list uuid :=
  match ss with
  | [] => []
  | s0 :: rest => fold_left (fun acc s => if is_or then ids_union acc s else ids_inter acc s) rest s0
  end.

Definition composite (is_or : bool) (qs : list query) : query := if is_or then QOr qs else QAnd qs.

(* ---------------- comparators ---------------- *)

(* a three-way comparator that is a total preorder *)
Record cmp_preorder {A} (cmp : A -> A -> comparison) : Prop := mkCmpPre {
  cmp_refl : forall x, cmp x x = Eq;
  cmp_antisym : forall x y, cmp y x = CompOpp (cmp x y);
  cmp_trans : forall x y z, cmp x y <> Gt -> cmp y z <> Gt -> cmp x z <> Gt }.

Definition cle {A} (cmp : A -> A -> comparison) (a b : A) : Prop := cmp a b <> Gt.

(* l' is a correct result of sorting l by cmp: any sort, stable or not *)
Definition is_sorted_perm {A} (cmp : A -> A -> comparison) (l l' : list A) : Prop :=
  Permutation l l' /\ Sorted (cle cmp) l'.

(* ---------------- sort keys ---------------- *)

Definition key_of (p : bytes) (d : doc) : option value := access_nested (split_dots p) (VMap d).

(* the two documents tie on one key: both lack it, or both have it with equal (CompareAny = 0) values *)
Definition key_tie (k : bytes * bool) (a b : doc) : Prop :=
  match key_of (fst k) a, key_of (fst k) b with
  | None, None => True
  | Some x, Some y => compare_any x y = Eq
  | _, _ => False
  end.

(* ---------------- select paths ---------------- *)

Fixpoint seg_prefix (a b : list bytes) : Prop :=
  match a, b with
  | [], _ => True
  | _ :: _, [] => False
  | x :: a', y :: b' => x = y /\ seg_prefix a' b'
  end.
(* neither segment list is a prefix of the other *)
Definition seg_disjoint (a b : list bytes) : Prop := ~ seg_prefix a b /\ ~ seg_prefix b a.
(* no empty segment ("a..b", "", "a."): msgpack's Query returns the whole subtree at an empty segment *)
Definition plain_segs (s : list bytes) : Prop := Forall (fun x => x <> []) s.

Definition star : bytes := [42].

Definition plain_paths (paths : list bytes) : Prop :=
  Forall (fun p => p <> star /\ plain_segs (split_dots p)) paths /\
  ForallOrdPairs (fun p q => seg_disjoint (split_dots p) (split_dots q)) paths.
