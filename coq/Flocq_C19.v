(* Flocq_C19.v -- the sign-magnitude order of Model_C19.f64_ord on bit patterns
   IS the IEEE-754 comparison of Flocq on the decoded binary64 values.
   Turns the modelling assumption "f64_ord is the IEEE order on non-NaN doubles
   (with -0 = +0)" into a theorem.  No axiom is declared here; the real-number
   axioms of the standard library come in only through Flocq. *)
From Coq Require Import List NArith ZArith Lia Bool Reals.
From Coq Require Import ZifyBool ZifyN.
From Coq Require Import SpecFloat.
From Flocq Require Import Core BinarySingleNaN Binary Bits.
From Semadb Require Import Bytes U64 KeyLayout Model_C19 Proofs_C19.
Open Scope Z_scope.

(* ---------------- the decoded value as a spec_float ------------------------ *)

Definition sf_of_bits (x : Z) : spec_float := FF2SF (binary_float_of_bits_aux 52 11 x).

Lemma B2SF_b64 x : Binary.B2SF 53 1024 (b64_of_bits x) = sf_of_bits x.
Proof. exact (B2SF_FF2B _ _ _ _). Qed.

Lemma Bcompare_b64 x y :
  Binary.Bcompare 53 1024 (b64_of_bits x) (b64_of_bits y) = SFcompare (sf_of_bits x) (sf_of_bits y).
Proof.
  unfold Binary.Bcompare, BinarySingleNaN.Bcompare.
  now rewrite !B2SF_B2BSN, !B2SF_b64.
Qed.

Lemma is_nan_b64 x :
  Binary.is_nan 53 1024 (b64_of_bits x) = is_nan_FF (binary_float_of_bits_aux 52 11 x).
Proof. exact (is_nan_FF2B _ _ _ _). Qed.

Lemma is_finite_b64 x :
  Binary.is_finite 53 1024 (b64_of_bits x) = is_finite_FF (binary_float_of_bits_aux 52 11 x).
Proof. exact (is_finite_FF2B _ _ _ _). Qed.

(* ---------------- sign, magnitude and the shape of the decoded value -------- *)

Definition sord (s : bool) (m : Z) : Z := if s then - m else m.

(* [sf_mag f s m]: f is the non-NaN value with sign bit s whose 63 low bits
   (exponent field * 2^52 + mantissa field) are m *)
Inductive sf_mag : spec_float -> bool -> Z -> Prop :=
| sfm_zero s : sf_mag (S754_zero s) s 0
| sfm_fin s p ex :
    -1074 <= ex -> ex <= 971 -> Zpos p < 9007199254740992 ->
    (-1074 < ex -> 4503599627370496 <= Zpos p) ->
    sf_mag (S754_finite s p ex) s ((ex + 1074) * 4503599627370496 + Zpos p)
| sfm_inf s : sf_mag (S754_infinity s) s 9218868437227405312.

Lemma split_facts x : 0 <= x < 18446744073709551616 ->
  let m := x mod 4503599627370496 in
  let e := (x / 4503599627370496) mod 2048 in
  0 <= m < 4503599627370496 /\ 0 <= e < 2048 /\
  x mod 9223372036854775808 = e * 4503599627370496 + m /\
  (4503599627370496 * 2048 <=? x) = (9223372036854775808 <=? x).
Proof. intros Hx m e. subst m e. Z.div_mod_to_equations. lia. Qed.

Lemma aux_unfold x :
  binary_float_of_bits_aux 52 11 x =
  let sx := 4503599627370496 * 2048 <=? x in
  let mx := x mod 4503599627370496 in
  let ex := (x / 4503599627370496) mod 2048 in
  if Zeq_bool ex 0 then
    match mx with
    | Z0 => F754_zero sx
    | Zpos px => F754_finite sx px (-1074)
    | Zneg _ => F754_nan false xH
    end
  else if Zeq_bool ex 2047 then
    match mx with
    | Z0 => F754_infinity sx
    | Zpos plx => F754_nan sx plx
    | Zneg _ => F754_nan false xH
    end
  else
    match mx + 4503599627370496 with
    | Zpos px => F754_finite sx px (ex + -1074 - 1)
    | _ => F754_nan false xH
    end.
Proof. reflexivity. Qed.

Lemma decode_non_nan x :
  0 <= x < 18446744073709551616 ->
  x mod 9223372036854775808 <= 9218868437227405312 ->
  sf_mag (sf_of_bits x) (9223372036854775808 <=? x) (x mod 9223372036854775808).
Proof.
  intros Hx Hnn. unfold sf_of_bits. rewrite aux_unfold.
  destruct (split_facts x Hx) as (Hm & He & Hmag & Hs).
  cbv zeta. rewrite Hs, Hmag in *. clear Hs Hmag.
  set (s := 9223372036854775808 <=? x). clearbody s.
  set (m := x mod 4503599627370496) in *. set (e := (x / 4503599627370496) mod 2048) in *.
  clearbody m e. clear Hx x.
  destruct (Zeq_bool e 0) eqn:E0.
  - apply Zeq_bool_eq in E0. subst e.
    destruct m as [|p|p]; cbn [FF2SF].
    + apply sfm_zero.
    + replace (0 * 4503599627370496 + Z.pos p) with ((-1074 + 1074) * 4503599627370496 + Z.pos p) by lia.
      apply sfm_fin; lia.
    + lia.
  - apply Zeq_bool_neq in E0.
    destruct (Zeq_bool e 2047) eqn:E1.
    + apply Zeq_bool_eq in E1. subst e.
      assert (m = 0) by lia. subst m. cbn [FF2SF].
      apply sfm_inf.
    + apply Zeq_bool_neq in E1.
      destruct (m + 4503599627370496) as [|p|p] eqn:Ep; try lia.
      cbn [FF2SF].
      replace (e * 4503599627370496 + m) with ((e + -1074 - 1 + 1074) * 4503599627370496 + Z.pos p) by lia.
      apply sfm_fin; lia.
Qed.

Lemma decode_nan x :
  0 <= x < 18446744073709551616 ->
  9218868437227405312 < x mod 9223372036854775808 ->
  is_nan_FF (binary_float_of_bits_aux 52 11 x) = true.
Proof.
  intros Hx Hnn. rewrite aux_unfold.
  destruct (split_facts x Hx) as (Hm & He & Hmag & Hs).
  cbv zeta. rewrite Hs, Hmag in *. clear Hs Hmag.
  set (s := 9223372036854775808 <=? x). clearbody s.
  set (m := x mod 4503599627370496) in *. set (e := (x / 4503599627370496) mod 2048) in *.
  clearbody m e. clear Hx x.
  assert (e = 2047) by lia. subst e.
  cbn. destruct m as [|p|p]; try reflexivity. lia.
Qed.

Lemma sf_mag_not_nan f s m : sf_mag f s m -> is_nan_SF f = false.
Proof. now destruct 1. Qed.

(* ---------------- SFcompare is the order of the signed magnitudes ---------- *)

Lemma Pcompare_Zcompare p q : Pos.compare_cont Eq p q = Z.compare (Zpos p) (Zpos q).
Proof. reflexivity. Qed.

Lemma SFcompare_sf_mag f1 s1 m1 f2 s2 m2 :
  sf_mag f1 s1 m1 -> sf_mag f2 s2 m2 ->
  SFcompare f1 f2 = Some (Z.compare (sord s1 m1) (sord s2 m2)).
Proof.
  intros H1 H2.
  destruct H1 as [s1|s1 p1 e1 A1 B1 C1 D1|s1]; destruct H2 as [s2|s2 p2 e2 A2 B2 C2 D2|s2];
    cbn [SFcompare]; f_equal; unfold sord.
  all: try (destruct s1; destruct s2; symmetry;
            first [ apply Z.compare_eq_iff; lia | apply Z.compare_lt_iff; lia | apply Z.compare_gt_iff; lia ]).
  (* finite / finite *)
  destruct s1; destruct s2; symmetry.
  - destruct (Z.compare_spec e1 e2) as [E|L|G].
    + subst e2. rewrite Pcompare_Zcompare.
      destruct (Z.compare_spec (Zpos p1) (Zpos p2)); cbn [CompOpp];
        [apply Z.compare_eq_iff | apply Z.compare_gt_iff | apply Z.compare_lt_iff]; lia.
    + apply Z.compare_gt_iff. lia.
    + apply Z.compare_lt_iff. lia.
  - apply Z.compare_lt_iff. lia.
  - apply Z.compare_gt_iff. lia.
  - destruct (Z.compare_spec e1 e2) as [E|L|G].
    + subst e2. rewrite Pcompare_Zcompare.
      destruct (Z.compare_spec (Zpos p1) (Zpos p2));
        [apply Z.compare_eq_iff | apply Z.compare_lt_iff | apply Z.compare_gt_iff]; lia.
    + apply Z.compare_lt_iff. lia.
    + apply Z.compare_gt_iff. lia.
Qed.

(* ---------------- link with the model on N bit patterns -------------------- *)

Definition b64 (a : N) : binary64 := b64_of_bits (Z.of_N a).

Lemma f64_ord_sord a : (a < two64)%N ->
  f64_ord a = sord (9223372036854775808 <=? Z.of_N a) (Z.of_N a mod 9223372036854775808).
Proof.
  unfold f64_ord, sord, two63, two64. intros Ha.
  destruct (N.ltb_spec a 9223372036854775808); destruct (Z.leb_spec 9223372036854775808 (Z.of_N a)); try lia;
    Z.div_mod_to_equations; lia.
Qed.

Lemma f64_nan_mag a :
  f64_nan a = (9218868437227405312 <? Z.of_N a mod 9223372036854775808).
Proof.
  unfold f64_nan, two63. cbv zeta.
  replace (Z.of_N a mod 9223372036854775808) with (Z.of_N (a mod 9223372036854775808)%N)
    by (now rewrite N2Z.inj_mod).
  destruct (N.ltb_spec 9218868437227405312 (a mod 9223372036854775808));
    destruct (Z.ltb_spec 9218868437227405312 (Z.of_N (a mod 9223372036854775808)%N)); lia.
Qed.

Lemma ofN_range a : (a < two64)%N -> 0 <= Z.of_N a < 18446744073709551616.
Proof. unfold two64. lia. Qed.

Lemma f64_sf_mag a : (a < two64)%N -> f64_nan a = false ->
  sf_mag (sf_of_bits (Z.of_N a)) (9223372036854775808 <=? Z.of_N a) (Z.of_N a mod 9223372036854775808).
Proof.
  intros Ha Hn. rewrite f64_nan_mag in Hn.
  apply decode_non_nan; [now apply ofN_range | lia].
Qed.

(* the NaN test of the model is Flocq's *)
Lemma f64_nan_is_nan a : (a < two64)%N ->
  f64_nan a = Binary.is_nan 53 1024 (b64 a).
Proof.
  intros Ha. unfold b64. rewrite is_nan_b64.
  destruct (f64_nan a) eqn:Hn.
  - symmetry. rewrite f64_nan_mag in Hn. apply decode_nan; [now apply ofN_range | lia].
  - pose proof (sf_mag_not_nan _ _ _ (f64_sf_mag a Ha Hn)) as H.
    unfold sf_of_bits in H. now destruct (binary_float_of_bits_aux 52 11 (Z.of_N a)).
Qed.

Lemma f64_nan_iff a : (a < two64)%N ->
  f64_nan a = true <-> Binary.is_nan 53 1024 (b64 a) = true.
Proof. intros Ha. now rewrite f64_nan_is_nan. Qed.

(* MAIN: Flocq's comparison of the decoded doubles is the comparison of f64_ord *)
Lemma f64_ord_Bcompare a b : (a < two64)%N -> (b < two64)%N ->
  f64_nan a = false -> f64_nan b = false ->
  Binary.Bcompare 53 1024 (b64_of_bits (Z.of_N a)) (b64_of_bits (Z.of_N b))
  = Some (Z.compare (f64_ord a) (f64_ord b)).
Proof.
  intros Ha Hb Hna Hnb. rewrite Bcompare_b64.
  rewrite (f64_ord_sord a Ha), (f64_ord_sord b Hb).
  apply SFcompare_sf_mag; now apply f64_sf_mag.
Qed.

(* a NaN operand: Flocq's comparison is undefined *)
Lemma f64_nan_Bcompare a b : (a < two64)%N -> (b < two64)%N ->
  f64_nan a = true \/ f64_nan b = true ->
  Binary.Bcompare 53 1024 (b64_of_bits (Z.of_N a)) (b64_of_bits (Z.of_N b)) = None.
Proof.
  intros Ha Hb H. rewrite (f64_nan_is_nan a Ha), (f64_nan_is_nan b Hb) in H. unfold b64 in H.
  unfold Binary.Bcompare, BinarySingleNaN.Bcompare. rewrite !B2SF_B2BSN.
  destruct H as [H|H].
  - destruct (b64_of_bits (Z.of_N a)); try discriminate. reflexivity.
  - destruct (b64_of_bits (Z.of_N b)); try discriminate.
    now destruct (Binary.B2SF 53 1024 (b64_of_bits (Z.of_N a))).
Qed.

Lemma f64_lt_Bcompare a b : (a < two64)%N -> (b < two64)%N ->
  f64_nan a = false -> f64_nan b = false ->
  f64_lt a b = true <->
  Binary.Bcompare 53 1024 (b64_of_bits (Z.of_N a)) (b64_of_bits (Z.of_N b)) = Some Lt.
Proof.
  intros Ha Hb Hna Hnb. rewrite f64_ord_Bcompare by assumption.
  unfold f64_lt. rewrite Z.ltb_lt. unfold Z.lt. split; [now intros -> | congruence].
Qed.

Lemma f64_eq_Bcompare a b : (a < two64)%N -> (b < two64)%N ->
  f64_nan a = false -> f64_nan b = false ->
  f64_eq a b = true <->
  Binary.Bcompare 53 1024 (b64_of_bits (Z.of_N a)) (b64_of_bits (Z.of_N b)) = Some Eq.
Proof.
  intros Ha Hb Hna Hnb. rewrite f64_ord_Bcompare by assumption.
  unfold f64_eq. rewrite Z.eqb_eq, <- Z.compare_eq_iff. split; [now intros -> | congruence].
Qed.

(* equality of f64_ord on bit patterns: same pattern, or the two zeros *)
Lemma f64_eq_bits a b : (a < two64)%N -> (b < two64)%N ->
  f64_eq a b = true <-> a = b \/ (f64_is_zero a = true /\ f64_is_zero b = true).
Proof.
  unfold f64_eq, f64_ord, f64_is_zero, two63, two64. intros Ha Hb.
  rewrite Z.eqb_eq.
  destruct (N.ltb_spec a 9223372036854775808) as [La|La]; destruct (N.ltb_spec b 9223372036854775808) as [Lb|Lb];
  destruct (N.eqb_spec a 0) as [Ea|Ea]; destruct (N.eqb_spec b 0) as [Eb|Eb];
  destruct (N.eqb_spec a 9223372036854775808) as [Fa|Fa]; destruct (N.eqb_spec b 9223372036854775808) as [Fb|Fb];
  cbn [orb]; split; intros HH; try lia; try (destruct HH as [HH|[H1 H2]]; try discriminate; lia).
Qed.

(* the byte order of the keys is Flocq's comparison of the decoded doubles *)
Lemma enc_f64_Bcompare a b c : (a < two64)%N -> (b < two64)%N ->
  f64_nan a = false -> f64_nan b = false ->
  lex_compare (enc_f64 a) (enc_f64 b) = c <->
  Binary.Bcompare 53 1024 (b64_of_bits (Z.of_N a)) (b64_of_bits (Z.of_N b)) = Some c.
Proof.
  intros Ha Hb Hna Hnb. rewrite f64_ord_Bcompare by assumption.
  rewrite enc_f64_compare by assumption. split; [now intros -> | congruence].
Qed.

(* ---------------- the real-number reading ---------------------------------- *)

Definition f64_finite (b : N) : bool := (b mod two63 <? 9218868437227405312)%N.

Lemma f64_finite_is_finite a : (a < two64)%N ->
  f64_finite a = Binary.is_finite 53 1024 (b64_of_bits (Z.of_N a)).
Proof.
  intros Ha. rewrite is_finite_b64.
  assert (Hm : f64_finite a = (Z.of_N a mod 9223372036854775808 <? 9218868437227405312)).
  { unfold f64_finite, two63.
    replace (Z.of_N a mod 9223372036854775808) with (Z.of_N (a mod 9223372036854775808)%N)
      by (now rewrite N2Z.inj_mod).
    destruct (N.ltb_spec (a mod 9223372036854775808) 9218868437227405312);
    destruct (Z.ltb_spec (Z.of_N (a mod 9223372036854775808)%N) 9218868437227405312); lia. }
  rewrite Hm. clear Hm.
  destruct (f64_nan a) eqn:Hn.
  - pose proof Hn as Hn'. rewrite f64_nan_is_nan in Hn' by assumption. unfold b64 in Hn'.
    rewrite is_nan_b64 in Hn'. rewrite f64_nan_mag in Hn.
    destruct (binary_float_of_bits_aux 52 11 (Z.of_N a)); try discriminate. cbn. lia.
  - pose proof (f64_sf_mag a Ha Hn) as H. unfold sf_of_bits in H.
    destruct (binary_float_of_bits_aux 52 11 (Z.of_N a)); cbn [FF2SF] in H; inversion H; cbn [is_finite_FF]; lia.
Qed.

Lemma f64_finite_not_nan a : f64_finite a = true -> f64_nan a = false.
Proof. unfold f64_finite, f64_nan. cbv zeta. lia. Qed.

Lemma f64_ord_Rcompare a b : (a < two64)%N -> (b < two64)%N ->
  f64_finite a = true -> f64_finite b = true ->
  Rcompare (Binary.B2R 53 1024 (b64_of_bits (Z.of_N a))) (Binary.B2R 53 1024 (b64_of_bits (Z.of_N b)))
  = Z.compare (f64_ord a) (f64_ord b).
Proof.
  intros Ha Hb Hfa Hfb.
  pose proof (f64_ord_Bcompare a b Ha Hb (f64_finite_not_nan a Hfa) (f64_finite_not_nan b Hfb)) as H.
  rewrite Binary.Bcompare_correct in H by (rewrite <- f64_finite_is_finite; assumption).
  congruence.
Qed.
