(* Run_C03.v -- verdict for C03 (graph vector search): soundness of every
   answer, exactness in the two regimes the property names. *)
From Coq Require Import List NArith ZArith QArith Bool.
From Semadb Require Import Bytes Pack Value Obs Dyadic KeyLayout Model_C01 Model_C02 Model_C04 Model_C10.
Import ListNotations.
Open Scope N_scope.

Fixpoint find_f32s (bucket key : bytes) (xs : list extra) : option (list N) :=
  match xs with
  | [] => None
  | XF32s b k v :: r => if bytes_eqb b bucket && bytes_eqb k key then Some v else find_f32s bucket key r
  | _ :: r => find_f32s bucket key r
  end.
Fixpoint find_oracle (qi : N) (xs : list extra) : list (bytes * N) :=
  match xs with
  | [] => []
  | XOracle i d :: r => if i =? qi then d else find_oracle qi r
  | _ :: r => find_oracle qi r
  end.
Fixpoint assoc_N (id : bytes) (l : list (bytes * N)) : option N :=
  match l with [] => None | (k, v) :: r => if bytes_eqb id k then Some v else assoc_N id r end.

Definition cands_for (sc : schema) (st : step) (qi : N) (prop : bytes) (metric : N) (qz : quant)
           (q : list N) (qfilter : option query) : option (list cand) :=
  let allowed := match qfilter with
                 | None => Some (map fst (s_live st))
                 | Some f => answer sc (s_lower st) (s_live st) f
                 end in
  match allowed with
  | None => None
  | Some ids =>
      let trained := find_f32s (vamana_bucket prop) bq_threshold_key (s_extra st) in
      let orc := find_oracle qi (s_extra st) in
      Some (flat_map (fun p =>
              if mem_bytes (fst p) ids then
                match vec_at prop (snd p) with
                | Some v => [mkCand (fst p) (model_dist metric qz trained q v)
                                    (option_map f64_to_Q (assoc_N (fst p) orc))]
                | None => []
                end
              else []) (s_live st))
  end.

(* insert_only: every batch so far was an insert *)
Definition judge_query (sc : schema) (st : step) (insert_only : bool) (qi : N) (rq : request * qout) : N :=
  let '(r, o) := rq in
  match rq_query r with
  | QVamana prop q ssize limit w qfilter =>
      match schema_get prop sc with
      | Some (IVamana dim metric isearch degree alpha qz) =>
          match cands_for sc st qi prop metric qz q qfilter with
          | None => 290
          | Some cs =>
              match o with
              | QError _ => 139
              | QRows rows =>
                  let c := sound_code limit w cs rows in
                  if negb (c =? 0) then c else
                  let n := N.of_nat (length cs) in
                  let exact :=
                    match qfilter with
                    | Some _ => n <=? ssize
                    | None => insert_only && (n <=? N.min degree (N.min (isearch - 1) (ssize - 1)))
                    end in
                  if exact then let k := ksel_code limit cs rows in if k =? 0 then 0 else 120 + k else 0
              end
          end
      | _ => 290
      end
  | _ => 0
  end.

Fixpoint judge_queries (sc : schema) (st : step) (io : bool) (qi : N) (qs : list (request * qout)) : N :=
  match qs with
  | [] => 0
  | rq :: r => let c := judge_query sc st io qi rq in if c =? 0 then judge_queries sc st io (qi + 1) r else c
  end.

Definition is_insert (b : batch) : bool := match b with BInsert _ => true | _ => false end.

Fixpoint judge_steps (sc : schema) (i : N) (io : bool) (steps : list step) : N :=
  match steps with
  | [] => 0
  | st :: rest =>
      match s_out st with
      | OCrash _ => 0
      | _ =>
          let io' := io && is_insert (s_batch st) in
          (* note 950: the harness-side sweep of the visited set (a node added twice is kept once, for largest
             node ids around every size class of the pooled bit sets) failed *)
          let c := if existsb (fun x => match x with XNote n => n =? 950 | _ => false end) (s_extra st) then 138
                   else judge_queries sc st io' 0 (s_queries st) in
          if c =? 0 then judge_steps sc (i + 1) io' rest else c + 1000 * (i + 1)
      end
  end.

Definition verdict (h : hist) : N := judge_steps (h_schema h) 0 true (h_steps h).

Fixpoint bad_from (i : N) (cs : list hist) : list (N * N) :=
  match cs with
  | [] => []
  | c :: r => let v := verdict c in
              if v =? 0 then bad_from (i + 1) r else (i, v) :: bad_from (i + 1) r
  end.
Definition bad (cs : list hist) : list (N * N) := bad_from 0 cs.
