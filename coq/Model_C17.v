(* Model_C17.v -- multi-shard fan-out and merge (cluster/actions.go).
   Definitions only.

   A collection is a list of shards; a shard is a point store S of C01 with an
   availability flag (false = the server holding it does not answer).
     fan_update / fan_delete   UpdatePoints / DeletePoints: the request goes to
                               EVERY shard; a shard answers the ids it processed
                               (Some ids) or does not answer (None)
     bsearch, curate_failed    curateFailedPoints: sort the success ids, then a
                               binary search per requested id; one message for
                               all failed ids
     per_shard_limit/_offset   the rewriting of limit and offset in SearchPoints
                               (float32 arithmetic as the Go compiler performs it)
     merged / merge_search     concatenate the per-shard answers, re-sort when
                               there is more than one shard, cut at the limit
     cluster_search            the whole search given every shard's full answer *)
From Coq Require Import List NArith ZArith Bool Arith Sorted Permutation.
From Semadb Require Import Bytes U64 Value Obs KeyLayout Model_C19 Model_C01 Model_C02 Model_C04 Model_C06 Model_C06M.
Import ListNotations.
Open Scope N_scope.

(* ------------------------------------------------------------ collection -- *)

Record shardst := mkShard { sh_store : store; sh_up : bool }.
Definition collection := list shardst.

(* the collection seen as ONE store: the reference state of C01/C02/C06 *)
Definition flat (c : collection) : store := concat (map sh_store c).
Definition store_ids (s : store) : list uuid := map fst s.
Definition all_ids (c : collection) : list uuid := concat (map (fun sh => store_ids (sh_store sh)) c).
(* ids unique per collection: no id twice in a shard, no id in two shards *)
Definition unique_ids (c : collection) : Prop := NoDup (all_ids c).
Definition all_up (c : collection) : bool := forallb sh_up c.

(* ------------------------------------------------------------- fan-out ---- *)

(* what one shard answers: the ids it processed, or nothing (unavailable / error) *)
Definition shard_resp := option (list uuid).

Definition shard_update (sc : schema) (maxsize : N) (ps : list (uuid * doc)) (sh : shardst)
  : shardst * shard_resp :=
  if sh_up sh then
    match update_spec sc maxsize ps (sh_store sh) with
    | (s', SOk ids) => (mkShard s' true, Some ids)
    | (_, SErr _) => (sh, None)              (* the shard's transaction failed: RPC error *)
    end
  else (sh, None).

Definition shard_delete (ids : list uuid) (sh : shardst) : shardst * shard_resp :=
  if sh_up sh then
    match delete_spec ids (sh_store sh) with
    | (s', SOk known) => (mkShard s' true, Some known)
    | (_, SErr _) => (sh, None)
    end
  else (sh, None).

(* the parts of the reference spec of C01 the statements speak about:
   the ids a deletion finds, the store and the ids an update batch produces *)
Definition known_of (ids : list uuid) (s : store) : list uuid := filter (fun id => st_mem id s) (dedup ids).
Definition upd_store (sc : schema) (maxsize : N) (ps : list (uuid * doc)) (s : store) : store :=
  fst (fst (update_go sc maxsize ps s)).
Definition upd_ids (sc : schema) (maxsize : N) (ps : list (uuid * doc)) (s : store) : list uuid :=
  snd (fst (update_go sc maxsize ps s)).

Definition fan_update (sc : schema) (maxsize : N) (ps : list (uuid * doc)) (c : collection)
  : collection * list shard_resp :=
  (map (fun sh => fst (shard_update sc maxsize ps sh)) c, map (fun sh => snd (shard_update sc maxsize ps sh)) c).

Definition fan_delete (ids : list uuid) (c : collection) : collection * list shard_resp :=
  (map (fun sh => fst (shard_delete ids sh)) c, map (fun sh => snd (shard_delete ids sh)) c).

Definition resp_ids (r : shard_resp) : list uuid := match r with Some l => l | None => [] end.
(* results = append(results, resp.UpdatedIds...) over the shards that answered *)
Definition successes (rs : list shard_resp) : list uuid := concat (map resp_ids rs).
(* successCount == len(col.ShardIds) *)
Definition complete (rs : list shard_resp) : bool :=
  forallb (fun r => match r with Some _ => true | None => false end) rs.

(* InsertPoints: distributePoints gives every shard (existing ones first, then the
   created ones) one contiguous part of the id-sorted batch, possibly empty; a part
   that a shard refuses (or cannot receive) is reported as a failed range and
   leaves that shard unchanged *)
Definition shard_insert (sc : schema) (ps : list (uuid * doc)) (sh : shardst) : shardst :=
  if sh_up sh then
    match insert_spec sc ps (sh_store sh) with
    | (s', SOk _) => mkShard s' true
    | (_, SErr _) => sh
    end
  else sh.
Fixpoint fan_insert (sc : schema) (parts : list (list (uuid * doc))) (c : collection) : collection :=
  match parts, c with
  | [], _ => c
  | p :: parts', sh :: c' => shard_insert sc p sh :: fan_insert sc parts' c'
  | p :: parts', [] => shard_insert sc p (mkShard [] true) :: fan_insert sc parts' []
  end.

(* ------------------------------------------------- curateFailedPoints ----- *)

(* slices.BinarySearchFunc(x, target, cmp):
     i, j := 0, n
     for i < j { h := int(uint(i+j) >> 1); if cmp(x[h], target) < 0 { i = h + 1 } else { j = h } }
     return i, i < n && cmp(x[i], target) == 0
   one unit of fuel per iteration (j - i shrinks every time, so |x| suffices) *)
Fixpoint bs_loop (fuel : nat) (l : list uuid) (t : uuid) (i j : nat) : nat :=
  match fuel with
  | O => i
  | S f =>
      if (i <? j)%nat then
        let h := ((i + j) / 2)%nat in
        match lex_compare (nth h l []) t with
        | Lt => bs_loop f l t (S h) j
        | _ => bs_loop f l t i h
        end
      else i
  end.
Definition bsearch (l : list uuid) (t : uuid) : nat * bool :=
  let i := bs_loop (length l) l t 0 (length l) in
  (i, (i <? length l)%nat && bytes_eqb (nth i l []) t).

Definition MSG_NOT_FOUND : N := 0.      (* "not found" *)
Definition MSG_UNAVAILABLE : N := 1.    (* ErrShardUnavailable.Error() *)
Definition failed_msg (is_complete : bool) : N := if is_complete then MSG_NOT_FOUND else MSG_UNAVAILABLE.

(* the loop over allIds against an already sorted success slice *)
Definition curate_sorted (all sorted : list uuid) (is_complete : bool) : list (uuid * N) :=
  map (fun id => (id, failed_msg is_complete))
      (filter (fun id => negb (snd (bsearch sorted id))) all).
(* slices.SortFunc(successIds, bytes.Compare) first *)
Definition curate_failed (all success : list uuid) (is_complete : bool) : list (uuid * N) :=
  curate_sorted all (sort_by lex_compare success) is_complete.

(* the reference: requested ids that are not among the processed ones, in request order *)
Definition failed_spec (all success : list uuid) (is_complete : bool) : list (uuid * N) :=
  map (fun id => (id, failed_msg is_complete)) (filter (fun id => negb (mem_bytes id success)) all).

Definition update_points (sc : schema) (maxsize : N) (ps : list (uuid * doc)) (c : collection)
  : collection * list (uuid * N) :=
  let r := fan_update sc maxsize ps c in
  (fst r, curate_failed (map fst ps) (successes (snd r)) (complete (snd r))).
Definition delete_points (ids : list uuid) (c : collection) : collection * list (uuid * N) :=
  let r := fan_delete ids c in
  (fst r, curate_failed ids (successes (snd r)) (complete (snd r))).

(* --------------------------------------------- per-shard limit / offset --- *)

(* non-negative rationals n/d, d > 0 *)
Definition frac := (N * N)%type.
Definition fr_mul (a b : frac) : frac := (fst a * fst b, snd a * snd b).
Definition fr_add (a b : frac) : frac := (fst a * snd b + fst b * snd a, snd a * snd b).
Definition fr_inv (a : frac) : frac := (snd a, fst a).
Definition fr_floor (a : frac) : N := fst a / snd a.
Definition fr_le (a b : frac) : Prop := fst a * snd b <= fst b * snd a.

(* 2^k <= n/d, for an integer k of either sign *)
Definition ge_pow2 (n d : N) (k : Z) : bool :=
  if (0 <=? k)%Z then d * 2 ^ Z.to_N k <=? n else d <=? n * 2 ^ Z.to_N (- k).

(* the binary exponent e of the float32 grid around n/d > 0: 2^23 <= (n/d) / 2^e < 2^24 *)
Definition f32_exp_of (n d : N) : Z :=
  let k := (Z.of_N (N.log2 n) - Z.of_N (N.log2 d))%Z in
  ((if ge_pow2 n d k then k else k - 1) - 23)%Z.

(* round half to even of num/den *)
Definition round_even (num den : N) : N :=
  let q := num / den in
  let r := num mod den in
  if 2 * r <? den then q else if den <? 2 * r then q + 1 else if N.even q then q else q + 1.

(* nearest float32 (ties to even) of a non-negative rational, as a rational again.
   Valid in the normal range 2^-126 <= x < 2^128, which every value below lies in. *)
Definition r32 (x : frac) : frac :=
  let n := fst x in
  let d := snd x in
  if n =? 0 then (0, 1)
  else
    let e := f32_exp_of n d in
    if (0 <=? e)%Z then (round_even n (d * 2 ^ Z.to_N e) * 2 ^ Z.to_N e, 1)
    else (round_even (n * 2 ^ Z.to_N (- e)) d, 2 ^ Z.to_N (- e)).

(* poissonApproxA = 1.42 and poissonApproxB = 10.0 converted to float32 *)
Definition poisson_a : frac := r32 (142, 100).
Definition poisson_b : frac := r32 (10, 1).

(* int(float32(limit) * (1/float32(nshards)) * poissonApproxA + poissonApproxB):
   four float32 operations, each rounded, then truncation *)
Definition poisson_target (limit nshards : N) : N :=
  let inv := r32 (fr_inv (r32 (nshards, 1))) in
  let p1 := r32 (fr_mul (r32 (limit, 1)) inv) in
  let p2 := r32 (fr_mul p1 poisson_a) in
  fr_floor (r32 (fr_add p2 poisson_b)).

(* targetLimit, then capped by MaxSearchLimit, then by the requested limit *)
Definition per_shard_limit (limit nshards maxlimit : N) : N :=
  N.min (N.min (poisson_target limit nshards) maxlimit) limit.

(* if len(shards) > 1 && offset % len(shards) == 0 { offset = offset / len(shards) } *)
Definition per_shard_offset (offset nshards : N) : N :=
  if (1 <? nshards) && (offset mod nshards =? 0) then offset / nshards else offset.

(* ------------------------------------------------------------- merge ------ *)

Definition row_doc (r : row) : doc := match r_doc r with Some d => d | None => [] end.
(* cmp.Compare(b.HybridScore, a.HybridScore): highest first (float32 order, -0 = +0) *)
Definition hyb_cmp (a b : row) : comparison := Z.compare (f32_ord (r_hybrid b)) (f32_ord (r_hybrid a)).
(* no sort option: hybrid score descending; else utils.SortSearchResults on the decoded data *)
Definition row_cmp (keys : list (bytes * bool)) : row -> row -> comparison :=
  match keys with
  | [] => hyb_cmp
  | _ => fun a b => sort_cmp keys (row_doc a) (row_doc b)
  end.

Definition cut {A} (limit : N) (l : list A) : list A := firstn (N.to_nat limit) l.

(* relational: [res] is a possible result of merging the per-shard [answers] (in any
   order of arrival) -- slices.SortFunc is not stable, every sorted permutation is allowed *)
Definition merged (keys : list (bytes * bool)) (limit : N) (answers : list (list row)) (res : list row) : Prop :=
  exists l,
    (if (1 <? length answers)%nat then is_sorted_perm (row_cmp keys) (concat answers) l
     else l = concat answers) /\
    res = cut limit l.

(* one executable instance (insertion sort) *)
Definition merge_search (keys : list (bytes * bool)) (limit : N) (answers : list (list row)) : list row :=
  cut limit (if (1 <? length answers)%nat then sort_by (row_cmp keys) (concat answers) else concat answers).

(* a shard's contribution: its full answer (already in the shard's own order), paged *)
Definition shard_pages (limit offset maxlimit : N) (full : list (list row)) : list (list row) :=
  let n := N.of_nat (length full) in
  map (page (per_shard_offset offset n) (per_shard_limit limit n maxlimit)) full.

(* SearchPoints, given what every shard would answer to the unpaged request *)
Definition cluster_search (keys : list (bytes * bool)) (limit offset maxlimit : N) (full : list (list row))
  : list row :=
  merge_search keys limit (shard_pages limit offset maxlimit full).

(* any shard error fails the whole search *)
Definition cluster_search_up (ups : list bool) (keys : list (bytes * bool)) (limit offset maxlimit : N)
           (full : list (list row)) : option (list row) :=
  if forallb (fun b => b) ups then Some (cluster_search keys limit offset maxlimit full) else None.

(* pairwise disjoint id sets *)
Definition ids_disjoint (a b : list row) : Prop := forall id, In id (map r_id a) -> ~ In id (map r_id b).
