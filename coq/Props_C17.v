(* Props_C17.v -- property C17: multi-shard fan-out finds each point exactly
   once and merges results in order.  Only statements; every proof is
   `exact <lemma>`.

   Vocabulary (Model_C17.v): a collection is a list of shards, each a store of
   C01 with an availability flag; `flat c` is the collection seen as ONE store
   (the reference state of C01/C02/C06); `unique_ids c` = no id twice in the
   collection.  `fan_delete` / `fan_update` send the request to every shard and
   collect `Some ids` (what the shard processed) or `None` (no answer);
   `curate_failed` is curateFailedPoints (sort + binary search); `merged` is the
   relation "res is a possible result of concatenating the per-shard answers,
   sorting them with ANY correct sort when there are several, and cutting at
   the limit"; `cluster_search` is SearchPoints given every shard's full answer.
   All statements hold for every number of shards, every placement on servers
   (the model does not depend on it), every store content and every request. *)
From Coq Require Import List NArith ZArith Bool Arith Sorted Permutation.
From Semadb Require Import Bytes Value Obs Model_C01 Model_C02 Model_C06 Model_C06M Model_C17 Proofs_C17.
Import ListNotations.
Open Scope N_scope.

(* --- the binary search of curateFailedPoints on a slice sorted by bytes.Compare: it returns the lower
       bound of the target and "found" exactly when the target occurs --- *)
Theorem c17_binary_search_sound : forall (l : list uuid) (t : uuid),
  Sorted (cle lex_compare) l ->
  (snd (bsearch l t) = true <-> In t l) /\
  (fst (bsearch l t) <= length l)%nat /\
  (forall k, (k < fst (bsearch l t))%nat -> lex_compare (nth k l []) t = Lt) /\
  (forall k, (fst (bsearch l t) <= k)%nat -> (k < length l)%nat -> lex_compare (nth k l []) t <> Lt).
Proof. exact thm_binary_search. Qed.
Print Assumptions c17_binary_search_sound.

(* --- failed = requested minus processed, in request order with the request's duplicates; one message
       for all of them: "not found" iff every shard answered --- *)
Theorem c17_failed_exact : forall (all success : list uuid) (is_complete : bool),
  curate_failed all success is_complete =
    map (fun id => (id, failed_msg is_complete)) (filter (fun id => negb (mem_bytes id success)) all) /\
  (forall id m, In (id, m) (curate_failed all success is_complete) <->
                In id all /\ ~ In id success /\ m = failed_msg is_complete) /\
  (forall sorted, Permutation success sorted -> Sorted (cle lex_compare) sorted ->
                  curate_sorted all sorted is_complete = curate_failed all success is_complete) /\
  (failed_msg is_complete = MSG_NOT_FOUND <-> is_complete = true) /\
  (failed_msg is_complete = MSG_UNAVAILABLE <-> is_complete = false).
Proof. exact thm_failed_exact. Qed.
Print Assumptions c17_failed_exact.

(* --- delete: with ids unique per collection every available shard reports exactly the requested ids it
       holds, shards holding none of them are untouched, and no id is reported twice (by one shard or by
       two); also with unavailable shards --- *)
Theorem c17_found_once : forall (ids : list uuid) (c : collection), unique_ids c ->
  let c' := fst (fan_delete ids c) in
  let rs := snd (fan_delete ids c) in
  (forall k sh, nth_error c k = Some sh ->
     nth_error rs k = Some (if sh_up sh then Some (known_of ids (sh_store sh)) else None) /\
     nth_error c' k = Some (if sh_up sh then mkShard (fst (delete_spec ids (sh_store sh))) true else sh)) /\
  (forall k sh sh', nth_error c k = Some sh -> nth_error c' k = Some sh' ->
     (forall id, In id ids -> ~ In id (store_ids (sh_store sh))) -> sh' = sh) /\
  NoDup (successes rs) /\
  (forall k1 k2 r1 r2 id, nth_error rs k1 = Some r1 -> nth_error rs k2 = Some r2 ->
     In id (resp_ids r1) -> In id (resp_ids r2) -> k1 = k2) /\
  (forall id, In id (successes rs) <->
     In id ids /\ exists sh, In sh c /\ sh_up sh = true /\ In id (store_ids (sh_store sh))).
Proof. exact thm_found_once_delete. Qed.
Print Assumptions c17_found_once.

(* --- update: the same; a shard that answers applies the batch to the requested ids it holds, a shard
       that does not answer (down, or its transaction failed) is unchanged --- *)
Theorem c17_found_once_update : forall sc mx (ps : list (uuid * doc)) (c : collection),
  unique_ids c -> NoDup (map fst ps) ->
  let c' := fst (fan_update sc mx ps c) in
  let rs := snd (fan_update sc mx ps c) in
  (forall k sh, nth_error c k = Some sh ->
     exists r sh', nth_error rs k = Some r /\ nth_error c' k = Some sh' /\
       ((r = None /\ sh' = sh) \/
        (r = Some (filter (fun id => st_mem id (sh_store sh)) (map fst ps)) /\ sh_up sh = true /\
         sh' = mkShard (upd_store sc mx ps (sh_store sh)) true))) /\
  (forall k sh sh', nth_error c k = Some sh -> nth_error c' k = Some sh' ->
     (forall id, In id (map fst ps) -> ~ In id (store_ids (sh_store sh))) -> sh' = sh) /\
  NoDup (successes rs) /\
  (forall k1 k2 r1 r2 id, nth_error rs k1 = Some r1 -> nth_error rs k2 = Some r2 ->
     In id (resp_ids r1) -> In id (resp_ids r2) -> k1 = k2) /\
  (forall id, In id (successes rs) -> In id (map fst ps) /\ In id (all_ids c)).
Proof. exact thm_found_once_update. Qed.
Print Assumptions c17_found_once_update.

(* --- against ONE collection-level reference (all shards available): the shards together behave as the
       delete of C01 on the whole collection, and the response lists exactly the requested ids that were
       not stored, as "not found" --- *)
Theorem c17_delete_reference : forall (ids : list uuid) (c : collection), all_up c = true ->
  let c' := fst (fan_delete ids c) in
  let rs := snd (fan_delete ids c) in
  (forall id, st_get id (flat c') = st_get id (fst (delete_spec ids (flat c)))) /\
  (forall id, In id (successes rs) <-> In id (known_of ids (flat c))) /\
  complete rs = true /\
  snd (delete_points ids c) =
    map (fun id => (id, MSG_NOT_FOUND)) (filter (fun id => negb (st_mem id (flat c))) ids).
Proof. exact thm_delete_reference. Qed.
Print Assumptions c17_delete_reference.

(* --- the same for update, whenever every shard answered --- *)
Theorem c17_update_reference : forall sc mx (ps : list (uuid * doc)) (c : collection),
  complete (snd (fan_update sc mx ps c)) = true ->
  let c' := fst (fan_update sc mx ps c) in
  let rs := snd (fan_update sc mx ps c) in
  (forall id, st_get id (flat c') = st_get id (upd_store sc mx ps (flat c))) /\
  (forall id, In id (successes rs) <-> In id (upd_ids sc mx ps (flat c))) /\
  snd (update_points sc mx ps c) =
    map (fun id => (id, MSG_NOT_FOUND)) (filter (fun id => negb (st_mem id (flat c))) (map fst ps)).
Proof. exact thm_update_reference. Qed.
Print Assumptions c17_update_reference.

(* --- insert: when distributePoints gives every new point to one shard (parts: one sub-batch per shard, new
       shards after the existing ones) and the ids are new, every inserted point is found with its document
       through the collection seen as one store, which is exactly the insert of C01 on that store --- *)
Theorem c17_insert_reference : forall sc (parts : list (list (uuid * doc))) (c : collection),
  all_up c = true ->
  NoDup (map fst (concat parts)) ->
  (forall id, In id (map fst (concat parts)) -> ~ In id (all_ids c)) ->
  Forall (fun p => forallb (fun q => well_typed sc (snd q)) p = true) parts ->
  (forall id, st_get id (flat (fan_insert sc parts c)) =
              match st_get id (concat parts) with Some d => Some d | None => st_get id (flat c) end) /\
  insert_spec sc (concat parts) (flat c) =
    (fold_left (fun acc p => st_set (fst p) (snd p) acc) (concat parts) (flat c), SOk []) /\
  (forall id, st_get id (flat (fan_insert sc parts c)) =
              st_get id (fst (insert_spec sc (concat parts) (flat c)))).
Proof. exact thm_insert_reference. Qed.
Print Assumptions c17_insert_reference.

(* --- the hypothesis of c17_found_once is an invariant of every history: an insert that gives each new
       point to one shard (parts = the ranges of distributePoints, C15), an update and a delete keep the
       ids unique per collection, whatever shards are available or refuse their part --- *)
Theorem c17_unique_preserved :
  (forall sc parts c, unique_ids c -> NoDup (map fst (concat parts)) ->
     (forall id, In id (map fst (concat parts)) -> ~ In id (all_ids c)) ->
     unique_ids (fan_insert sc parts c)) /\
  (forall sc mx ps c, unique_ids c -> unique_ids (fst (fan_update sc mx ps c))) /\
  (forall ids c, unique_ids c -> unique_ids (fst (fan_delete ids c))).
Proof. exact thm_unique_preserved. Qed.
Print Assumptions c17_unique_preserved.

(* --- the merge, for ANY per-shard answers and ANY correct sort --- *)
Theorem c17_merge : forall keys limit (answers : list (list row)) (res : list row),
  merged keys limit answers res ->
  (length res <= N.to_nat limit)%nat /\
  (forall r, In r res -> exists a, In a answers /\ In r a) /\
  (Forall (fun a => NoDup (map r_id a)) answers -> ForallOrdPairs ids_disjoint answers ->
   NoDup (map r_id res)) /\
  ((1 < length answers)%nat ->
   Sorted (cle (row_cmp keys)) res /\
   exists rest, Permutation (concat answers) (res ++ rest) /\
                forall x y, In x res -> In y rest -> cle (row_cmp keys) x y) /\
  ((length answers <= 1)%nat -> res = cut limit (concat answers)).
Proof. exact thm_merge. Qed.
Print Assumptions c17_merge.

(* the executable merge is one of the allowed results, and the order it sorts by is a total preorder
   (hybrid score descending without sort keys, utils.SortSearchResults' comparator with them) *)
Theorem c17_merge_search_correct : forall keys limit (answers : list (list row)),
  merged keys limit answers (merge_search keys limit answers) /\ cmp_preorder (row_cmp keys).
Proof. exact thm_merge_search_correct. Qed.
Print Assumptions c17_merge_search_correct.

(* --- the per-shard limit: never above the requested limit or MaxSearchLimit, never below
       min(10, MaxSearchLimit, limit); so it only bounds the result from above --- *)
Theorem c17_limit_bounds : forall limit nshards maxlimit,
  per_shard_limit limit nshards maxlimit <= limit /\
  per_shard_limit limit nshards maxlimit <= maxlimit /\
  N.min (N.min 10 maxlimit) limit <= per_shard_limit limit nshards maxlimit /\
  (1 <= limit -> 1 <= maxlimit -> 1 <= per_shard_limit limit nshards maxlimit).
Proof. exact thm_limit_bounds. Qed.
Print Assumptions c17_limit_bounds.

(* in the range of the API the four rounded float32 operations give floor(1.42 * limit / nshards) + 10 *)
Theorem c17_limit_formula_api_range : forall limit nshards, limit <= 100 -> 1 <= nshards <= 64 ->
  poisson_target limit nshards = (142 * limit) / (100 * nshards) + 10.
Proof. exact thm_limit_formula_api_range. Qed.
Print Assumptions c17_limit_formula_api_range.

Theorem c17_limit_single_shard : forall limit maxlimit, limit <= 100 ->
  per_shard_limit limit 1 maxlimit = N.min limit maxlimit.
Proof. exact thm_limit_single_shard. Qed.
Print Assumptions c17_limit_single_shard.

(* what the heuristic does NOT guarantee: a search can return fewer than `limit` rows although the
   shards hold more matching ones (40 matches in one of two shards, limit 40: 38 rows) *)
Theorem c17_poisson_can_return_fewer :
  exists (limit maxlimit : N) (full : list (list row)),
    (N.to_nat limit <= length (concat full))%nat /\
    NoDup (map r_id (concat full)) /\
    (length (cluster_search [] limit 0 maxlimit full) < N.to_nat limit)%nat.
Proof. exact thm_poisson_can_return_fewer. Qed.
Print Assumptions c17_poisson_can_return_fewer.

(* when no shard has more rows than the per-shard limit and there is no offset, nothing is lost:
   the result is a merge of the FULL answers, hence all rows when there are at most `limit` *)
Theorem c17_exact_regime : forall keys limit maxlimit (full : list (list row)),
  let n := N.of_nat (length full) in
  1 <= limit -> 1 <= maxlimit ->
  Forall (fun a => (length a <= N.to_nat (per_shard_limit limit n maxlimit))%nat) full ->
  shard_pages limit 0 maxlimit full = full /\
  merged keys limit full (cluster_search keys limit 0 maxlimit full) /\
  ((length (concat full) <= N.to_nat limit)%nat ->
   Permutation (concat full) (cluster_search keys limit 0 maxlimit full)).
Proof. exact thm_exact_regime. Qed.
Print Assumptions c17_exact_regime.

(* --- offsets: which rows are skipped --- *)
Theorem c17_offset_semantics : forall keys limit offset maxlimit (full : list (list row)),
  let n := N.of_nat (length full) in
  let o' := per_shard_offset offset n in
  let l' := per_shard_limit limit n maxlimit in
  cluster_search keys limit offset maxlimit full = merge_search keys limit (map (page o' l') full) /\
  (1 <= limit -> 1 <= maxlimit ->
   map (page o' l') full = map (fun a => firstn (N.to_nat l') (skipn (N.to_nat o') a)) full) /\
  (forall a, full = [a] -> 1 <= limit -> 1 <= maxlimit ->
     cluster_search keys limit offset maxlimit full = firstn (N.to_nat l') (skipn (N.to_nat offset) a)) /\
  (1 < n -> offset mod n = 0 ->
     o' = offset / n /\
     (length (concat (map (firstn (N.to_nat o')) full)) <= N.to_nat offset)%nat /\
     (Forall (fun a => (N.to_nat o' <= length a)%nat) full ->
      length (concat (map (firstn (N.to_nat o')) full)) = N.to_nat offset)).
Proof. exact thm_offset_semantics. Qed.
Print Assumptions c17_offset_semantics.

(* the behaviour documented in the comment of SearchPoints: an offset that is not a multiple of the shard
   count goes unchanged to every shard, so up to nshards * offset rows are skipped *)
Theorem c17_offset_not_multiple : forall limit offset maxlimit (full : list (list row)),
  let n := N.of_nat (length full) in
  1 < n -> offset mod n <> 0 ->
  per_shard_offset offset n = offset /\
  shard_pages limit offset maxlimit full = map (page offset (per_shard_limit limit n maxlimit)) full /\
  (length (concat (map (firstn (N.to_nat offset)) full)) <= length full * N.to_nat offset)%nat /\
  (Forall (fun a => (N.to_nat offset <= length a)%nat) full ->
   length (concat (map (firstn (N.to_nat offset)) full)) = (length full * N.to_nat offset)%nat).
Proof. exact thm_offset_not_multiple. Qed.
Print Assumptions c17_offset_not_multiple.

(* ------------------------------------------------------------------------------------------------ *)
(* non-vacuity: concrete instances computed by the kernel                                            *)

Definition ex_id (k : N) : uuid := [k; 0; 7].
Definition ex_doc (k : Z) : doc := [([105], VInt k)].                       (* {"i": k} *)
Definition ex_col : collection :=
  [ mkShard [(ex_id 1, ex_doc 10); (ex_id 5, ex_doc 50)] true;
    mkShard [(ex_id 3, ex_doc 30)] true;
    mkShard [(ex_id 9, ex_doc 90); (ex_id 2, ex_doc 20)] true ].
Definition ex_col_down : collection :=
  [ mkShard [(ex_id 1, ex_doc 10); (ex_id 5, ex_doc 50)] true;
    mkShard [(ex_id 3, ex_doc 30)] false;
    mkShard [(ex_id 9, ex_doc 90); (ex_id 2, ex_doc 20)] true ].

Example c17_ex_unique : unique_ids ex_col /\ all_up ex_col = true /\ all_up ex_col_down = false.
Proof. split; [|split; reflexivity]. apply (proj1 (Proofs_C06.nodup_ids_NoDup _)). reflexivity. Qed.

(* delete 9, 4 (unknown), 3, 9 again: shard 1 reports 3, shard 2 reports 9 once; failed = [4] "not found";
   with shard 1 down: failed = [4; 3] "unavailable" and point 3 survives *)
Example c17_ex_delete :
  snd (fan_delete [ex_id 9; ex_id 4; ex_id 3; ex_id 9] ex_col) = [Some []; Some [ex_id 3]; Some [ex_id 9]] /\
  snd (delete_points [ex_id 9; ex_id 4; ex_id 3; ex_id 9] ex_col) = [(ex_id 4, MSG_NOT_FOUND)] /\
  map (fun sh => store_ids (sh_store sh)) (fst (fan_delete [ex_id 9; ex_id 4; ex_id 3; ex_id 9] ex_col))
    = [[ex_id 1; ex_id 5]; []; [ex_id 2]] /\
  snd (delete_points [ex_id 9; ex_id 4; ex_id 3; ex_id 9] ex_col_down)
    = [(ex_id 4, MSG_UNAVAILABLE); (ex_id 3, MSG_UNAVAILABLE)] /\
  map (fun sh => store_ids (sh_store sh)) (fst (fan_delete [ex_id 9; ex_id 4; ex_id 3; ex_id 9] ex_col_down))
    = [[ex_id 1; ex_id 5]; [ex_id 3]; [ex_id 2]].
Proof. vm_compute. repeat split; reflexivity. Qed.

(* insert of three new points: one into the room of shard 1, two into a new fourth shard *)
Example c17_ex_insert :
  let parts := [[]; [(ex_id 4, ex_doc 40)]; []; [(ex_id 6, ex_doc 60); (ex_id 7, ex_doc 70)]] in
  map (fun sh => store_ids (sh_store sh)) (fan_insert [] parts ex_col)
    = [[ex_id 1; ex_id 5]; [ex_id 4; ex_id 3]; [ex_id 9; ex_id 2]; [ex_id 7; ex_id 6]] /\
  st_get (ex_id 7) (flat (fan_insert [] parts ex_col)) = Some (ex_doc 70).
Proof. vm_compute. split; reflexivity. Qed.

(* update of 5 and of the unknown 7: only shard 0 changes *)
Example c17_ex_update :
  snd (update_points [] 1000 [(ex_id 5, ex_doc 55); (ex_id 7, ex_doc 70)] ex_col) = [(ex_id 7, MSG_NOT_FOUND)] /\
  st_get (ex_id 5) (flat (fst (update_points [] 1000 [(ex_id 5, ex_doc 55); (ex_id 7, ex_doc 70)] ex_col)))
    = Some (ex_doc 55) /\
  complete (snd (fan_update [] 1000 [(ex_id 5, ex_doc 55); (ex_id 7, ex_doc 70)] ex_col)) = true.
Proof. vm_compute. repeat split; reflexivity. Qed.

(* the binary search on a sorted slice with a prefix pair and a duplicate *)
Example c17_ex_bsearch :
  let l := [[1]; [1; 0]; [1; 0]; [2]; [255; 255]] in
  Sorted (cle lex_compare) l /\
  map (fun t => bsearch l t) [[0]; [1]; [1; 0]; [1; 1]; [2]; [3]; [255; 255]; [255; 255; 0]]
  = [(0, false); (0, true); (1, true); (3, false); (3, true); (4, false); (4, true); (5, false)]%nat.
Proof. split; [|vm_compute; reflexivity]. repeat constructor; cbn; discriminate. Qed.

(* merge: three shards, sort by "i" ascending, limit 4 *)
Definition ex_row (k : N) (i : Z) : row := mkRow (ex_id k) (Some (ex_doc i)) None None 0.
Example c17_ex_merge :
  let answers := [[ex_row 1 10; ex_row 5 50]; [ex_row 3 30]; [ex_row 2 20; ex_row 9 90]] in
  map r_id (merge_search [([105], false)] 4 answers) = [ex_id 1; ex_id 2; ex_id 3; ex_id 5] /\
  Forall (fun a => NoDup (map r_id a)) answers /\ ForallOrdPairs ids_disjoint answers.
Proof.
  split; [vm_compute; reflexivity|]. split.
  - repeat constructor; cbn; intuition discriminate.
  - repeat constructor; intros id; cbn; intuition (subst; discriminate).
Qed.

(* limits of the API range *)
Example c17_ex_limits :
  map (fun p => per_shard_limit (fst p) (snd p) 75) [(100, 1); (100, 2); (100, 3); (100, 6); (40, 2); (20, 6); (10, 3); (3, 2); (1, 6)]
  = [75; 75; 57; 33; 38; 14; 10; 3; 1].
Proof. vm_compute. reflexivity. Qed.

(* offsets.  Two shards A = 1,2,3 and B = 4,5,6 (sorted by "i"), limit 2:
   offset 2 (a multiple of 2): each shard skips ONE row -> rows 2,5 merged -> [2;3], whereas the global
   slice would be [3;4];  offset 1 (not a multiple): each shard skips one row too -> the same answer;
   offset 3: every shard skips three rows -> nothing is returned although 6 rows exist *)
Example c17_ex_offsets :
  let full := [[ex_row 1 1; ex_row 2 2; ex_row 3 3]; [ex_row 4 4; ex_row 5 5; ex_row 6 6]] in
  map r_id (cluster_search [([105], false)] 2 2 75 full) = [ex_id 2; ex_id 3] /\
  map r_id (cluster_search [([105], false)] 2 1 75 full) = [ex_id 2; ex_id 3] /\
  map r_id (cluster_search [([105], false)] 2 3 75 full) = [] /\
  map r_id (cluster_search [([105], false)] 2 0 75 full) = [ex_id 1; ex_id 2].
Proof. vm_compute. repeat split; reflexivity. Qed.
