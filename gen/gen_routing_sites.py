#!/usr/bin/env python3
"""Translator: the placement call sites of cluster/*.go -> coq/RoutingSites.v

Property C13 speaks about "the server responsible for a user, collection record
or shard" as computed wherever the code routes, not only about the function
RendezvousHash. This translator lists every call of RendezvousHash in the
non-test, non-verif files of cluster/ and demands of each the shape

    <lhs> RendezvousHash(<key>, c.Servers, 1)[0]

where <key> is one of the recognised key expressions (a user id or a shard id)
and, where the key is a local variable, that the variable was bound -- in the
directly preceding statement of the same block, or as the loop / parameter
variable -- to the id of the record or shard at hand. A call site of any other
shape (a cached destination, a conditional recomputation, a different server
list, topK != 1, another element than [0]) is a shape change: exit 3, the
previous output is kept. Coq re-checks the generated list (Props_C13:
c13_sites_route_by_key).

It also demands that the node's server list is the configured one, unmodified.

Usage: gen_routing_sites.py <repo> <out.v>     exit 0 ok / 3 shape not recognised
"""
import os, re, sys

CALL = re.compile(r'^(?P<lhs>Dest:\s*|targetServer\s*:=\s*|destination\s*:=\s*)RendezvousHash\((?P<key>[A-Za-z_.]+), c\.Servers, 1\)\[0\],?$')
# key expression -> (kind, how the key must have been bound; None = a field of the request's collection / a parameter)
KEYS = {
    'collection.UserId': ('user', None),
    'col.UserId': ('user', None),
    'userId': ('user', 'param-or-split'),
    'shardId': ('shard', 'param-or-base'),
    'sId': ('shard', 'range'),
}
BIND = {
    # sync.go: the user id is the part of the record key before the delimiter
    ('sync.go', 'userId'): re.compile(r'^userId := strings\.Split\(string\(k\), DBDELIMITER\)\[0\]$'),
    # sync.go: the shard id is the name of the directory that holds sharddb.bbolt
    ('sync.go', 'shardId'): re.compile(r'^shardId := filepath\.Base\(filepath\.Dir\(path\)\)(\s*//.*)?$'),
}


def fail(msg):
    sys.stderr.write('gen_routing_sites: shape not recognised: %s\n' % msg)
    sys.exit(3)


def main():
    repo, out = sys.argv[1], sys.argv[2]
    d = os.path.join(repo, 'cluster')
    sites = []
    for fn in sorted(os.listdir(d)):
        if not fn.endswith('.go') or fn.endswith('_test.go') or 'verif' in fn:
            continue
        lines = open(os.path.join(d, fn)).read().split('\n')
        func = '?'
        for i, raw in enumerate(lines):
            ln = raw.strip()
            m = re.match(r'^func (\([^)]*\) )?([A-Za-z0-9_]+)\(', ln)
            if m:
                func = m.group(2)
            if 'RendezvousHash' not in ln or ln.startswith('//'):
                continue
            if fn == 'hashing.go' and ln.startswith('func RendezvousHash(key string, servers []string, topK int) []string {'):
                continue
            m = CALL.match(ln)
            if not m:
                fail('%s:%d: %s' % (fn, i + 1, ln))
            key = m.group('key')
            if key not in KEYS:
                fail('%s:%d: unknown key expression %s' % (fn, i + 1, key))
            kind, how = KEYS[key]
            if (fn, key) in BIND:
                # previous non-blank, non-comment line must bind the key
                j = i - 1
                while j >= 0 and (not lines[j].strip() or lines[j].strip().startswith('//')):
                    j -= 1
                if j < 0 or not BIND[(fn, key)].match(lines[j].strip()):
                    fail('%s:%d: %s is not bound to the id of the record at hand in the preceding statement (found: %s)'
                         % (fn, i + 1, key, lines[j].strip() if j >= 0 else ''))
            elif how is not None:
                # a parameter of the enclosing function / goroutine closure, or the loop variable of the directly
                # enclosing range over shard ids -- bound at most 14 lines above, nothing assigned to it in between
                back = lines[max(0, i - 14):i]
                bound = False
                for bl in back:
                    t = bl.strip()
                    if re.search(r'func\s*(\([^)]*\)\s*)?[A-Za-z0-9_]*\([^)]*\b%s\b[^)]*\bstring\b' % key, t) or \
                       re.search(r'^for (_, )?%s(, [A-Za-z_]+)? := range ' % key, t):
                        bound = True
                    elif re.search(r'\b%s\s*(:=|=)[^=]' % key, t):
                        bound = False   # re-assigned after its binding
                if not bound:
                    fail('%s:%d: %s is neither a parameter nor the loop variable of the enclosing range (or is re-assigned)' % (fn, i + 1, key))
            sites.append((fn, func, kind, key))
    if len(sites) < 5:
        fail('only %d call sites found' % len(sites))
    # the server set every call site hashes over is the configured one: c.Servers is assigned exactly once, in
    # NewNode, from config.Servers, unmodified (no node adds or removes names on its own)
    assigns = []
    for fn in sorted(os.listdir(d)):
        if not fn.endswith('.go') or fn.endswith('_test.go') or 'verif' in fn:
            continue
        for i, raw in enumerate(open(os.path.join(d, fn)).read().split('\n')):
            ln = raw.strip()
            if ln.startswith('//'):
                continue
            if re.search(r'\bServers:\s', ln) and not re.search(r'yaml:', ln) or re.search(r'\.Servers\s*=[^=]', ln):
                assigns.append((fn, i + 1, ln))
    if len(assigns) != 1 or assigns[0][0] != 'clusternode.go' or not re.match(r'^Servers:\s+config\.Servers,$', assigns[0][2]):
        fail('the server list of a node must be assigned once, `Servers: config.Servers,` in NewNode; found %s' % assigns)
    body = ['(* generated by gen/gen_routing_sites.py from cluster/*.go -- do not edit *)',
            'From Coq Require Import List String Bool.', 'Import ListNotations.', 'Open Scope string_scope.', '',
            'Inductive key_kind := KUser | KShard.',
            '(* file, function, kind of key, key expression: the owner at this site is',
            '   hd (RendezvousHash key c.Servers 1) -- the shape the translator has checked *)',
            'Definition routing_sites : list (string * string * key_kind * string) := [']
    body.append(';\n'.join('  ("%s", "%s", %s, "%s")' % (f, fu, 'KUser' if k == 'user' else 'KShard', ke) for f, fu, k, ke in sites))
    body += ['].', '', 'Definition n_routing_sites : nat := %d.' % len(sites),
             'Definition routing_files : list string := [%s].' % '; '.join('"%s"' % f for f in sorted({x[0] for x in sites})), '']
    txt = '\n'.join(body)
    if not os.path.exists(out) or open(out).read() != txt:
        open(out, 'w').write(txt)


main()
