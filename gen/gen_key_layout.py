#!/usr/bin/env python3
"""Translator: key-layout constants of semadb -> coq/KeyLayout.v

Reads the literal bytes, widths, offsets, byte orders and xor masks out of
  conversion/keys.go, shard/pointstore/pointstore.go, shard/index/text/text.go,
  shard/index/inverted/sortable.go, shard/index/vamana/vamana.go,
  shard/vectorstore/{binary,product}.go, shard/shard.go
and prints a Coq file of definitions.  Theorems in Proofs_C19.v are stated over
these names with side conditions that Coq re-checks by computation, so an edit
of one of these constants breaks a proof obligation (or, if the shape of the
function changed so that a constant cannot be located, generation fails and the
check reports it).

Usage: gen_key_layout.py <repo> <out.v>     exit 0 ok / 3 shape not recognised
"""
import re, sys, os

def strip_comments(src):
    src = re.sub(r'/\*.*?\*/', '', src, flags=re.S)
    src = re.sub(r'//[^\n]*', '', src)
    return src

def func_body(src, name):
    m = re.search(r'func\s+(?:\([^)]*\)\s*)?' + re.escape(name) + r'\s*(?:\[[^\]]*\])?\s*\(', src)
    if not m:
        raise KeyError(name)
    i = src.index('{', m.end())
    depth, j = 0, i
    while True:
        c = src[j]
        if c == '{': depth += 1
        elif c == '}':
            depth -= 1
            if depth == 0: break
        j += 1
    return src[i:j+1]

class Shape(Exception): pass

def need(pat, s, what):
    m = re.search(pat, s, flags=re.S)
    if not m:
        raise Shape(what)
    return m

def coq_bytes(s):
    return '[' + '; '.join(str(b) for b in s.encode()) + ']'

def main():
    repo, out = sys.argv[1], sys.argv[2]
    rd = lambda p: strip_comments(open(os.path.join(repo, p)).read())
    defs = []
    D = lambda n, v, ty='N': defs.append((n, ty, v))
    try:
        # ---- conversion/keys.go
        keys = rd('conversion/keys.go')
        nk = func_body(keys, 'NodeKey')
        m = need(r'key\s*:=\s*\[(\d+)\]byte\{\}', nk, 'NodeKey array size'); nlen = int(m.group(1))
        m = need(r"key\[0\]\s*=\s*'(.)'", nk, 'NodeKey prefix'); npre = ord(m.group(1))
        m = need(r'binary\.(Little|Big)Endian\.PutUint64\(key\[(\d+):\],\s*id\)', nk, 'NodeKey id put')
        nend, noff = m.group(1), int(m.group(2))
        m = need(r'key\[(\d+)\]\s*=\s*suffix', nk, 'NodeKey suffix pos'); nspos = int(m.group(1))
        nf = func_body(keys, 'NodeIdFromKey')
        m = need(r"len\(key\)\s*!=\s*(\d+)\s*\|\|\s*key\[0\]\s*!=\s*'(.)'\s*\|\|\s*key\[(\d+)\]\s*!=\s*suffix", nf, 'NodeIdFromKey guard')
        flen, fpre, fspos = int(m.group(1)), ord(m.group(2)), int(m.group(3))
        m = need(r'binary\.(Little|Big)Endian\.Uint64\(key\[(\d+)\s*:\s*len\(key\)-(\d+)\]\)', nf, 'NodeIdFromKey id get')
        fend, foff, ftail = m.group(1), int(m.group(2)), int(m.group(3))
        D('node_key_len', nlen, 'nat'); D('node_prefix', npre); D('node_id_off', noff, 'nat')
        D('node_suffix_pos', nspos, 'nat'); D('node_id_little_endian', 'true' if nend == 'Little' else 'false', 'bool')
        D('node_from_len', flen, 'nat'); D('node_from_prefix', fpre); D('node_from_suffix_pos', fspos, 'nat')
        D('node_from_off', foff, 'nat'); D('node_from_tail', ftail, 'nat')
        D('node_from_little_endian', 'true' if fend == 'Little' else 'false', 'bool')
        # ---- pointstore
        ps = rd('shard/pointstore/pointstore.go')
        pk = func_body(ps, 'PointKey')
        m = need(r'key\s*:=\s*\[(\d+)\]byte\{\}', pk, 'PointKey size'); D('point_key_len', int(m.group(1)), 'nat')
        m = need(r"key\[0\]\s*=\s*'(.)'", pk, 'PointKey prefix'); D('point_prefix', ord(m.group(1)))
        m = need(r'copy\(key\[(\d+):\],\s*id\[:\]\)', pk, 'PointKey copy'); D('point_id_off', int(m.group(1)), 'nat')
        m = need(r'key\[(\d+)\]\s*=\s*suffix', pk, 'PointKey suffix'); D('point_suffix_pos', int(m.group(1)), 'nat')
        sp = func_body(ps, 'SetPoint')
        sufs = re.findall(r"(?:NodeKey|PointKey)\([^,]+,\s*'(.)'\)", sp)
        if sorted(set(sufs)) != ['d', 'i']:
            raise Shape('SetPoint suffixes %r' % sufs)
        D('suffix_id', ord('i')); D('suffix_data', ord('d'))
        m = need(r'const\s+POINTSBUCKETNAME\s*=\s*"([^"]*)"', ps, 'points bucket name')
        D('points_bucket_name', coq_bytes(m.group(1)), 'list N')
        # ---- text
        tx = rd('shard/index/text/text.go')
        dk = func_body(tx, 'documentKey')
        m = need(r'key\s*:=\s*\[(\d+)\]byte\{\}', dk, 'documentKey size'); D('doc_key_len', int(m.group(1)), 'nat')
        m = need(r"key\[0\]\s*=\s*'(.)'", dk, 'documentKey prefix'); D('doc_prefix', ord(m.group(1)))
        m = need(r'binary\.(Little|Big)Endian\.PutUint64\(key\[(\d+):\],\s*id\)', dk, 'documentKey put')
        D('doc_id_little_endian', 'true' if m.group(1) == 'Little' else 'false', 'bool'); D('doc_id_off', int(m.group(2)), 'nat')
        tk = func_body(tx, 'termKey')
        m = need(r'\[\]byte\("(.)"\s*\+\s*term\s*\+\s*"(.)"\)', tk, 'termKey shape')
        D('term_prefix', ord(m.group(1))); D('term_suffix', ord(m.group(2)))
        m = need(r"len\(key\)\s*<\s*(\d+)\s*\|\|\s*key\[0\]\s*!=\s*'(.)'\s*\|\|\s*key\[len\(key\)-1\]\s*!=\s*'(.)'", tx, 'term IdFromKey guard')
        D('term_from_minlen', int(m.group(1)), 'nat'); D('term_from_prefix', ord(m.group(2))); D('term_from_suffix', ord(m.group(3)))
        m = need(r"len\(key\)\s*!=\s*(\d+)\s*\|\|\s*key\[0\]\s*!=\s*'(.)'", tx, 'doc IdFromKey guard')
        D('doc_from_len', int(m.group(1)), 'nat'); D('doc_from_prefix', ord(m.group(2)))
        m = need(r'const\s+numDocumentsKey\s*=\s*"([^"]*)"', tx, 'numDocumentsKey')
        D('num_docs_key', coq_bytes(m.group(1)), 'list N')
        # ---- vamana / vector stores / shard: reserved keys
        vm = rd('shard/index/vamana/vamana.go')
        m = need(r'MAXNODEIDKEY\s*=\s*"([^"]*)"', vm, 'MAXNODEIDKEY'); D('max_node_id_key', coq_bytes(m.group(1)), 'list N')
        m = need(r'const\s+STARTID\s*=\s*(\d+)', vm, 'STARTID'); D('start_id', int(m.group(1)))
        bq = rd('shard/vectorstore/binary.go')
        m = need(r'binaryQuantizerThresholdKey\s*=\s*"([^"]*)"', bq, 'bq threshold key'); D('bq_threshold_key', coq_bytes(m.group(1)), 'list N')
        sufs = sorted(set(re.findall(r"NodeKey\(id,\s*'(.)'\)", bq)))
        D('bq_suffixes', '[' + '; '.join(str(ord(c)) for c in sufs) + ']', 'list N')
        bf = func_body(bq, 'IdFromKey')
        accepted = sorted(set(re.findall(r"NodeIdFromKey\(key,\s*'(.)'\)", bf)))
        D('bq_idfromkey_suffixes', '[' + '; '.join(str(ord(c)) for c in accepted) + ']', 'list N')
        pl = rd('shard/vectorstore/plain.go')
        sufs = sorted(set(re.findall(r"Node(?:Key|IdFromKey)\((?:id|key),\s*'(.)'\)", pl)))
        D('plain_suffixes', '[' + '; '.join(str(ord(c)) for c in sufs) + ']', 'list N')
        nd = rd('shard/index/vamana/node.go')
        sufs = sorted(set(re.findall(r"Node(?:Key|IdFromKey)\((?:id|key),\s*'(.)'\)", nd)))
        D('edge_suffixes', '[' + '; '.join(str(ord(c)) for c in sufs) + ']', 'list N')
        sh = rd('shard/shard.go')
        for nm, cn in (('POINTCOUNTKEY', 'point_count_key'), ('FREENODEIDSKEY', 'free_node_ids_key'), ('NEXTFREENODEIDKEY', 'next_free_node_id_key')):
            m = need(nm + r'\s*=\s*\[\]byte\("([^"]*)"\)', sh, nm); D(cn, coq_bytes(m.group(1)), 'list N')
        m = need(r'const\s+DELETEVALUE\s*=\s*"([^"]*)"', sh, 'DELETEVALUE'); D('delete_value', coq_bytes(m.group(1)), 'list N')
        ic = rd('shard/idcounter.go')
        m = need(r'nextFreeId\s*:=\s*uint64\((\d+)\)', ic, 'first node id'); D('first_node_id', int(m.group(1)))
        # ---- sortable.go
        so = rd('shard/index/inverted/sortable.go')
        tb = func_body(so, 'toByteSortable')
        fb = func_body(so, 'fromByteSortable')
        case_i = need(r'case int64:(.*?)case float64:', tb, 'toByteSortable int64 case').group(1)
        m = need(r'vv\s*:=\s*uint64\(v\s*\^\s*math\.MinInt64\)', case_i, 'int64 xor'); D('i64_xor_mask', 2**63)
        need(r'binary\.BigEndian\.PutUint64\(buf\[:\],\s*vv\)', case_i, 'int64 big endian')
        case_u = need(r'case uint64:(.*?)case int64:', tb, 'uint64 case').group(1)
        need(r'binary\.BigEndian\.PutUint64\(buf\[:\],\s*v\)', case_u, 'uint64 big endian')
        if re.sub(r'\s+', '', case_u) != 'varbuf[8]bytebinary.BigEndian.PutUint64(buf[:],v)returnbuf[:],nil':
            raise Shape('uint64 case of toByteSortable has an unexpected shape')
        if re.sub(r'\s+', '', case_i) != 'varbuf[8]bytevv:=uint64(v^math.MinInt64)binary.BigEndian.PutUint64(buf[:],vv)returnbuf[:],nil':
            raise Shape('int64 case of toByteSortable has an unexpected shape')
        case_s = need(r'case string:(.*?)case uint64:', tb, 'string case').group(1)
        if re.sub(r'\s+', '', case_s) != 'return[]byte(v),nil':
            raise Shape('string case of toByteSortable is not the identity `return []byte(v), nil`')
        case_f = need(r'case float64:(.*?)return nil, fmt\.Errorf', tb, 'float64 case').group(1)
        # zero normalisation present?
        norm = bool(re.search(r'if\s+v\s*==\s*0\s*\{\s*v\s*=\s*0\s*\}', case_f))
        D('f64_normalises_zero', 'true' if norm else 'false', 'bool')
        m = need(r'bits\s*:=\s*math\.Float64bits\(v\)\s*if\s+v\s*>=\s*0\s*\{\s*bits\s*\^=\s*(0x[0-9a-fA-F]+)\s*\}\s*else\s*\{\s*bits\s*\^=\s*(0x[0-9a-fA-F]+)\s*\}', case_f, 'float64 xor shape')
        D('f64_pos_mask', int(m.group(1), 16)); D('f64_neg_mask', int(m.group(2), 16))
        need(r'binary\.BigEndian\.PutUint64\(buf\[:\],\s*bits\)', case_f, 'float64 big endian')
        dcase_f = need(r'case \*float64:(.*?)default:', fb, 'fromByteSortable float64').group(1)
        m = need(r'if\s+bits&(0x[0-9a-fA-F]+)\s*!=\s*0\s*\{\s*bits\s*\^=\s*(0x[0-9a-fA-F]+)\s*\}\s*else\s*\{\s*bits\s*\^=\s*(0x[0-9a-fA-F]+)\s*\}', dcase_f, 'float64 decode shape')
        D('f64_dec_test_mask', int(m.group(1), 16)); D('f64_dec_pos_mask', int(m.group(2), 16)); D('f64_dec_neg_mask', int(m.group(3), 16))
        dcase_i = need(r'case \*int64:(.*?)case \*float64:', fb, 'fromByteSortable int64').group(1)
        need(r'\*v\s*=\s*int64\(vv\)\s*\^\s*math\.MinInt64', dcase_i, 'int64 decode xor')
        # ---- conversion.go byte orders
        cv = rd('conversion/conversion.go')
        for fn, pat in (('Uint64ToBytes', r'binary\.LittleEndian\.PutUint64\(b,\s*i\)'),
                        ('BytesToUint64', r'binary\.LittleEndian\.Uint64\(b\)'),
                        ('float32ToBytesSafe', r'binary\.LittleEndian\.PutUint32\(b\[i\*4:\],\s*math\.Float32bits\(v\)\)'),
                        ('bytesToFloat32Safe', r'binary\.LittleEndian\.Uint32\(b\[i\*4:\]\)'),
                        ('EdgeListToBytes', r'binary\.LittleEndian\.PutUint64\(b\[i\*8:\],\s*e\)'),
                        ('BytesToEdgeList', r'binary\.LittleEndian\.Uint64\(b\[i\*8:\]\)')):
            need(pat, func_body(cv, fn), fn + ' shape')
        D('f32_width', 4, 'nat'); D('u64_width', 8, 'nat')
    except (Shape, KeyError, FileNotFoundError) as e:
        sys.stderr.write('gen_key_layout: source shape not recognised: %s\n' % e)
        sys.exit(3)
    with open(out + '.tmp', 'w') as f:
        f.write('(* GENERATED by gen/gen_key_layout.py from the current /repo sources. DO NOT EDIT. *)\n')
        f.write('From Coq Require Import List NArith.\nImport ListNotations.\nOpen Scope N_scope.\n\n')
        for n, ty, v in defs:
            if ty == 'nat':
                f.write('Definition %s : nat := %s%%nat.\n' % (n, v))
            elif ty == 'bool':
                f.write('Definition %s : bool := %s.\n' % (n, v))
            elif ty == 'list N':
                f.write('Definition %s : list N := %s.\n' % (n, v))
            else:
                f.write('Definition %s : N := %s.\n' % (n, v))
    # only replace when changed, so make does not rebuild needlessly
    new = open(out + '.tmp').read()
    if os.path.exists(out) and open(out).read() == new:
        os.remove(out + '.tmp')
    else:
        os.replace(out + '.tmp', out)

if __name__ == '__main__':
    main()
