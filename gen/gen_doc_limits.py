#!/usr/bin/env python3
"""Translator: documented and enforced request limits of semadb -> coq/DocLimits.v

DOCUMENTED (doc_*): the `binding:"..."` struct tags of the request / schema /
query structs in models/*.go, httpapi/v2/handlers.go, httpapi/v1/handlers.go.
semadb generates its published JSON schema from exactly these tags
(internal/generateJSONSchema): min= / max= / oneof= / required / alphanum.

ENFORCED (enf_*): what the hand-written Validate() methods, the collection URI
middlewares, ValidateSchema and CheckCompatibleMap really compare against
(`if len(o.Vector) < 1 || len(o.Vector) > 4096`, `switch o.Operator { case ... }`,
`p.DistanceMetric != DistanceX && ...`), plus a few structural facts the Coq
theorems use as side conditions: which filters the evaluator
(shard/index/search.go) and ValidateSchema recurse into, that the handlers
validate before the first clusterNode call, that Recover is the outermost
middleware.

The theorems of Proofs_C18.v are stated over these names with side conditions
(enf_* within doc_*) that Coq re-checks by computation, so an edit that loosens
an enforced limit beyond the documented one, or drops a recursion of
ValidateSchema, breaks a proof obligation.

Usage: gen_doc_limits.py <repo> <out.v>     exit 0 ok / 3 source shape not recognised
"""
import os, re, struct, sys
from fractions import Fraction


class Shape(Exception):
    pass


def strip_comments(src):
    # keep string literals intact (struct tags are raw strings in back quotes)
    out, i, n = [], 0, len(src)
    while i < n:
        c = src[i]
        if c == '`':
            j = src.index('`', i + 1)
            out.append(src[i:j + 1]); i = j + 1
        elif c == '"':
            j = i + 1
            while src[j] != '"':
                j += 2 if src[j] == '\\' else 1
            out.append(src[i:j + 1]); i = j + 1
        elif c == "'":
            j = i + 1
            while src[j] != "'":
                j += 2 if src[j] == '\\' else 1
            out.append(src[i:j + 1]); i = j + 1
        elif src.startswith('//', i):
            j = src.find('\n', i)
            i = n if j < 0 else j
        elif src.startswith('/*', i):
            i = src.index('*/', i) + 2
        else:
            out.append(c); i += 1
    return ''.join(out)


def block_from(src, i):
    """src[i] must be '{'; returns the balanced block."""
    depth, j = 0, i
    while True:
        c = src[j]
        if c == '{':
            depth += 1
        elif c == '}':
            depth -= 1
            if depth == 0:
                return src[i:j + 1]
        j += 1


def func_body(src, name, recv=None):
    if recv:
        pat = r'func\s+\(\s*\w+\s+\*?' + re.escape(recv) + r'\s*\)\s*' + re.escape(name) + r'\s*\('
    else:
        pat = r'func\s+' + re.escape(name) + r'\s*(?:\[[^\]]*\])?\s*\('
    m = re.search(pat, src)
    if not m:
        raise Shape('function %s%s not found' % ((recv + '.') if recv else '', name))
    return block_from(src, src.index('{', m.end()))


def structs(src):
    """{struct name: {field name: binding string or ''}}"""
    res = {}
    for m in re.finditer(r'type\s+(\w+)\s+struct\s*\{', src):
        body = block_from(src, m.end() - 1)
        fields = {}
        for ln in body.split('\n'):
            fm = re.match(r'\s*(\w+)\s+([^`]+?)\s*`([^`]*)`', ln)
            if not fm:
                continue
            bm = re.search(r'binding:"([^"]*)"', fm.group(3))
            fields[fm.group(1)] = bm.group(1) if bm else ''
        res[m.group(1)] = fields
    return res


def tag(st, s, f):
    if s not in st:
        raise Shape('struct %s not found' % s)
    if f not in st[s]:
        raise Shape('field %s.%s not found' % (s, f))
    return st[s][f]


def tag_num(st, s, f, key):
    m = re.search(r'(?:^|,)' + key + r'=([0-9.+-eE]+)(?:,|$)', tag(st, s, f))
    if not m:
        raise Shape('binding %s= not found on %s.%s' % (key, s, f))
    return m.group(1)


def tag_oneof(st, s, f):
    m = re.search(r'(?:^|,)oneof=([^,]*)', tag(st, s, f))
    if not m:
        raise Shape('binding oneof= not found on %s.%s' % (s, f))
    return m.group(1).split()


def consts(src):
    return dict(re.findall(r'(\w+)\s*=\s*"([^"]*)"', src))


def need(pat, s, what):
    m = re.search(pat, s, flags=re.S)
    if not m:
        raise Shape(what)
    return m


def range_cmp(body, expr, what):
    """`expr < A || expr > B` -> (A, B) as strings"""
    e = re.escape(expr)
    m = need(e + r'\s*<\s*([0-9.]+)\s*\|\|\s*' + e + r'\s*>\s*([0-9.]+)', body, what + ': range comparison on ' + expr)
    return m.group(1), m.group(2)


def ne_chain(body, expr, cs, what):
    """`expr != C1 && expr != C2 ...` -> [values]"""
    e = re.escape(expr)
    m = need(r'((?:' + e + r'\s*!=\s*[\w.]+\s*&&\s*)*' + e + r'\s*!=\s*[\w."]+)\s*\{', body, what + ': != chain on ' + expr)
    names = re.findall(e + r'\s*!=\s*([\w."]+)', m.group(1))
    return [resolve(x, cs, what) for x in names]


def resolve(name, cs, what):
    if name.startswith('"'):
        return name.strip('"')
    name = name.split('.')[-1]
    if name not in cs:
        raise Shape(what + ': constant %s not found' % name)
    return cs[name]


def switch_cases(body, expr, cs, what):
    """cases of `switch expr { case A, B: ... default: ... }` that do not immediately return an error"""
    m = need(r'switch\s+' + re.escape(expr) + r'\s*\{', body, what + ': switch on ' + expr)
    blk = block_from(body, m.end() - 1)
    if 'default:' not in blk:
        raise Shape(what + ': switch on %s has no default (rejecting) branch' % expr)
    names = []
    # only top-level case labels of this switch
    depth = 0
    for ln in blk[1:-1].split('\n'):
        if depth == 0:
            cm = re.match(r'\s*case\s+(.*?):', ln)
            if cm:
                names += [x.strip() for x in cm.group(1).split(',')]
        depth += ln.count('{') - ln.count('}')
    return [resolve(x, cs, what) for x in names]


def f32_bits(lit):
    return struct.unpack('<I', struct.pack('<f', float(lit)))[0]


def coq_str_list(xs):
    return '[' + '; '.join('"%s"' % x for x in xs) + ']%string'


def coq_q(lit):
    fr = Fraction(lit)
    return '(%d # %d)%%Q' % (fr.numerator, fr.denominator)


def main():
    repo, out = sys.argv[1], sys.argv[2]
    rd = lambda p: strip_comments(open(os.path.join(repo, p)).read())
    defs = []

    def D(name, val, ty='Z'):
        defs.append((name, ty, val))

    def Dz(name, lit, what=''):
        if not re.fullmatch(r'-?\d+', str(lit)):
            raise Shape('%s: %s is not an integer literal' % (name, lit))
        D(name, '%s' % lit if int(lit) >= 0 else '(%s)' % lit)

    def Dl(name, xs):
        D(name, coq_str_list(xs), 'list string')

    def Db(name, b):
        D(name, 'true' if b else 'false', 'bool')

    try:
        idx, sea, qua = rd('models/index.go'), rd('models/search.go'), rd('models/quantizer.go')
        cs = consts(rd('models/constants.go'))
        v2, v1 = rd('httpapi/v2/handlers.go'), rd('httpapi/v1/handlers.go')
        st = {}
        for s in (idx, sea, qua):
            st.update(structs(s))
        st2, st1 = structs(v2), structs(v1)

        # ================================================= DOCUMENTED (binding tags)
        Dz('doc_v2_collection_id_min', tag_num(st2, 'CreateCollectionRequest', 'Id', 'min'))
        Dz('doc_v2_collection_id_max', tag_num(st2, 'CreateCollectionRequest', 'Id', 'max'))
        Db('doc_v2_collection_id_alphanum', 'alphanum' in tag(st2, 'CreateCollectionRequest', 'Id').split(','))
        Db('doc_v2_index_schema_required', 'required' in tag(st2, 'CreateCollectionRequest', 'IndexSchema').split(','))
        Dz('doc_points_insert_max', tag_num(st2, 'InsertPointsRequest', 'Points', 'max'))
        Dz('doc_points_update_max', tag_num(st2, 'UpdatePointsRequest', 'Points', 'max'))
        Dz('doc_delete_ids_max', tag_num(st2, 'DeletePointsRequest', 'Ids', 'max'))
        Db('doc_delete_ids_uuid', 'uuid' in tag(st2, 'DeletePointsRequest', 'Ids').split(','))
        Dl('doc_index_types', tag_oneof(st, 'IndexSchemaValue', 'Type'))
        Dz('doc_flat_vector_size_min', tag_num(st, 'IndexVectorFlatParameters', 'VectorSize', 'min'))
        Dz('doc_flat_vector_size_max', tag_num(st, 'IndexVectorFlatParameters', 'VectorSize', 'max'))
        Dl('doc_flat_metrics', tag_oneof(st, 'IndexVectorFlatParameters', 'DistanceMetric'))
        Dz('doc_vector_size_min', tag_num(st, 'IndexVectorVamanaParameters', 'VectorSize', 'min'))
        Dz('doc_vector_size_max', tag_num(st, 'IndexVectorVamanaParameters', 'VectorSize', 'max'))
        Dl('doc_metrics', tag_oneof(st, 'IndexVectorVamanaParameters', 'DistanceMetric'))
        Dz('doc_index_search_size_min', tag_num(st, 'IndexVectorVamanaParameters', 'SearchSize', 'min'))
        Dz('doc_index_search_size_max', tag_num(st, 'IndexVectorVamanaParameters', 'SearchSize', 'max'))
        Dz('doc_degree_min', tag_num(st, 'IndexVectorVamanaParameters', 'DegreeBound', 'min'))
        Dz('doc_degree_max', tag_num(st, 'IndexVectorVamanaParameters', 'DegreeBound', 'max'))
        D('doc_alpha_min', coq_q(tag_num(st, 'IndexVectorVamanaParameters', 'Alpha', 'min')), 'Q')
        D('doc_alpha_max', coq_q(tag_num(st, 'IndexVectorVamanaParameters', 'Alpha', 'max')), 'Q')
        Dl('doc_analysers', tag_oneof(st, 'IndexTextParameters', 'Analyser'))
        Dl('doc_quantizer_types', tag_oneof(st, 'Quantizer', 'Type'))
        Dz('doc_bq_trigger_min', tag_num(st, 'BinaryQuantizerParamaters', 'TriggerThreshold', 'min'))
        Dz('doc_bq_trigger_max', tag_num(st, 'BinaryQuantizerParamaters', 'TriggerThreshold', 'max'))
        Dl('doc_bq_metrics', tag_oneof(st, 'BinaryQuantizerParamaters', 'DistanceMetric'))
        Dz('doc_pq_centroids_min', tag_num(st, 'ProductQuantizerParameters', 'NumCentroids', 'min'))
        Dz('doc_pq_centroids_max', tag_num(st, 'ProductQuantizerParameters', 'NumCentroids', 'max'))
        Dz('doc_pq_subvectors_min', tag_num(st, 'ProductQuantizerParameters', 'NumSubVectors', 'min'))
        Dz('doc_pq_trigger_min', tag_num(st, 'ProductQuantizerParameters', 'TriggerThreshold', 'min'))
        Dz('doc_pq_trigger_max', tag_num(st, 'ProductQuantizerParameters', 'TriggerThreshold', 'max'))
        Dz('doc_sort_max', tag_num(st, 'SearchRequest', 'Sort', 'max'))
        Dz('doc_offset_min', tag_num(st, 'SearchRequest', 'Offset', 'min'))
        Dz('doc_request_limit_min', tag_num(st, 'SearchRequest', 'Limit', 'min'))
        Dz('doc_request_limit_max', tag_num(st, 'SearchRequest', 'Limit', 'max'))
        Dz('doc_query_vector_max', tag_num(st, 'SearchVectorVamanaOptions', 'Vector', 'max'))
        Dl('doc_vamana_ops', tag_oneof(st, 'SearchVectorVamanaOptions', 'Operator'))
        Dz('doc_search_size_min', tag_num(st, 'SearchVectorVamanaOptions', 'SearchSize', 'min'))
        Dz('doc_search_size_max', tag_num(st, 'SearchVectorVamanaOptions', 'SearchSize', 'max'))
        Dz('doc_vamana_limit_min', tag_num(st, 'SearchVectorVamanaOptions', 'Limit', 'min'))
        Dz('doc_vamana_limit_max', tag_num(st, 'SearchVectorVamanaOptions', 'Limit', 'max'))
        Dz('doc_flat_query_vector_max', tag_num(st, 'SearchVectorFlatOptions', 'Vector', 'max'))
        Dl('doc_flat_ops', tag_oneof(st, 'SearchVectorFlatOptions', 'Operator'))
        Dz('doc_flat_limit_min', tag_num(st, 'SearchVectorFlatOptions', 'Limit', 'min'))
        Dz('doc_flat_limit_max', tag_num(st, 'SearchVectorFlatOptions', 'Limit', 'max'))
        Dl('doc_text_ops', tag_oneof(st, 'SearchTextOptions', 'Operator'))
        Dz('doc_text_limit_min', tag_num(st, 'SearchTextOptions', 'Limit', 'min'))
        Dz('doc_text_limit_max', tag_num(st, 'SearchTextOptions', 'Limit', 'max'))
        Dl('doc_string_ops', tag_oneof(st, 'SearchStringOptions', 'Operator'))
        Dl('doc_integer_ops', tag_oneof(st, 'SearchIntegerOptions', 'Operator'))
        Dl('doc_float_ops', tag_oneof(st, 'SearchFloatOptions', 'Operator'))
        Dl('doc_string_array_ops', tag_oneof(st, 'SearchStringArrayOptions', 'Operator'))
        # required flags the model can see after decoding (a missing slice / string is empty)
        for s, f in (('Query', 'Property'), ('SearchVectorVamanaOptions', 'Vector'), ('SearchVectorFlatOptions', 'Vector'),
                     ('SearchTextOptions', 'Value'), ('SearchStringOptions', 'Value'), ('SearchStringArrayOptions', 'Value'),
                     ('SortOption', 'Property')):
            Db('doc_required_%s_%s' % (s, f), 'required' in tag(st, s, f).split(','))
        # v1
        Dz('doc_v1_collection_id_min', tag_num(st1, 'CreateCollectionRequest', 'Id', 'min'))
        Dz('doc_v1_collection_id_max', tag_num(st1, 'CreateCollectionRequest', 'Id', 'max'))
        Db('doc_v1_collection_id_alphanum', 'alphanum' in tag(st1, 'CreateCollectionRequest', 'Id').split(','))
        Dl('doc_v1_metrics', tag_oneof(st1, 'CreateCollectionRequest', 'DistanceMetric'))
        Dz('doc_v1_insert_vector_max', tag_num(st1, 'InsertSinglePointRequest', 'Vector', 'max'))
        Dz('doc_v1_update_vector_max', tag_num(st1, 'UpdateSinglePointRequest', 'Vector', 'max'))
        Dz('doc_v1_search_vector_max', tag_num(st1, 'SearchPointsRequest', 'Vector', 'max'))
        Dz('doc_v1_search_limit_min', tag_num(st1, 'SearchPointsRequest', 'Limit', 'min'))
        Dz('doc_v1_search_limit_max', tag_num(st1, 'SearchPointsRequest', 'Limit', 'max'))
        Dz('doc_v1_points_insert_max', tag_num(st1, 'InsertPointsRequest', 'Points', 'max'))
        Dz('doc_v1_points_update_max', tag_num(st1, 'UpdatePointsRequest', 'Points', 'max'))
        Dz('doc_v1_delete_ids_max', tag_num(st1, 'DeletePointsRequest', 'Ids', 'max'))

        # ================================================= ENFORCED (Validate bodies)
        def rng(name, body, expr, what):
            a, b = range_cmp(body, expr, what)
            Dz(name + '_min', a); Dz(name + '_max', b)

        def charset(body, what):
            prs = re.findall(r"r\s*>=\s*'(.)'\s*&&\s*r\s*<=\s*'(.)'", body)
            if not prs:
                raise Shape(what + ': rune range test not found')
            return '[' + '; '.join('(%d, %d)' % (ord(a), ord(b)) for a, b in prs) + ']'

        b = func_body(v2, 'Validate', 'CreateCollectionRequest')
        rng('enf_v2_collection_id', b, 'len(req.Id)', 'v2 CreateCollectionRequest.Validate')
        D('enf_v2_collection_id_runes', charset(b, 'v2 CreateCollectionRequest.Validate'), 'list (N * N)')
        Db('enf_v2_create_validates_schema', re.search(r'return\s+req\.IndexSchema\.Validate\(\)', b) is not None)
        rng('enf_v2_uri_collection_id', func_body(v2, 'CollectionURIMiddleware', 'SemaDBHandlers'), 'len(collectionId)', 'v2 CollectionURIMiddleware')
        rng('enf_points_insert', func_body(v2, 'Validate', 'InsertPointsRequest'), 'len(req.Points)', 'v2 InsertPointsRequest.Validate')
        rng('enf_points_update', func_body(v2, 'Validate', 'UpdatePointsRequest'), 'len(req.Points)', 'v2 UpdatePointsRequest.Validate')
        b = func_body(v2, 'Validate', 'DeletePointsRequest')
        rng('enf_delete_ids', b, 'len(req.Ids)', 'v2 DeletePointsRequest.Validate')
        Db('enf_delete_ids_uuid', re.search(r'uuid\.Parse\(id\)', b) is not None)

        b = func_body(idx, 'Validate', 'IndexSchemaValue')
        Dl('enf_index_types', ne_chain(b, 'v.Type', cs, 'IndexSchemaValue.Validate'))
        for ty, fld in (('VectorFlat', 'VectorFlat'), ('VectorVamana', 'VectorVamana'), ('Text', 'Text'), ('String', 'String'), ('StringArray', 'StringArray')):
            Db('enf_index_params_required_%s' % ty,
               re.search(r'case\s+IndexType' + ty + r'\s*:\s*if\s+v\.' + fld + r'\s*==\s*nil\s*\{\s*return', b) is not None
               and re.search(r'return\s+v\.' + fld + r'\.Validate\(\)', b) is not None)
        Db('enf_schema_validates_every_value', re.search(r'for\s+_\s*,\s*v\s*:=\s*range\s+s\s*\{\s*if\s+err\s*:=\s*v\.Validate\(\)', func_body(idx, 'Validate', 'IndexSchema')) is not None)
        b = func_body(idx, 'Validate', 'IndexVectorFlatParameters')
        rng('enf_flat_vector_size', b, 'p.VectorSize', 'IndexVectorFlatParameters.Validate')
        Dl('enf_flat_metrics', ne_chain(b, 'p.DistanceMetric', cs, 'IndexVectorFlatParameters.Validate'))
        m = need(r'p\.DistanceMetric\s*==\s*DistanceHaversine\s*&&\s*p\.VectorSize\s*!=\s*(\d+)', b, 'flat haversine size')
        Dz('enf_flat_haversine_size', m.group(1))
        qfor = re.search(r'if\s+p\.Quantizer\s*!=\s*nil\s*\{\s*return\s+p\.Quantizer\.ValidateFor\(\s*p\.VectorSize\s*,\s*p\.DistanceMetric\s*\)', b) is not None
        Db('enf_flat_validates_quantizer', qfor or re.search(r'if\s+p\.Quantizer\s*!=\s*nil\s*\{\s*return\s+p\.Quantizer\.Validate\(\)', b) is not None)
        Db('enf_flat_quantizer_for_index', qfor)
        b = func_body(idx, 'Validate', 'IndexVectorVamanaParameters')
        rng('enf_vector_size', b, 'p.VectorSize', 'IndexVectorVamanaParameters.Validate')
        Dl('enf_metrics', ne_chain(b, 'p.DistanceMetric', cs, 'IndexVectorVamanaParameters.Validate'))
        m = need(r'p\.DistanceMetric\s*==\s*DistanceHaversine\s*&&\s*p\.VectorSize\s*!=\s*(\d+)', b, 'vamana haversine size')
        Dz('enf_haversine_size', m.group(1))
        rng('enf_index_search_size', b, 'p.SearchSize', 'IndexVectorVamanaParameters.Validate')
        rng('enf_degree', b, 'p.DegreeBound', 'IndexVectorVamanaParameters.Validate')
        # two shapes: `p.Alpha < lo || p.Alpha > hi` (NaN passes: every comparison is false) or the
        # NaN-rejecting `!(p.Alpha >= lo && p.Alpha <= hi)`
        m = re.search(r'!\(\s*p\.Alpha\s*>=\s*([0-9.]+)\s*&&\s*p\.Alpha\s*<=\s*([0-9.]+)\s*\)\s*\{', b)
        if m:
            a_lo, a_hi = m.group(1), m.group(2)
            Db('enf_alpha_rejects_nan', True)
        else:
            a_lo, a_hi = range_cmp(b, 'p.Alpha', 'IndexVectorVamanaParameters.Validate')
            Db('enf_alpha_rejects_nan', False)
        # Alpha is a float32: the untyped constants are converted to float32 by the compiler
        need(r'Alpha\s+float32', idx, 'IndexVectorVamanaParameters.Alpha is float32')
        D('enf_alpha_min_f32', str(f32_bits(a_lo)), 'N'); D('enf_alpha_max_f32', str(f32_bits(a_hi)), 'N')
        qfor = re.search(r'if\s+p\.Quantizer\s*!=\s*nil\s*\{\s*return\s+p\.Quantizer\.ValidateFor\(\s*p\.VectorSize\s*,\s*p\.DistanceMetric\s*\)', b) is not None
        Db('enf_vamana_validates_quantizer', qfor or re.search(r'if\s+p\.Quantizer\s*!=\s*nil\s*\{\s*return\s+p\.Quantizer\.Validate\(\)', b) is not None)
        Db('enf_vamana_quantizer_for_index', qfor)
        b = func_body(idx, 'Validate', 'IndexTextParameters')
        Dl('enf_analysers', ne_chain(b, 'p.Analyser', cs, 'IndexTextParameters.Validate'))

        b = func_body(qua, 'Validate', 'Quantizer')
        Dl('enf_quantizer_types', switch_cases(b, 'q.Type', cs, 'Quantizer.Validate'))
        b = func_body(qua, 'Validate', 'BinaryQuantizerParamaters')
        rng('enf_bq_trigger', b, 'b.TriggerThreshold', 'BinaryQuantizerParamaters.Validate')
        Db('enf_bq_trigger_only_without_threshold', re.search(r'b\.Threshold\s*==\s*nil\s*&&\s*\(\s*b\.TriggerThreshold', b) is not None)
        Dl('enf_bq_metrics', ne_chain(b, 'b.DistanceMetric', cs, 'BinaryQuantizerParamaters.Validate'))
        b = func_body(qua, 'Validate', 'ProductQuantizerParameters')
        rng('enf_pq_centroids', b, 'p.NumCentroids', 'ProductQuantizerParameters.Validate')
        m = need(r'p\.NumSubVectors\s*<\s*(\d+)\s*\{', b, 'ProductQuantizerParameters.Validate: NumSubVectors minimum')
        Dz('enf_pq_subvectors_min', m.group(1))
        rng('enf_pq_trigger', b, 'p.TriggerThreshold', 'ProductQuantizerParameters.Validate')
        # Quantizer.ValidateFor(vectorSize, distanceMetric): which product quantizers are refused for an index
        if re.search(r'func\s+\(\s*q\s+Quantizer\s*\)\s*ValidateFor\s*\(', qua):
            vf = func_body(qua, 'ValidateFor', 'Quantizer')
            need(r'if\s+err\s*:=\s*q\.Validate\(\)\s*;\s*err\s*!=\s*nil\s*\{\s*return\s+err', vf, 'Quantizer.ValidateFor: calls q.Validate() first')
            m = need(r'if\s+q\.Type\s*!=\s*QuantizerProduct((?:\s*\|\|\s*distanceMetric\s*==\s*\w+)*)\s*\{\s*return\s+nil', vf, 'Quantizer.ValidateFor: early return for non-product quantizers')
            Dl('enf_pq_exempt_metrics', [resolve(x, cs, 'ValidateFor exempt metric') for x in re.findall(r'distanceMetric\s*==\s*(\w+)', m.group(1))])
            Dl('enf_pq_metrics', ne_chain(vf, 'distanceMetric', cs, 'Quantizer.ValidateFor'))
            Db('enf_pq_subvectors_divide_size', re.search(r'int\(vectorSize\)\s*%\s*q\.Product\.NumSubVectors\s*!=\s*0\s*\{\s*return', vf) is not None)
        else:
            Dl('enf_pq_exempt_metrics', [])
            Dl('enf_pq_metrics', [])
            Db('enf_pq_subvectors_divide_size', False)

        b = func_body(sea, 'Validate', 'SearchRequest')
        m = need(r'len\(r\.Sort\)\s*>\s*(\d+)', b, 'SearchRequest.Validate: sort maximum'); Dz('enf_sort_max', m.group(1))
        m = need(r'r\.Offset\s*<\s*(\d+)', b, 'SearchRequest.Validate: offset minimum'); Dz('enf_offset_min', m.group(1))
        rng('enf_request_limit', b, 'r.Limit', 'SearchRequest.Validate')
        Db('enf_request_validates_query', re.search(r'r\.Query\.Validate\(\)', b) is not None)
        Db('enf_request_validates_sort', re.search(r'sort\.Validate\(\)', b) is not None)
        b = func_body(sea, 'Validate', 'SortOption')
        Db('enf_sort_property_nonempty', re.search(r'len\(s\.Property\)\s*==\s*0', b) is not None)
        b = func_body(sea, 'Validate', 'SearchVectorVamanaOptions')
        rng('enf_query_vector', b, 'len(o.Vector)', 'SearchVectorVamanaOptions.Validate')
        m = need(r'o\.Operator\s*!=\s*(\w+)\s*\{', b, 'SearchVectorVamanaOptions.Validate: operator'); Dl('enf_vamana_ops', [resolve(m.group(1), cs, 'vamana operator')])
        rng('enf_search_size', b, 'o.SearchSize', 'SearchVectorVamanaOptions.Validate')
        rng('enf_vamana_limit', b, 'o.Limit', 'SearchVectorVamanaOptions.Validate')
        Db('enf_search_size_ge_limit', re.search(r'o\.SearchSize\s*<\s*o\.Limit', b) is not None)
        Db('enf_vamana_validates_filter', re.search(r'o\.Filter\.Validate\(\)', b) is not None)
        b = func_body(sea, 'Validate', 'SearchVectorFlatOptions')
        rng('enf_flat_query_vector', b, 'len(o.Vector)', 'SearchVectorFlatOptions.Validate')
        m = need(r'o\.Operator\s*!=\s*(\w+)\s*\{', b, 'SearchVectorFlatOptions.Validate: operator'); Dl('enf_flat_ops', [resolve(m.group(1), cs, 'flat operator')])
        rng('enf_flat_limit', b, 'o.Limit', 'SearchVectorFlatOptions.Validate')
        Db('enf_flat_validates_filter', re.search(r'o\.Filter\.Validate\(\)', b) is not None)
        b = func_body(sea, 'Validate', 'SearchTextOptions')
        Db('enf_text_value_nonempty', re.search(r'len\(o\.Value\)\s*==\s*0', b) is not None)
        Dl('enf_text_ops', switch_cases(b, 'o.Operator', cs, 'SearchTextOptions.Validate'))
        rng('enf_text_limit', b, 'o.Limit', 'SearchTextOptions.Validate')
        Db('enf_text_validates_filter', re.search(r'o\.Filter\.Validate\(\)', b) is not None)
        for sname, key in (('SearchStringOptions', 'string'), ('SearchIntegerOptions', 'integer'), ('SearchFloatOptions', 'float'), ('SearchStringArrayOptions', 'string_array')):
            b = func_body(sea, 'Validate', sname)
            Dl('enf_%s_ops' % key, switch_cases(b, 'o.Operator', cs, sname + '.Validate'))
            if key != 'string_array':
                Db('enf_%s_range_checked' % key, re.search(r'case\s+OperatorInRange\s*:\s*if\s+o\.EndValue\s*<=\s*o\.Value', b) is not None)
            if key in ('string', 'string_array'):
                Db('enf_%s_value_nonempty' % key, re.search(r'len\(o\.Value\)\s*==\s*0', b) is not None)
        b = func_body(sea, 'Validate', 'Query')
        Db('enf_query_property_nonempty', re.search(r'len\(q\.Property\)\s*==\s*0', b) is not None)
        for fld in ('VectorFlat', 'VectorVamana', 'Text', 'String', 'Integer', 'Float', 'StringArray'):
            Db('enf_query_validates_%s' % fld, re.search(r'if\s+q\.' + fld + r'\s*!=\s*nil\s*\{\s*if\s+err\s*:=\s*q\.' + fld + r'\.Validate\(\)', b) is not None)
        Db('enf_query_validates_and', re.search(r'range\s+q\.And\s*\{\s*if\s+err\s*:=\s*subQuery\.Validate\(\)', b) is not None)
        Db('enf_query_validates_or', re.search(r'range\s+q\.Or\s*\{\s*if\s+err\s*:=\s*subQuery\.Validate\(\)', b) is not None)

        # ---- ValidateSchema: which positions it checks
        b = func_body(sea, 'ValidateSchema', 'Query')
        Db('vs_recurses_and', re.search(r'case\s+"_and"\s*:\s*for\s+_\s*,\s*subQuery\s*:=\s*range\s+q\.And\s*\{\s*if\s+err\s*:=\s*subQuery\.ValidateSchema\(schema\)', b) is not None)
        Db('vs_recurses_or', re.search(r'case\s+"_or"\s*:\s*for\s+_\s*,\s*subQuery\s*:=\s*range\s+q\.Or\s*\{\s*if\s+err\s*:=\s*subQuery\.ValidateSchema\(schema\)', b) is not None)
        Db('vs_checks_flat_length', re.search(r'len\(q\.VectorFlat\.Vector\)\s*!=\s*int\(value\.VectorFlat\.VectorSize\)\s*\{\s*return', b) is not None)
        Db('vs_checks_vamana_length', re.search(r'len\(q\.VectorVamana\.Vector\)\s*!=\s*int\(value\.VectorVamana\.VectorSize\)\s*\{\s*return', b) is not None)
        for fld, key in (('VectorFlat', 'flat'), ('VectorVamana', 'vamana'), ('Text', 'text')):
            Db('vs_recurses_%s_filter' % key, re.search(r'if\s+q\.' + fld + r'\.Filter\s*!=\s*nil\s*\{\s*if\s+err\s*:=\s*q\.' + fld + r'\.Filter\.ValidateSchema\(schema\)\s*;\s*err\s*!=\s*nil\s*\{\s*return\s+err', b) is not None)
        # ---- the evaluator: which positions it reaches
        ev = func_body(rd('shard/index/search.go'), 'Search', 'indexManager')
        Db('eval_recurses_and', re.search(r'case\s+"_and"\s*:\s*return\s+im\.searchParallel\(ctx,\s*q\.And', ev) is not None)
        Db('eval_recurses_or', re.search(r'case\s+"_or"\s*:\s*return\s+im\.searchParallel\(ctx,\s*q\.Or', ev) is not None)
        filt = set(re.findall(r'im\.Search\(ctx,\s*\*q\.(\w+)\.Filter\)', ev))
        known = {'VectorFlat', 'VectorVamana', 'Text'}
        if not filt <= known:
            raise Shape('evaluator recurses into a filter the model does not know: %s' % sorted(filt - known))
        for fld, key in (('VectorFlat', 'flat'), ('VectorVamana', 'vamana'), ('Text', 'text')):
            Db('eval_recurses_%s_filter' % key, fld in filt)
        nsearch = len(re.findall(r'im\.Search\(', ev))
        if nsearch != len(filt):
            raise Shape('evaluator calls im.Search %d times, %d recognised' % (nsearch, len(filt)))
        vec_calls = re.findall(r'(\w+)Index\.Search\(ctx,\s*\*q\.(\w+),\s*filter\)', ev)
        if sorted(vec_calls) != [('flat', 'VectorFlat'), ('vamana', 'VectorVamana')]:
            raise Shape('evaluator vector search calls not recognised: %s' % vec_calls)
        # ---- write path
        b = func_body(idx, 'CheckCompatibleMap', 'IndexSchema')
        Db('ccm_checks_flat_length', re.search(r'len\(vector\)\s*!=\s*int\(schema\.VectorFlat\.VectorSize\)\s*\{\s*return', b) is not None)
        Db('ccm_checks_vamana_length', re.search(r'len\(vector\)\s*!=\s*int\(schema\.VectorVamana\.VectorSize\)\s*\{\s*return', b) is not None)
        Db('ccm_nested_needs_map', re.search(r'expected nested map for property', b) is not None)
        # HOW CheckCompatibleMap resolves an index property in the point: split the name on "." and walk
        # maps from the root, nothing else.  Every map access in the body must be m[part] (the walk) or
        # m[k] (writing the converted value back); a lookup under any other key -- e.g. the whole property
        # name as a literal root key -- resolves differently from the dispatcher (msgpack Decoder.Query).
        accesses = set(re.findall(r'\b(\w+)\[(\w+)\]', b)) - {('', '')}
        accesses = {(a, k) for a, k in accesses if a in ('m', 'pointMap', 'nested', 's') or k in ('property', 'part', 'k')}
        walk = (re.search(r'for\s+property\s*,\s*schema\s*:=\s*range\s+s\s*\{', b) is not None
                and re.search(r'\n\s*parts\s*:=\s*strings\.Split\(property,\s*"\."\)', b) is not None
                and re.search(r'\n\s*m\s*:=\s*pointMap\b', b) is not None
                and re.search(r'for\s+i\s*,\s*part\s*:=\s*range\s+parts\s*\{\s*partValue\s*,\s*ok\s*:=\s*m\[part\]\s*if\s+!ok\s*\{\s*skip\s*=\s*true\s*break', b) is not None
                and re.search(r'if\s+i\s*==\s*len\(parts\)\s*-\s*1\s*\{\s*v\s*=\s*partValue\s*k\s*=\s*part', b) is not None
                and len(re.findall(r'\bv\s*=[^=]', b)) == 1 and len(re.findall(r'\bparts\s*:?=[^=]', b)) == 1)
        Db('ccm_resolves_by_nested_walk', walk and accesses <= {('m', 'part'), ('m', 'k')})
        # ... and the write path of the shard resolves it with msgpack's Decoder.Query on the stored bytes
        ut = rd('shard/index/utils.go')
        gp = func_body(ut, 'getPropertyFromBytes')
        go_ = func_body(ut, 'getOperation')
        Db('dispatch_resolves_by_query', re.search(r'queryResult\s*,\s*err\s*:=\s*dec\.Query\(property\)', gp) is not None
           and re.search(r'return\s+queryResult\[0\]', gp) is not None
           and re.search(r'currentProp\s*,\s*err\s*=\s*getPropertyFromBytes\(dec,\s*currentData,\s*propertyName\)', go_) is not None)

        # ---- handlers: validation happens before the first cluster call that acts on the request
        def before(src, recv, fn, first, then, what):
            body = func_body(src, fn, recv)
            i = [body.find(x) for x in first]
            j = body.find(then)
            if j < 0:
                raise Shape('%s: %s not found' % (what, then))
            return all(0 <= k < j for k in i)
        Db('hdl_v2_create_validates_first', before(v2, 'SemaDBHandlers', 'HandleCreateCollection', ['utils.DecodeValid[CreateCollectionRequest]'], 'clusterNode.CreateCollection', 'v2 create'))
        Db('hdl_v2_insert_validates_first', before(v2, 'SemaDBHandlers', 'HandleInsertPoints', ['utils.DecodeValid[InsertPointsRequest]', 'CheckCompatibleMap(point)', 'ExtractIdField(true)', 'UserPlan.MaxPointSize'], 'clusterNode.InsertPoints', 'v2 insert'))
        Db('hdl_v2_update_validates_first', before(v2, 'SemaDBHandlers', 'HandleUpdatePoints', ['utils.DecodeValid[UpdatePointsRequest]', 'CheckCompatibleMap(point)', 'ExtractIdField(false)', 'UserPlan.MaxPointSize'], 'clusterNode.UpdatePoints', 'v2 update'))
        Db('hdl_v2_delete_validates_first', before(v2, 'SemaDBHandlers', 'HandleDeletePoints', ['utils.DecodeValid[DeletePointsRequest]'], 'clusterNode.DeletePoints', 'v2 delete'))
        Db('hdl_v2_search_validates_first', before(v2, 'SemaDBHandlers', 'HandleSearchPoints', ['utils.DecodeValid[models.SearchRequest]', 'req.Query.ValidateSchema(collection.IndexSchema)'], 'clusterNode.SearchPoints', 'v2 search'))
        Db('hdl_v1_create_validates_first', before(v1, 'SemaDBHandlers', 'HandleCreateCollection', ['utils.DecodeValid[CreateCollectionRequest]'], 'clusterNode.CreateCollection', 'v1 create'))
        direct = re.search(r'IndexSchema\["vector"\]\.VectorVamana\.', v1) is not None
        helper_typed = False
        if direct:
            dim_pt = 'len(point.Vector) != int(collection.IndexSchema["vector"].VectorVamana.VectorSize)'
            dim_rq = 'len(req.Vector) != int(collection.IndexSchema["vector"].VectorVamana.VectorSize)'
            guard = []
        else:
            # guarded shape: a helper returns the (possibly nil) parameters and every handler tests for nil
            # two shapes of the helper: it hands out the vamana block of the property "vector" whatever the type of the
            # property is, or only when the property IS a vamana index
            untyped = re.search(r'func\s+vectorIndexParams\s*\([^)]*\)\s*\*models\.IndexVectorVamanaParameters\s*\{\s*return\s+\w+\.IndexSchema\["vector"\]\.VectorVamana\s*\}', v1) is not None
            if not untyped:
                need(r'func\s+vectorIndexParams\s*\([^)]*\)\s*\*models\.IndexVectorVamanaParameters\s*\{(\s*//[^\n]*)*\s*if\s+isv,\s*ok\s*:=\s*\w+\.IndexSchema\["vector"\];\s*ok\s*&&\s*isv\.Type\s*==\s*models\.IndexTypeVectorVamana\s*\{\s*return\s+isv\.VectorVamana\s*\}\s*return\s+nil\s*\}', v1, 'v1 vectorIndexParams helper')
            helper_typed = not untyped
            dim_pt, dim_rq = 'len(point.Vector) != int(params.VectorSize)', 'len(req.Vector) != int(params.VectorSize)'
            guard = ['params := vectorIndexParams(collection)', 'if params == nil {']
            for fn, call in (('HandleGetCollection', 'clusterNode.GetShardsInfo'), ('HandleInsertPoints', 'clusterNode.InsertPoints'),
                             ('HandleUpdatePoints', 'clusterNode.UpdatePoints'), ('HandleSearchPoints', 'clusterNode.SearchPoints')):
                body = func_body(v1, fn, 'SemaDBHandlers')
                m = need(r'params\s*:=\s*vectorIndexParams\(collection\)\s*if\s+params\s*==\s*nil\s*\{\s*utils\.Encode\(w,\s*http\.StatusBadRequest,[^\n]*\)\s*return\s*\}', body, 'v1 %s: nil test of the vector index parameters' % fn)
                if not (0 <= m.start() < body.find(call)):
                    raise Shape('v1 %s: nil test after the cluster call' % fn)
            need(r'params\s*:=\s*vectorIndexParams\(col\)\s*if\s+params\s*==\s*nil\s*\{\s*continue', func_body(v1, 'HandleListCollections', 'SemaDBHandlers'), 'v1 list: skips collections without the vector index')
        Db('hdl_v1_insert_validates_first', before(v1, 'SemaDBHandlers', 'HandleInsertPoints', ['utils.DecodeValid[InsertPointsRequest]', dim_pt, 'UserPlan.MaxPointSize'] + guard, 'clusterNode.InsertPoints', 'v1 insert'))
        Db('hdl_v1_update_validates_first', before(v1, 'SemaDBHandlers', 'HandleUpdatePoints', ['utils.DecodeValid[UpdatePointsRequest]', dim_pt, 'UserPlan.MaxPointSize'] + guard, 'clusterNode.UpdatePoints', 'v1 update'))
        Db('hdl_v1_delete_validates_first', before(v1, 'SemaDBHandlers', 'HandleDeletePoints', ['utils.DecodeValid[DeletePointsRequest]'], 'clusterNode.DeletePoints', 'v1 delete'))
        Db('hdl_v1_search_validates_first', before(v1, 'SemaDBHandlers', 'HandleSearchPoints', ['utils.DecodeValid[SearchPointsRequest]', dim_rq] + guard, 'clusterNode.SearchPoints', 'v1 search'))
        Db('hdl_v1_assumes_vector_vamana', direct)
        Db('hdl_v1_helper_checks_type', (not direct) and helper_typed)

        # ---- v1 limits
        b = func_body(v1, 'Validate', 'CreateCollectionRequest')
        rng('enf_v1_collection_id', b, 'len(req.Id)', 'v1 CreateCollectionRequest.Validate')
        D('enf_v1_collection_id_runes', charset(b, 'v1 CreateCollectionRequest.Validate'), 'list (N * N)')
        rng('enf_v1_vector_size', b, 'req.VectorSize', 'v1 CreateCollectionRequest.Validate')
        Dl('enf_v1_metrics', ne_chain(b, 'req.DistanceMetric', cs, 'v1 CreateCollectionRequest.Validate'))
        rng('enf_v1_uri_collection_id', func_body(v1, 'CollectionURIMiddleware', 'SemaDBHandlers'), 'len(collectionId)', 'v1 CollectionURIMiddleware')
        rng('enf_v1_insert_vector', func_body(v1, 'Validate', 'InsertSinglePointRequest'), 'len(req.Vector)', 'v1 InsertSinglePointRequest.Validate')
        rng('enf_v1_update_vector', func_body(v1, 'Validate', 'UpdateSinglePointRequest'), 'len(req.Vector)', 'v1 UpdateSinglePointRequest.Validate')
        b = func_body(v1, 'Validate', 'SearchPointsRequest')
        rng('enf_v1_search_vector', b, 'len(req.Vector)', 'v1 SearchPointsRequest.Validate')
        rng('enf_v1_search_limit', b, 'req.Limit', 'v1 SearchPointsRequest.Validate')
        rng('enf_v1_points_insert', func_body(v1, 'Validate', 'InsertPointsRequest'), 'len(req.Points)', 'v1 InsertPointsRequest.Validate')
        rng('enf_v1_points_update', func_body(v1, 'Validate', 'UpdatePointsRequest'), 'len(req.Points)', 'v1 UpdatePointsRequest.Validate')
        rng('enf_v1_delete_ids', func_body(v1, 'Validate', 'DeletePointsRequest'), 'len(req.Ids)', 'v1 DeletePointsRequest.Validate')
        m = need(r'VectorVamana:\s*&models\.IndexVectorVamanaParameters\{(.*?)\}', func_body(v1, 'HandleCreateCollection', 'SemaDBHandlers'), 'v1 create: default vamana parameters')
        for fld, name in (('SearchSize', 'v1_default_search_size'), ('DegreeBound', 'v1_default_degree')):
            mm = need(fld + r':\s*(\d+)', m.group(1), 'v1 default ' + fld); Dz(name, mm.group(1))
        mm = need(r'Alpha:\s*([0-9.]+)', m.group(1), 'v1 default alpha'); D('v1_default_alpha_f32', str(f32_bits(mm.group(1))), 'N')
        m = need(r'SearchSize:\s*(\d+)', func_body(v1, 'HandleSearchPoints', 'SemaDBHandlers'), 'v1 search: default search size'); Dz('v1_query_search_size', m.group(1))

        # ---- middleware chain and decoding
        rt = func_body(rd('httpapi/httpapi.go'), 'setupRouter')
        chain = re.findall(r'handler\s*=\s*middleware\.(\w+)\(', rt)
        Dl('router_chain', chain)
        Db('router_recover_outermost', bool(chain) and chain[-1] == 'Recover')
        Db('router_app_headers_present', 'AppHeaderMiddleware' in chain)
        dv = func_body(rd('httpapi/utils/encdec.go'), 'DecodeValid')
        Dl('decode_content_types', re.findall(r'case\s+"([^"]+)"\s*:', dv))
        Db('decode_validates', re.search(r'v\.Validate\(\)', dv) is not None)
    except (Shape, KeyError, FileNotFoundError, ValueError) as e:
        sys.stderr.write('gen_doc_limits: source shape not recognised: %s\n' % e)
        sys.exit(3)

    with open(out + '.tmp', 'w') as f:
        f.write('(* GENERATED by gen/gen_doc_limits.py from the current /repo sources. DO NOT EDIT.\n'
                '   doc_* : limits documented by the binding tags; enf_* : limits the Validate() bodies enforce;\n'
                '   vs_* / eval_* / ccm_* / hdl_* / router_* : structural facts used as side conditions. *)\n')
        f.write('From Coq Require Import List ZArith NArith QArith String.\nImport ListNotations.\nOpen Scope Z_scope.\n\n')
        for n, ty, v in defs:
            if ty == 'N':
                f.write('Definition %s : N := %s%%N.\n' % (n, v))
            elif ty == 'list (N * N)':
                f.write('Definition %s : list (N * N) := %s%%N.\n' % (n, v))
            else:
                f.write('Definition %s : %s := %s.\n' % (n, ty, v))
    new = open(out + '.tmp').read()
    if os.path.exists(out) and open(out).read() == new:
        os.remove(out + '.tmp')
    else:
        os.replace(out + '.tmp', out)


if __name__ == '__main__':
    main()
