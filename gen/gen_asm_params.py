#!/usr/bin/env python3
"""Translator: structural parameters of the AVX2/FMA distance kernels -> coq/AsmParams.v

Reads distance/asm/dot.s and distance/asm/euclidean.s (Go assembler syntax,
avo output) and prints, for each kernel, Coq definitions of its shape:

  <k>_sub            the term is (x-y)^2 (VSUBPS + VFMADD231PS t,t,acc) rather than x*y
  <k>_lanes          float32 lanes of the block registers (Y = 8)
  <k>_block_items    immediate of `CMPQ DX, $imm ; JL tail`
  <k>_x_loads        [(byte offset from AX, destination register)] of the VMOVUPS lines
  <k>_fma_lines      [(byte offset from CX, x register, temp register of the VSUBPS if any, accumulator)]
  <k>_stride_x/_y    ADDQ immediates for AX / CX in the block loop, <k>_count_dec the SUBQ immediate for DX
  <k>_zeroed         registers cleared by VXORPS before the block loop (in source order)
  <k>_tail_zeroed    registers cleared by VXORPS at label tail
  <k>_tail_cmp       immediate of `CMPQ DX, $imm ; JE reduce`
  <k>_tail_load      (offset, register) of VMOVSS (AX), Xr
  <k>_tail_line      (offset from CX, x register, temp, accumulator) of the scalar VSUBSS/VFMADD231SS
  <k>_tail_stride_x/_y, <k>_tail_dec (DECQ = 1)
  <k>_reduce         the reduction as a list of symbolic operations (register numbers, Go operand order resolved:
                     RAddY a b d : d := a + b on 8 lanes; RAddX: on the low 4 lanes, upper lanes of d cleared;
                     RExtractHi s d : d := lanes 4..7 of s; RHaddX a b d : d := [b0+b1; b2+b3; a0+a1; a2+a3])
  <k>_ret            register whose lane 0 is stored to ret+48(FP)
  <k>_accs_zeroed / <k>_accs_reduced   the translator's own check that every block accumulator is
                     cleared in the prologue and read by the reduction (Coq re-checks it: params_ok)

Every line of the two functions must be recognised; anything else is a shape
change: exit 3 with a message, the previous output file is kept.

Usage: gen_asm_params.py <repo> <out.v>     exit 0 ok / 3 shape not recognised
"""
import os, re, sys


class Shape(Exception):
    pass


def imm(s):
    return int(s, 16) if s.lower().startswith('0x') else int(s)


def reg(s, cls=None):
    m = re.fullmatch(r'([XY])(\d+)', s)
    if not m:
        raise Shape('not a vector register: %r' % s)
    if cls and m.group(1) != cls:
        raise Shape('register %s is not of class %s' % (s, cls))
    return int(m.group(2))


def mem(s, base):
    m = re.fullmatch(r'(\d*)\(%s\)' % base, s)
    if not m:
        raise Shape('not a %s-relative operand: %r' % (base, s))
    return int(m.group(1)) if m.group(1) else 0


def parse_kernel(path, fname):
    src = open(path).read()
    m = re.search(r'^TEXT\s+·%s\(SB\),\s*NOSPLIT,\s*\$0-52\s*$' % fname, src, flags=re.M)
    if not m:
        raise Shape('%s: TEXT ·%s(SB), NOSPLIT, $0-52 not found' % (path, fname))
    body = src[m.end():]
    sections, cur = {'prologue': []}, 'prologue'
    order = ['prologue']
    for raw in body.split('\n'):
        ln = raw.split('//')[0].strip()
        if not ln:
            continue
        if re.fullmatch(r'[A-Za-z_][A-Za-z0-9_]*:', ln):
            cur = ln[:-1]
            if cur in sections:
                raise Shape('duplicate label ' + cur)
            sections[cur] = []
            order.append(cur)
            continue
        if ln.startswith('TEXT'):
            raise Shape('second TEXT block in ' + path)
        parts = ln.split(None, 1)
        ops = [o.strip() for o in parts[1].split(',')] if len(parts) > 1 else []
        sections[cur].append((parts[0], ops, ln))
    if order != ['prologue', 'blockloop', 'tail', 'tailloop', 'reduce']:
        raise Shape('%s: labels %r (expected blockloop, tail, tailloop, reduce)' % (fname, order[1:]))
    P = {}
    # ---- prologue
    pro = sections['prologue']
    want = [('MOVQ', ['x_base+0(FP)', 'AX']), ('MOVQ', ['y_base+24(FP)', 'CX']), ('MOVQ', ['x_len+8(FP)', 'DX'])]
    if [(a, b) for a, b, _ in pro[:3]] != want:
        raise Shape('%s: prologue does not load x_base->AX, y_base->CX, x_len->DX' % fname)
    zeroed = []
    for op, ops, ln in pro[3:]:
        if op != 'VXORPS' or len(ops) != 3 or len(set(ops)) != 1:
            raise Shape('%s: unexpected prologue line %r' % (fname, ln))
        zeroed.append(reg(ops[0], 'Y'))
    P['zeroed'] = zeroed
    # ---- block loop
    bl = sections['blockloop']
    if len(bl) < 6 or bl[0][0] != 'CMPQ' or bl[0][1][0] != 'DX' or not bl[0][1][1].startswith('$') \
            or (bl[1][0], bl[1][1]) != ('JL', ['tail']):
        raise Shape('%s: block loop does not start with CMPQ DX,$imm ; JL tail' % fname)
    P['block_items'] = imm(bl[0][1][1][1:])
    if (bl[-1][0], bl[-1][1]) != ('JMP', ['blockloop']):
        raise Shape('%s: block loop does not end with JMP blockloop' % fname)
    loads, lines, tail3 = [], [], bl[-4:-1]
    i, body_ins = 0, bl[2:-4]
    while i < len(body_ins) and body_ins[i][0] == 'VMOVUPS':
        ops = body_ins[i][1]
        if len(ops) != 2:
            raise Shape('%s: %r' % (fname, body_ins[i][2]))
        loads.append((mem(ops[0], 'AX'), reg(ops[1], 'Y')))
        i += 1
    if not loads:
        raise Shape('%s: no VMOVUPS loads in the block loop' % fname)
    sub = None
    while i < len(body_ins):
        op, ops, ln = body_ins[i]
        if op == 'VFMADD231PS' and len(ops) == 3 and '(' in ops[0]:
            if sub is True:
                raise Shape('%s: mixed FMA forms' % fname)
            sub = False
            lines.append((mem(ops[0], 'CX'), reg(ops[1], 'Y'), None, reg(ops[2], 'Y')))
            i += 1
        elif op == 'VSUBPS' and len(ops) == 3 and i + 1 < len(body_ins):
            if sub is False:
                raise Shape('%s: mixed FMA forms' % fname)
            sub = True
            yoff, xr, tr = mem(ops[0], 'CX'), reg(ops[1], 'Y'), reg(ops[2], 'Y')
            op2, ops2, ln2 = body_ins[i + 1]
            if op2 != 'VFMADD231PS' or len(ops2) != 3 or ops2[0] != ops2[1] or reg(ops2[0], 'Y') != tr:
                raise Shape('%s: VSUBPS not followed by VFMADD231PS t,t,acc: %r' % (fname, ln2))
            lines.append((yoff, xr, tr, reg(ops2[2], 'Y')))
            i += 2
        else:
            raise Shape('%s: unexpected block instruction %r' % (fname, ln))
    # data flow of the block: every x register of a line was loaded in this block and is not
    # overwritten (by a temp or an accumulator of an EARLIER line) before its line reads it
    loaded = [r for _, r in loads]
    for k, (yoff, xr, tr, acc) in enumerate(lines):
        if xr not in loaded:
            raise Shape('%s: FMA line %d reads Y%d which no VMOVUPS of the block loads' % (fname, k, xr))
        for (_, _, tr0, acc0) in lines[:k]:
            if xr == acc0 or (tr0 is not None and xr == tr0):
                raise Shape('%s: Y%d is overwritten before FMA line %d reads it' % (fname, xr, k))
    want3 = [('ADDQ', 'AX'), ('ADDQ', 'CX'), ('SUBQ', 'DX')]
    got3 = [(o, p[1] if len(p) == 2 else None) for o, p, _ in tail3]
    if got3 != want3 or not all(p[0].startswith('$') for _, p, _ in tail3):
        raise Shape('%s: block loop does not end with ADDQ $,AX ; ADDQ $,CX ; SUBQ $,DX' % fname)
    P['stride_x'], P['stride_y'], P['count_dec'] = [imm(p[0][1:]) for _, p, _ in tail3]
    P['loads'], P['lines'], P['sub'] = loads, lines, bool(sub)
    P['lanes'] = 8   # all block registers are of class Y (checked by reg(.., 'Y')): 32 bytes = 8 float32
    # ---- tail
    tz = []
    for op, ops, ln in sections['tail']:
        if op != 'VXORPS' or len(ops) != 3 or len(set(ops)) != 1:
            raise Shape('%s: unexpected line at tail: %r' % (fname, ln))
        tz.append(reg(ops[0], 'X'))
    P['tail_zeroed'] = tz
    tl = sections['tailloop']
    if len(tl) < 8 or tl[0][0] != 'CMPQ' or tl[0][1][0] != 'DX' or (tl[1][0], tl[1][1]) != ('JE', ['reduce']):
        raise Shape('%s: tail loop does not start with CMPQ DX,$imm ; JE reduce' % fname)
    P['tail_cmp'] = imm(tl[0][1][1][1:])
    if (tl[-1][0], tl[-1][1]) != ('JMP', ['tailloop']) or (tl[-2][0], tl[-2][1]) != ('DECQ', ['DX']):
        raise Shape('%s: tail loop does not end with DECQ DX ; JMP tailloop' % fname)
    P['tail_dec'] = 1
    a1, a2 = tl[-4], tl[-3]
    if (a1[0], a1[1][1:]) != ('ADDQ', ['AX']) or (a2[0], a2[1][1:]) != ('ADDQ', ['CX']):
        raise Shape('%s: tail loop pointer increments not recognised' % fname)
    P['tail_stride_x'], P['tail_stride_y'] = imm(a1[1][0][1:]), imm(a2[1][0][1:])
    tb = tl[2:-4]
    if not tb or tb[0][0] != 'VMOVSS' or len(tb[0][1]) != 2:
        raise Shape('%s: tail loop does not load with VMOVSS' % fname)
    P['tail_load'] = (mem(tb[0][1][0], 'AX'), reg(tb[0][1][1], 'X'))
    if not sub:
        if len(tb) != 2 or tb[1][0] != 'VFMADD231SS' or len(tb[1][1]) != 3:
            raise Shape('%s: tail body not VMOVSS ; VFMADD231SS' % fname)
        o = tb[1][1]
        P['tail_line'] = (mem(o[0], 'CX'), reg(o[1], 'X'), None, reg(o[2], 'X'))
    else:
        if len(tb) != 3 or tb[1][0] != 'VSUBSS' or tb[2][0] != 'VFMADD231SS' or len(tb[1][1]) != 3 or len(tb[2][1]) != 3:
            raise Shape('%s: tail body not VMOVSS ; VSUBSS ; VFMADD231SS' % fname)
        o, o2 = tb[1][1], tb[2][1]
        t = reg(o[2], 'X')
        if o2[0] != o2[1] or reg(o2[0], 'X') != t:
            raise Shape('%s: tail VFMADD231SS does not square the VSUBSS result' % fname)
        P['tail_line'] = (mem(o[0], 'CX'), reg(o[1], 'X'), t, reg(o2[2], 'X'))
    if P['tail_line'][1] != P['tail_load'][1]:
        raise Shape('%s: tail line reads X%d, VMOVSS loads X%d' % (fname, P['tail_line'][1], P['tail_load'][1]))
    # ---- reduction
    red = sections['reduce']
    if len(red) < 3 or (red[-1][0], red[-1][1]) != ('RET', []) or red[-2][0] != 'MOVSS' or red[-2][1][1:] != ['ret+48(FP)']:
        raise Shape('%s: reduction does not end with MOVSS Xr, ret+48(FP) ; RET' % fname)
    P['ret'] = reg(red[-2][1][0], 'X')
    rops = []
    for op, ops, ln in red[:-2]:
        if op == 'VADDPS' and len(ops) == 3:
            cls = ops[0][0]
            if cls not in 'XY' or any(o[0] != cls for o in ops):
                raise Shape('%s: mixed register classes in %r' % (fname, ln))
            a, b, d = reg(ops[1]), reg(ops[0]), reg(ops[2])   # Go order: src2, src1, dst
            rops.append(('RAddY' if cls == 'Y' else 'RAddX', a, b, d))
        elif op == 'VEXTRACTF128' and len(ops) == 3:
            if imm(ops[0][1:]) != 1:
                raise Shape('%s: VEXTRACTF128 immediate is not 1: %r' % (fname, ln))
            rops.append(('RExtractHi', reg(ops[1], 'Y'), reg(ops[2], 'X')))
        elif op == 'VHADDPS' and len(ops) == 3:
            rops.append(('RHaddX', reg(ops[0], 'X'), reg(ops[1], 'X'), reg(ops[2], 'X')))   # src2, src1, dst
        else:
            raise Shape('%s: unexpected reduction instruction %r' % (fname, ln))
    P['reduce'] = rops
    accs = sorted(set(l[3] for l in lines))
    P['accs_zeroed'] = all(a in zeroed for a in accs)
    read = set()
    for r in rops:
        read.update(r[1:-1])
    P['accs_reduced'] = all(a in read for a in accs) and P['tail_line'][3] in read
    return P


def coq_list(items):
    return '[' + '; '.join(items) + ']'


def coq_line(l):
    yoff, xr, tr, acc = l
    return '(%d, %d, %s, %d)' % (yoff, xr, 'None' if tr is None else 'Some %d' % tr, acc)


def emit(k, P, src):
    b = lambda v: 'true' if v else 'false'
    out = ['(* ---- %s ---- *)' % src]
    D = lambda n, ty, v: out.append('Definition %s_%s : %s := %s.' % (k, n, ty, v))
    D('sub', 'bool', b(P['sub']))
    D('lanes', 'N', P['lanes'])
    D('block_items', 'N', P['block_items'])
    D('x_loads', 'list (N * N)', coq_list('(%d, %d)' % l for l in P['loads']))
    D('fma_lines', 'list (N * N * option N * N)', coq_list(coq_line(l) for l in P['lines']))
    D('stride_x', 'N', P['stride_x'])
    D('stride_y', 'N', P['stride_y'])
    D('count_dec', 'N', P['count_dec'])
    D('zeroed', 'list N', coq_list(str(r) for r in P['zeroed']))
    D('tail_zeroed', 'list N', coq_list(str(r) for r in P['tail_zeroed']))
    D('tail_cmp', 'N', P['tail_cmp'])
    D('tail_load', 'N * N', '(%d, %d)' % P['tail_load'])
    D('tail_line', 'N * N * option N * N', coq_line(P['tail_line']))
    D('tail_stride_x', 'N', P['tail_stride_x'])
    D('tail_stride_y', 'N', P['tail_stride_y'])
    D('tail_dec', 'N', P['tail_dec'])
    D('reduce', 'list rop', coq_list(' '.join(str(x) for x in r) for r in P['reduce']))
    D('ret', 'N', P['ret'])
    D('accs_zeroed', 'bool', b(P['accs_zeroed']))
    D('accs_reduced', 'bool', b(P['accs_reduced']))
    return '\n'.join(out)


HEADER = '''(* AsmParams.v -- GENERATED by gen/gen_asm_params.py from distance/asm/dot.s and
   distance/asm/euclidean.s on every run of ./check. DO NOT EDIT.
   Structural parameters of the AVX2/FMA kernels; Model_C20.v interprets them,
   Proofs_C20.v re-checks the side conditions (params_ok) by computation. *)
From Coq Require Import List NArith.
Import ListNotations.
Open Scope N_scope.

(* symbolic reduction steps; register numbers; operands already in (src1, src2, dst) order *)
Inductive rop :=
| RAddY (a b d : N)        (* VADDPS Yb, Ya, Yd : d := a + b, 8 lanes *)
| RAddX (a b d : N)        (* VADDPS Xb, Xa, Xd : low 4 lanes, lanes 4..7 of d cleared *)
| RExtractHi (s d : N)     (* VEXTRACTF128 $1, Ys, Xd : d := lanes 4..7 of s, lanes 4..7 of d cleared *)
| RHaddX (a b d : N).      (* VHADDPS Xa, Xb, Xd : d := [b0+b1; b2+b3; a0+a1; a2+a3] *)
'''


def main():
    repo, out = sys.argv[1], sys.argv[2]
    try:
        dot = parse_kernel(os.path.join(repo, 'distance/asm/dot.s'), 'Dot')
        euc = parse_kernel(os.path.join(repo, 'distance/asm/euclidean.s'), 'SquaredEuclideanDistance')
        if dot['sub']:
            raise Shape('Dot: kernel subtracts')
        if not euc['sub']:
            raise Shape('SquaredEuclideanDistance: kernel does not subtract')
    except (Shape, OSError, IndexError, ValueError) as e:
        sys.stderr.write('gen_asm_params: shape not recognised: %s\n' % e)
        return 3
    text = HEADER + '\n' + emit('dot', dot, 'distance/asm/dot.s, func Dot') + '\n\n' + \
        emit('euc', euc, 'distance/asm/euclidean.s, func SquaredEuclideanDistance') + '\n'
    old = open(out).read() if os.path.exists(out) else None
    if old != text:
        tmp = out + '.tmp'
        open(tmp, 'w').write(text)
        os.replace(tmp, out)
    return 0


if __name__ == '__main__':
    sys.exit(main())
