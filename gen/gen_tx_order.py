#!/usr/bin/env python3
"""Translator: the transaction bracket of the four shard operations -> coq/TxOrder.v

Model_C09 (and the C07 / C11 models) assume this order for a write batch:
  new cache transaction -> bbolt write transaction { callback that hands the cache
  transaction to the index manager } -> cache Commit(true) iff the storage
  transaction returned an error / Commit(false) otherwise, AFTER the storage
  transaction has ended (committed or rolled back),
and for a search the same bracket around a bbolt READ transaction. This translator
reads shard/shard.go and demands exactly that shape of InsertPoints, UpdatePoints,
DeletePoints and SearchPoints:
  * `cacheTx := s.cacheManager.NewTransaction()` directly before
    `err := s.db.Write(func(bm diskstore.BucketManager) error {` (Read for the search);
  * inside the callback `cacheTx` is only passed to index.NewIndexManager (no Commit
    inside the storage transaction, no defer that settles it there);
  * after the callback: an `if err != nil {` block whose first cacheTx statement is
    `cacheTx.Commit(true)` and which returns, then `cacheTx.Commit(false)`.
It also reads every non-test file of shard/index and demands that shared caches are entered only through
`im.cx.With(cacheName, <literal>, newVamanaFn|newFlatFn, ...)`, with readOnly = false at the two sites of the
write pipeline (dispatch.go) and readOnly = true at the two sites of the search path (search.go).
Anything else: exit 3, previous output kept.

Usage: gen_tx_order.py <repo> <out.v>
"""
import os, re, sys


def fail(msg):
    sys.stderr.write('gen_tx_order: shape not recognised: %s\n' % msg)
    sys.exit(3)


def body_of(src, name):
    m = re.search(r'^func \(s \*Shard\) %s\(' % name, src, flags=re.M)
    if not m:
        fail('function %s not found' % name)
    rest = src[m.start():]
    m2 = re.search(r'^}\n', rest, flags=re.M)
    return rest[:m2.end()]


def main():
    repo, out = sys.argv[1], sys.argv[2]
    src = open(os.path.join(repo, 'shard', 'shard.go')).read()
    rows = []
    for name, kind in (('InsertPoints', 'Write'), ('UpdatePoints', 'Write'), ('DeletePoints', 'Write'), ('SearchPoints', 'Read')):
        b = body_of(src, name)
        lines = [l.rstrip() for l in b.split('\n')]
        code = [(i, l.strip()) for i, l in enumerate(lines) if l.strip() and not l.strip().startswith('//') and not l.strip().startswith('/*') and not l.strip().startswith('*')]
        idx_new = [k for k, (_, l) in enumerate(code) if l == 'cacheTx := s.cacheManager.NewTransaction()']
        if len(idx_new) != 1:
            fail('%s: expected exactly one `cacheTx := s.cacheManager.NewTransaction()`' % name)
        k = idx_new[0]
        opener = 'err := s.db.%s(func(bm diskstore.BucketManager) error {' % kind
        if k + 1 >= len(code) or code[k + 1][1] not in (opener, 'err = s.db.%s(func(bm diskstore.BucketManager) error {' % kind):
            fail('%s: the storage transaction does not start right after the cache transaction (found: %s)' % (name, code[k + 1][1] if k + 1 < len(code) else ''))
        # the callback ends at the first line that is exactly "})" at the function's first indentation level
        start = code[k + 1][0]
        end = None
        for i in range(start + 1, len(lines)):
            if lines[i] == '\t})':
                end = i
                break
        if end is None:
            fail('%s: end of the storage callback not found' % name)
        inside = [l.strip() for l in lines[start + 1:end]]
        for l in inside:
            if 'cacheTx' in l and not re.search(r'index\.NewIndexManager\(bm, cacheTx, s\.dbFile, s\.collection\.IndexSchema\)', l):
                fail('%s: cacheTx used inside the storage transaction other than by NewIndexManager: %s' % (name, l))
        after = [l.strip() for l in lines[end + 1:] if l.strip() and not l.strip().startswith('//')]
        # find the error block
        try:
            e = after.index('if err != nil {')
        except ValueError:
            fail('%s: no `if err != nil {` after the storage transaction' % name)
        if any('cacheTx' in l for l in after[:e]):
            fail('%s: cacheTx used between the storage transaction and its error check' % name)
        blk = []
        for l in after[e + 1:]:
            if l == '}':
                break
            blk.append(l)
        ctx = [l for l in blk if 'cacheTx' in l]
        if ctx != ['cacheTx.Commit(true)']:
            fail('%s: the error block must settle the cache transaction with Commit(true) exactly once (found %s)' % (name, ctx))
        if not any(l.startswith('return ') for l in blk):
            fail('%s: the error block does not return' % name)
        rest = after[e + 1 + len(blk) + 1:]
        ctx2 = [l for l in rest if 'cacheTx' in l]
        if ctx2 != ['cacheTx.Commit(false)']:
            fail('%s: after the error block exactly one cacheTx.Commit(false) is expected (found %s)' % (name, ctx2))
        rows.append((name, kind))
    # ---- access mode of every cache the index manager enters (shard/index): the write pipeline takes its caches
    # exclusively (readOnly = false), the search path shared (readOnly = true); nobody else enters a cache transaction
    idir = os.path.join(repo, 'shard', 'index')
    sites = []
    for fn in sorted(os.listdir(idir)):
        if not fn.endswith('.go') or fn.endswith('_test.go'):
            continue
        isrc = open(os.path.join(idir, fn)).read()
        for m in re.finditer(r'\b(\w+(?:\.\w+)*)\.With\(([^\n]*)', isrc):
            recv, args = m.group(1), m.group(2)
            if recv in ('log', 'logger') or recv.endswith('.logger') or recv.endswith('log'):
                continue
            if recv != 'im.cx':
                fail('%s: a cache transaction is entered through %s.With (only im.cx.With is known)' % (fn, recv))
            parts = [a.strip() for a in args.split(',')]
            if len(parts) < 4 or parts[0] != 'cacheName' or parts[1] not in ('true', 'false') or parts[2] not in ('newVamanaFn', 'newFlatFn'):
                fail('%s: im.cx.With call not of the form (cacheName, true|false, newVamanaFn|newFlatFn, ...): %s' % (fn, args))
            sites.append((fn, parts[2], parts[1] == 'true'))
    want = sorted([('dispatch.go', 'newFlatFn', False), ('dispatch.go', 'newVamanaFn', False), ('search.go', 'newFlatFn', True), ('search.go', 'newVamanaFn', True)])
    if sorted(sites) != want:
        fail('the caches are entered at %s; expected exactly %s (writers exclusive in dispatch.go, readers shared in search.go)' % (sorted(sites), want))
    body = ['(* generated by gen/gen_tx_order.py from shard/shard.go -- do not edit *)',
            'From Coq Require Import List String.', 'Import ListNotations.', 'Open Scope string_scope.', '',
            'Inductive tx_event := NewCacheTx | StorageBegin (write : bool) | Callback | StorageEnd | CacheCommit.',
            '(* the bracket the translator has checked, per operation: the cache transaction is settled AFTER the storage',
            '   transaction has ended, with fail = (the storage transaction returned an error) *)',
            'Definition tx_bracket (write : bool) : list tx_event := [NewCacheTx; StorageBegin write; Callback; StorageEnd; CacheCommit].',
            'Definition shard_operations : list (string * bool) := [%s].' % '; '.join('("%s", %s)' % (n, 'true' if k == 'Write' else 'false') for n, k in rows),
            'Definition write_pipeline_file := "dispatch.go".', 'Definition search_path_file := "search.go".',
            '(* every place where shard/index enters a shared cache: (file, constructor, readOnly) *)',
            'Definition cache_access_sites : list (string * string * bool) := [%s].' % '; '.join('("%s", "%s", %s)' % (f, c, 'true' if ro else 'false') for f, c, ro in sorted(sites)), '']
    txt = '\n'.join(body)
    if not os.path.exists(out) or open(out).read() != txt:
        open(out, 'w').write(txt)


main()
