#!/bin/sh
# trial.sh <sub> <seed> [extra args]: run harness sub-command and judge all case files; prints non-empty results
sub=$1; seed=$2; shift 2
d=$(mktemp -d /tmp/trial-XXXXXX)
/tmp/vh $sub -out $d -seed $seed "$@" 2>/dev/null || { echo "harness failed"; exit 1; }
cd $d
ls cases_*.v | xargs -P 8 -I{} sh -c 'coqc -Q /verif/coq Semadb {} > {}.out 2>&1'
echo "$sub seed=$seed: $(grep -h 'result =' *.out | sort | uniq -c | tr '\n' ' ') errors=$(grep -l Error *.out 2>/dev/null | wc -l)"
grep -h -A3 "Error" *.out | head -5
cd /; rm -rf $d
