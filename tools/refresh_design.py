#!/usr/bin/env python3
"""refresh_design.py: regenerate the generated parts of DESIGN.md (the seeded-change table)."""
import re, subprocess, os
root = os.path.join(os.path.dirname(os.path.abspath(__file__)), '..')
p = os.path.join(root, 'DESIGN.md')
s = open(p).read()
tab = subprocess.run(['python3', os.path.join(root, 'tools', 'seedtable.py')], capture_output=True, text=True).stdout
s = re.sub(r'(<!-- seedtable:begin[^\n]*-->\n).*?(<!-- seedtable:end -->)', lambda m: m.group(1) + tab + m.group(2), s, flags=re.S)
open(p, 'w').write(s)
