#!/bin/sh
# confirm_seed.sh <dir with patch.diff, demo test, demo_cmd.txt>: confirm on a fresh scratch worktree of /repo that
# the demo fails with the change and passes without it, and that the change compiles (also with -tags verif).
d=$1
export GOFLAGS=-mod=mod GOPROXY=off
wt=$(mktemp -d /tmp/seedconf-XXXXXX); rmdir $wt
git -C /repo worktree add -q $wt HEAD || exit 2
demo=$(ls $d/*_test.go | head -1)
rel=$(grep -o ' \./[a-zA-Z0-9_/.]*' $d/demo_cmd.txt | tail -1 | tr -d ' ')
[ -z "$rel" ] && rel=./shard/
cp $demo $wt/$rel/ 2>/dev/null || cp $demo $wt/shard/
run=$(grep -o "\-run '*[A-Za-z0-9_|^$]*" $d/demo_cmd.txt | head -1 | tr -d "'")
cd $wt
echo "without change:"; timeout 600 go test -count=1 $run $rel 2>&1 | tail -2
git apply $d/patch.diff || { echo "patch does not apply"; }
echo "build:"; (go build $(go list ./... | grep -v loadhdf5) && go build -tags verif $(go list ./... | grep -v loadhdf5)) 2>&1 | tail -2
echo "with change:"; timeout 600 go test -count=1 $run $rel 2>&1 | tail -3
cd /; git -C /repo worktree remove --force $wt
