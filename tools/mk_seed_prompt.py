#!/usr/bin/env python3
"""mk_seed_prompt.py <prop id> <tag> [avoid text]: write /tmp/seed_prompt_<tag>.txt for a seeding sub-agent.
The prompt contains only the text of the property; nothing from /verif."""
import json, sys
pid, tag = sys.argv[1], sys.argv[2]
avoid = sys.argv[3] if len(sys.argv) > 3 else ''
p = [json.loads(l) for l in open('/verif/properties.jsonl') if l.strip()]
d = [x for x in p if x['id'] == pid][0]
anch = ', '.join(d['anchors']['files'])
t = open('/tmp/seed_prompt_C02.txt').read() if False else None
txt = f"""You are a software engineer helping to evaluate a verification effort by "seeding" a realistic bug. You work ONLY inside the scratch git worktree /tmp/seedwt_{tag} (a checkout of the Go project Semafind/semadb, a multi-index vector search engine over bbolt) and write your deliverables to /tmp/seedout_{tag}/. Do NOT read, list or use anything under /verif or /root/.vp, and do not touch /repo itself. Use temporary file names that contain "{tag}" (other engineers work in /tmp at the same time). Go environment (offline): `export GOFLAGS=-mod=mod GOPROXY=off` and nothing else; the package internal/loadhdf5 does not build here (missing C header) — ignore it; run tests per package, e.g. `cd /tmp/seedwt_{tag} && go test -count=1 ./shard/... ./cluster/... ./utils/... ./models/... ./diskstore/... ./conversion/... ./distance/... ./httpapi/...` (always under `timeout 900`; the machine is shared and may be loaded: if the combined run times out, run the packages one group at a time). Do NOT use `git stash` (the stash is shared between all worktrees of the repository and other engineers use it at the same time): to test without your change use `git apply -R <your patch>` and re-apply it with `git apply`.

The property the project is supposed to satisfy:

{d['id']} — {d['title']}

Statement: {d['statement']}

Quantifier: {d['quantifier']}

Anchored in: {anch}

{avoid}

Your task: make ONE small source change (a few lines, in non-test .go files; no new dependencies; do not modify or delete existing tests; files guarded by `//go:build verif` and calls named verifPause / verifFault must not be modified) that BREAKS this property while (a) the project still compiles (`go build ./...` apart from internal/loadhdf5, and also `go build -tags verif ./...`), and (b) the existing test suite still passes (run the test packages listed above before and after). The change must look like a plausible mistake or "optimisation" a developer could make, and it must need something specific to manifest — a particular multi-step sequence of operations, an unusual but valid input, a boundary value, a particular state of a cache, or two code sites that each look fine alone — not something that ordinary single-step use would expose at once.

Then write a demonstration: a Go test file (package-internal or external) placed in the worktree (for example shard/zz_seeded_demo_test.go) that FAILS with your change and PASSES without it, exercising the public or package-level API the way a user could. Verify both directions yourself (`git stash` / `git stash pop`, or apply the reverse patch).

Deliverables in /tmp/seedout_{tag}/:
- patch.diff: `git -C /tmp/seedwt_{tag} diff -- . ':(exclude)*zz_seeded_demo_test.go'` (source change only, must apply with `git apply` to a clean checkout of the same commit);
- the demonstration test file (copy), and demo_cmd.txt with the exact `go test` command that runs it;
- meta.json: {{"property": "{pid}", "summary": "<what the change does>", "needs": "<what is needed for it to manifest>", "files": [...], "demo_fails_with_change": true, "demo_passes_without": true, "suite_passes_with_change": true}}.
Leave the worktree with the change applied and the demo test present. Report in your final message: the diff, why it breaks the property, what it needs to manifest, and the commands you ran with their outcomes.
"""
open(f'/tmp/seed_prompt_{tag}.txt', 'w').write(txt)
print(f'/tmp/seed_prompt_{tag}.txt')
