#!/usr/bin/env python3
"""seedtable.py: print the markdown table of DESIGN.md section 9.5 from seeded/*/meta.json."""
import json, glob, os
print('| change | file(s) changed | what it needs to show | caught by | remark |')
print('|---|---|---|---|---|')
for d in sorted(glob.glob(os.path.join(os.path.dirname(__file__), '..', 'seeded', '*'))):
    m = json.load(open(os.path.join(d, 'meta.json')))
    needs = ' '.join(m.get('needs', '').split())
    if len(needs) > 230:
        needs = needs[:227] + '...'
    print('| %s | %s | %s | %s | %s |' % (os.path.basename(d), ', '.join('`%s`' % f for f in m.get('files', [])), needs.replace('|', '/'),
                                          ', '.join(m.get('caught_by') or ['—']), (m.get('note') or '').replace('|', '/')))
