#!/usr/bin/env python3
"""seed_bases.py: for every seeded change record in meta.json the newest /repo commit its patch applies to
(base_commit) and whether it applies to the current HEAD (applies_to_head)."""
import glob, json, os, subprocess
root = os.path.join(os.path.dirname(os.path.abspath(__file__)), '..')
log = subprocess.run(['git', '-C', '/repo', 'log', '--format=%h', '-n', '40'], capture_output=True, text=True).stdout.split()
wt = '/tmp/seedbase_wt'
subprocess.run(['git', '-C', '/repo', 'worktree', 'remove', '--force', wt], capture_output=True)
subprocess.run(['git', '-C', '/repo', 'worktree', 'add', '-q', '--detach', wt, 'HEAD'], check=True)
try:
    for d in sorted(glob.glob(os.path.join(root, 'seeded', '*'))):
        patch = os.path.abspath(os.path.join(d, 'patch.diff'))
        base = None
        for c in log:
            subprocess.run(['git', '-C', wt, 'checkout', '-q', '--detach', c], check=True)
            if subprocess.run(['git', '-C', wt, 'apply', '--check', patch], capture_output=True).returncode == 0:
                base = c
                break
        mp = os.path.join(d, 'meta.json')
        m = json.load(open(mp))
        m['base_commit'] = base
        m['applies_to_head'] = (base == log[0])
        json.dump(m, open(mp, 'w'), indent=1)
        print(os.path.basename(d), base, m['applies_to_head'])
finally:
    subprocess.run(['git', '-C', '/repo', 'worktree', 'remove', '--force', wt], capture_output=True)
