#!/bin/sh
# eval_seed.sh <tag> <prop> [<prop> ...]: remove the sub-agent's worktree, confirm the seeded change
# (tools/confirm_seed.sh) and run the given quick checks against it (tools/try_seed.sh); one summary block.
tag=$1; shift
git -C /repo worktree remove --force /tmp/seedwt_$tag >/dev/null 2>&1
git -C /repo worktree prune
echo "== $tag"
timeout 1100 /verif/tools/confirm_seed.sh /tmp/seedout_$tag 2>&1 | grep -v "^$" | tr '\n' ' '; echo
timeout 2400 /verif/tools/try_seed.sh /tmp/seedout_$tag/patch.diff "$@" 2>&1
