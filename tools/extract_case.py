#!/usr/bin/env python3
"""extract_case.py cases_file index out.v  -- writes a .v with `Definition h := <the index-th case>`."""
import re, sys
src = open(sys.argv[1]).read()
idx = int(sys.argv[2])
hdr = src[:src.index('Definition ')]
items = []
for m in re.finditer(r'Definition blk\d+ : list \w+ := \[\n(.*?) \]\.\n', src, flags=re.S):
    body = m.group(1)
    # split top-level on ";\n  (" boundaries of hist terms
    parts = re.split(r';\n  (?=\(mk|\(C|C)', body)
    items += [p.strip() for p in parts]
aux = re.findall(r'(Definition aux\d+ : .*?\.\n)', src, flags=re.S)
with open(sys.argv[3], 'w') as f:
    f.write(hdr)
    for a in aux:
        f.write(a)
    f.write('Definition h := %s.\n' % items[idx])
print(len(items), 'cases; wrote case', idx)
