#!/bin/sh
# try_seed.sh <patch.diff> <prop> [<prop> ...]: apply a seeded change to a scratch worktree of /repo and run the
# quick checks of the given properties against it in isolated mode (nothing under /repo or /verif is touched).
patch=$1; shift
wt=$(mktemp -d /tmp/seedtry-XXXXXX); rmdir $wt
git -C /repo worktree add -q $wt HEAD || exit 2
if ! git -C $wt apply $patch; then echo "patch does not apply"; git -C /repo worktree remove --force $wt; exit 2; fi
for p in "$@"; do
  res=$(cd /verif && VERIF_REPO=$wt VERIF_OUT=$wt.out timeout 1500 ./check $p 2>/dev/null)
  nv=$(echo "$res" | grep -c "^VIOLATION")
  ok=$(echo "$res" | grep "^OK" | cut -c1-80)
  first=$(echo "$res" | grep "^VIOLATION" | head -1 | cut -c1-120)
  echo "$p: violations=$nv $ok $first"
done
git -C /repo worktree remove --force $wt; rm -rf $wt.out
