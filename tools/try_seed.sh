#!/bin/sh
# try_seed.sh <patch.diff> <prop> [<prop> ...]: apply a seeded change to a scratch worktree of /repo and run the
# quick checks of the given properties against it in isolated mode (nothing under /repo or /verif is touched).
patch=$1; shift
wt=$(mktemp -d /tmp/seedtry-XXXXXX); rmdir $wt
git -C /repo worktree add -q $wt HEAD || exit 2
if ! git -C $wt apply $patch; then echo "patch does not apply"; git -C /repo worktree remove --force $wt; exit 2; fi
for p in "$@"; do
  out=$(cd /verif && VERIF_REPO=$wt VERIF_OUT=/tmp/seedtry-out timeout 1500 ./check $p 2>/dev/null | grep -E "^(VIOLATION|OK|KNOWN)" | head -4 | tr '\n' '|')
  echo "$p: rc-lines: $out"
done
git -C /repo worktree remove --force $wt
