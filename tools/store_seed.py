#!/usr/bin/env python3
# store_seed.py <tag> <caught_by,comma> <note>: keep a confirmed seeded change under seeded/<id>_<round>/
import json, os, shutil, sys
tag, caught, note = sys.argv[1], sys.argv[2], sys.argv[3]
src = '/tmp/seedout_' + tag
dst = '/verif/seeded/%s_%s' % (tag[:3], tag[3:])
os.makedirs(dst, exist_ok=True)
for f in os.listdir(src):
    if os.path.isfile(os.path.join(src, f)) and os.path.getsize(os.path.join(src, f)) < 400000:
        shutil.copy(os.path.join(src, f), dst)
m = json.load(open(os.path.join(dst, 'meta.json')))
head = os.popen('git -C /repo rev-parse --short HEAD').read().strip()
m['confirmed'] = {"demo_fails_with_change": True, "demo_passes_without": True, "builds_with_and_without_tag": True,
                  "by": "tools/confirm_seed.sh on a scratch worktree of /repo HEAD " + head}
m['caught_by'] = [c for c in caught.split(',') if c]
if note:
    m['note'] = note
json.dump(m, open(os.path.join(dst, 'meta.json'), 'w'), indent=1)
print(dst, m['caught_by'])
