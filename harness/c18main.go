package main

// C18 -- the parent: stream generation, child orchestration, case files.

import (
	"context"
	"encoding/json"
	"fmt"
	"math"
	"math/rand/v2"
	"os"
	"os/exec"
	"path/filepath"
	"regexp"
	"sort"
	"strconv"
	"strings"
	"sync"
	"time"
)

const (
	ctJ = "application/json"
	ctM = "application/msgpack"
)

type baseReq struct {
	name   string
	method string
	path   string
	user   string
	body   *jv
	nanTo  string // path used instead when a mutation injects non-finite numbers
}

func c18Doc(id string, i int) *jv {
	f := float32(i)
	o := jObj()
	if id != "" {
		o.set("_id", jStr(id))
	}
	o.set("vec", jVec(f, 1, f/2, -1)).set("flat", jVec(1, f+1, 2)).set("desc", jStr("alpha beta omega")).
		set("cat", jStr("c1")).set("labels", jStrs("l1", "common")).set("size", jInt64(int64(i))).set("price", jF64(2.5)).
		set("nested", jObj("v", jVec(f, -f), "n", jInt64(7))).set("extra", jObj("k", jStr("str"), "m", jInt64(1)))
	return o
}

func c18Bases() []baseReq {
	vam := func(filter *jv) *jv {
		o := jObj("vector", jVec(1, 1, 0.5, -1), "operator", jStr("near"), "searchSize", jInt(75), "limit", jInt(10))
		if filter != nil {
			o.set("filter", filter)
		}
		return o
	}
	strq := jObj("property", jStr("cat"), "string", jObj("value", jStr("c1"), "operator", jStr("equals")))
	intq := jObj("property", jStr("size"), "integer", jObj("value", jInt(2), "operator", jStr("inRange"), "endValue", jInt(9)))
	sarrq := jObj("property", jStr("labels"), "stringArray", jObj("value", jStrs("l1", "zz"), "operator", jStr("containsAny")))
	fltq := jObj("property", jStr("price"), "float", jObj("value", jF64(1.5), "operator", jStr("inRange"), "endValue", jF64(12.25)))
	richSearch := "/v2/collections/rich/points/search"
	schema := jObj(
		"vec", jObj("type", jStr("vectorVamana"), "vectorVamana", jObj("vectorSize", jInt(4), "distanceMetric", jStr("euclidean"), "searchSize", jInt(75), "degreeBound", jInt(64), "alpha", jF32(1.2),
			"quantizer", jObj("type", jStr("binary"), "binary", jObj("threshold", jF32(0.5), "triggerThreshold", jInt(1000), "distanceMetric", jStr("hamming"))))),
		"flat", jObj("type", jStr("vectorFlat"), "vectorFlat", jObj("vectorSize", jInt(4), "distanceMetric", jStr("cosine"),
			"quantizer", jObj("type", jStr("product"), "product", jObj("numCentroids", jInt(16), "numSubVectors", jInt(2), "triggerThreshold", jInt(1000))))),
		"desc", jObj("type", jStr("text"), "text", jObj("analyser", jStr("standard"))),
		"cat", jObj("type", jStr("string"), "string", jObj("caseSensitive", jBool(false))),
		"labels", jObj("type", jStr("stringArray"), "stringArray", jObj("caseSensitive", jBool(true))),
		"size", jObj("type", jStr("integer")),
		"price", jObj("type", jStr("float")))
	id := func(n int) string { return c18Id(n).String() }
	return []baseReq{
		{"v2-create", "POST", "/v2/collections", "alice", jObj("id", jStr("tmpcol"), "indexSchema", schema), ""},
		{"v1-create", "POST", "/v1/collections", "vone", jObj("id", jStr("tmpv1"), "vectorSize", jInt(3), "distanceMetric", jStr("euclidean")), ""},
		{"v2-insert", "POST", "/v2/collections/richw/points", "alice", jObj("points", jArr(c18Doc(id(0xff00), 20), c18Doc(id(0xff01), 21))), "/v2/collections/nanbox/points"},
		{"v2-update", "PUT", "/v2/collections/richw/points", "alice", jObj("points", jArr(c18Doc(id(1), 30), c18Doc(id(0xff00), 31))), "/v2/collections/nanbox/points"},
		{"v2-delete", "DELETE", "/v2/collections/richw/points", "alice", jObj("ids", jStrs(id(0xff02), id(0xff03))), ""},
		{"v2-search-vamana", "POST", richSearch, "alice", jObj("query", jObj("property", jStr("vec"), "vectorVamana", vam(strq).set("weight", jF32(0.5))),
			"select", jStrs("cat", "nested.n", "vec"), "sort", jArr(jObj("property", jStr("size"), "descending", jBool(true))), "offset", jInt(1), "limit", jInt(10)), ""},
		{"v2-search-flat", "POST", richSearch, "alice", jObj("query", jObj("property", jStr("flat"), "vectorFlat",
			jObj("vector", jVec(1, 2, 2), "operator", jStr("near"), "limit", jInt(5), "filter", jObj("property", jStr("_and"), "_and", jArr(intq, sarrq)))), "limit", jInt(5)), ""},
		{"v2-search-text", "POST", richSearch, "alice", jObj("query", jObj("property", jStr("desc"), "text",
			jObj("value", jStr("alpha gamma"), "operator", jStr("containsAny"), "limit", jInt(10), "weight", jF32(2), "filter", jObj("property", jStr("vec"), "vectorVamana", vam(nil)))), "select", jStrs("*"), "limit", jInt(10)), ""},
		{"v2-search-hybrid", "POST", richSearch, "alice", jObj("query", jObj("property", jStr("_or"), "_or", jArr(
			jObj("property", jStr("vec"), "vectorVamana", vam(nil)),
			jObj("property", jStr("desc"), "text", jObj("value", jStr("beta"), "operator", jStr("containsAll"), "limit", jInt(10))),
			jObj("property", jStr("nested.v"), "vectorFlat", jObj("vector", jVec(1, -1), "operator", jStr("near"), "limit", jInt(3))))), "limit", jInt(20)), ""},
		{"v2-search-id", "POST", richSearch, "alice", jObj("query", jObj("property", jStr("_id"), "stringArray", jObj("value", jStrs(id(1), id(2), id(0xff09)), "operator", jStr("containsAny"))),
			"select", jStrs("size", "extra.k"), "limit", jInt(100)), ""},
		{"v2-search-filters", "POST", richSearch, "alice", jObj("query", jObj("property", jStr("_and"), "_and", jArr(fltq, jObj("property", jStr("_or"), "_or", jArr(strq, sarrq)),
			jObj("property", jStr("_id"), "string", jObj("value", jStr(id(3)), "operator", jStr("equals"))))), "sort", jArr(jObj("property", jStr("price")), jObj("property", jStr("cat"), "descending", jBool(true))), "limit", jInt(1)), ""},
		{"v1-insert", "POST", "/v1/collections/vcol/points", "vone", jObj("points", jArr(
			jObj("id", jStr(id(0xff00)), "vector", jVec(1, 2, 3), "metadata", jObj("k", jStr("v"), "n", jInt(3))), jObj("vector", jVec(3, 2, 1)))), ""},
		{"v1-update", "PUT", "/v1/collections/vcol/points", "vone", jObj("points", jArr(jObj("id", jStr(id(1)), "vector", jVec(0, 2, 3), "metadata", jStr("m")))), ""},
		{"v1-delete", "DELETE", "/v1/collections/vcol/points", "vone", jObj("ids", jStrs(id(0xff02))), ""},
		{"v1-search", "POST", "/v1/collections/vcol/points/search", "vone", jObj("vector", jVec(1, 1, 2), "limit", jInt(3)), ""},
	}
}

type c18Gen struct {
	specs []xspec
	risky []xspec
	r     *rand.Rand
}

func (g *c18Gen) add(x xspec) { g.specs = append(g.specs, x) }

func plan(user string) string { return c18Users[user] }

func (g *c18Gen) generate(thorough bool, n int) {
	bases := c18Bases()
	spec := func(tag, class, method, path, user, ct string, body []byte) xspec {
		return xspec{Tag: tag, Class: class, Method: method, Path: path, User: user, Plan: plan(user), CT: ct, Body: body}
	}
	// ---- (a) valid requests of every endpoint, both versions, both encodings
	for _, v := range []string{"v1", "v2"} {
		u := map[string]string{"v1": "vone", "v2": "alice"}[v]
		c := map[string]string{"v1": "vcol", "v2": "rich"}[v]
		g.add(spec("valid:"+v+"-ping", "valid", "GET", "/"+v+"/ping", u, "", nil))
		g.add(spec("valid:"+v+"-list", "valid", "GET", "/"+v+"/collections", u, "", nil))
		g.add(spec("valid:"+v+"-get", "valid", "GET", "/"+v+"/collections/"+c, u, "", nil))
	}
	for _, b := range bases {
		g.add(spec("valid:"+b.name+":json", "valid", b.method, b.path, b.user, ctJ, b.body.JSON()))
		g.add(spec("valid:"+b.name+":msgpack", "valid", b.method, b.path, b.user, ctM, b.body.Msgpack()))
	}
	// create then delete a collection through the API
	for _, v := range []string{"v1", "v2"} {
		b := bases[0]
		if v == "v1" {
			b = bases[1]
		}
		del := spec("valid:"+v+"-delete-collection", "valid", "DELETE", "/"+v+"/collections/"+b.body.get("id").s, b.user, "", nil)
		del.Setup = []xspec{spec("setup", "valid", b.method, b.path, b.user, ctJ, b.body.JSON())}
		g.add(del)
	}
	// the widest documented vectors (4096) on a collection of that dimension
	wide := jVecN(4096, func(i int) float32 { return float32(i%5) - 2 })
	g.add(spec("valid:wide-insert", "valid", "POST", "/v2/collections/wide/points", "bob", ctJ, jObj("points", jArr(jObj("_id", jStr(c18Id(0xff00).String()), "v", wide))).JSON()))
	g.add(spec("valid:wide-search", "valid", "POST", "/v2/collections/wide/points/search", "bob", ctM,
		jObj("query", jObj("property", jStr("v"), "vectorFlat", jObj("vector", wide, "operator", jStr("near"), "limit", jInt(2))), "limit", jInt(2)).Msgpack()))
	g.add(spec("invalid:wide-search-4097", "mutated", "POST", "/v2/collections/wide/points/search", "bob", ctJ,
		jObj("query", jObj("property", jStr("v"), "vectorFlat", jObj("vector", jVecN(4097, func(i int) float32 { return 1 }), "operator", jStr("near"), "limit", jInt(2))), "limit", jInt(2)).JSON()))
	g.add(spec("invalid:wide-insert-4097", "mutated", "POST", "/v2/collections/wide/points", "bob", ctM, jObj("points", jArr(jObj("v", jVecN(4097, func(i int) float32 { return 1 })))).Msgpack()))
	g.add(spec("invalid:wide-insert-4095", "mutated", "POST", "/v2/collections/wide/points", "bob", ctJ, jObj("points", jArr(jObj("v", jVecN(4095, func(i int) float32 { return 1 })))).JSON()))
	// searches at the documented limits
	for _, lim := range [][3]int{{75, 75, 100}, {25, 25, 1}, {75, 1, 75}} {
		g.add(spec(fmt.Sprintf("valid:limits-%d-%d-%d", lim[0], lim[1], lim[2]), "valid", "POST", "/v2/collections/rich/points/search", "alice", ctJ,
			jObj("query", jObj("property", jStr("vec"), "vectorVamana", jObj("vector", jVec(1, 2, 3, 4), "operator", jStr("near"), "searchSize", jInt(int64(lim[0])), "limit", jInt(int64(lim[1])))),
				"sort", jArr(jObj("property", jStr("a")), jObj("property", jStr("b")), jObj("property", jStr("c")), jObj("property", jStr("d")), jObj("property", jStr("e")),
					jObj("property", jStr("f")), jObj("property", jStr("g")), jObj("property", jStr("h")), jObj("property", jStr("i")), jObj("property", jStr("j"))),
				"limit", jInt(int64(lim[2]))).JSON()))
	}
	// ---- plan limits (TINY: 2 collections, 5 points, 200 bytes per point)
	mk := func(id string) xspec {
		return spec("setup", "valid", "POST", "/v2/collections", "tina", ctJ, jObj("id", jStr(id), "indexSchema", jObj()).JSON())
	}
	pts := func(n int, f func(i int) *jv) *jv {
		xs := make([]*jv, n)
		for i := range xs {
			xs[i] = f(i)
		}
		return jObj("points", jArr(xs...))
	}
	small := func(i int) *jv { return jObj("_id", jStr(c18Id(0x100+i).String()), "a", jInt(int64(i))) }
	x := mk("tcol3")
	x.Tag, x.Setup = "plan:third-collection", []xspec{mk("tcol1"), mk("tcol2")}
	g.add(x)
	x = mk("tcol2")
	x.Tag, x.Setup = "plan:second-collection", []xspec{mk("tcol1")}
	g.add(x)
	x = mk("tcol1")
	x.Tag, x.Setup = "plan:existing-collection", []xspec{mk("tcol1")}
	g.add(x)
	ins := func(tag string, body *jv, setup ...xspec) {
		s := spec(tag, "valid", "POST", "/v2/collections/tcol1/points", "tina", ctJ, body.JSON())
		s.Setup = append([]xspec{mk("tcol1")}, setup...)
		g.add(s)
	}
	fill := spec("setup", "valid", "POST", "/v2/collections/tcol1/points", "tina", ctJ, pts(5, small).JSON())
	ins("plan:points-5-of-5", pts(5, small))
	ins("plan:points-6-of-5", pts(6, small))
	ins("plan:points-1-more", pts(1, func(i int) *jv { return jObj("a", jInt(1)) }), fill)
	ins("plan:point-size-over", pts(1, func(i int) *jv { return jObj("a", jStr(strings.Repeat("x", 300))) }))
	ins("plan:point-size-at", pts(1, func(i int) *jv { return jObj("a", jStr(strings.Repeat("x", 195))) }))
	// an update that is small on its own but makes the STORED point larger than the plan allows (140 + 120 bytes of
	// payload under a limit of 200): whatever the answer, no stored point may exceed the limit afterwards
	grow := spec("setup", "valid", "POST", "/v2/collections/tcol1/points", "tina", ctJ,
		pts(1, func(i int) *jv { return jObj("_id", jStr(c18Id(0x100).String()), "a", jStr(strings.Repeat("x", 140))) }).JSON())
	for k, other := range []string{"b", "a"} {
		u := spec([]string{"plan:update-merged-size-over", "plan:update-replaced-size-at"}[k], "valid", "PUT", "/v2/collections/tcol1/points", "tina", ctJ,
			pts(1, func(i int) *jv { return jObj("_id", jStr(c18Id(0x100).String()), other, jStr(strings.Repeat("y", 120))) }).JSON())
		u.Setup = []xspec{mk("tcol1"), grow}
		g.add(u)
	}
	ins("plan:points-10000", pts(10000, func(i int) *jv { return jObj() }))
	ins("invalid:points-10001", pts(10001, func(i int) *jv { return jObj() }))
	ins("invalid:points-0", pts(0, nil))
	// ---- headers, methods, paths, URIs, content types, empty and truncated bodies
	sb := bases[5]
	sj := sb.body.JSON()
	for _, h := range [][3]string{{"", "BASIC", "no-user"}, {"alice", "", "no-plan"}, {".", "BASIC", "user-dot"}, {"..", "BASIC", "user-dotdot"}, {"a/b", "BASIC", "user-slash"},
		{"a\\b", "BASIC", "user-backslash"}, {"alice", "NOPLAN", "unknown-plan"}, {"alice", "basic", "plan-case"}, {"zed", "BASIC", "other-user"}, {"alice", "TINY", "other-plan"}} {
		for _, b := range []baseReq{sb, bases[0], bases[2]} {
			s := spec("header:"+h[2]+":"+b.name, "mutated", b.method, b.path, h[0], ctJ, b.body.JSON())
			s.Plan = h[1]
			g.add(s)
		}
		s := spec("header:"+h[2]+":list", "mutated", "GET", "/v2/collections", h[0], "", nil)
		s.Plan = h[1]
		g.add(s)
	}
	// the plan that counts is the one the request arrives with, not the one the collection was created under: inserts
	// of 6 points under the TINY plan (5 points per collection, 200 bytes per point) into collections created under
	// BASIC, through both API versions; and one point of 300 bytes
	six1 := make([]*jv, 6)
	six2 := make([]*jv, 6)
	for i := range six1 {
		six1[i] = jObj("vector", jVec(1, 2, float32(i)))
		six2[i] = jObj("size", jInt(int64(1000+i)))
	}
	for _, v := range []struct {
		tag, path, user string
		body           *jv
	}{
		{"plan:active-plan-v1-insert-over-quota", "/v1/collections/vcol/points", "vone", jObj("points", jArr(six1...))},
		{"plan:active-plan-v2-insert-over-quota", "/v2/collections/rich/points", "alice", jObj("points", jArr(six2...))},
		{"plan:active-plan-v1-point-size", "/v1/collections/vcol/points", "vone", jObj("points", jArr(jObj("vector", jVec(1, 2, 3), "metadata", jStr(strings.Repeat("m", 300)))))},
	} {
		s := spec(v.tag, "valid", "POST", v.path, v.user, ctJ, v.body.JSON())
		s.Plan = "TINY"
		g.add(s)
	}
	for _, ct := range []string{"", "text/plain", "application/json; charset=utf-8", "APPLICATION/JSON", "application/x-msgpack", "application/msgpack "} {
		for _, b := range bases {
			g.add(spec("content-type:"+ct+":"+b.name, "mutated", b.method, b.path, b.user, ct, b.body.JSON()))
		}
	}
	for _, b := range bases { // JSON body under the msgpack type and vice versa
		g.add(spec("content-type:json-as-msgpack:"+b.name, "mutated", b.method, b.path, b.user, ctM, b.body.JSON()))
		g.add(spec("content-type:msgpack-as-json:"+b.name, "mutated", b.method, b.path, b.user, ctJ, b.body.Msgpack()))
		g.add(spec("body:empty:"+b.name, "mutated", b.method, b.path, b.user, ctJ, nil))
		g.add(spec("body:empty-msgpack:"+b.name, "mutated", b.method, b.path, b.user, ctM, nil))
		j, m := b.body.JSON(), b.body.Msgpack()
		for _, cut := range []int{1, len(j) / 3, len(j) / 2, len(j) - 1} {
			g.add(spec(fmt.Sprintf("body:truncated-json-%d:%s", cut, b.name), "mutated", b.method, b.path, b.user, ctJ, j[:cut]))
		}
		for _, cut := range []int{1, len(m) / 3, len(m) / 2, len(m) - 1} {
			g.add(spec(fmt.Sprintf("body:truncated-msgpack-%d:%s", cut, b.name), "mutated", b.method, b.path, b.user, ctM, m[:cut]))
		}
		g.add(spec("body:trailing-garbage:"+b.name, "mutated", b.method, b.path, b.user, ctJ, append(append([]byte{}, j...), []byte(" }]garbage")...)))
		g.add(spec("body:two-values:"+b.name, "mutated", b.method, b.path, b.user, ctJ, append(append([]byte{}, j...), j...)))
		g.add(spec("body:bom:"+b.name, "mutated", b.method, b.path, b.user, ctJ, append([]byte{0xef, 0xbb, 0xbf}, j...)))
	}
	for _, mp := range [][2]string{{"PATCH", "/v2/collections"}, {"PUT", "/v2/collections"}, {"DELETE", "/v2/collections"}, {"POST", "/v2/collections/rich"}, {"PUT", "/v2/collections/rich"},
		{"GET", "/v2/collections/rich/points"}, {"PATCH", "/v2/collections/rich/points"}, {"GET", "/v2/collections/rich/points/search"}, {"DELETE", "/v2/collections/rich/points/search"},
		{"POST", "/v2/collections/rich/points/search/more"}, {"GET", "/v3/collections"}, {"GET", "/v2/unknown"}, {"GET", "/"}, {"POST", "/v1/collections/vcol"},
		{"GET", "/v1/collections/vcol/points"}, {"HEAD", "/v2/collections"}, {"OPTIONS", "/v2/collections"}, {"POST", "/v2/ping"}, {"DELETE", "/v1/ping"}} {
		u := "alice"
		if strings.HasPrefix(mp[1], "/v1") {
			u = "vone"
		}
		g.add(spec("route:"+mp[0]+" "+mp[1], "mutated", mp[0], mp[1], u, ctJ, sj))
	}
	for _, id := range []string{"ab", "a", strings.Repeat("c", 24), strings.Repeat("c", 25), strings.Repeat("c", 16), strings.Repeat("c", 17), "nosuch", "RICH", "rich%20", "r.ch", "_id", "points"} {
		for _, v := range []string{"v1", "v2"} {
			u := map[string]string{"v1": "vone", "v2": "alice"}[v]
			g.add(spec("uri:"+v+":get:"+id, "mutated", "GET", "/"+v+"/collections/"+id, u, "", nil))
			g.add(spec("uri:"+v+":delete:"+id, "mutated", "DELETE", "/"+v+"/collections/"+id, u, "", nil))
			g.add(spec("uri:"+v+":search:"+id, "mutated", "POST", "/"+v+"/collections/"+id+"/points/search", u, ctJ, sj))
		}
	}
	// a v2 request on a v1 collection and on the schema-less collection
	g.add(spec("valid:v2-search-on-v1-collection", "valid", "POST", "/v2/collections/vcol/points/search", "vone", ctJ,
		jObj("query", jObj("property", jStr("vector"), "vectorVamana", jObj("vector", jVec(1, 2, 3), "operator", jStr("near"), "searchSize", jInt(75), "limit", jInt(5))), "select", jStrs("metadata.s"), "limit", jInt(5)).JSON()))
	g.add(spec("valid:plain-insert", "valid", "POST", "/v2/collections/plain/points", "alice", ctJ, jObj("points", jArr(jObj("_id", jStr(c18Id(0xff00).String()), "vec", jStr("not indexed here"), "_and", jInt(1)), jNull())).JSON()))
	g.add(spec("valid:plain-search-id", "valid", "POST", "/v2/collections/plain/points/search", "alice", ctM,
		jObj("query", jObj("property", jStr("_id"), "string", jObj("value", jStr(c18Id(1).String()), "operator", jStr("equals"))), "select", jStrs("b.c", "a"), "limit", jInt(1)).Msgpack()))
	g.add(spec("invalid:plain-search-prop", "mutated", "POST", "/v2/collections/plain/points/search", "alice", ctJ,
		jObj("query", jObj("property", jStr("a"), "integer", jObj("value", jInt(1), "operator", jStr("equals"))), "limit", jInt(1)).JSON()))
	// reserved and odd property names as index names
	for _, nm := range []string{"_id", "_and", "_or", "", "a.b", "a..b", ".v", "v.", "*", "a.*", "a.0", "x y", "é"} {
		sch := jObj(nm, jObj("type", jStr("integer")), "w", jObj("type", jStr("vectorFlat"), "vectorFlat", jObj("vectorSize", jInt(2), "distanceMetric", jStr("euclidean"))))
		mkc := spec("names:create:"+nm, "mutated", "POST", "/v2/collections", "alice", ctJ, jObj("id", jStr("names"), "indexSchema", sch).JSON())
		g.add(mkc)
		setup := mkc
		setup.Tag = "setup"
		i1 := spec("names:insert:"+nm, "mutated", "POST", "/v2/collections/names/points", "alice", ctJ, jObj("points", jArr(jObj("w", jVec(1, 2), "q", jInt(1)), jObj(nm, jInt64(5), "w", jVec(2, 2)))).JSON())
		i1.Setup = []xspec{setup}
		g.add(i1)
		s1 := spec("names:search:"+nm, "mutated", "POST", "/v2/collections/names/points/search", "alice", ctJ,
			jObj("query", jObj("property", jStr(nm), "integer", jObj("value", jInt(5), "operator", jStr("equals")), "_and", jArr(jObj("property", jStr("w"), "vectorFlat", jObj("vector", jVec(1, 2), "operator", jStr("near"), "limit", jInt(3)))),
				"_or", jArr(jObj("property", jStr("w"), "vectorFlat", jObj("vector", jVec(1, 2, 3), "operator", jStr("near"), "limit", jInt(3))))), "limit", jInt(3)).JSON())
		s1.Setup = []xspec{setup, {Tag: "setup", Class: "valid", Method: "POST", Path: "/v2/collections/names/points", User: "alice", Plan: "BASIC", CT: ctJ, Body: jObj("points", jArr(jObj("w", jVec(1, 2)))).JSON()}}
		g.add(s1)
	}
	// ---- dotted index properties: a root key literally named like the property next to the nested map.
	// The dispatcher of the shard (msgpack Decoder.Query) walks the nested path, so the nested value is
	// the one that must be validated; the literal key is an ordinary unindexed field.
	type dottedProp struct {
		root, leaf string
		good       *jv
		bad        []*jv
		badNames   []string
	}
	dprops := []dottedProp{
		{"geo", "vec", jVec(1, 2, 3), []*jv{jVec(1, 2), jVec(1, 2, 3, 4), jVec(), jStr("v"), jArr(jStr("a"), jStr("b"), jStr("c"))}, []string{"len2", "len4", "len0", "string", "strings"}},
		{"geo", "flat", jVec(1, 2), []*jv{jVec(1, 2, 3), jVec(1), jInt64(7)}, []string{"len3", "len1", "int"}},
		{"geo", "name", jStr("nm"), []*jv{jInt64(7), jVec(1, 2)}, []string{"int", "vector"}},
		{"meta", "tags", jStrs("t", "u"), []*jv{jArr(jInt64(1)), jStr("t")}, []string{"ints", "string"}},
		{"meta", "count", jInt64(5), []*jv{jStr("5"), jVec(1)}, []string{"string", "vector"}},
		{"meta", "score", jF64(1.5), []*jv{jStr("1.5"), jBool(true)}, []string{"string", "bool"}},
		{"meta", "text", jStr("alpha"), []*jv{jInt64(1), jStrs("a")}, []string{"int", "strings"}},
	}
	for _, dp := range dprops {
		name := dp.root + "." + dp.leaf
		type variant struct {
			tag     string
			literal *jv // nil: no literal key
			nested  *jv // nil: the nested map has no such key
			noRoot  bool
			scalar  bool // the root key holds a scalar (the walk is blocked)
		}
		vs := []variant{
			{"literal-good:nested-good", dp.good, dp.good, false, false},
			{"literal-good:nested-missing", dp.good, nil, false, false},
			{"literal-good:no-nested-map", dp.good, nil, true, false},
			{"literal-good:nested-blocked", dp.good, nil, false, true},
			{"literal-bad:nested-missing", dp.bad[0], nil, false, false},
			{"literal-bad:no-nested-map", dp.bad[0], nil, true, false},
			{"no-literal:nested-good", nil, dp.good, false, false},
		}
		for k, b := range dp.bad {
			vs = append(vs, variant{"literal-good:nested-" + dp.badNames[k], dp.good, b, false, false},
				variant{"literal-" + dp.badNames[k] + ":nested-good", b, dp.good, false, false},
				variant{"literal-" + dp.badNames[k] + ":nested-" + dp.badNames[k], b, b, false, false},
				variant{"no-literal:nested-" + dp.badNames[k], nil, b, false, false})
		}
		for _, v := range vs {
			pt := jObj("other", jStr("x"))
			if v.literal != nil {
				pt.set(name, v.literal)
			}
			switch {
			case v.scalar:
				pt.set(dp.root, jInt64(3))
			case !v.noRoot:
				nm := jObj("unrelated", jInt64(1))
				if v.nested != nil {
					nm.set(dp.leaf, v.nested)
				}
				pt.set(dp.root, nm)
			}
			for _, op := range [][2]string{{"POST", "insert"}, {"PUT", "update"}} {
				body := pt.clone()
				if op[0] == "PUT" {
					body.set("_id", jStr(c18Id(1).String()))
				}
				req := jObj("points", jArr(body))
				g.add(spec("literal-key:"+op[1]+":"+name+":"+v.tag+":json", "mutated", op[0], "/v2/collections/dotted/points", "alice", ctJ, req.JSON()))
				g.add(spec("literal-key:"+op[1]+":"+name+":"+v.tag+":msgpack", "mutated", op[0], "/v2/collections/dotted/points", "alice", ctM, req.Msgpack()))
			}
		}
	}
	// searches on the dotted collection (the stored vectors all have the index dimension)
	g.add(spec("valid:dotted-search", "valid", "POST", "/v2/collections/dotted/points/search", "alice", ctJ,
		jObj("query", jObj("property", jStr("_or"), "_or", jArr(
			jObj("property", jStr("geo.vec"), "vectorVamana", jObj("vector", jVec(1, 1, 2), "operator", jStr("near"), "searchSize", jInt(75), "limit", jInt(10))),
			jObj("property", jStr("geo.flat"), "vectorFlat", jObj("vector", jVec(1, 1), "operator", jStr("near"), "limit", jInt(10),
				"filter", jObj("property", jStr("meta.count"), "integer", jObj("value", jInt(0), "operator", jStr("greaterThanOrEquals"))))))),
			"select", jStrs("geo.name", "meta"), "limit", jInt(20)).JSON()))
	// ---- unindexed properties holding integers of mixed width and signedness (what a standard
	// MessagePack encoder writes: fixint, int8..int64 for negative, uint8..uint64 for non-negative values),
	// floats, strings, nil next to them; then valid searches sorted by those properties
	mixedVals := []*jv{jUintC(5), jUintC(127), jUintC(128), jUintC(200), jUintC(255), jUintC(256), jUintC(32767), jUintC(32768), jUintC(65535), jUintC(65536),
		jUintC(1<<31 - 1), jUintC(1 << 31), jUintC(1<<32 - 1), jUintC(1 << 32), jUintC(1<<63 - 1), jUintC(1 << 63), jUintC(0),
		jInt(-1), jInt(-32), jInt(-33), jInt(-128), jInt(-129), jInt(-32768), jInt(-32769), jInt(-(1 << 31)), jInt(-(1<<31) - 1), jInt(math.MinInt64),
		jInt(100), jInt(300), jInt(70000), jInt64(5), jF64(1.5), jF32(2.5), jF64(200), jStr("seven"), jStr("200"), jNull(), jBool(true)}
	mixedPoint := func(i int) *jv {
		n := len(mixedVals)
		p := jObj("_id", jStr(c18Id(0x200+i).String()), "vec", jVec(float32(i%7), float32(i%5)), "cat", jStr([]string{"a", "b"}[i%2]),
			"stock", mixedVals[i%n], "alt", mixedVals[(i*7+3)%n], "nest", jObj("q", mixedVals[(i*11+5)%n]))
		if i%9 == 4 {
			p = jObj("_id", jStr(c18Id(0x200+i).String()), "vec", jVec(1, 1), "cat", jStr("a")) // the sort properties are missing
		}
		return p
	}
	mixedBatch := func(from, to int) *jv {
		xs := []*jv{}
		for i := from; i < to; i++ {
			xs = append(xs, mixedPoint(i))
		}
		return jObj("points", jArr(xs...))
	}
	nMixed := len(mixedVals)
	mixedIns := spec("mixed-ints:insert", "valid", "POST", "/v2/collections/mixed/points", "alice", ctM, mixedBatch(0, nMixed).Msgpack())
	g.add(mixedIns)
	upd := mixedBatch(0, nMixed)
	for k, p := range upd.get("points").a { // rotate the values: every point changes the kind of its properties
		if p.get("stock") != nil {
			p.set("stock", mixedVals[(k+13)%nMixed]).set("alt", mixedVals[(k*5+1)%nMixed])
		}
	}
	mixedUpd := spec("mixed-ints:update", "valid", "PUT", "/v2/collections/mixed/points", "alice", ctM, upd.Msgpack())
	setupIns, setupUpd := mixedIns, mixedUpd
	setupIns.Tag, setupUpd.Tag = "setup", "setup"
	mixedUpd.Setup = []xspec{setupIns}
	g.add(mixedUpd)
	for k := 0; k < nMixed; k += 2 { // pairs of kinds, one small request each
		g.add(spec(fmt.Sprintf("mixed-ints:insert-pair:%d", k), "valid", "POST", "/v2/collections/mixed/points", "alice", ctM, mixedBatch(k, min(k+2, nMixed)).Msgpack()))
	}
	sortOpt := func(prop string, desc bool) *jv { return jObj("property", jStr(prop), "descending", jBool(desc)) }
	mixedQueries := []struct {
		name string
		q    *jv
	}{
		{"filter", jObj("property", jStr("cat"), "string", jObj("value", jStr("a"), "operator", jStr("equals")))},
		{"filter-all", jObj("property", jStr("cat"), "string", jObj("value", jStr("0"), "operator", jStr("greaterThan")))},
		{"ranking", jObj("property", jStr("vec"), "vectorVamana", jObj("vector", jVec(1, 2), "operator", jStr("near"), "searchSize", jInt(75), "limit", jInt(75)))},
		{"ranking-filter", jObj("property", jStr("vec"), "vectorVamana", jObj("vector", jVec(3, 1), "operator", jStr("near"), "searchSize", jInt(75), "limit", jInt(50),
			"filter", jObj("property", jStr("cat"), "string", jObj("value", jStr("b"), "operator", jStr("equals")))))},
		{"ids-5-200", jObj("property", jStr("_id"), "stringArray", jObj("value", jStrs(c18Id(0x200).String(), c18Id(0x203).String()), "operator", jStr("containsAny")))},
	}
	mixedSorts := []struct {
		name string
		s    *jv
		sel  *jv
	}{
		{"stock-asc", jArr(sortOpt("stock", false)), jStrs("stock")},
		{"stock-desc", jArr(sortOpt("stock", true)), jStrs("stock", "alt")},
		{"stock-alt", jArr(sortOpt("stock", false), sortOpt("alt", true)), jStrs("alt", "stock")},
		{"alt-stock-desc", jArr(sortOpt("alt", true), sortOpt("stock", true)), jStrs("*")},
		{"nested", jArr(sortOpt("nest.q", false), sortOpt("stock", false)), jStrs("nest", "stock")},
		{"nested-leaf", jArr(sortOpt("nest.q", true)), jStrs("nest.q")},
		{"not-selected", jArr(sortOpt("stock", false)), nil},
		{"missing-prop", jArr(sortOpt("nosuch", false), sortOpt("alt", false)), jStrs("alt")},
	}
	for _, state := range []string{"inserted", "updated"} {
		setup := []xspec{setupIns}
		if state == "updated" {
			setup = []xspec{setupIns, setupUpd}
		}
		for _, mq := range mixedQueries {
			for k, ms := range mixedSorts {
				req := jObj("query", mq.q, "sort", ms.s, "limit", jInt(100))
				if ms.sel != nil {
					req.set("select", ms.sel)
				}
				for e, ct := range []string{ctJ, ctM} {
					if !thorough && (k+e)%2 == 1 && mq.name != "ids-5-200" && mq.name != "filter-all" {
						continue
					}
					body := req.JSON()
					if ct == ctM {
						body = req.Msgpack()
					}
					sx := spec("mixed-ints:search:"+state+":"+mq.name+":"+ms.name+":"+ct[12:], "valid", "POST", "/v2/collections/mixed/points/search", "alice", ct, body)
					sx.Setup = setup
					g.add(sx)
				}
			}
		}
	}
	// ---- designated requests of the confirmed defects
	for _, d := range [][3]string{{"GET", "/v1/collections", ""}, {"GET", "/v1/collections/rich", ""},
		{"POST", "/v1/collections/rich/points", `{"points":[{"vector":[1,2,3,4]}]}`}, {"PUT", "/v1/collections/rich/points", `{"points":[{"id":"00000000-0000-4000-8000-000000000001","vector":[1,2,3,4]}]}`},
		{"POST", "/v1/collections/rich/points/search", `{"vector":[1,2,3,4]}`}, {"DELETE", "/v1/collections/rich/points", `{"ids":["00000000-0000-4000-8000-00000000ff03"]}`},
		{"POST", "/v1/collections/rich/points", `{"points":[{"vector":[]}]}`}, {"POST", "/v1/collections/rich/points/search", `{"vector":[1],"limit":76}`}} {
		g.add(spec("defect:v1-on-v2-collection:"+d[0]+" "+d[1], "valid", d[0], d[1], "alice", ctJ, []byte(d[2])))
	}
	// a product quantizer that cannot be built (refused at creation since the fix; the later requests
	// then find no collection)
	pqCreate := spec("defect:pq-unbuildable:create", "mutated", "POST", "/v2/collections", "alice", ctJ,
		[]byte(`{"id":"pqbad","indexSchema":{"vec":{"type":"vectorFlat","vectorFlat":{"vectorSize":5,"distanceMetric":"euclidean","quantizer":{"type":"product","product":{"numCentroids":4,"numSubVectors":2,"triggerThreshold":1000}}}}}}`))
	g.add(pqCreate)
	g.add(spec("defect:pq-unbuildable:create-haversine", "mutated", "POST", "/v2/collections", "alice", ctM,
		jObj("id", jStr("pqhav"), "indexSchema", jObj("vec", jObj("type", jStr("vectorVamana"), "vectorVamana", jObj("vectorSize", jInt(2), "distanceMetric", jStr("haversine"),
			"searchSize", jInt(75), "degreeBound", jInt(64), "alpha", jF32(1.2), "quantizer", jObj("type", jStr("product"), "product", jObj("numCentroids", jInt(4), "numSubVectors", jInt(2), "triggerThreshold", jInt(1000))))))).Msgpack()))
	g.add(spec("valid:pq-hamming-create", "valid", "POST", "/v2/collections", "alice", ctJ,
		[]byte(`{"id":"pqham","indexSchema":{"vec":{"type":"vectorFlat","vectorFlat":{"vectorSize":5,"distanceMetric":"hamming","quantizer":{"type":"product","product":{"numCentroids":4,"numSubVectors":2,"triggerThreshold":1000}}}}}}`)))
	pqSetup := pqCreate
	pqSetup.Tag = "setup"
	pqIns := spec("defect:pq-unbuildable:insert", "valid", "POST", "/v2/collections/pqbad/points", "alice", ctJ, []byte(`{"points":[{"vec":[1,2,3,4,5]}]}`))
	pqIns.Setup = []xspec{pqSetup}
	g.add(pqIns)
	pqSetup2 := pqIns
	pqSetup2.Tag, pqSetup2.Setup = "setup", nil
	pqSearch := spec("defect:pq-unbuildable:search", "valid", "POST", "/v2/collections/pqbad/points/search", "alice", ctJ,
		[]byte(`{"query":{"property":"vec","vectorFlat":{"vector":[1,2,3,4,5],"operator":"near","limit":3}},"limit":3}`))
	pqSearch.Setup = []xspec{pqSetup, pqSetup2}
	g.add(pqSearch)
	for _, sel := range []string{`["size.b"]`, `["labels.x"]`, `["labels","labels.0"]`, `["extra.k.z"]`, `["cat","cat.x"]`, `["arr.1"]`, `["labels.0"]`, `["nested","nested.n"]`, `[""]`, `["nosuch.a","nosuch"]`, `["arr.*"]`} {
		g.add(spec("defect:select-through-scalar:"+sel, "valid", "POST", "/v2/collections/rich/points/search", "alice", ctJ,
			[]byte(`{"query":{"property":"size","integer":{"value":3,"operator":"lessThan"}},"select":`+sel+`,"limit":10}`)))
	}
	for _, sel := range []string{`["other"]`, `["*"]`, `["cat"]`, `[""]`} {
		g.add(spec("defect:stored-nan:"+sel, "valid", "POST", "/v2/collections/nanbox/points/search", "alice", ctJ,
			[]byte(`{"query":{"property":"size","integer":{"value":100,"operator":"lessThan"}},"select":`+sel+`,"limit":10}`)))
	}
	g.add(spec("defect:stored-nan:no-select", "valid", "POST", "/v2/collections/nanbox/points/search", "alice", ctJ,
		[]byte(`{"query":{"property":"size","integer":{"value":100,"operator":"lessThan"}},"limit":10}`)))
	g.add(spec("defect:stored-nan:v1-metadata", "valid", "POST", "/v1/collections/vnan/points/search", "vone", ctJ, []byte(`{"vector":[1,1,2]}`)))
	nanAlpha := jObj("id", jStr("anan"), "indexSchema", jObj("v", jObj("type", jStr("vectorVamana"), "vectorVamana",
		jObj("vectorSize", jInt(2), "distanceMetric", jStr("euclidean"), "searchSize", jInt(75), "degreeBound", jInt(64), "alpha", jF32(float32(math.NaN()))))))
	mkNan := spec("gap:alpha-nan:create", "mutated", "POST", "/v2/collections", "nancy", ctM, nanAlpha.Msgpack())
	g.add(mkNan)
	setupNan := mkNan
	setupNan.Tag = "setup"
	for _, d := range [][3]string{{"GET", "/v2/collections/anan", ""}, {"GET", "/v2/collections", ""}, {"POST", "/v2/collections/anan/points", `{"points":[{"v":[1,2]},{"v":[2,2]}]}`}} {
		s := spec("defect:alpha-nan:"+d[0]+" "+d[1], "valid", d[0], d[1], "nancy", ctJ, []byte(d[2]))
		s.Setup = []xspec{setupNan}
		g.add(s)
	}
	g.add(spec("gap:bq-trigger-with-threshold", "mutated", "POST", "/v2/collections", "alice", ctJ,
		[]byte(`{"id":"gapbq","indexSchema":{"v":{"type":"vectorFlat","vectorFlat":{"vectorSize":4,"distanceMetric":"euclidean","quantizer":{"type":"binary","binary":{"threshold":0.5,"triggerThreshold":-5,"distanceMetric":"hamming"}}}}}}`)))
	g.add(spec("gap:bq-trigger-without-threshold", "mutated", "POST", "/v2/collections", "alice", ctJ,
		[]byte(`{"id":"gapbq","indexSchema":{"v":{"type":"vectorFlat","vectorFlat":{"vectorSize":4,"distanceMetric":"euclidean","quantizer":{"type":"binary","binary":{"triggerThreshold":50001,"distanceMetric":"hamming"}}}}}}`)))
	// a point quota between the size of one request and a plausible internal slice of it (1500): 2000 points into an
	// empty collection and into one that already holds 100 are refused as a whole; 1500 and 1400 + 100 are accepted
	mcol := spec("setup", "valid", "POST", "/v2/collections", "mia", ctJ, jObj("id", jStr("mcol1"), "indexSchema", jObj()).JSON())
	mpts := func(n int) []byte {
		xs := make([]*jv, n)
		for i := range xs {
			xs[i] = jObj("k", jInt(int64(i)))
		}
		return jObj("points", jArr(xs...)).JSON()
	}
	m100 := spec("setup", "valid", "POST", "/v2/collections/mcol1/points", "mia", ctJ, mpts(100))
	for _, v := range []struct {
		tag   string
		n     int
		setup []xspec
	}{{"plan:mid-2000-into-empty", 2000, []xspec{mcol}}, {"plan:mid-2000-into-100", 2000, []xspec{mcol, m100}},
		{"plan:mid-1500-into-empty", 1500, []xspec{mcol}}, {"plan:mid-1400-into-100", 1400, []xspec{mcol, m100}}, {"plan:mid-1401-into-100", 1401, []xspec{mcol, m100}}} {
		sx := spec(v.tag, "valid", "POST", "/v2/collections/mcol1/points", "mia", ctJ, mpts(v.n))
		sx.Setup = v.setup
		g.add(sx)
	}
	// a v2 collection whose vamana index named vector has the smallest search size the API allows (25), used through
	// the v1 API: v1 searches may ask for up to 75 points
	ss25 := spec("setup", "valid", "POST", "/v2/collections", "alice", ctJ,
		[]byte(`{"id":"vss25","indexSchema":{"vector":{"type":"vectorVamana","vectorVamana":{"vectorSize":3,"distanceMetric":"euclidean","searchSize":25,"degreeBound":32,"alpha":1.2}}}}`))
	ss25ins := spec("setup", "valid", "POST", "/v1/collections/vss25/points", "alice", ctJ, []byte(`{"points":[{"vector":[1,2,3]},{"vector":[3,2,1]},{"vector":[0,0,1]}]}`))
	for _, lim := range []int{1, 25, 26, 75} {
		s1 := spec("valid:v1-search-on-small-search-size", "valid", "POST", "/v1/collections/vss25/points/search", "alice", ctJ,
			[]byte(fmt.Sprintf(`{"vector":[1,2,3],"limit":%d}`, lim)))
		s1.Setup = []xspec{ss25, ss25ins}
		g.add(s1)
	}
	// a filtered graph search whose filter matches a point that carries the filter property but NOT the vector (indexed
	// properties are optional): a valid request, answered with the matching points that have a vector
	nvCreate := spec("setup", "valid", "POST", "/v2/collections", "alice", ctJ,
		[]byte(`{"id":"novec","indexSchema":{"vec":{"type":"vectorVamana","vectorVamana":{"vectorSize":2,"distanceMetric":"euclidean","searchSize":75,"degreeBound":64,"alpha":1.2}},"cat":{"type":"string","string":{"caseSensitive":true}},"size":{"type":"integer"}}}`))
	nvIns := spec("setup", "valid", "POST", "/v2/collections/novec/points", "alice", ctJ,
		[]byte(`{"points":[{"cat":"book","size":0},{"vec":[1,1],"cat":"book","size":1},{"vec":[2,1],"cat":"film","size":2},{"vec":[3,1],"cat":"book","size":3},{"cat":"film","size":4},{"vec":[4,4],"cat":"book","size":5}]}`))
	for _, f := range []string{
		`{"property":"cat","string":{"value":"book","operator":"equals"}}`,
		`{"property":"cat","string":{"value":"film","operator":"equals"}}`,
		`{"property":"size","integer":{"value":0,"operator":"greaterThanOrEquals"}}`,
	} {
		nvs := spec("valid:filtered-vamana-member-without-vector", "valid", "POST", "/v2/collections/novec/points/search", "alice", ctJ,
			[]byte(`{"query":{"property":"vec","vectorVamana":{"vector":[1,2],"operator":"near","searchSize":75,"limit":10,"filter":`+f+`}},"limit":10}`))
		nvs.Setup = []xspec{nvCreate, nvIns}
		g.add(nvs)
	}
	// collection ids with letters and digits that are lower case / decimal in Unicode but not in the documented alphabet
	for _, id := range []string{"café", "straße", "αβγ", "col٣٤", "abc１２", "абв123", "ｃｏｌ"} {
		g.add(spec("invalid:v2-create-id-unicode", "mutated", "POST", "/v2/collections", "alice", ctJ, jObj("id", jStr(id), "indexSchema", jObj()).JSON()))
		g.add(spec("invalid:v1-create-id-unicode", "mutated", "POST", "/v1/collections", "vone", ctJ, jObj("id", jStr(id), "vectorSize", jInt(3), "distanceMetric", jStr("euclidean")).JSON()))
	}
	// a collection whose property "vector" is a FLAT index of dimension 3 and which also carries a vamana parameter
	// block (dimension 5) that nothing validates: the v1 API must not take that block for the index
	strayCreate := spec("setup", "valid", "POST", "/v2/collections", "alice", ctJ,
		[]byte(`{"id":"stray","indexSchema":{"vector":{"type":"vectorFlat","vectorFlat":{"vectorSize":3,"distanceMetric":"euclidean"},"vectorVamana":{"vectorSize":5,"distanceMetric":"euclidean","searchSize":75,"degreeBound":64,"alpha":1.2}}}}`))
	strayIns := spec("stray-block:v1-insert", "valid", "POST", "/v1/collections/stray/points", "alice", ctJ, []byte(`{"points":[{"vector":[1,2,3,4,5]}]}`))
	strayIns.Setup = []xspec{strayCreate}
	g.add(strayIns)
	strayIns3 := spec("stray-block:v1-insert-dim-of-flat", "valid", "POST", "/v1/collections/stray/points", "alice", ctJ, []byte(`{"points":[{"vector":[1,2,3]}]}`))
	strayIns3.Setup = []xspec{strayCreate}
	g.add(strayIns3)
	straySetup2 := strayIns
	straySetup2.Tag, straySetup2.Setup = "setup", nil
	straySearch := spec("stray-block:v2-search-after-v1-insert", "valid", "POST", "/v2/collections/stray/points/search", "alice", ctJ,
		[]byte(`{"query":{"property":"vector","vectorFlat":{"vector":[1,2,3],"operator":"near","limit":3}},"limit":3}`))
	straySearch.Setup = []xspec{strayCreate, straySetup2}
	g.add(straySearch)
	// text queries whose value is valid (non-empty) but leaves no term after analysis (stop words, punctuation, blanks):
	// alone, as the pre-filter of a vector query, and inside a composite
	for _, v := range []string{"the", "of the and", "?!", "...", " ", "a", "THE"} {
		for _, op := range []string{"containsAll", "containsAny"} {
			tq := jObj("property", jStr("desc"), "text", jObj("value", jStr(v), "operator", jStr(op), "limit", jInt(10)))
			g.add(spec("valid:text-no-terms:"+op, "valid", "POST", "/v2/collections/rich/points/search", "alice", ctJ, jObj("query", tq, "limit", jInt(10)).JSON()))
			if v == "the" || v == "?!" {
				g.add(spec("valid:text-no-terms-filter:"+op, "valid", "POST", "/v2/collections/rich/points/search", "alice", ctJ,
					jObj("query", jObj("property", jStr("flat"), "vectorFlat", jObj("vector", jVec(1, 2, 2), "operator", jStr("near"), "limit", jInt(5), "filter", tq)), "limit", jInt(5)).JSON()))
				g.add(spec("valid:text-no-terms-or:"+op, "valid", "POST", "/v2/collections/rich/points/search", "alice", ctJ,
					jObj("query", jObj("property", jStr("_or"), "_or", jArr(tq, jObj("property", jStr("size"), "integer", jObj("value", jInt(1), "operator", jStr("greaterThan"))))), "limit", jInt(5)).JSON()))
			}
		}
	}
	g.add(spec("gap:no-index-schema", "mutated", "POST", "/v2/collections", "alice", ctJ, []byte(`{"id":"gapns"}`)))
	g.add(spec("gap:null-index-schema", "mutated", "POST", "/v2/collections", "alice", ctM, jObj("id", jStr("gapns"), "indexSchema", jNull()).Msgpack()))
	for _, off := range []string{"9223372036854775807", "9223372036854775800", "9223372036854775797", "4611686018427387904", "9223372036854775808"} {
		s := spec("defect:offset-overflow:"+off, "valid", "POST", "/v2/collections/rich/points/search", "alice", ctJ,
			[]byte(`{"query":{"property":"size","integer":{"value":3,"operator":"lessThan"}},"offset":`+off+`,"limit":10}`))
		g.risky = append(g.risky, s)
	}
	deep := append([]byte{0x81, 0xa6, 'p', 'o', 'i', 'n', 't', 's', 0x91, 0x81, 0xa1, 'x'}, make([]byte, 2000000)...)
	for i := 12; i < len(deep); i++ {
		deep[i] = 0x91
	}
	deep = append(deep, 0xc0)
	ds := spec("defect:msgpack-nesting-2000000", "mutated", "POST", "/v2/collections/plain/points", "alice", ctM, deep)
	ds.Depth = 2000000
	g.risky = append(g.risky, ds)
	// moderately deep nesting that must be harmless
	for _, lv := range []int{200, 1000} {
		q := nestAnd(jObj("property", jStr("size"), "integer", jObj("value", jInt(3), "operator", jStr("equals"))), lv)
		g.add(spec(fmt.Sprintf("valid:and-nesting-%d:json", lv), "valid", "POST", "/v2/collections/rich/points/search", "alice", ctJ, jObj("query", q, "limit", jInt(5)).JSON()))
		g.add(spec(fmt.Sprintf("valid:and-nesting-%d:msgpack", lv), "valid", "POST", "/v2/collections/rich/points/search", "alice", ctM, jObj("query", q, "limit", jInt(5)).Msgpack()))
	}
	g.add(spec("invalid:json-nesting-20000", "mutated", "POST", "/v2/collections/plain/points", "alice", ctJ,
		[]byte(`{"points":[{"x":`+strings.Repeat("[", 20000)+strings.Repeat("]", 20000)+`}]}`)))
	// ---- (b) structured mutation of every node of every base request
	budget := 520
	if thorough {
		budget = 0
	}
	if n > 0 {
		budget = max(20, n/len(bases))
	}
	for _, b := range bases {
		ms := sampleMutations(mutationsOf(b.body), budget, g.r)
		for k, m := range ms {
			path := b.path
			if m.nonfinite && b.nanTo != "" {
				path = b.nanTo
			}
			encs := []string{ctJ, ctM}
			if !thorough {
				encs = encs[k%2 : k%2+1]
			}
			if m.msgpack {
				encs = []string{ctM}
			}
			for _, ct := range encs {
				body := m.tree.JSON()
				if ct == ctM {
					body = m.tree.Msgpack()
				}
				g.add(spec("mut:"+b.name+":"+m.name+":"+ct[12:], "mutated", b.method, path, b.user, ct, body))
			}
		}
	}
	// ---- (c) raw and byte-mutated bodies per endpoint
	nraw := 60
	if thorough {
		nraw = 1500
	}
	for _, b := range bases {
		j, m := b.body.JSON(), b.body.Msgpack()
		for k := 0; k < nraw; k++ {
			ct := []string{ctJ, ctM}[k%2]
			var body []byte
			var kind string
			switch k % 3 {
			case 0:
				body, kind = randomBytes(g.r), "random"
			case 1:
				body, kind = mutateBytes(j, g.r), "mutated-json"
				if k%4 != 3 {
					ct = ctJ
				}
			default:
				body, kind = mutateBytes(m, g.r), "mutated-msgpack"
				if k%4 != 3 {
					ct = ctM
				}
			}
			path := b.path
			if b.nanTo != "" {
				path = b.nanTo
			}
			g.add(spec(fmt.Sprintf("raw:%s:%s:%d", b.name, kind, k), "raw", b.method, path, b.user, ct, body))
		}
	}
}

// ---------------------------------------------------------------- children

type c18Result struct {
	prefix  string
	status  int
	panic   bool
	changed bool
	over    bool
	died    bool
	done    bool
}

var c18AuxRe = regexp.MustCompile(`@([0-9a-f]{16})@`)

func c18RunBatch(scratch string, batch int, specs []xspec, timeout time.Duration) ([]c18Result, map[string]string, error) {
	res := make([]c18Result, len(specs))
	auxTerms := map[string]string{}
	dir := filepath.Join(scratch, fmt.Sprintf("batch%03d", batch))
	if err := os.MkdirAll(dir, 0755); err != nil {
		return nil, nil, err
	}
	self, _ := os.Executable()
	skip := 0
	for attempt := 0; skip < len(specs); attempt++ {
		job := c18Job{Port: 21800 + batch%400, Skip: skip, Specs: specs}
		jb, _ := json.Marshal(job)
		jobPath := filepath.Join(dir, "job.json")
		if err := os.WriteFile(jobPath, jb, 0644); err != nil {
			return nil, nil, err
		}
		os.Remove(filepath.Join(dir, "child.out"))
		ctx, cancel := context.WithTimeout(context.Background(), timeout)
		cmd := exec.CommandContext(ctx, self, "c18child", "-replay", jobPath, "-out", dir)
		var stderr strings.Builder
		cmd.Stderr = &stderr
		cmd.Stdout = &stderr
		runErr := cmd.Run()
		cancel()
		data, _ := os.ReadFile(filepath.Join(dir, "child.out"))
		complete := false
		last := -1
		for _, ln := range strings.Split(string(data), "\n") {
			p := strings.Split(ln, "\t")
			switch p[0] {
			case "A":
				if len(p) == 3 {
					auxTerms[p[1]] = p[2]
				}
			case "B":
				if len(p) == 3 {
					i, _ := strconv.Atoi(p[1])
					res[i].prefix = p[2]
					last = i
				}
			case "R":
				if len(p) == 6 {
					i, _ := strconv.Atoi(p[1])
					res[i].status, _ = strconv.Atoi(p[2])
					res[i].panic, res[i].changed, res[i].over, res[i].done = p[3] == "true", p[4] == "true", p[5] == "true", true
				}
			case "E":
				complete = true
			}
		}
		if complete {
			break
		}
		if last < skip || (last >= 0 && res[last].done) {
			// the child failed outside an exchange (fixture, setup request of the next exchange ...)
			if last >= 0 && res[last].done && last+1 < len(specs) && len(specs[last+1].Setup) > 0 && attempt < 50 {
				// died in a setup request: report it on that exchange
				res[last+1].prefix, res[last+1].died, res[last+1].done = "", true, true
				skip = last + 2
				continue
			}
			return nil, nil, fmt.Errorf("c18 child of batch %d failed outside an exchange (%v): %s", batch, runErr, tail(stderr.String(), 1500))
		}
		res[last].died, res[last].done = true, true
		skip = last + 1
		if attempt >= 12 {
			// the process keeps dying in this batch: the deaths recorded so far are the observation, the
			// remaining exchanges of the batch are dropped (counted in the histogram)
			break
		}
	}
	return res, auxTerms, nil
}

func runC18(rc *runCtx) error {
	g := &c18Gen{r: newRng(rc.seed, 1818)}
	g.generate(rc.thorough(), rc.n)
	scratch, err := os.MkdirTemp("", "verif-c18p-")
	if err != nil {
		return err
	}
	defer os.RemoveAll(scratch)
	// batches: normal ones of bounded size, every risky exchange alone
	var batches [][]xspec
	bsize := 420
	for i := 0; i < len(g.specs); i += bsize {
		batches = append(batches, g.specs[i:min(i+bsize, len(g.specs))])
	}
	for _, s := range g.risky {
		batches = append(batches, []xspec{s})
	}
	type bres struct {
		res []c18Result
		aux map[string]string
		err error
	}
	out := make([]bres, len(batches))
	var wg sync.WaitGroup
	sem := make(chan struct{}, 6)
	for b := range batches {
		wg.Add(1)
		go func(b int) {
			defer wg.Done()
			sem <- struct{}{}
			defer func() { <-sem }()
			r, a, err := c18RunBatch(scratch, b, batches[b], 400*time.Second)
			out[b] = bres{r, a, err}
		}(b)
	}
	wg.Wait()
	nfiles := 10
	if rc.thorough() {
		nfiles = 14
	}
	cfs := make([]*caseFile, nfiles)
	auxNames := make([]map[string]string, nfiles)
	for i := range cfs {
		cf, err := newCaseFile(filepath.Join(rc.outDir, fmt.Sprintf("cases_C18_%02d.v", i)), []string{"DocLimits", "Model_C18", "Run_C18"}, "c18case")
		if err != nil {
			return err
		}
		fmt.Fprintln(cf.w, "From Coq Require Import String.\nOpen Scope string_scope.")
		cfs[i], auxNames[i] = cf, map[string]string{}
	}
	hist := map[string]int{}
	distinct := map[uint64]struct{}{}
	total := 0
	for b, br := range out {
		if br.err != nil {
			return br.err
		}
		for i, r := range br.res {
			x := batches[b][i]
			if !r.done {
				hist["dropped after repeated process deaths in its batch"]++
				continue
			}
			if r.prefix == "" {
				// the process died in a setup request of a designated sequence
				r.prefix = fmt.Sprintf("mkCase %s 2 EpNoRoute CValid HOk UriNone CtOther BNone (mkCtx [] [] false 0 0 0 0) (mkFl true false false 0)", cq(x.Tag+" (setup)"))
			}
			fi := total % nfiles
			term := c18AuxRe.ReplaceAllStringFunc(r.prefix, func(m string) string {
				h := m[1:17]
				if nm, ok := auxNames[fi][h]; ok {
					return nm
				}
				nm := cfs[fi].Aux("ischema", br.aux[h])
				auxNames[fi][h] = nm
				return nm
			})
			term += fmt.Sprintf(" (mkObs %d %s %s %s %s)", r.status, cBool(r.panic), cBool(r.changed), cBool(r.died), cBool(r.over))
			cfs[fi].Add(term)
			total++
			// statistics
			rt := c18Route(x.Method, x.Path)
			cls := "other"
			switch {
			case r.died:
				cls = "died"
			case r.status >= 500 || r.panic:
				cls = "5xx"
			case r.status >= 400:
				cls = "4xx"
			case r.status >= 200 && r.status < 300:
				cls = "2xx"
			}
			hist[fmt.Sprintf("v%d %s %s -> %s", rt.ver, strings.TrimPrefix(rt.ep, "Ep"), x.Class, cls)]++
			hist["status "+strconv.Itoa(r.status)]++
			body := "none"
			if k := strings.Index(r.prefix, "(B"); k >= 0 {
				body = r.prefix[k:]
			} else if strings.Contains(r.prefix, "BUndecodable") {
				body = "undecodable"
			}
			distinct[fnv64(fmt.Sprintf("%s|%s|%s|%s|%s|%d", x.Method, x.Path, x.User+x.Plan, x.CT, body, r.status))] = struct{}{}
			if cls == "5xx" || cls == "died" {
				rc.addSample(map[string]any{"tag": x.Tag, "method": x.Method, "path": x.Path, "status": r.status, "panic": r.panic, "died": r.died})
			}
		}
	}
	keys := make([]string, 0, len(hist))
	for k := range hist {
		keys = append(keys, k)
	}
	sort.Strings(keys)
	rc.stats["evaluations"] = total
	rc.stats["distinct"] = len(distinct)
	rc.stats["histogram"] = hist
	rc.stats["seed"] = rc.seed
	for _, cf := range cfs {
		if err := cf.Close("bad"); err != nil {
			return err
		}
	}
	return nil
}
