package main

import "github.com/semafind/semadb/shard/index/text"

func init() { subcmds["c05"] = runC05 }

// the same bleve "standard" analyser semadb's text index uses, called independently of the index
func text_VerifAnalyse(s string) ([]string, error) { return text.VerifAnalyse("standard", s) }

func runC05(rc *runCtx) error {
	n := rc.n
	if n == 0 {
		n = 128
		if rc.thorough() {
			n = 2000
		}
	}
	nfiles := 8
	if rc.thorough() {
		nfiles = 32
	}
	return runHistories(rc, "c05", n, []int{0, 3, 4, 2}, nfiles,
		[]string{"Bytes", "Pack", "Value", "Obs", "Run_C05"}, "hist", "C05")
}
