package main

// Child process: executes ONE generated history against a real shard and
// streams the observations, line by line, so that a crash or a hang of semadb
// is itself an observation. Parent: runs many children in parallel and turns
// their outputs into cases files.

import (
	"bufio"
	"context"
	"flag"
	"fmt"
	"os"
	"os/exec"
	"path/filepath"
	"sort"
	"strings"
	"sync"
	"time"

	"github.com/google/uuid"
	"github.com/semafind/semadb/models"
	"github.com/semafind/semadb/shard"
	"github.com/semafind/semadb/shard/cache"
)

type childArgs struct {
	profile string
	seed    uint64
	idx     int
	cfg     int
	steps   int
	out     string
}

// shardChildMain is called from main() when os.Args[1] == "shardrun".
func shardChildMain(args []string) {
	fs := flag.NewFlagSet("shardrun", flag.ExitOnError)
	var a childArgs
	fs.StringVar(&a.profile, "profile", "c01", "")
	fs.Uint64Var(&a.seed, "seed", 1, "")
	fs.IntVar(&a.idx, "idx", 0, "")
	fs.IntVar(&a.cfg, "cfg", 0, "")
	fs.IntVar(&a.steps, "steps", 0, "")
	fs.StringVar(&a.out, "out", "", "")
	fs.Parse(args)
	if err := runShardChild(a); err != nil {
		fmt.Fprintln(os.Stderr, "shardrun error:", err)
		os.Exit(4)
	}
}

type shardEnv struct {
	dir    string
	path   string
	col    models.Collection
	cm     *cache.Manager
	sh     *shard.Shard
	reopen bool
}

func openEnv(cfg int, schema schemaSpec, maxSize int) (*shardEnv, error) {
	dir, err := os.MkdirTemp("", "verif-shard-")
	if err != nil {
		return nil, err
	}
	e := &shardEnv{dir: dir}
	e.col = models.Collection{UserId: "u", Id: "c", IndexSchema: schema.model(), UserPlan: models.UserPlan{Name: "p", MaxCollections: 10, MaxCollectionPointCount: 1 << 40, MaxPointSize: maxSize}}
	switch cfg {
	case 0:
		e.cm = cache.NewManager(-1)
	case 1:
		e.cm = cache.NewManager(1)
	case 2:
		e.cm = cache.NewManager(0)
	case 3:
		e.cm = cache.NewManager(-1)
		e.reopen = true
	case 4:
		e.cm = cache.NewManager(-1)
	}
	if cfg != 4 {
		e.path = filepath.Join(dir, "sharddb.bbolt")
	}
	e.sh, err = shard.NewShard(e.path, e.col, e.cm)
	if err != nil {
		os.RemoveAll(dir)
		return nil, err
	}
	return e, nil
}

func (e *shardEnv) maybeReopen() error {
	if !e.reopen {
		return nil
	}
	if err := e.sh.Close(); err != nil {
		return err
	}
	var err error
	e.sh, err = shard.NewShard(e.path, e.col, e.cm)
	return err
}

func (e *shardEnv) close() {
	if e.sh != nil {
		e.sh.Close()
	}
	os.RemoveAll(e.dir)
}

// execBatch runs a batch on the shard and prints the `bout`.
func execBatch(sh *shard.Shard, b batchSpec) (string, []uuid.UUID, bool, error) {
	switch b.kind {
	case 0, 1:
		pts := make([]models.Point, len(b.points))
		for i, p := range b.points {
			mp, err := p.model()
			if err != nil {
				return "", nil, false, err
			}
			pts[i] = mp
		}
		if b.kind == 0 {
			if err := sh.InsertPoints(pts); err != nil {
				return fmt.Sprintf("(OErr %d)", errKind(err)), nil, false, nil
			}
			return "(OOk [])", nil, true, nil
		}
		ids, err := sh.UpdatePoints(pts)
		if err != nil {
			return fmt.Sprintf("(OErr %d)", errKind(err)), nil, false, nil
		}
		return "(OOk " + pIds(ids) + ")", ids, true, nil
	default:
		set := map[uuid.UUID]struct{}{}
		for _, id := range b.ids {
			set[id] = struct{}{}
		}
		ids, err := sh.DeletePoints(set)
		if err != nil {
			return fmt.Sprintf("(OErr %d)", errKind(err)), nil, false, nil
		}
		return "(OOk " + pIds(ids) + ")", ids, true, nil
	}
}

func pIds(ids []uuid.UUID) string {
	sorted := append([]uuid.UUID{}, ids...)
	sort.Slice(sorted, func(i, j int) bool { return strings.Compare(string(sorted[i][:]), string(sorted[j][:])) < 0 })
	items := make([]string, len(sorted))
	for i, id := range sorted {
		items[i] = pUUID(id)
	}
	return pList(items)
}

// readAll returns the `s_live` term: every live point of the pool with its document.
func readAll(sh *shard.Shard, pool []uuid.UUID) (string, map[uuid.UUID]Val, error) {
	q := querySpec{kind: "idany", ids: pool}
	res, err := sh.SearchPoints(models.SearchRequest{Query: q.model(), Select: []string{"*"}})
	if err != nil {
		return "", nil, err
	}
	sort.Slice(res, func(i, j int) bool { return strings.Compare(string(res[i].Id[:]), string(res[j].Id[:])) < 0 })
	items := make([]string, len(res))
	docs := map[uuid.UUID]Val{}
	for i, r := range res {
		v, err := decodeDoc(r.Data)
		if err != nil {
			return "", nil, err
		}
		docs[r.Id] = v
		items[i] = "(" + pUUID(r.Id) + ", " + v.docCoq() + ")"
	}
	return pList(items), docs, nil
}

func runShardChild(a childArgs) error {
	g := newGen(a.profile, a.seed, a.idx)
	g.noRej = a.cfg == 4
	if a.profile == "c01" && a.idx%5 == 3 && a.cfg != 4 {
		g.maxSize = 300 + g.r.IntN(300)
	}
	f, err := os.Create(a.out)
	if err != nil {
		return err
	}
	defer f.Close()
	w := bufio.NewWriter(f)
	emit := func(s string) {
		w.WriteString(s)
		w.WriteByte('\n')
		w.Flush()
	}
	env, err := openEnv(a.cfg, g.schema, g.maxSize)
	if err != nil {
		return err
	}
	defer env.close()
	emit(fmt.Sprintf("H\t%s\t%d\t%d", g.schema.coq(), g.maxSize, a.cfg))
	nsteps := a.steps
	if nsteps == 0 {
		nsteps = 6 + g.r.IntN(8)
	}
	for step := 0; step < nsteps; step++ {
		b := g.genBatch(step)
		emit("B\t" + b.coq() + "\t" + describeBatch(b))
		out, okIds, ok, err := execBatch(env.sh, b)
		if err != nil {
			return err
		}
		if ok {
			g.noteApplied(b, okIds)
		}
		if err := env.maybeReopen(); err != nil {
			return fmt.Errorf("reopen: %w", err)
		}
		info, err := env.sh.Info()
		if err != nil {
			return err
		}
		extras := []string{}
		live, docs, err := readAll(env.sh, g.pool)
		if err != nil {
			live = "[]"
			extras = append(extras, "(XNote 901)")
		}
		// queries of this profile
		reqs := g.genRequests(step, docs)
		qitems := make([]string, 0, len(reqs))
		for _, rq := range reqs {
			res, err := env.sh.SearchPoints(rq.model())
			var o string
			if err != nil {
				o = "(QError 1)"
				if os.Getenv("VERIF_DEBUG") != "" {
					fmt.Fprintf(os.Stderr, "search error: %v\n  request: %s\n", err, rq.coq())
				}
			} else {
				o, err = pRows(res, len(rq.sel) > 0)
				if err != nil {
					return err
				}
			}
			qitems = append(qitems, "("+rq.coq()+", "+o+")")
		}
		lower := g.lowerTable(docs, reqs)
		extras = append(extras, g.extraObs(env, docs, reqs)...)
		emit(fmt.Sprintf("R\t%s\t%d\t%s\t%s\t%s\t%s", out, info.PointCount, live, pList(qitems), lower, pList(extras)))
	}
	emit("E")
	return nil
}

func describeBatch(b batchSpec) string {
	switch b.kind {
	case 0:
		return fmt.Sprintf("insert:%d", len(b.points))
	case 1:
		return fmt.Sprintf("update:%d", len(b.points))
	}
	return fmt.Sprintf("delete:%d", len(b.ids))
}

// ---------------------------------------------------------------- parent side

type histResult struct {
	idx     int
	cfg     int
	term    string // Coq `hist`
	steps   int
	crashed bool
	hung    bool
	errText string
	kinds   []string // per step: batch kind + outcome
	sig     string   // canonical text for distinctness
}

// runHistory launches the child for (profile, seed, idx, cfg) and assembles the hist term.
func runHistory(profile string, seed uint64, idx, cfg, steps int, scratch string, timeout time.Duration) histResult {
	hr := histResult{idx: idx, cfg: cfg}
	out := filepath.Join(scratch, fmt.Sprintf("h_%s_%d_%d.txt", profile, idx, cfg))
	ctx, cancel := context.WithTimeout(context.Background(), timeout)
	defer cancel()
	self, _ := os.Executable()
	cmd := exec.CommandContext(ctx, self, "shardrun", "-profile", profile, "-seed", fmt.Sprint(seed), "-idx", fmt.Sprint(idx), "-cfg", fmt.Sprint(cfg), "-steps", fmt.Sprint(steps), "-out", out)
	var stderr strings.Builder
	cmd.Stderr = &stderr
	err := cmd.Run()
	hung := ctx.Err() == context.DeadlineExceeded
	data, rerr := os.ReadFile(out)
	os.Remove(out)
	if rerr != nil {
		hr.errText = "no output: " + stderr.String()
		return hr
	}
	lines := strings.Split(strings.TrimRight(string(data), "\n"), "\n")
	if len(lines) == 0 || !strings.HasPrefix(lines[0], "H\t") {
		hr.errText = "bad output: " + tail(stderr.String(), 600)
		return hr
	}
	h := strings.Split(lines[0], "\t")
	var steps_ []string
	var pending string
	complete := false
	for _, ln := range lines[1:] {
		switch {
		case strings.HasPrefix(ln, "B\t"):
			parts := strings.Split(ln, "\t")
			pending = parts[1]
			hr.kinds = append(hr.kinds, parts[2])
		case strings.HasPrefix(ln, "R\t"):
			p := strings.Split(ln, "\t")
			steps_ = append(steps_, fmt.Sprintf("(mkStep %s %s %s %s %s %s %s)", pending, p[1], p[2], p[3], p[4], p[5], p[6]))
			if len(hr.kinds) > 0 {
				hr.kinds[len(hr.kinds)-1] += ":" + outcomeOf(p[1])
			}
			pending = ""
		case ln == "E":
			complete = true
		}
	}
	if !complete {
		if err == nil && !hung {
			hr.errText = "child ended without E: " + tail(stderr.String(), 600)
			return hr
		}
		if pending != "" {
			code := 1
			if hung {
				code = 2
				hr.hung = true
			} else {
				hr.crashed = true
			}
			steps_ = append(steps_, fmt.Sprintf("(mkStep %s (OCrash %d) 0 [] [] [] [])", pending, code))
			hr.kinds[len(hr.kinds)-1] += ":crash"
			hr.errText = tail(stderr.String(), 1500)
		} else if err != nil {
			// died outside a batch (a read): tooling or semadb failure on the read path
			hr.crashed = true
			hr.errText = tail(stderr.String(), 1500)
			steps_ = append(steps_, "(mkStep (BDelete []) (OCrash 3) 0 [] [] [] [])")
		}
	}
	hr.steps = len(steps_)
	hr.term = fmt.Sprintf("(mkHist %s %s %s\n   [%s])", h[1], h[2], h[3], strings.Join(steps_, ";\n    "))
	hr.sig = fmt.Sprint(hr.kinds)
	return hr
}

func outcomeOf(out string) string {
	switch {
	case strings.HasPrefix(out, "(OOk"):
		return "ok"
	case strings.HasPrefix(out, "(OErr 1)"):
		return "dup"
	case strings.HasPrefix(out, "(OErr 2)"):
		return "exists"
	case strings.HasPrefix(out, "(OErr 3)"):
		return "size"
	case strings.HasPrefix(out, "(OErr 4)"):
		return "type"
	}
	return "err"
}

func tail(s string, n int) string {
	if len(s) > n {
		return s[len(s)-n:]
	}
	return s
}

// runHistories executes n histories in parallel and writes them into nfiles cases files.
func runHistories(rc *runCtx, profile string, n int, cfgs []int, nfiles int, imports []string, caseType string, prefix string) error {
	return runHistoriesX(rc, profile, n, cfgs, false, nfiles, imports, caseType, prefix)
}

// runHistoriesX: with cross = true every history index is executed under EVERY configuration of cfgs.
func runHistoriesX(rc *runCtx, profile string, n int, cfgs []int, cross bool, nfiles int, imports []string, caseType string, prefix string) error {
	scratch, err := os.MkdirTemp("", "verif-hist-")
	if err != nil {
		return err
	}
	defer os.RemoveAll(scratch)
	type job struct{ idx, cfg int }
	jobs := make(chan job)
	results := make([]histResult, 0, n)
	var mu sync.Mutex
	var wg sync.WaitGroup
	workers := 14
	for wk := 0; wk < workers; wk++ {
		wg.Add(1)
		go func() {
			defer wg.Done()
			for j := range jobs {
				hr := runHistory(profile, rc.seed, j.idx, j.cfg, 0, scratch, 120*time.Second)
				mu.Lock()
				results = append(results, hr)
				mu.Unlock()
			}
		}()
	}
	for i := 0; i < n; i++ {
		if cross {
			for _, c := range cfgs {
				jobs <- job{i, c}
			}
		} else {
			jobs <- job{i, cfgs[i%len(cfgs)]}
		}
	}
	close(jobs)
	wg.Wait()
	sort.Slice(results, func(i, j int) bool {
		if results[i].idx != results[j].idx {
			return results[i].idx < results[j].idx
		}
		return results[i].cfg < results[j].cfg
	})
	files := make([]*caseFile, nfiles)
	for k := range files {
		cf, err := newCaseFile(filepath.Join(rc.outDir, fmt.Sprintf("cases_%s_%02d.v", prefix, k)), imports, caseType)
		if err != nil {
			return err
		}
		files[k] = cf
	}
	hist := map[string]int{}
	distinct := map[string]struct{}{}
	crashed, hung, toolErr := 0, 0, 0
	var crashTexts []string
	index := []map[string]any{}
	for i, hr := range results {
		if hr.term == "" {
			toolErr++
			if len(crashTexts) < 3 {
				crashTexts = append(crashTexts, hr.errText)
			}
			continue
		}
		k := i % nfiles
		pos := files[k].Add(hr.term)
		index = append(index, map[string]any{"file": k, "pos": pos, "idx": hr.idx, "cfg": hr.cfg})
		for _, kd := range hr.kinds {
			hist[kd]++
		}
		hist[fmt.Sprintf("cfg%d", hr.cfg)]++
		distinct[hr.sig+fmt.Sprint(hr.idx, hr.cfg)] = struct{}{}
		if hr.crashed {
			crashed++
			if len(crashTexts) < 3 {
				crashTexts = append(crashTexts, hr.errText)
			}
		}
		if hr.hung {
			hung++
		}
		if i < 2 {
			rc.addSample(map[string]any{"history": hr.idx, "cfg": hr.cfg, "steps": hr.kinds})
		}
	}
	for _, cf := range files {
		if err := cf.Close("bad"); err != nil {
			return err
		}
	}
	rc.stats["evaluations"] = len(results) - toolErr
	rc.stats["distinct"] = len(distinct)
	rc.stats["histogram"] = hist
	rc.stats["crashed_histories"] = crashed
	rc.stats["hung_histories"] = hung
	rc.stats["tool_errors"] = toolErr
	rc.stats["crash_texts"] = crashTexts
	rc.stats["case_index"] = index
	rc.stats["seed"] = rc.seed
	if toolErr > 0 {
		return fmt.Errorf("%d histories could not be executed (harness failure): %v", toolErr, crashTexts)
	}
	return nil
}
