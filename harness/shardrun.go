package main

// Child process: executes ONE generated history against a real shard and
// streams the observations, line by line, so that a crash or a hang of semadb
// is itself an observation. Parent: runs many children in parallel and turns
// their outputs into cases files.

import (
	"bufio"
	"context"
	"flag"
	"fmt"
	"os"
	"os/exec"
	"path/filepath"
	"sort"
	"strings"
	"sync"
	"time"

	"github.com/google/uuid"
	"github.com/semafind/semadb/models"
	"github.com/semafind/semadb/shard"
	"github.com/semafind/semadb/shard/cache"
)

type childArgs struct {
	profile string
	seed    uint64
	idx     int
	cfg     int
	steps   int
	out     string
	killStep int    // c07: the batch (step index) during which the process is killed; -1 = none
	killAt   int    // >0: at the k-th failable storage operation; -1: after the write callback, before commit; -2: right after commit
	keepDir  string // directory for the database file (kept after the kill)
	recover  string // database file left by a killed child: observe it instead of running the batch
}

// shardChildMain is called from main() when os.Args[1] == "shardrun".
func shardChildMain(args []string) {
	fs := flag.NewFlagSet("shardrun", flag.ExitOnError)
	var a childArgs
	fs.StringVar(&a.profile, "profile", "c01", "")
	fs.Uint64Var(&a.seed, "seed", 1, "")
	fs.IntVar(&a.idx, "idx", 0, "")
	fs.IntVar(&a.cfg, "cfg", 0, "")
	fs.IntVar(&a.steps, "steps", 0, "")
	fs.StringVar(&a.out, "out", "", "")
	fs.IntVar(&a.killStep, "killstep", -1, "")
	fs.IntVar(&a.killAt, "killat", 0, "")
	fs.StringVar(&a.keepDir, "keepdir", "", "")
	fs.StringVar(&a.recover, "recover", "", "")
	fs.Parse(args)
	if a.profile == "c09" {
		if err := runC09Child(a); err != nil {
			fmt.Fprintln(os.Stderr, "shardrun error:", err)
			os.Exit(4)
		}
		return
	}
	if err := runShardChild(a); err != nil {
		fmt.Fprintln(os.Stderr, "shardrun error:", err)
		os.Exit(4)
	}
}

type shardEnv struct {
	dir    string
	path   string
	col    models.Collection
	cm     *cache.Manager
	sh     *shard.Shard
	reopen bool
}

func openEnv(cfg int, schema schemaSpec, maxSize int) (*shardEnv, error) {
	return openEnvIn("", cfg, schema, maxSize)
}

func openEnvIn(keep string, cfg int, schema schemaSpec, maxSize int) (*shardEnv, error) {
	dir := keep
	var err error
	if dir == "" {
		dir, err = os.MkdirTemp("", "verif-shard-")
		if err != nil {
			return nil, err
		}
	}
	e := &shardEnv{dir: dir}
	e.col = models.Collection{UserId: "u", Id: "c", IndexSchema: schema.model(), UserPlan: models.UserPlan{Name: "p", MaxCollections: 10, MaxCollectionPointCount: 1 << 40, MaxPointSize: maxSize}}
	switch cfg {
	case 0:
		e.cm = cache.NewManager(-1)
	case 1:
		e.cm = cache.NewManager(1)
	case 2:
		e.cm = cache.NewManager(0)
	case 3:
		e.cm = cache.NewManager(-1)
		e.reopen = true
	case 4:
		e.cm = cache.NewManager(-1)
	case 5: // in-memory backend, caching disabled: every read decodes from the store
		e.cm = cache.NewManager(0)
	case 6: // bbolt, a finite budget that is never reached (the shipped default is 1 GiB): the accounting of the manager runs after every request
		e.cm = cache.NewManager(1 << 30)
	}
	if !isMemCfg(cfg) {
		e.path = filepath.Join(dir, "sharddb.bbolt")
	}
	e.sh, err = shard.NewShard(e.path, e.col, e.cm)
	if err != nil {
		os.RemoveAll(dir)
		return nil, err
	}
	return e, nil
}

func (e *shardEnv) maybeReopen() error {
	if !e.reopen {
		return nil
	}
	if err := e.sh.Close(); err != nil {
		return err
	}
	var err error
	e.sh, err = shard.NewShard(e.path, e.col, e.cm)
	return err
}

func (e *shardEnv) close() {
	if e.sh != nil {
		e.sh.Close()
	}
	os.RemoveAll(e.dir)
}

// execBatch runs a batch on the shard and prints the `bout`.
func execBatch(sh *shard.Shard, b batchSpec) (string, []uuid.UUID, bool, error) {
	switch b.kind {
	case 0, 1:
		pts := make([]models.Point, len(b.points))
		for i, p := range b.points {
			mp, err := p.model()
			if err != nil {
				return "", nil, false, err
			}
			pts[i] = mp
		}
		if b.kind == 0 {
			if err := sh.InsertPoints(pts); err != nil {
				return fmt.Sprintf("(OErr %d)", errKind(err)), nil, false, nil
			}
			return "(OOk [])", nil, true, nil
		}
		ids, err := sh.UpdatePoints(pts)
		if err != nil {
			return fmt.Sprintf("(OErr %d)", errKind(err)), nil, false, nil
		}
		return "(OOk " + pIds(ids) + ")", ids, true, nil
	default:
		set := map[uuid.UUID]struct{}{}
		for _, id := range b.ids {
			set[id] = struct{}{}
		}
		ids, err := sh.DeletePoints(set)
		if err != nil {
			return fmt.Sprintf("(OErr %d)", errKind(err)), nil, false, nil
		}
		return "(OOk " + pIds(ids) + ")", ids, true, nil
	}
}

func pIds(ids []uuid.UUID) string {
	sorted := append([]uuid.UUID{}, ids...)
	sort.Slice(sorted, func(i, j int) bool { return strings.Compare(string(sorted[i][:]), string(sorted[j][:])) < 0 })
	items := make([]string, len(sorted))
	for i, id := range sorted {
		items[i] = pUUID(id)
	}
	return pList(items)
}

// readAll returns the `s_live` term: every live point of the pool with its document.
func readAll(sh *shard.Shard, pool []uuid.UUID) (string, map[uuid.UUID]Val, error) {
	q := querySpec{kind: "idany", ids: pool}
	res, err := sh.SearchPoints(models.SearchRequest{Query: q.model(), Select: []string{"*"}})
	if err != nil {
		return "", nil, err
	}
	sort.Slice(res, func(i, j int) bool { return strings.Compare(string(res[i].Id[:]), string(res[j].Id[:])) < 0 })
	items := make([]string, len(res))
	docs := map[uuid.UUID]Val{}
	for i, r := range res {
		v, err := decodeDoc(r.Data)
		if err != nil {
			return "", nil, err
		}
		docs[r.Id] = v
		items[i] = "(" + pUUID(r.Id) + ", " + v.docCoq() + ")"
	}
	return pList(items), docs, nil
}

// isMemCfg: configurations on the in-memory backend (no file, no transactions).
var extrasSweepDone []bool

func isMemCfg(cfg int) bool { return cfg == 4 || cfg == 5 }

func runShardChild(a childArgs) error {
	g := newGen(a.profile, a.seed, a.idx)
	g.noRej = isMemCfg(a.cfg)
	if a.profile == "c01" && a.idx%5 == 3 && !isMemCfg(a.cfg) {
		g.maxSize = 300 + g.r.IntN(300)
	}
	f, err := os.Create(a.out)
	if err != nil {
		return err
	}
	defer f.Close()
	w := bufio.NewWriter(f)
	emit := func(s string) {
		w.WriteString(s)
		w.WriteByte('\n')
		w.Flush()
	}
	env, err := openEnvIn(a.keepDir, a.cfg, g.schema, g.maxSize)
	if err != nil {
		return err
	}
	defer env.close()
	emit(fmt.Sprintf("H\t%s\t%d\t%d", g.schema.coq(), g.maxSize, a.cfg))
	nsteps := 6 + g.r.IntN(8) // always drawn, so that a truncated replay sees the same random stream
	if g.large && nsteps > 4 {
		nsteps = 4
	}
	if a.steps > 0 && a.steps < nsteps {
		nsteps = a.steps
	}
	var fs *faultStore
	if a.profile == "c07" {
		fs = &faultStore{inner: env.sh.VerifDB()}
		env.sh.VerifSwapDB(fs)
		if nsteps > 6 {
			nsteps = 6
		}
	}
	// In every second history of the durability / graph profiles the vector indexes are searched BEFORE anything is
	// written (not judged: the collection is empty): the shared caches of the indexes are then created by a read
	// transaction and the first write goes through them.
	if (a.profile == "c08" || a.profile == "c03" || a.profile == "c04") && a.idx%2 == 0 && a.killStep < 0 {
		for _, ix := range g.schema {
			var q querySpec
			switch ix.kind {
			case ixFlat:
				q = querySpec{kind: "flat", prop: ix.path, vec: make([]float32, ix.dim), limit: 3}
			case ixVamana:
				q = querySpec{kind: "vamana", prop: ix.path, vec: make([]float32, ix.dim), search: 30, limit: 3}
			default:
				continue
			}
			q.vec[0] = 1
			env.sh.SearchPoints(requestSpec{q: q}.model())
		}
	}
	for step := 0; step < nsteps; step++ {
		b := g.genBatch(step)
		if a.killStep == step {
			if a.recover != "" {
				// observe the database file a killed process left behind (fresh instance, cold cache)
				sh2, err := shard.NewShard(a.recover, env.col, cache.NewManager(-1))
				if err != nil {
					return fmt.Errorf("reopen after kill: %w", err)
				}
				code := 78 // must be unchanged
				if a.killAt == -2 {
					code = 79 // killed right after commit: old or new state
				}
				emit("B\t" + b.coq() + "\t" + fmt.Sprintf("killed@%d:%s", a.killAt, describeBatch(b)))
				obs, err := g.observe(env, sh2, step)
				sh2.Close()
				if err != nil {
					return err
				}
				emit(fmt.Sprintf("R\t(OErr %d)\t%s", code, obs))
				emit("E")
				return nil
			}
			if a.killAt == -2 && b.kind != 0 {
				os.Exit(5) // "right after commit" is only judged for insert batches (their reported output is known)
			}
			plan := &faultPlan{kill: true}
			switch {
			case a.killAt > 0:
				plan.failAt = int64(a.killAt)
			case a.killAt == -1:
				plan.killBeforeCommit = true
			default:
				plan.killAfterCommit = true
			}
			fs.plan = plan
			execBatch(env.sh, b) // the process exits inside (exit status 3) unless the batch has fewer operations
			fs.plan = nil
			emit("K\tnot-killed")
			os.Exit(5)
		}
		if g.plainStep {
			g.plainStep = false // this batch runs once, without injected faults (it follows a delete that failed for good)
		} else if fs != nil && !isMemCfg(a.cfg) && a.killStep < 0 {
			// fail the k-th failable storage operation of this batch, for every k until the batch runs through
			if err := g.faultSweep(a, env, fs, b, step, emit); err == errSweepApplied || err == errSweepFailedForGood {
				continue
			} else if err != nil {
				return err
			}
		}
		emit("B\t" + b.coq() + "\t" + describeBatch(b))
		out, okIds, ok, err := execBatch(env.sh, b)
		if err != nil {
			return err
		}
		if ok {
			g.noteApplied(b, okIds)
		}
		if err := env.maybeReopen(); err != nil {
			return fmt.Errorf("reopen: %w", err)
		}
		info, err := env.sh.Info()
		if err != nil {
			return err
		}
		extras := []string{}
		live, docs, err := readAll(env.sh, g.pool)
		if err != nil {
			live = "[]"
			extras = append(extras, "(XNote 901)")
		}
		// queries of this profile
		reqs := g.genRequests(step, docs)
		qitems := make([]string, 0, len(reqs))
		for _, rq := range reqs {
			res, err := env.sh.SearchPoints(rq.model())
			var o string
			if err != nil {
				o = "(QError 1)"
				if os.Getenv("VERIF_DEBUG") != "" {
					fmt.Fprintf(os.Stderr, "search error: %v\n  request: %s\n", err, rq.coq())
				}
			} else {
				o, err = pRows(res, len(rq.sel) > 0)
				if err != nil {
					return err
				}
			}
			qitems = append(qitems, "("+rq.coq()+", "+o+")")
		}
		lower := g.lowerTable(docs, reqs)
		extras = append(extras, g.extraObs(env, docs, reqs)...)
		if (a.profile == "c08" || a.profile == "c03") && !isMemCfg(a.cfg) && len(reqs) > 0 {
			// the same requests answered by a fresh instance (own cache manager) over a copy of the file
			if x, err := coldAnswers(env, reqs); err == nil {
				extras = append(extras, x)
			} else {
				extras = append(extras, "(XNote 906)")
			}
		}
		if b.note != 0 {
			extras = append(extras, fmt.Sprintf("(XNote %d)", b.note))
		}
		if a.profile == "c03" && a.idx == 0 && a.cfg == 0 && len(extrasSweepDone) == 0 {
			extrasSweepDone = append(extrasSweepDone, true)
			if !c03VisitedSweepOK() {
				extras = append(extras, "(XNote 950)")
			}
		}
		emit(fmt.Sprintf("R\t%s\t%d\t%s\t%s\t%s\t%s", out, info.PointCount, live, pList(qitems), lower, pList(extras)))
	}
	emit("E")
	return nil
}

func describeBatch(b batchSpec) string {
	switch b.kind {
	case 0:
		return fmt.Sprintf("insert:%d", len(b.points))
	case 1:
		return fmt.Sprintf("update:%d", len(b.points))
	}
	return fmt.Sprintf("delete:%d", len(b.ids))
}

// ---------------------------------------------------------------- parent side

type histResult struct {
	idx     int
	cfg     int
	term    string // Coq `hist`
	steps   int
	crashed bool
	hung    bool
	errText string
	skipped int      // fault observations identical to a recorded one (counted, not repeated)
	kinds   []string // per step: batch kind + outcome
	sig     string   // canonical text for distinctness
}

// runHistory launches the child for (profile, seed, idx, cfg) and assembles the hist term.
func runHistory(profile string, seed uint64, idx, cfg, steps int, scratch string, timeout time.Duration) histResult {
	return runHistoryArgs(profile, seed, idx, cfg, steps, scratch, timeout, nil)
}

// runKillHistory: a child runs the history and is killed inside batch killStep (at operation killAt, before
// commit (-1) or right after commit (-2)); a second child reopens the file it left and observes it.
func runKillHistory(profile string, seed uint64, idx, cfg, killStep, killAt int, scratch string, timeout time.Duration) (histResult, bool) {
	dir, err := os.MkdirTemp(scratch, "kill-")
	if err != nil {
		return histResult{idx: idx, cfg: cfg, errText: err.Error()}, false
	}
	defer os.RemoveAll(dir)
	self, _ := os.Executable()
	ctx, cancel := context.WithTimeout(context.Background(), timeout)
	defer cancel()
	cmd := exec.CommandContext(ctx, self, "shardrun", "-profile", profile, "-seed", fmt.Sprint(seed), "-idx", fmt.Sprint(idx), "-cfg", fmt.Sprint(cfg),
		"-out", filepath.Join(dir, "killed.txt"), "-killstep", fmt.Sprint(killStep), "-killat", fmt.Sprint(killAt), "-keepdir", dir)
	err = cmd.Run()
	code := -1
	if ee, ok := err.(*exec.ExitError); ok {
		code = ee.ExitCode()
	}
	if code != 3 {
		// the batch had fewer operations than killAt (exit 5), or the history is shorter: no case
		return histResult{idx: idx, cfg: cfg}, false
	}
	hr := runHistoryArgs(profile, seed, idx, cfg, 0, scratch, timeout,
		[]string{"-killstep", fmt.Sprint(killStep), "-killat", fmt.Sprint(killAt), "-recover", filepath.Join(dir, "sharddb.bbolt")})
	return hr, true
}

func runHistoryArgs(profile string, seed uint64, idx, cfg, steps int, scratch string, timeout time.Duration, extra []string) histResult {
	hr := histResult{idx: idx, cfg: cfg}
	out := filepath.Join(scratch, fmt.Sprintf("h_%s_%d_%d_%d.txt", profile, idx, cfg, len(extra)))
	if len(extra) > 0 {
		out = filepath.Join(scratch, fmt.Sprintf("h_%s_%d_%d_%s.txt", profile, idx, cfg, strings.Join(extra[:4], "")))
	}
	ctx, cancel := context.WithTimeout(context.Background(), timeout)
	defer cancel()
	self, _ := os.Executable()
	args := append([]string{"shardrun", "-profile", profile, "-seed", fmt.Sprint(seed), "-idx", fmt.Sprint(idx), "-cfg", fmt.Sprint(cfg), "-steps", fmt.Sprint(steps), "-out", out}, extra...)
	cmd := exec.CommandContext(ctx, self, args...)
	var stderr strings.Builder
	cmd.Stderr = &stderr
	err := cmd.Run()
	hung := ctx.Err() == context.DeadlineExceeded
	data, rerr := os.ReadFile(out)
	os.Remove(out)
	if rerr != nil {
		hr.errText = "no output: " + stderr.String()
		return hr
	}
	lines := strings.Split(strings.TrimRight(string(data), "\n"), "\n")
	if len(lines) == 0 || !strings.HasPrefix(lines[0], "H\t") {
		hr.errText = "bad output: " + tail(stderr.String(), 600)
		return hr
	}
	h := strings.Split(lines[0], "\t")
	var steps_ []string
	var pending string
	complete := false
	for _, ln := range lines[1:] {
		switch {
		case strings.HasPrefix(ln, "B\t"):
			parts := strings.Split(ln, "\t")
			pending = parts[1]
			hr.kinds = append(hr.kinds, parts[2])
		case strings.HasPrefix(ln, "R\t"):
			p := strings.Split(ln, "\t")
			steps_ = append(steps_, fmt.Sprintf("(mkStep %s %s %s %s %s %s %s)", pending, p[1], p[2], p[3], p[4], p[5], p[6]))
			if len(hr.kinds) > 0 {
				hr.kinds[len(hr.kinds)-1] += ":" + outcomeOf(p[1])
			}
			pending = ""
		case strings.HasPrefix(ln, "S\t"):
			// observation identical to an already recorded one of the same batch: counted only
			if pending != "" && len(hr.kinds) > 0 {
				hr.kinds = hr.kinds[:len(hr.kinds)-1]
				pending = ""
			}
			hr.skipped++
		case ln == "E":
			complete = true
		}
	}
	if !complete {
		if err == nil && !hung {
			hr.errText = "child ended without E: " + tail(stderr.String(), 600)
			return hr
		}
		if pending != "" {
			code := 1
			if hung {
				code = 2
				hr.hung = true
			} else {
				hr.crashed = true
			}
			steps_ = append(steps_, fmt.Sprintf("(mkStep %s (OCrash %d) 0 [] [] [] [])", pending, code))
			hr.kinds[len(hr.kinds)-1] += ":crash"
			hr.errText = tail(stderr.String(), 1500)
		} else if err != nil {
			// died outside a batch (a read): tooling or semadb failure on the read path
			hr.crashed = true
			hr.errText = tail(stderr.String(), 1500)
			steps_ = append(steps_, "(mkStep (BDelete []) (OCrash 3) 0 [] [] [] [])")
		}
	}
	hr.steps = len(steps_)
	hr.term = fmt.Sprintf("(mkHist %s %s %s\n   [%s])", h[1], h[2], h[3], strings.Join(steps_, ";\n    "))
	hr.sig = fmt.Sprint(hr.kinds)
	return hr
}

func outcomeOf(out string) string {
	switch {
	case strings.HasPrefix(out, "(OOk"):
		return "ok"
	case strings.HasPrefix(out, "(OErr 1)"):
		return "dup"
	case strings.HasPrefix(out, "(OErr 2)"):
		return "exists"
	case strings.HasPrefix(out, "(OErr 3)"):
		return "size"
	case strings.HasPrefix(out, "(OErr 4)"):
		return "type"
	}
	return "err"
}

func tail(s string, n int) string {
	// keep the head of a Go panic (the reason) and the tail
	var kept []string
	for _, ln := range strings.Split(s, "\n") {
		if strings.HasPrefix(ln, "{\"level\"") {
			continue
		}
		kept = append(kept, ln)
	}
	s = strings.Join(kept, "\n")
	if len(s) > 2*n {
		return s[:n] + "\n...\n" + s[len(s)-n:]
	}
	return s
}

// runHistories executes n histories in parallel and writes them into nfiles cases files.
func runHistories(rc *runCtx, profile string, n int, cfgs []int, nfiles int, imports []string, caseType string, prefix string) error {
	return runHistoriesX(rc, profile, n, cfgs, false, nfiles, imports, caseType, prefix)
}

// runHistoriesX: with cross = true every history index is executed under EVERY configuration of cfgs.
func runHistoriesX(rc *runCtx, profile string, n int, cfgs []int, cross bool, nfiles int, imports []string, caseType string, prefix string) error {
	scratch, err := os.MkdirTemp("", "verif-hist-")
	if err != nil {
		return err
	}
	defer os.RemoveAll(scratch)
	type job struct{ idx, cfg, killStep, killAt int }
	jobs := make(chan job)
	results := make([]histResult, 0, n)
	var mu sync.Mutex
	var wg sync.WaitGroup
	notKilled := 0
	workers := 14
	for wk := 0; wk < workers; wk++ {
		wg.Add(1)
		go func() {
			defer wg.Done()
			for j := range jobs {
				if j.killStep >= 0 {
					hr, ok := runKillHistory(profile, rc.seed, j.idx, j.cfg, j.killStep, j.killAt, scratch, 120*time.Second)
					mu.Lock()
					if ok {
						results = append(results, hr)
					} else {
						notKilled++
					}
					mu.Unlock()
					continue
				}
				hr := runHistory(profile, rc.seed, j.idx, j.cfg, rc.steps, scratch, 120*time.Second)
				mu.Lock()
				results = append(results, hr)
				mu.Unlock()
			}
		}()
	}
	if rc.only != "" {
		var oi, oc int
		fmt.Sscanf(rc.only, "%d:%d", &oi, &oc)
		jobs <- job{oi, oc, -1, 0}
		n = 0
		killJobs = nil
	}
	for i := 0; i < n; i++ {
		if cross {
			for _, c := range cfgs {
				jobs <- job{i, c, -1, 0}
			}
		} else {
			jobs <- job{i, cfgs[i%len(cfgs)], -1, 0}
		}
	}
	for _, kj := range killJobs {
		jobs <- job{kj[0], kj[1], kj[2], kj[3]}
	}
	close(jobs)
	wg.Wait()
	sort.Slice(results, func(i, j int) bool {
		if results[i].idx != results[j].idx {
			return results[i].idx < results[j].idx
		}
		return results[i].cfg < results[j].cfg
	})
	files := make([]*caseFile, nfiles)
	for k := range files {
		cf, err := newCaseFile(filepath.Join(rc.outDir, fmt.Sprintf("cases_%s_%02d.v", prefix, k)), imports, caseType)
		if err != nil {
			return err
		}
		files[k] = cf
	}
	hist := map[string]int{}
	distinct := map[string]struct{}{}
	crashed, hung, toolErr, skipped := 0, 0, 0, 0
	var crashTexts []string
	index := []map[string]any{}
	crashIndex := []map[string]any{}
	for i, hr := range results {
		if hr.term == "" {
			toolErr++
			if len(crashTexts) < 3 {
				crashTexts = append(crashTexts, hr.errText)
			}
			continue
		}
		k := i % nfiles
		pos := files[k].Add(hr.term)
		index = append(index, map[string]any{"file": k, "pos": pos, "idx": hr.idx, "cfg": hr.cfg})
		for _, kd := range hr.kinds {
			hist[kd]++
		}
		skipped += hr.skipped
		hist[fmt.Sprintf("cfg%d", hr.cfg)]++
		distinct[hr.sig+fmt.Sprint(hr.idx, hr.cfg)] = struct{}{}
		if hr.crashed {
			crashed++
			if len(crashTexts) < 3 {
				crashTexts = append(crashTexts, hr.errText)
			}
		}
		if hr.hung {
			hung++
		}
		if hr.crashed || hr.hung {
			crashIndex = append(crashIndex, map[string]any{"idx": hr.idx, "cfg": hr.cfg, "steps": hr.steps, "hung": hr.hung, "last": hr.kinds[max(0, len(hr.kinds)-1):], "stderr": hr.errText})
		}
		if i < 2 {
			rc.addSample(map[string]any{"history": hr.idx, "cfg": hr.cfg, "steps": hr.kinds})
		}
	}
	for _, cf := range files {
		if err := cf.Close("bad"); err != nil {
			return err
		}
	}
	rc.stats["evaluations"] = len(results) - toolErr
	rc.stats["distinct"] = len(distinct)
	rc.stats["histogram"] = hist
	rc.stats["crashed_histories"] = crashed
	rc.stats["hung_histories"] = hung
	rc.stats["tool_errors"] = toolErr
	rc.stats["kill_points_beyond_batch"] = notKilled
	rc.stats["identical_observations_not_repeated"] = skipped
	rc.stats["crash_texts"] = crashTexts
	rc.stats["crash_index"] = crashIndex
	rc.stats["case_index"] = index
	rc.stats["seed"] = rc.seed
	if toolErr > 0 {
		return fmt.Errorf("%d histories could not be executed (harness failure): %v", toolErr, crashTexts)
	}
	return nil
}

// observe prints count, live documents, query answers and side tables of a shard as the tail of an R line.
func (g *genState) observe(env *shardEnv, sh *shard.Shard, step int) (string, error) {
	info, err := sh.Info()
	if err != nil {
		return "", err
	}
	extras := []string{}
	live, docs, err := readAll(sh, g.pool)
	if err != nil {
		live = "[]"
		extras = append(extras, "(XNote 901)")
	}
	saved, _ := g.pcg.MarshalBinary() // the requests of a fault observation must not advance the history's random stream
	reqs := g.genRequests(step, docs)
	g.pcg.UnmarshalBinary(saved)
	qitems := make([]string, 0, len(reqs))
	for _, rq := range reqs {
		res, err := sh.SearchPoints(rq.model())
		var o string
		if err != nil {
			o = "(QError 1)"
		} else {
			o, err = pRows(res, len(rq.sel) > 0)
			if err != nil {
				return "", err
			}
		}
		qitems = append(qitems, "("+rq.coq()+", "+o+")")
	}
	lower := g.lowerTable(docs, reqs)
	e2 := *env
	e2.sh = sh
	extras = append(extras, g.extraObs(&e2, docs, reqs)...)
	return fmt.Sprintf("%d\t%s\t%s\t%s\t%s", info.PointCount, live, pList(qitems), lower, pList(extras)), nil
}

// faultSweep: for k = 1, 2, ... run the batch with the k-th failable storage operation failing. While the
// fault fires the batch must fail and change nothing: observed warm (live instance) and cold (a copy of the
// file opened by a fresh instance). Stops at the first k at which the fault no longer fires (the batch would
// run through; it is then rolled back? no: it is applied -- so the sweep ends BEFORE such a k by probing the
// operation count on a copy).
func (g *genState) faultSweep(a childArgs, env *shardEnv, fs *faultStore, b batchSpec, step int, emit func(string)) error {
	// number of failable operations of this batch, counted on a scratch copy of the file
	nops, err := g.countOps(env, b)
	if err != nil {
		return err
	}
	ks := []int64{}
	for k := int64(1); k <= nops; k++ {
		if k <= 24 || k%4 == 0 || k == nops || a.steps < 0 {
			ks = append(ks, k)
		}
	}
	if nops > 2000 {
		// an oversized request: a handful of positions spread over the whole batch
		ks = []int64{1, 2, nops / 4, nops / 2, nops/2 + 1, 3 * nops / 4, nops - 1, nops}
	}
	// In every second history every delete batch and every other batch (from the second on) fails ONCE, at one position, and is not repeated: the
	// following batches run on the same shard object, so whatever the failed one left behind in memory (id
	// counters, caches) meets later writes. The failed step is a no-op for the reference.
	failForGood := a.idx%2 == 1 && step >= 1 && (b.kind == 2 || step%2 == 1) && nops > 0 && a.steps >= 0
	if failForGood {
		ks = []int64{1 + int64(a.idx*7+step*13)%nops}
	}
	for _, k := range ks {
		plan := &faultPlan{failAt: k}
		fs.plan = plan
		emit("B\t" + b.coq() + "\t" + fmt.Sprintf("fault@%d/%d:%s", k, nops, describeBatch(b)))
		out, _, ok, err := execBatch(env.sh, b)
		fs.plan = nil
		if err != nil {
			return err
		}
		if !plan.fired.Load() {
			// fewer operations on the warm instance than on the cold copy: the batch ran through and is applied
			obs, err := g.observe(env, env.sh, step)
			if err != nil {
				return err
			}
			emit("R\t" + out + "\t" + obs)
			if ok {
				g.noteApplied(b, nil)
			}
			return errSweepApplied
		}
		if !ok {
			out = "(OErr 77)"
		}
		obs, err := g.observe(env, env.sh, step)
		if err != nil {
			return err
		}
		// An observation that is textually identical to one already recorded for this batch gets the same
		// verdict: it is counted, not repeated (the first one of every batch is always recorded and judged).
		if prev, seen := sweepSeen[out+obs]; seen && prev == step {
			emit(fmt.Sprintf("S\tfault@%d/%d", k, nops))
			continue
		}
		sweepSeen[out+obs] = step
		emit("R\t" + out + "\t" + obs)
		if failForGood {
			if b.kind == 2 {
				g.forceInsertNext = true // the next batch is a plain insert: it meets whatever the failed delete left behind
			}
			return errSweepFailedForGood
		}
		// cold view: a copy of the file opened by a fresh instance with its own cache manager
		if k%3 == 1 {
			cp := filepath.Join(env.dir, "cold.bbolt")
			os.Remove(cp)
			if err := env.sh.VerifDB().BackupToFile(cp); err != nil {
				return err
			}
			sh2, err := shard.NewShard(cp, env.col, cache.NewManager(-1))
			if err != nil {
				return err
			}
			obs2, err := g.observe(env, sh2, step)
			sh2.Close()
			if err != nil {
				return err
			}
			if prev, seen := sweepSeen["cold"+obs2]; seen && prev == step {
				emit(fmt.Sprintf("S\tcold@%d/%d", k, nops))
			} else {
				sweepSeen["cold"+obs2] = step
				emit("B\t(BDelete [])\tcold-after-fault")
				emit("R\t(OOk [])\t" + obs2)
			}
		}
	}
	return nil
}

var errSweepApplied = fmt.Errorf("sweep applied the batch")

// the batch failed under one injected fault and is NOT repeated: the history goes on from the unchanged state
var errSweepFailedForGood = fmt.Errorf("the batch failed and the history moves on")

// killJobs: (idx, cfg, killStep, killAt) cases to run in addition to the plain histories (set by the c07 sub-command)
var killJobs [][4]int
var sweepSeen = map[string]int{}

// countOps runs the batch on a scratch copy of the database and returns the number of failable operations.
func (g *genState) countOps(env *shardEnv, b batchSpec) (int64, error) {
	cp := filepath.Join(env.dir, "count.bbolt")
	os.Remove(cp)
	if err := env.sh.VerifDB().BackupToFile(cp); err != nil {
		return 0, err
	}
	sh2, err := shard.NewShard(cp, env.col, cache.NewManager(-1))
	if err != nil {
		return 0, err
	}
	defer sh2.Close()
	plan := &faultPlan{}
	sh2.VerifSwapDB(&faultStore{inner: sh2.VerifDB(), plan: plan})
	if _, _, _, err := execBatch(sh2, b); err != nil {
		return 0, err
	}
	return plan.count.Load(), nil
}

func coldAnswers(env *shardEnv, reqs []requestSpec) (string, error) {
	cp := filepath.Join(env.dir, "coldcopy.bbolt")
	os.Remove(cp)
	if err := env.sh.VerifDB().BackupToFile(cp); err != nil {
		return "", err
	}
	defer os.Remove(cp)
	sh2, err := shard.NewShard(cp, env.col, cache.NewManager(-1))
	if err != nil {
		return "", err
	}
	defer sh2.Close()
	items := make([]string, 0, len(reqs))
	for _, rq := range reqs {
		res, err := sh2.SearchPoints(rq.model())
		var o string
		if err != nil {
			o = "(QError 1)"
		} else {
			// ids, distances and scores are what is compared: documents are not repeated
			for i := range res {
				res[i].Data = nil
				res[i].DecodedData = nil
			}
			o, err = pRows(res, false)
			if err != nil {
				return "", err
			}
		}
		items = append(items, "("+rq.coq()+", "+o+")")
	}
	return "(XCold " + pList(items) + ")", nil
}
