package main

// C14 -- start-up rebalancing (cluster/sync.go, RPCSendShard, RPCSetNodeKeyValue).
//
// One case = one cluster scenario. Data is created on the nodes of an OLD
// server list (collection records through CreateCollection on a node of the old
// configuration, shard files as byte files below userCollections/<user>/
// <collection>/<shard>/sharddb.bbolt, a few real bbolt shards through
// InsertPoints). All nodes are then re-created with the NEW list; run 1: every
// node's Sync in a seeded order under a fault plan (error at chunk k on the
// receiver through cluster.VerifFaultHook, death between the two phases, a
// destination that is down, a receiver process that exits at chunk k, a sender
// process that is killed at chunk k); snapshot; run 2: a fault-free Sync of all
// nodes; snapshot; read-back of the points through every node of the new list.
// Judged by coq/Run_C14.v.

import (
	"encoding/json"
	"fmt"
	"hash/fnv"
	"io"
	"math/rand/v2"
	"net"
	"os"
	"os/exec"
	"path/filepath"
	"runtime"
	"sort"
	"strconv"
	"strings"
	"sync"
	"sync/atomic"
	"time"

	"github.com/cespare/xxhash"
	"github.com/google/uuid"
	"github.com/semafind/semadb/cluster"
	"github.com/semafind/semadb/diskstore"
	"github.com/semafind/semadb/models"
)

func init() { subcmds["c14"] = runC14 }

const c14ChildEnv = "VERIF_C14_CHILD"

// ---------------------------------------------------------------- child process: one node

type c14ChildSpec struct {
	Root    string
	Port    int
	Servers []string
	ExitAt  int // exit(7) when a chunk with this index arrives (-1: never)
	Dir     string
}

// the shard manager gets its own root below the node root: the two settings are independent
func c14ShardRoot(root string) string { return filepath.Join(root, "shard-root") }

func c14NodeConfig(root string, port int, servers []string, shardTimeout int) cluster.ClusterNodeConfig {
	return cluster.ClusterNodeConfig{
		RootDir:            root,
		RpcHost:            "localhost",
		RpcPort:            port,
		RpcTimeout:         5,
		RpcRetries:         1,
		Servers:            c14OwnFirst(servers, "localhost:"+strconv.Itoa(port)),
		ShardManager:       cluster.ShardManagerConfig{RootDir: c14ShardRoot(root), ShardTimeout: shardTimeout, MaxCacheSize: -1},
		MaxShardSize:       1 << 30,
		MaxShardPointCount: 4,
		MaxSearchLimit:     75,
	}
}

// c14OwnFirst: the same set of servers, rotated so that a node that is in the list names itself first (every node
// of a deployment then has a different order: placement must be a function of the set)
func c14OwnFirst(servers []string, me string) []string {
	for i, s := range servers {
		if s == me {
			return append(append([]string{}, servers[i:]...), servers[:i]...)
		}
	}
	return append([]string{}, servers...)
}

func c14WaitPort(port int, d time.Duration) error {
	deadline := time.Now().Add(d)
	for {
		c, err := net.DialTimeout("tcp", "localhost:"+strconv.Itoa(port), 200*time.Millisecond)
		if err == nil {
			c.Close()
			return nil
		}
		if time.Now().After(deadline) {
			return fmt.Errorf("port %d did not come up: %v", port, err)
		}
		time.Sleep(3 * time.Millisecond)
	}
}

func c14WaitFile(path string, d time.Duration, alive func() bool) bool {
	deadline := time.Now().Add(d)
	for {
		if _, err := os.Stat(path); err == nil {
			return true
		}
		if alive != nil && !alive() {
			_, err := os.Stat(path)
			return err == nil
		}
		if time.Now().After(deadline) {
			return false
		}
		time.Sleep(3 * time.Millisecond)
	}
}

// the child serves, waits for the file "go", runs Sync, writes "done" and keeps serving
func c14ChildMain(specJSON string) {
	var sp c14ChildSpec
	if err := json.Unmarshal([]byte(specJSON), &sp); err != nil {
		fmt.Fprintln(os.Stderr, "c14 child: bad spec:", err)
		os.Exit(4)
	}
	if sp.ExitAt >= 0 {
		cluster.VerifFaultHook = func(point string, n int) error {
			if point == "sendshard" && n == sp.ExitAt {
				os.Exit(7)
			}
			return nil
		}
	}
	nd, err := startNode(c14NodeConfig(sp.Root, sp.Port, sp.Servers, 60))
	if err != nil {
		fmt.Fprintln(os.Stderr, "c14 child:", err)
		os.Exit(4)
	}
	if err := nd.Serve(); err != nil {
		fmt.Fprintln(os.Stderr, "c14 child:", err)
		os.Exit(4)
	}
	if !c14WaitFile(filepath.Join(sp.Dir, "go"), 60*time.Second, nil) {
		os.Exit(5)
	}
	res := "ok"
	if err := nd.Sync(); err != nil {
		res = "err: " + err.Error()
	}
	os.WriteFile(filepath.Join(sp.Dir, "done.tmp"), []byte(res), 0644)
	os.Rename(filepath.Join(sp.Dir, "done.tmp"), filepath.Join(sp.Dir, "done"))
	time.Sleep(120 * time.Second)
	os.Exit(0)
}

// ---------------------------------------------------------------- observations

type c14FileObs struct {
	user, coll, shard string
	size              int64
	hash              uint64
}

func (f c14FileObs) path() string { return f.user + "/" + f.coll + "/" + f.shard }

type c14Obs struct {
	recs  [][2][]byte
	files []c14FileObs
}

func c14HashFile(path string) (int64, uint64, error) {
	f, err := os.Open(path)
	if err != nil {
		return 0, 0, err
	}
	defer f.Close()
	h := xxhash.New()
	n, err := io.Copy(h, f)
	return n, h.Sum64(), err
}

func c14ObserveFiles(root string) ([]c14FileObs, error) {
	var out []c14FileObs
	base := filepath.Join(c14ShardRoot(root), cluster.USERCOLSDIR)
	if _, err := os.Stat(base); err != nil {
		return nil, nil
	}
	err := filepath.Walk(base, func(p string, info os.FileInfo, err error) error {
		if err != nil {
			return err
		}
		if info.IsDir() || filepath.Base(p) != "sharddb.bbolt" {
			return nil
		}
		rel, err := filepath.Rel(base, filepath.Dir(p))
		if err != nil {
			return err
		}
		parts := strings.Split(rel, string(filepath.Separator))
		if len(parts) != 3 {
			return fmt.Errorf("unexpected shard file location %s", p)
		}
		n, h, err := c14HashFile(p)
		if err != nil {
			return err
		}
		out = append(out, c14FileObs{parts[0], parts[1], parts[2], n, h})
		return nil
	})
	return out, err
}

func c14ObserveRecs(root string) ([][2][]byte, error) {
	dbPath := filepath.Join(root, "nodedb.bbolt")
	if _, err := os.Stat(dbPath); err != nil {
		return nil, nil
	}
	db, err := diskstore.Open(dbPath)
	if err != nil {
		return nil, err
	}
	defer db.Close()
	var out [][2][]byte
	err = db.Read(func(bm diskstore.BucketManager) error {
		b, err := bm.Get(cluster.USERCOLSBUCKETKEY)
		if err != nil {
			return err
		}
		return b.ForEach(func(k, v []byte) error {
			out = append(out, [2][]byte{append([]byte{}, k...), append([]byte{}, v...)})
			return nil
		})
	})
	sort.Slice(out, func(i, j int) bool { return string(out[i][0]) < string(out[j][0]) })
	return out, err
}

// ---------------------------------------------------------------- the cluster of one scenario

type c14Cluster struct {
	tmp   string
	hosts []string
	ports []int
	roots []string
}

func (cl *c14Cluster) start(i int, servers []string, shardTimeout int) (*cluster.ClusterNode, error) {
	nd, err := startNode(c14NodeConfig(cl.roots[i], cl.ports[i], servers, shardTimeout))
	if err != nil {
		return nil, err
	}
	if err := nd.Serve(); err != nil {
		return nil, err
	}
	if err := c14WaitPort(cl.ports[i], 5*time.Second); err != nil {
		return nil, err
	}
	return nd, nil
}

func (cl *c14Cluster) observe(idx []int, withRecs bool) (map[int]*c14Obs, error) {
	out := map[int]*c14Obs{}
	for _, i := range idx {
		files, err := c14ObserveFiles(cl.roots[i])
		if err != nil {
			return nil, err
		}
		o := &c14Obs{files: files}
		if withRecs {
			if o.recs, err = c14ObserveRecs(cl.roots[i]); err != nil {
				return nil, err
			}
		}
		out[i] = o
	}
	return out, nil
}

func c14FreePorts(base, n int) ([]int, error) {
	var out []int
	for p := base; p < base+400 && len(out) < n; p++ {
		l, err := net.Listen("tcp", "localhost:"+strconv.Itoa(p))
		if err != nil {
			continue
		}
		l.Close()
		out = append(out, p)
	}
	if len(out) < n {
		return nil, fmt.Errorf("no free loopback ports from %d", base)
	}
	return out, nil
}

type c14Rand struct{ r *rand.Rand }

func (x c14Rand) Read(p []byte) (int, error) {
	for i := range p {
		p[i] = byte(x.r.Uint32())
	}
	return len(p), nil
}

func c14Fill(r *rand.Rand, n int) []byte {
	b := make([]byte, n)
	i := 0
	for ; i+8 <= n; i += 8 {
		v := r.Uint64()
		b[i], b[i+1], b[i+2], b[i+3] = byte(v), byte(v>>8), byte(v>>16), byte(v>>24)
		b[i+4], b[i+5], b[i+6], b[i+7] = byte(v>>32), byte(v>>40), byte(v>>48), byte(v>>56)
	}
	for ; i < n; i++ {
		b[i] = byte(r.Uint32())
	}
	return b
}

// ---------------------------------------------------------------- scenario description

type c14Plan struct {
	kind    string // grow | shrink | replace | same
	old     []int  // node indices
	new     []int
	fault   string // none | chunk | phase | down | recvkill | sendkill
	k       int    // chunk index of the fault
	mode    int    // sendkill: 0 = chunk k is not processed, 1 = the receiver still processes it
	big     []int  // sizes of big files (each is placed on a non-owner)
	bigTo   int    // when >= 0: the big files are owned by this node (ids are searched for) ...
	bigFrom int    // ... and placed on this one
	real    bool   // real bbolt shards + read-back
	nUsers  int
	victim  int // node index: down / child process
	subset  uint64
	marked  bool // bigTo / bigFrom are set
	slow    bool // no fault, but the receiver takes 2 s per chunk: a three-chunk transfer lasts longer than the RPC timeout of a single call
}

// c14Slow: while set, every received chunk is held for two seconds (below the RPC timeout of 5 s)
var c14Slow atomic.Bool

type c14Step struct {
	node   int
	down   []int
	faults [][3]int // (dst, k, mode)
	crash  bool
	ok     int
}

func c14Perm(r *rand.Rand, xs []int) []int {
	out := append([]int{}, xs...)
	r.Shuffle(len(out), func(i, j int) { out[i], out[j] = out[j], out[i] })
	return out
}

func c14Union(a, b []int) []int {
	seen := map[int]bool{}
	var out []int
	for _, x := range append(append([]int{}, a...), b...) {
		if !seen[x] {
			seen[x] = true
			out = append(out, x)
		}
	}
	sort.Ints(out)
	return out
}

func c14Has(xs []int, x int) bool {
	for _, y := range xs {
		if y == x {
			return true
		}
	}
	return false
}

type c14Term struct {
	cf    *caseFile
	hosts []string // aux names of the host byte strings
}

func (t *c14Term) obs(cl *c14Cluster, idx []int, m map[int]*c14Obs) string {
	var nodes []string
	for _, i := range idx {
		o := m[i]
		var recs, files []string
		for _, kv := range o.recs {
			recs = append(recs, "("+pB(kv[0])+","+pB(kv[1])+")")
		}
		for _, f := range o.files {
			files = append(files, fmt.Sprintf("((%s,%s,%s),%d,%s)", pS(f.user), pS(f.coll), pS(f.shard), f.size, cN(f.hash)))
		}
		nodes = append(nodes, fmt.Sprintf("mkObs %s %s %s", t.hosts[i], cList(recs), cList(files)))
	}
	return cList(nodes)
}

func (t *c14Term) nodeList(idx []int) string {
	var s []string
	for _, i := range idx {
		s = append(s, t.hosts[i])
	}
	return cList(s)
}

// ---------------------------------------------------------------- one scenario

func c14RunScenario(rc *runCtx, r *rand.Rand, cl *c14Cluster, pl c14Plan, t *c14Term) (res c14Result, err error) {
	for _, root := range cl.roots {
		os.RemoveAll(root)
	}
	hostsOf := func(idx []int) []string {
		var s []string
		for _, i := range idx {
			s = append(s, cl.hosts[i])
		}
		return s
	}
	idxOf := func(host string) int {
		for i, h := range cl.hosts {
			if h == host {
				return i
			}
		}
		return -1
	}
	oldServers := hostsOf(c14Perm(r, pl.old))
	newServers := hostsOf(c14Perm(r, pl.new))
	all := c14Union(pl.old, pl.new)
	newOwner := func(key string) int { return idxOf(cluster.RendezvousHash(key, newServers, 1)[0]) }
	oldOwner := func(key string) int { return idxOf(cluster.RendezvousHash(key, oldServers, 1)[0]) }

	// ---------------- phase A: the old configuration
	shardTimeout := 60
	if pl.real {
		shardTimeout = 1
	}
	oldNodes := map[int]*cluster.ClusterNode{}
	for _, i := range pl.old {
		nd, err := cl.start(i, oldServers, shardTimeout)
		if err != nil {
			return res, err
		}
		oldNodes[i] = nd
	}
	plan := models.UserPlan{Name: "VERIF", MaxCollections: 10, MaxCollectionPointCount: 1000, MaxPointSize: 1000}
	type rawFile struct {
		user, coll, shard string
		node              int
		data              []byte
	}
	var raws []rawFile
	type realCol struct {
		user, coll string
		points     map[uuid.UUID][]byte
	}
	var reals []realCol
	tag := r.IntN(1000)
	for u := 0; u < pl.nUsers; u++ {
		// user ids are opaque: some start with a character that hides a directory, marks an option or a comment
		pre := []string{"", ".", "_", "-", "#"}[(u/2)%5]
		user := fmt.Sprintf("%su%d-%d", pre, tag, u)
		if u%2 == 1 { // an id that extends the previous user's id: adjacent record keys, one a prefix of the other
			user = fmt.Sprintf("%su%d-%d%d", pre, tag, u-1, r.IntN(10))
		}
		ncol := 1 + r.IntN(2)
		for c := 0; c < ncol; c++ {
			coll := fmt.Sprintf("c%d", c)
			nsh := r.IntN(3)
			var shardIds []string
			for s := 0; s < nsh; s++ {
				id := fmt.Sprintf("s%d-%d-%d-%d", tag, u, c, s)
				shardIds = append(shardIds, id)
				node := oldOwner(id)
				if r.IntN(5) == 0 {
					node = pl.old[r.IntN(len(pl.old))] // any placement
				}
				size := 1 + r.IntN(4096)
				switch r.IntN(6) {
				case 0:
					size = 1
				case 1:
					size = 4096
				}
				raws = append(raws, rawFile{user, coll, id, node, c14Fill(r, size)})
			}
			via := oldNodes[pl.old[r.IntN(len(pl.old))]]
			col := models.Collection{UserId: user, Id: coll, Replicas: 1, Timestamp: 1, CreatedAt: 1, ShardIds: shardIds, UserPlan: plan, IndexSchema: models.IndexSchema{}}
			if pl.real && c == 0 {
				col.ShardIds = nil
			}
			if err := via.CreateCollection(col); err != nil {
				return res, fmt.Errorf("CreateCollection: %w", err)
			}
			if pl.real && c == 0 {
				np := 3 + r.IntN(8)
				pts := make([]models.Point, np)
				truth := map[uuid.UUID][]byte{}
				for i := range pts {
					pts[i] = models.Point{Id: c15Uuid(r), Data: c15Doc(int64(r.IntN(1 << 20)))}
					truth[pts[i].Id] = pts[i].Data
				}
				failed, err := via.InsertPoints(col, pts)
				if err != nil || len(failed) > 0 {
					return res, fmt.Errorf("InsertPoints: %v %v", err, failed)
				}
				reals = append(reals, realCol{user, coll, truth})
			}
		}
	}
	for _, nd := range oldNodes {
		nd.Close()
	}
	if pl.real {
		time.Sleep(1400 * time.Millisecond) // the shard manager unloads (closes) the shards after ShardTimeout = 1 s
	}
	// big files: each on a node that is NOT its new owner, so that it has to move
	for bi, size := range pl.big {
		id := fmt.Sprintf("big%d-%d", tag, bi)
		if pl.bigTo >= 0 && pl.bigFrom >= 0 {
			for try := 0; newOwner(id) != pl.bigTo && try < 200; try++ {
				id = fmt.Sprintf("big%d-%d-%d", tag, bi, try)
			}
			raws = append(raws, rawFile{fmt.Sprintf("u%d-big", tag), "c0", id, pl.bigFrom, c14Fill(r, size)})
			continue
		}
		own := newOwner(id)
		var cand []int
		for _, i := range all {
			if i != own {
				cand = append(cand, i)
			}
		}
		if len(cand) == 0 {
			continue
		}
		raws = append(raws, rawFile{fmt.Sprintf("u%d-big", tag), "c0", id, cand[r.IntN(len(cand))], c14Fill(r, size)})
	}
	for _, f := range raws {
		dir := filepath.Join(c14ShardRoot(cl.roots[f.node]), cluster.USERCOLSDIR, f.user, f.coll, f.shard)
		if err := os.MkdirAll(dir, 0755); err != nil {
			return res, err
		}
		if err := os.WriteFile(filepath.Join(dir, "sharddb.bbolt"), f.data, 0644); err != nil {
			return res, err
		}
	}
	raws = nil
	// In one scenario out of three some records that have to move are ALREADY on their new owner as well (an equal
	// copy): the state a sender leaves behind when it dies after the destination confirmed the records and before
	// it deleted its own. The next synchronisation has to complete the move (send again, delete locally).
	if r.IntN(3) == 0 {
		for _, i := range all {
			recs, err := c14ObserveRecs(cl.roots[i])
			if err != nil {
				return res, err
			}
			for _, kv := range recs {
				j := newOwner(strings.SplitN(string(kv[0]), "/", 2)[0])
				if j == i || r.IntN(2) == 0 {
					continue
				}
				if err := os.MkdirAll(cl.roots[j], 0755); err != nil {
					return res, err
				}
				db, err := diskstore.Open(filepath.Join(cl.roots[j], "nodedb.bbolt"))
				if err != nil {
					return res, err
				}
				err = db.Write(func(bm diskstore.BucketManager) error {
					b, err := bm.Get(cluster.USERCOLSBUCKETKEY)
					if err != nil {
						return err
					}
					return b.Put(kv[0], kv[1])
				})
				db.Close()
				if err != nil {
					return res, err
				}
			}
		}
	}
	// the initial placement, as found on disk
	init0, err2 := cl.observe(all, true)
	if err = err2; err != nil {
		return res, err
	}
	var finfos []string
	fileId := map[string]int{}
	chunk := int64(cluster.CHUNKSIZE)
	var initTerms []string
	nRecs, nFiles, nMoveF, nMoveR := 0, 0, 0, 0
	for _, i := range all {
		o := init0[i]
		var recs, ids []string
		for _, kv := range o.recs {
			recs = append(recs, "("+pB(kv[0])+","+pB(kv[1])+")")
			nRecs++
			if newOwner(strings.SplitN(string(kv[0]), "/", 2)[0]) != i {
				nMoveR++
			}
		}
		for _, f := range o.files {
			if _, dup := fileId[f.path()]; dup {
				return res, fmt.Errorf("generator placed %s twice", f.path())
			}
			fileId[f.path()] = len(finfos)
			ids = append(ids, strconv.Itoa(len(finfos)))
			finfos = append(finfos, fmt.Sprintf("mkFI (%s,%s,%s) %d %s", pS(f.user), pS(f.coll), pS(f.shard), f.size, cN(f.hash)))
			nFiles++
			if newOwner(f.shard) != i {
				nMoveF++
			}
		}
		initTerms = append(initTerms, fmt.Sprintf("(%s,%s,%s)", t.hosts[i], cList(recs), cList(ids)))
	}

	// ---------------- run 1: the new configuration, with faults
	var (
		hookMu    sync.Mutex
		hookK     = -1
		hookKill  *c14Child
		hookMode  int
		hookFired bool
	)
	c14Slow.Store(pl.slow)
	defer c14Slow.Store(false)
	cluster.VerifFaultHook = func(point string, n int) error {
		if point != "sendshard" {
			return nil
		}
		if c14Slow.Load() {
			time.Sleep(2 * time.Second)
		}
		hookMu.Lock()
		defer hookMu.Unlock()
		if hookKill != nil {
			if n == hookK && !hookFired {
				hookFired = true
				hookKill.kill()
				if hookMode == 0 {
					return fmt.Errorf("verif: sender killed at chunk %d", n)
				}
			}
			return nil
		}
		if hookK >= 0 && n == hookK {
			return fmt.Errorf("verif: injected failure at chunk %d", n)
		}
		return nil
	}
	defer func() { cluster.VerifFaultHook = nil }()
	// syncShards / syncUserCollections return at the FIRST error while the workers of the other
	// destinations keep running (in production the process then exits, log.Fatal). Inside one process
	// they have to be waited for: until no goroutine is inside the sync functions or the two RPC handlers.
	quiesce := func() {
		deadline := time.Now().Add(20 * time.Second)
		for c14Busy() && time.Now().Before(deadline) {
			time.Sleep(4 * time.Millisecond)
		}
	}

	downInRun1 := map[int]bool{}
	childIdx := -1
	var child *c14Child
	childAlive := func() bool { return child != nil && child.alive() }
	switch pl.fault {
	case "down":
		downInRun1[pl.victim] = true
	case "recvkill", "sendkill":
		childIdx = pl.victim
	}
	nodes := map[int]*cluster.ClusterNode{}
	for _, i := range all {
		if downInRun1[i] || i == childIdx {
			continue
		}
		nd, err := cl.start(i, newServers, 60)
		if err != nil {
			return res, err
		}
		nodes[i] = nd
	}
	if childIdx >= 0 {
		dir := filepath.Join(cl.tmp, fmt.Sprintf("child-%d", r.Uint32()))
		os.MkdirAll(dir, 0755)
		exitAt := -1
		if pl.fault == "recvkill" {
			exitAt = pl.k
		}
		var err error
		child, err = c14StartChild(c14ChildSpec{Root: cl.roots[childIdx], Port: cl.ports[childIdx], Servers: newServers, ExitAt: exitAt, Dir: dir})
		if err != nil {
			return res, err
		}
		defer func() {
			if child.alive() {
				child.kill()
			}
		}()
		if err := c14WaitPort(cl.ports[childIdx], 10*time.Second); err != nil {
			return res, err
		}
	}
	order1 := c14Perm(r, all)
	var steps []c14Step
	for _, i := range order1 {
		if downInRun1[i] {
			continue
		}
		st := c14Step{node: i, ok: 2}
		// destinations that are not reachable right now
		for _, j := range all {
			if j == i {
				continue
			}
			if downInRun1[j] || (j == childIdx && !childAlive()) {
				st.down = append(st.down, j)
			}
		}
		if i == childIdx {
			if !childAlive() {
				// the receiver process has already exited: it never runs its Sync in run 1
				continue
			}
			if pl.fault == "sendkill" {
				hookMu.Lock()
				hookK, hookKill, hookMode, hookFired = pl.k, child, pl.mode, false
				hookMu.Unlock()
				for _, j := range all {
					if j != i {
						st.faults = append(st.faults, [3]int{j, pl.k, pl.mode})
					}
				}
			}
			os.WriteFile(filepath.Join(child.dir, "go"), nil, 0644)
			if c14WaitFile(filepath.Join(child.dir, "done"), 60*time.Second, childAlive) {
				b, _ := os.ReadFile(filepath.Join(child.dir, "done"))
				if string(b) == "ok" {
					st.ok = 1
				} else {
					st.ok = 0
				}
			}
			if st.ok != 1 {
				quiesce() // also: the receiver may still be writing the chunk during which the sender was killed
			}
			hookMu.Lock()
			hookK, hookKill = -1, nil
			hookMu.Unlock()
			steps = append(steps, st)
			continue
		}
		nd := nodes[i]
		useFault := pl.fault == "chunk" && pl.subset&(1<<uint(i)) != 0
		if useFault {
			hookMu.Lock()
			hookK = pl.k
			hookMu.Unlock()
			for _, j := range all {
				if j != i && !c14Has(st.down, j) {
					st.faults = append(st.faults, [3]int{j, pl.k, 0})
				}
			}
		}
		if pl.fault == "recvkill" && childAlive() {
			st.faults = append(st.faults, [3]int{childIdx, pl.k, 0})
		}
		if pl.fault == "phase" && pl.subset&(1<<uint(i)) != 0 {
			if err := nd.VerifSyncUserCollections(); err != nil {
				st.ok = 0
			} else {
				st.crash = true // the process dies here: syncShards never starts
			}
		} else {
			if err := nd.Sync(); err != nil {
				st.ok = 0
			} else {
				st.ok = 1
			}
		}
		if st.ok == 0 {
			quiesce()
		}
		hookMu.Lock()
		hookK = -1
		hookMu.Unlock()
		if pl.fault == "recvkill" && st.ok == 0 && childAlive() {
			// the receiver exits inside the RPC: give the process the time to disappear
			select {
			case <-child.done:
			case <-time.After(300 * time.Millisecond):
			}
		}
		steps = append(steps, st)
	}
	childDied := child != nil && !child.alive()
	if childAlive() {
		child.kill()
	}
	for _, nd := range nodes {
		nd.Close()
	}
	mid, err := cl.observe(all, true)
	if err != nil {
		return res, err
	}

	// ---------------- run 2: every node, no fault
	nodes = map[int]*cluster.ClusterNode{}
	for _, i := range all {
		nd, err := cl.start(i, newServers, 60)
		if err != nil {
			return res, err
		}
		nodes[i] = nd
	}
	order2 := c14Perm(r, all)
	var run2 []string
	allOk := true
	for _, i := range order2 {
		err := nodes[i].Sync()
		run2 = append(run2, fmt.Sprintf("(%s,%s)", t.hosts[i], cBool(err == nil)))
		if err != nil {
			allOk = false
		}
	}
	final, err := cl.observe(all, false)
	if err != nil {
		return res, err
	}
	// read-back of the points through every node of the new list
	var readback []string
	for _, rcol := range reals {
		ids := make([]string, 0, len(rcol.points))
		for id := range rcol.points {
			ids = append(ids, id.String())
		}
		sort.Strings(ids)
		for _, i := range pl.new {
			code := 0
			col, err := nodes[i].GetCollection(rcol.user, rcol.coll)
			if err != nil {
				code = 1
			} else {
				res, err := nodes[i].SearchPoints(col, models.SearchRequest{
					Query:  models.Query{Property: "_id", StringArray: &models.SearchStringArrayOptions{Value: ids, Operator: models.OperatorContainsAny}},
					Select: []string{"*"}, Limit: len(ids)})
				if err != nil {
					code = 1
				} else {
					got := map[uuid.UUID][]byte{}
					for _, p := range res {
						got[p.Point.Id] = p.Point.Data
					}
					if len(got) != len(rcol.points) || len(res) != len(rcol.points) {
						code = 2
					}
					for id, d := range rcol.points {
						if string(got[id]) != string(d) {
							code = 2
						}
					}
				}
			}
			readback = append(readback, strconv.Itoa(code))
		}
	}
	for _, nd := range nodes {
		nd.Close()
	}
	for _, i := range all {
		if final[i].recs, err = c14ObserveRecs(cl.roots[i]); err != nil {
			return res, err
		}
	}

	// ---------------- the case
	var stepTerms []string
	for _, st := range steps {
		var fs []string
		for _, f := range st.faults {
			fs = append(fs, fmt.Sprintf("(%s,%d,%d)", t.hosts[f[0]], f[1], f[2]))
		}
		stepTerms = append(stepTerms, fmt.Sprintf("mkStep %s %s %s %s %d", t.hosts[st.node], t.nodeList(st.down), cList(fs), cBool(st.crash), st.ok))
	}
	term := fmt.Sprintf("(mkCase %d %s\n   %s\n   %s\n   %s\n   %s\n   %s\n   %s\n   %s)",
		chunk, t.nodeList(idxList(newServers, cl)), cList(finfos), cList(initTerms), cList(stepTerms),
		t.obs(cl, all, mid), cList(run2), t.obs(cl, all, final), cList(readback))
	if len(rc.samples) < 6 {
		rc.addSample(map[string]any{"kind": pl.kind, "old": oldServers, "new": newServers, "fault": pl.fault, "k": pl.k, "mode": pl.mode,
			"records": nRecs, "files": nFiles, "files_to_move": nMoveF, "records_to_move": nMoveR, "big": pl.big, "real_collections": len(reals),
			"run2_all_ok": allOk, "readback": readback})
	}
	res = c14Result{term: term, nMoveF: nMoveF, nMoveR: nMoveR, nFiles: nFiles, nRecs: nRecs, childDied: childDied}
	orig := map[string]c14FileObs{}
	for _, i := range all {
		for _, f := range init0[i].files {
			orig[f.path()] = f
		}
	}
	seen := map[string]int{}
	for _, i := range all {
		for _, f := range mid[i].files {
			seen[f.path()]++
			if o := orig[f.path()]; o.size != f.size || o.hash != f.hash {
				res.midPartial++
			}
		}
	}
	for _, n := range seen {
		if n > 1 {
			res.midTwice++
		}
	}
	for _, st := range steps {
		if st.ok == 0 {
			res.run1Errors++
		}
	}
	return res, nil
}

func idxList(servers []string, cl *c14Cluster) []int {
	var out []int
	for _, s := range servers {
		for i, h := range cl.hosts {
			if h == s {
				out = append(out, i)
			}
		}
	}
	return out
}

// c14Busy: is any goroutine of this process inside a sync function or one of the two RPC handlers?
func c14Busy() bool {
	buf := make([]byte, 1<<20)
	for {
		n := runtime.Stack(buf, true)
		if n < len(buf) {
			buf = buf[:n]
			break
		}
		buf = make([]byte, 2*len(buf))
	}
	s := string(buf)
	for _, pat := range []string{"(*ClusterNode).sendShardFile", "(*ClusterNode).syncShards", "(*ClusterNode).syncUserCollections",
		"(*ClusterNode).RPCSendShard", "(*ClusterNode).RPCSetNodeKeyValue"} {
		if strings.Contains(s, pat) {
			return true
		}
	}
	return false
}

// ---------------------------------------------------------------- child bookkeeping

type c14Child struct {
	cmd  *exec.Cmd
	done chan struct{}
	dir  string
}

func c14StartChild(spec c14ChildSpec) (*c14Child, error) {
	js, _ := json.Marshal(spec)
	self, err := os.Executable()
	if err != nil {
		return nil, err
	}
	cmd := exec.Command(self, "c14", "-out", spec.Dir)
	cmd.Env = append(os.Environ(), c14ChildEnv+"="+string(js))
	if f, err := os.Create(filepath.Join(spec.Dir, "stderr.txt")); err == nil {
		cmd.Stderr = f
		defer f.Close()
	}
	if err := cmd.Start(); err != nil {
		return nil, err
	}
	c := &c14Child{cmd: cmd, done: make(chan struct{}), dir: spec.Dir}
	go func() { cmd.Wait(); close(c.done) }()
	return c, nil
}

func (c *c14Child) alive() bool {
	select {
	case <-c.done:
		return false
	default:
		return true
	}
}

func (c *c14Child) kill() {
	c.cmd.Process.Kill()
	<-c.done
}

// ---------------------------------------------------------------- driver

type c14Result struct {
	term           string
	nMoveF, nMoveR int
	nFiles, nRecs  int
	midPartial     int  // destination files of the snapshot after run 1 that are not a complete original
	midTwice       int  // files that two nodes hold after run 1
	run1Errors     int  // Syncs of run 1 that returned an error
	childDied      bool // the child process exited / was killed by the fault
}

func runC14(rc *runCtx) error {
	if spec := os.Getenv(c14ChildEnv); spec != "" {
		c14ChildMain(spec)
		return nil
	}
	r := newRng(rc.seed, 14)
	uuid.SetRand(c14Rand{newRng(rc.seed, 1414)})
	tmp, err := os.MkdirTemp("", "verif-c14-")
	if err != nil {
		return err
	}
	defer os.RemoveAll(tmp)
	// four loopback ports from a window chosen by process id (two instances of this harness may run at once)
	ports, err := c14FreePorts(20000+(os.Getpid()%60)*60, 4)
	if err != nil {
		return err
	}
	cl := &c14Cluster{tmp: tmp, ports: ports}
	for i, p := range ports {
		cl.hosts = append(cl.hosts, "localhost:"+strconv.Itoa(p))
		// data directories are whatever the operator configured: characters that mean something to a pattern
		// matcher or a shell are ordinary characters of a path
		cl.roots = append(cl.roots, filepath.Join(tmp, []string{"node0", "node[1]", "node*2", "node 3?"}[i%4]))
	}
	nfiles := 4
	if rc.thorough() {
		nfiles = 12
	}
	var terms []*c14Term
	for i := 0; i < nfiles; i++ {
		cf, err := newCaseFile(filepath.Join(rc.outDir, fmt.Sprintf("cases_C14_%02d.v", i)), []string{"Bytes", "Pack", "Model_C14", "Run_C14"}, "c14case")
		if err != nil {
			return err
		}
		t := &c14Term{cf: cf}
		for _, h := range cl.hosts {
			t.hosts = append(t.hosts, cf.Aux("list N", pS(h)))
		}
		terms = append(terms, t)
	}
	plans := c14Plans(rc, r)
	hist := map[string]int{}
	distinct := map[uint64]struct{}{}
	const C = cluster.CHUNKSIZE
	sizeName := func(n int) string {
		switch n {
		case 1:
			return "1"
		case C - 1:
			return "CHUNK-1"
		case C:
			return "CHUNK"
		case C + 1:
			return "CHUNK+1"
		case 2 * C:
			return "2CHUNK"
		case 2*C + 1:
			return "2CHUNK+1"
		}
		return strconv.Itoa(n)
	}
	t0 := time.Now()
	for n, pl := range plans {
		res, err := c14RunScenario(rc, r, cl, pl, terms[n%nfiles])
		if err != nil {
			return fmt.Errorf("scenario %d (%+v): %w", n, pl, err)
		}
		terms[n%nfiles].cf.Add(res.term)
		hist["kind "+pl.kind]++
		f := "fault " + pl.fault
		if pl.fault == "chunk" || pl.fault == "recvkill" || pl.fault == "sendkill" {
			f += " k=" + strconv.Itoa(pl.k)
		}
		if pl.fault == "sendkill" {
			f += " mode=" + strconv.Itoa(pl.mode)
		}
		hist[f]++
		if pl.slow {
			hist["slow receiver (2 s per chunk, three chunks)"]++
		}
		hist[fmt.Sprintf("servers %d->%d", len(pl.old), len(pl.new))]++
		for _, b := range pl.big {
			hist["big file "+sizeName(b)]++
		}
		if pl.real {
			hist["real bbolt shards + read-back"]++
		}
		if res.midPartial > 0 {
			hist["after run 1: partial file on a destination"]++
		}
		if res.midTwice > 0 {
			hist["after run 1: a file on two nodes"]++
		}
		if res.run1Errors > 0 {
			hist["run 1: some Sync returned an error"]++
		}
		if res.childDied {
			hist["run 1: child process exited / killed at the fault point"]++
		}
		hist["files to move "+bucket(res.nMoveF)]++
		hist["records to move "+bucket(res.nMoveR)]++
		if res.nMoveF+res.nMoveR > 0 {
			h := fnv.New64a()
			fmt.Fprintf(h, "%s|%v|%v|%s|%d|%d|%v|%v|%d|%d|%d|%d", pl.kind, pl.old, pl.new, pl.fault, pl.k, pl.mode, pl.big, pl.real, res.nMoveF, res.nMoveR, res.nFiles, res.nRecs)
			distinct[h.Sum64()] = struct{}{}
		}
	}
	rc.stats["evaluations"] = len(plans)
	rc.stats["distinct"] = len(distinct)
	rc.stats["histogram"] = hist
	rc.stats["seed"] = rc.seed
	rc.stats["scenario_seconds"] = time.Since(t0).Seconds()
	for _, t := range terms {
		if err := t.cf.Close("bad"); err != nil {
			return err
		}
	}
	return nil
}

// the scenarios of one run
func c14Plans(rc *runCtx, r *rand.Rand) []c14Plan {
	const C = cluster.CHUNKSIZE
	type shape struct {
		kind     string
		old, new []int
	}
	shapes := []shape{
		{"grow", []int{0}, []int{0, 1}}, {"grow", []int{0, 1}, []int{0, 1, 2}}, {"grow", []int{0, 1}, []int{0, 1, 2, 3}}, {"grow", []int{0}, []int{0, 1, 2}},
		{"shrink", []int{0, 1}, []int{0}}, {"shrink", []int{0, 1, 2}, []int{0, 1}}, {"shrink", []int{0, 1, 2}, []int{1}},
		{"replace", []int{0, 1}, []int{0, 2}}, {"replace", []int{0, 1}, []int{2, 3}}, {"replace", []int{0, 1, 2}, []int{0, 1, 3}}, {"replace", []int{0}, []int{1}},
		{"same", []int{0, 1}, []int{0, 1}},
	}
	two := []shape{{"grow", []int{0}, []int{0, 1}}, {"shrink", []int{0, 1}, []int{1}}, {"replace", []int{0}, []int{1}}}
	relabel := func(sh shape) shape {
		perm := r.Perm(4)
		m := func(xs []int) []int {
			out := make([]int, len(xs))
			for i, x := range xs {
				out[i] = perm[x]
			}
			return out
		}
		return shape{sh.kind, m(sh.old), m(sh.new)}
	}
	bigSizes := []int{1, C - 1, C, C + 1, 2 * C, 2*C + 1}
	var plans []c14Plan
	mult := 1
	if rc.thorough() {
		mult = 10
	}
	nSmall := 30 * mult
	if rc.n != 0 {
		nSmall = rc.n
	}
	// (1) small files, every kind of server-list change, in-process faults
	for i := 0; i < nSmall; i++ {
		sh := relabel(shapes[i%len(shapes)])
		pl := c14Plan{kind: sh.kind, old: sh.old, new: sh.new, nUsers: 2 + r.IntN(4), fault: "none", subset: 1 + r.Uint64N(15)}
		all := c14Union(sh.old, sh.new)
		switch r.IntN(8) {
		case 0, 1:
		case 2, 3, 4:
			pl.fault, pl.k = "chunk", r.IntN(3)
			if r.IntN(2) == 0 {
				pl.subset = 15
			}
		case 5:
			pl.fault = "phase"
			if r.IntN(2) == 0 {
				pl.subset = 15
			}
		default:
			if len(all) > 1 {
				pl.fault, pl.victim = "down", all[r.IntN(len(all))]
			}
		}
		plans = append(plans, pl)
	}
	// (2) files around the chunk boundaries, error at every chunk index
	for rep := 0; rep < mult; rep++ {
		for k := -1; k <= 3; k++ {
			sh := relabel(two[(k+1+rep)%len(two)])
			pl := c14Plan{kind: sh.kind, old: sh.old, new: sh.new, nUsers: 1, fault: "chunk", k: k, subset: 15}
			if k < 0 {
				pl.fault, pl.k = "none", 0
			}
			o := (k + 1 + 2*rep) % 5
			pl.big = []int{2*C + 1, bigSizes[o], bigSizes[(o+2)%5]}
			for rot := (k + 1 + rep) % 3; rot > 0; rot-- { // which file a sender meets first changes from scenario to scenario
				pl.big = append(pl.big[1:], pl.big[0])
			}
			plans = append(plans, pl)
		}
	}
	// (3) process kills: the receiver exits at chunk k; the sender is killed at chunk k
	for rep := 0; rep < mult; rep++ {
		for k := 0; k <= 3; k++ {
			sh := relabel(two[(k+rep)%len(two)])
			// the receiver: the node that stays / joins
			recv := sh.new[len(sh.new)-1]
			other := func(x int, all []int) int {
				for _, y := range all {
					if y != x {
						return y
					}
				}
				return -1
			}
			pl := c14Plan{kind: sh.kind, old: sh.old, new: sh.new, nUsers: 2, fault: "recvkill", k: k, victim: recv, big: []int{2*C + 1},
				bigTo: recv, bigFrom: other(recv, c14Union(sh.old, sh.new)), marked: true}
			if k <= 1 {
				pl.big = nil // small files have the chunk indices 0 and 1
				pl.nUsers = 4
			}
			plans = append(plans, pl)
			for mode := 0; mode <= 1; mode++ {
				sh := relabel(two[(k+mode+rep)%len(two)])
				to := sh.new[len(sh.new)-1]
				if to == sh.old[0] {
					to = sh.new[0]
				}
				pl := c14Plan{kind: sh.kind, old: sh.old, new: sh.new, nUsers: 2, fault: "sendkill", k: k, mode: mode, victim: sh.old[0], big: []int{2*C + 1},
					bigTo: to, bigFrom: sh.old[0], marked: true}
				if k <= 1 && mode == 0 {
					pl.big = nil
					pl.nUsers = 4
				}
				plans = append(plans, pl)
			}
		}
	}
	// (4) real bbolt shards, read back through every node
	for rep := 0; rep < mult; rep++ {
		for i, f := range []string{"none", "chunk", "phase"} {
			sh := relabel(shapes[[]int{1, 5, 7}[(i+rep)%3]])
			plans = append(plans, c14Plan{kind: sh.kind, old: sh.old, new: sh.new, nUsers: 2, fault: f, k: 1, subset: 15, real: true})
		}
	}
	// (5) no fault, a slow receiver: every chunk of a three-chunk file takes 2 s (each call stays below the RPC timeout,
	// the transfer to one destination lasts longer than it): the move completes all the same
	{
		sh := relabel(two[0])
		plans = append(plans, c14Plan{kind: sh.kind, old: sh.old, new: sh.new, nUsers: 1, fault: "none", subset: 15, big: []int{2*C + 1}, slow: true})
	}
	for i := range plans {
		if !plans[i].marked {
			plans[i].bigTo, plans[i].bigFrom = -1, -1
		}
	}
	return plans
}
