package main

// Profile-specific request generation and side tables (lower-casing, tokens).

import (
	"fmt"
	"math"
	"sort"
	"strings"

	"github.com/google/uuid"
)

func (g *genState) genRequests(step int, docs map[uuid.UUID]Val) []requestSpec {
	switch g.profile {
	case "c01":
		return g.reqsC01(docs)
	case "c02":
		return g.reqsC02(docs)
	case "c04":
		return g.reqsC04(docs)
	case "c05":
		return g.reqsC05(docs)
	case "c06":
		return g.reqsC06(docs)
	case "c03":
		return g.reqsC03(docs)
	case "c08", "c07", "c09":
		return g.reqsC08(docs)
	}
	return nil
}

// C01: reads by id (single, several, unknown ids) with select "*"
func (g *genState) reqsC01(docs map[uuid.UUID]Val) []requestSpec {
	var out []requestSpec
	r := g.r
	id := g.pool[r.IntN(len(g.pool))]
	out = append(out, requestSpec{q: querySpec{kind: "ideq", ids: []uuid.UUID{id}}, sel: []string{"*"}})
	n := 1 + r.IntN(4)
	ids := make([]uuid.UUID, n)
	for i := range ids {
		ids[i] = g.pool[r.IntN(len(g.pool))]
	}
	if r.IntN(3) == 0 {
		var u uuid.UUID
		u[0] = 0xEE
		ids = append(ids, u) // never stored
	}
	out = append(out, requestSpec{q: querySpec{kind: "idany", ids: ids}, sel: []string{"*"}})
	return out
}

// C02: filter queries on every index: every operator, values drawn from what is
// stored now, what was stored earlier (stale postings), neighbours and pools.
func (g *genState) reqsC02(docs map[uuid.UUID]Val) []requestSpec {
	r := g.r
	var out []requestSpec
	nq := 18 + r.IntN(10)
	for len(out) < nq {
		q, ok := g.genFilter(2)
		if ok {
			out = append(out, requestSpec{q: q})
		}
	}
	return out
}

func (g *genState) filterIndexes() []idxSpec {
	var out []idxSpec
	for _, ix := range g.schema {
		switch ix.kind {
		case ixInt, ixFloat, ixStr, ixStrArr:
			out = append(out, ix)
		}
	}
	return out
}

func (g *genState) remember(path string, v Val) {
	if g.old == nil {
		g.old = map[string][]Val{}
	}
	if len(g.old[path]) < 64 {
		g.old[path] = append(g.old[path], v)
	}
}

// candidate values for a path: stored now, stored earlier, pool
func (g *genState) candidates(ix idxSpec) []Val {
	cands := append([]Val{}, g.storedAt(ix.path)...)
	for _, v := range cands {
		g.remember(ix.path, v)
	}
	cands = append(cands, g.old[ix.path]...)
	return cands
}

func (g *genState) genLeaf() (querySpec, bool) {
	r := g.r
	ixs := g.filterIndexes()
	if len(ixs) == 0 || r.IntN(12) == 0 {
		// _id lookups
		n := 1 + r.IntN(3)
		ids := make([]uuid.UUID, n)
		for i := range ids {
			ids[i] = g.pool[r.IntN(len(g.pool))]
		}
		if n == 1 && r.IntN(2) == 0 {
			return querySpec{kind: "ideq", ids: ids}, true
		}
		return querySpec{kind: "idany", ids: ids}, true
	}
	ix := ixs[r.IntN(len(ixs))]
	cands := g.candidates(ix)
	pickStored := func(k vkind) (Val, bool) {
		var ok []Val
		for _, c := range cands {
			if c.K == k {
				ok = append(ok, c)
			}
		}
		if len(ok) == 0 || r.IntN(4) == 0 {
			return Val{}, false
		}
		return ok[r.IntN(len(ok))], true
	}
	ops := []int{0, 1, 3, 4, 5, 6, 7}
	switch ix.kind {
	case ixInt:
		op := ops[r.IntN(len(ops))]
		v := g.genInt()
		if c, ok := pickStored(kInt); ok {
			v = c.I
			switch r.IntN(4) {
			case 0:
				if v < math.MaxInt64 {
					v++
				}
			case 1:
				if v > math.MinInt64 {
					v--
				}
			}
		}
		e := v
		if op == 7 {
			e = g.genInt()
			if c, ok := pickStored(kInt); ok {
				e = c.I
			}
			if e < v {
				v, e = e, v
			}
			if e == v {
				if e == math.MaxInt64 {
					v--
				} else {
					e++
				}
			}
		}
		return querySpec{kind: "int", prop: ix.path, op: op, iv: v, ie: e}, true
	case ixFloat:
		op := ops[r.IntN(len(ops))]
		v := g.genFloat()
		if c, ok := pickStored(kF64); ok {
			v = math.Float64frombits(c.Bits)
			switch r.IntN(4) {
			case 0:
				v = math.Nextafter(v, math.Inf(1))
			case 1:
				v = math.Nextafter(v, math.Inf(-1))
			}
		}
		e := v
		if op == 7 {
			e = g.genFloat()
			if c, ok := pickStored(kF64); ok {
				e = math.Float64frombits(c.Bits)
			}
			if e < v {
				v, e = e, v
			}
			if e == v {
				e = math.Nextafter(v, math.Inf(1))
				if math.IsInf(v, 1) {
					v = math.MaxFloat64
					e = math.Inf(1)
				}
			}
		}
		return querySpec{kind: "float", prop: ix.path, op: op, fv: math.Float64bits(v), fe: math.Float64bits(e)}, true
	case ixStr:
		sops := []int{0, 1, 2, 3, 4, 5, 6, 7}
		op := sops[r.IntN(len(sops))]
		pick := func() string {
			s := g.genStr()
			if c, ok := pickStored(kStr); ok {
				s = c.S
				switch r.IntN(6) {
				case 0:
					s = strings.ToUpper(s)
				case 1:
					s = strings.ToLower(s)
				case 2:
					if len(s) > 1 {
						s = s[:1+r.IntN(len(s)-1)]
					}
				case 3:
					s = s + string([]byte{byte(r.IntN(3))})
				}
			}
			if s == "" {
				s = "a"
			}
			return s
		}
		v := pick()
		e := ""
		if op == 7 {
			e = pick()
			// the API requires endValue > value (byte order of the raw strings)
			if e < v {
				v, e = e, v
			}
			if e == v {
				e = v + "\x00"
			}
		}
		return querySpec{kind: "str", prop: ix.path, op: op, sv: v, se: e}, true
	case ixStrArr:
		op := 8 + r.IntN(2)
		n := 1 + r.IntN(3)
		vs := make([]string, n)
		for i := range vs {
			vs[i] = g.pick(tagPool)
			if c, ok := pickStored(kArr); ok && len(c.A) > 0 {
				e := c.A[r.IntN(len(c.A))]
				if e.K == kStr {
					vs[i] = e.S
					if r.IntN(4) == 0 {
						vs[i] = strings.ToUpper(vs[i])
					}
				}
			}
		}
		return querySpec{kind: "strarr", prop: ix.path, op: op, svs: vs}, true
	}
	return querySpec{}, false
}

func (g *genState) genFilter(depth int) (querySpec, bool) {
	r := g.r
	if depth == 0 || r.IntN(3) > 0 {
		return g.genLeaf()
	}
	n := 1 + r.IntN(3)
	q := querySpec{kind: []string{"and", "or"}[r.IntN(2)]}
	for i := 0; i < n; i++ {
		s, ok := g.genFilter(depth - 1)
		if !ok {
			return querySpec{}, false
		}
		q.subs = append(q.subs, s)
	}
	return q, true
}

var weightPool = []float32{-2, -1, -0.5, 0, 0.5, 1, 3}

// C04: flat vector searches with limits around the collection size, weights and pre-filters
func (g *genState) reqsC04(docs map[uuid.UUID]Val) []requestSpec {
	r := g.r
	var out []requestSpec
	n := len(docs)
	prop := "fv"
	for _, ix := range g.schema {
		if ix.kind == ixFlat {
			prop = ix.path
			break
		}
	}
	for k := 0; k < 6; k++ {
		q := querySpec{kind: "flat", prop: prop, vec: g.genVec(g.dim)}
		switch r.IntN(4) {
		case 0:
			q.limit = 1 + r.IntN(75)
		case 1:
			q.limit = 1
		default:
			q.limit = 1 + r.IntN(n+3)
		}
		if r.IntN(2) == 0 {
			w := weightPool[r.IntN(len(weightPool))]
			q.weight = &w
		}
		if r.IntN(2) == 0 {
			if f, ok := g.genFilter(1); ok {
				q.filter = &f
			}
		}
		out = append(out, requestSpec{q: q})
	}
	return out
}

// lowerTable: strings.ToLower of every string at a case-insensitive indexed path
// of the live documents and of every string in the requests.
func (g *genState) lowerTable(docs map[uuid.UUID]Val, reqs []requestSpec) string {
	set := map[string]struct{}{}
	var walkVal func(v Val)
	walkVal = func(v Val) {
		switch v.K {
		case kStr:
			set[v.S] = struct{}{}
		case kArr:
			for _, e := range v.A {
				walkVal(e)
			}
		}
	}
	for _, ix := range g.schema {
		if (ix.kind == ixStr || ix.kind == ixStrArr) && !ix.caseSens {
			for _, d := range docs {
				cur, ok := d, true
				for _, p := range strings.Split(ix.path, ".") {
					if cur.K != kMap {
						ok = false
						break
					}
					cur, ok = cur.get(p)
					if !ok {
						break
					}
				}
				if ok {
					walkVal(cur)
				}
			}
		}
	}
	var walkQ func(q querySpec)
	walkQ = func(q querySpec) {
		for _, s := range q.subs {
			walkQ(s)
		}
		if q.filter != nil {
			walkQ(*q.filter)
		}
		switch q.kind {
		case "str":
			set[q.sv] = struct{}{}
			set[q.se] = struct{}{}
		case "strarr":
			for _, s := range q.svs {
				set[s] = struct{}{}
			}
		}
	}
	for _, rq := range reqs {
		walkQ(rq.q)
	}
	keys := make([]string, 0, len(set))
	for k := range set {
		keys = append(keys, k)
	}
	sort.Strings(keys)
	items := make([]string, len(keys))
	for i, k := range keys {
		items[i] = "(" + pS(k) + ", " + pS(strings.ToLower(k)) + ")"
	}
	return pList(items)
}

func (g *genState) extraObs(env *shardEnv, docs map[uuid.UUID]Val, reqs []requestSpec) []string {
	var out []string
	if g.profile == "c04" {
		out = append(out, g.vecExtras(env, g.schema[0], "index/vectorFlat/"+g.schema[0].path, "flat", docs, reqs)...)
	}
	if g.profile == "c03" {
		out = append(out, g.vecExtras(env, g.schema[0], "index/vectorVamana/"+g.schema[0].path, "vamana", docs, reqs)...)
		out = append(out, dumpRaw(env, "index/vectorVamana/"+g.schema[0].path)...)
		if x, err := dumpPoints(env); err == nil {
			out = append(out, x...)
		} else {
			out = append(out, "(XNote 902)")
		}
	}
	if g.profile == "c05" {
		out = append(out, g.extrasC05(docs, reqs)...)
	}
	if g.profile == "c06" {
		out = append(out, g.extrasC05(docs, reqs)...)
	}
	if g.profile == "c08" || g.profile == "c07" || g.profile == "c09" {
		out = append(out, g.extrasC08(env, docs, reqs)...)
	}
	if g.profile == "c01" || g.profile == "c10" {
		if x, err := dumpPoints(env); err == nil {
			out = append(out, x...)
		} else {
			out = append(out, "(XNote 902)")
		}
	}
	return out
}

// dumpPoints records the points and internal buckets of the live shard.
func dumpPoints(env *shardEnv) ([]string, error) {
	keys, vals, err := env.sh.VerifDumpBucket("points")
	if err != nil {
		return nil, err
	}
	type kv struct{ k, v []byte }
	var raws, datas []kv
	for i := range keys {
		k := keys[i]
		if len(k) == 10 && k[0] == 'n' && k[9] == 'd' {
			datas = append(datas, kv{k, vals[i]})
		} else {
			raws = append(raws, kv{k, vals[i]})
		}
	}
	sort.Slice(raws, func(i, j int) bool { return string(raws[i].k) < string(raws[j].k) })
	sort.Slice(datas, func(i, j int) bool { return string(datas[i].k) < string(datas[j].k) })
	ri := make([]string, len(raws))
	for i, e := range raws {
		ri[i] = "(" + pB(e.k) + ", " + pB(e.v) + ")"
	}
	di := make([]string, len(datas))
	for i, e := range datas {
		v, err := decodeDoc(e.v)
		if err != nil {
			return nil, err
		}
		di[i] = "(" + pB(e.k) + ", " + v.docCoq() + ")"
	}
	ikeys, ivals, err := env.sh.VerifDumpBucket("internal")
	if err != nil {
		return nil, err
	}
	var ints []kv
	for i := range ikeys {
		ints = append(ints, kv{ikeys[i], ivals[i]})
	}
	sort.Slice(ints, func(i, j int) bool { return string(ints[i].k) < string(ints[j].k) })
	ii := make([]string, len(ints))
	for i, e := range ints {
		ii[i] = "(" + pB(e.k) + ", " + pB(e.v) + ")"
	}
	return []string{
		"(XBucket " + pS("points") + " " + pList(ri) + ")",
		"(XDocs " + pS("points") + " " + pList(di) + ")",
		"(XBucket " + pS("internal") + " " + pList(ii) + ")",
	}, nil
}

func haversineRef(x, y []float32) float64 {
	const degToRad = math.Pi / 180
	latx, lonx, laty, lony := float64(x[0])*degToRad, float64(x[1])*degToRad, float64(y[0])*degToRad, float64(y[1])*degToRad
	dlat, dlon := latx-laty, lonx-lony
	a := math.Sin(dlat/2)*math.Sin(dlat/2) + math.Cos(latx)*math.Cos(laty)*math.Sin(dlon/2)*math.Sin(dlon/2)
	return 6371000 * 2 * math.Asin(math.Sqrt(a))
}

func floatMetricRef(metric string, x, y []float32) float64 {
	var s float64
	switch metric {
	case "euclidean":
		for i := range x {
			d := float64(x[i]) - float64(y[i])
			s += d * d
		}
		return s
	case "cosine", "dot":
		for i := range x {
			s += float64(x[i]) * float64(y[i])
		}
		if metric == "cosine" {
			return 1 - s
		}
		return -s
	}
	return haversineRef(x, y)
}

func valVec(v Val) ([]float32, bool) {
	if v.K != kArr {
		return nil, false
	}
	out := make([]float32, len(v.A))
	for i, e := range v.A {
		if e.K != kF32 {
			return nil, false
		}
		out[i] = math.Float32frombits(uint32(e.Bits))
	}
	return out, true
}

// extrasC04: persisted quantiser parameters and harness-side reference distances
// (haversine; product quantiser from the persisted centroids and codes).
func (g *genState) vecExtras(env *shardEnv, ix idxSpec, bucket string, qkind string, docs map[uuid.UUID]Val, reqs []requestSpec) []string {
	var out []string
	keys, vals, err := env.sh.VerifDumpBucket(bucket)
	if err != nil {
		return []string{"(XNote 903)"}
	}
	kvm := map[string][]byte{}
	for i := range keys {
		kvm[string(keys[i])] = vals[i]
	}
	f32s := func(b []byte) []float32 {
		o := make([]float32, len(b)/4)
		for i := range o {
			o[i] = math.Float32frombits(uint32(b[4*i]) | uint32(b[4*i+1])<<8 | uint32(b[4*i+2])<<16 | uint32(b[4*i+3])<<24)
		}
		return o
	}
	if b, ok := kvm["_binaryQuantizerThreshold"]; ok {
		out = append(out, "(XF32s "+pS(bucket)+" "+pS("_binaryQuantizerThreshold")+" "+pVec(f32s(b))+")")
	}
	needOracle := ix.metric == "haversine" || ix.q.kind == 3
	if !needOracle {
		return out
	}
	var centroids []float32
	if b, ok := kvm["_productQuantizerFlatCentroids"]; ok {
		centroids = f32s(b)
	}
	// node id of every live point (points bucket)
	pkeys, pvals, err := env.sh.VerifDumpBucket("points")
	if err != nil {
		return append(out, "(XNote 904)")
	}
	nodeOf := map[uuid.UUID]uint64{}
	for i, k := range pkeys {
		if len(k) == 18 && k[0] == 'p' && k[17] == 'i' {
			var u uuid.UUID
			copy(u[:], k[1:17])
			var n uint64
			for j := 0; j < 8; j++ {
				n |= uint64(pvals[i][j]) << (8 * uint(j))
			}
			nodeOf[u] = n
		}
	}
	metric := ix.metric
	if metric == "cosine" && ix.q.kind == 3 {
		metric = "euclidean" // the product quantiser replaces cosine by euclidean
	}
	for qi, rq := range reqs {
		if rq.q.kind != qkind {
			continue
		}
		var items []string
		for id, d := range docs {
			fv, ok := d.getPath(ix.path)
			if !ok {
				continue
			}
			vec, ok := valVec(fv)
			if !ok || len(vec) != ix.dim {
				continue
			}
			var ref float64
			if ix.q.kind == 3 && len(centroids) > 0 {
				nk := make([]byte, 10)
				nk[0] = 'n'
				for j := 0; j < 8; j++ {
					nk[1+j] = byte(nodeOf[id] >> (8 * uint(j)))
				}
				nk[9] = 'q'
				codes, ok := kvm[string(nk)]
				if !ok {
					continue
				}
				sub := ix.dim / ix.q.nsub
				for i := 0; i < ix.q.nsub; i++ {
					start := i*ix.q.ncent*sub + int(codes[i])*sub
					c := centroids[start : start+sub]
					switch metric {
					case "euclidean":
						ref += floatMetricRef("euclidean", rq.q.vec[i*sub:(i+1)*sub], c)
					default: // dot: -dot per part
						ref += floatMetricRef("dot", rq.q.vec[i*sub:(i+1)*sub], c)
					}
				}
			} else if ix.q.kind == 3 {
				ref = floatMetricRef(metric, rq.q.vec, vec)
			} else {
				ref = haversineRef(rq.q.vec, vec)
			}
			items = append(items, "("+pUUID(id)+", "+pN(math.Float64bits(ref))+")")
		}
		sort.Strings(items)
		out = append(out, fmt.Sprintf("(XOracle %d %s)", qi, pList(items)))
	}
	return out
}

// C05: text queries (multi-term, repeated terms, stop words only, punctuation only,
// mixed case, unicode), both operators, limits, weights, pre-filters
func (g *genState) reqsC05(docs map[uuid.UUID]Val) []requestSpec {
	r := g.r
	var out []requestSpec
	n := len(docs)
	path := g.schema[0].path
	for k := 0; k < 7; k++ {
		var text string
		pickCase := r.IntN(10)
		// half of the queries ask for words of a text written by the last batch (fresh frequencies / lengths)
		if r.IntN(2) == 0 && len(g.recent) > 0 {
			if d, ok := docs[g.recent[r.IntN(len(g.recent))]]; ok {
				if tv, ok := d.get(path); ok && tv.K == kStr {
					if ws := strings.Fields(tv.S); len(ws) > 0 {
						text = ws[r.IntN(len(ws))]
						if r.IntN(2) == 0 {
							text += " " + ws[r.IntN(len(ws))]
						}
						pickCase = 99
					}
				}
			}
		}
		switch pickCase {
		case 99:
		case 0:
			text = "the of and"
		case 1:
			text = "!!! ... -"
		case 2:
			w := g.pick(g.words)
			text = w + " " + w + " " + strings.ToUpper(w)
		case 3: // the text of a stored document
			if st := g.storedAt(path); len(st) > 0 && st[0].K == kStr && st[0].S != "" {
				text = st[r.IntN(len(st))].S
			} else {
				text = g.pick(g.words)
			}
		default:
			m := 1 + r.IntN(3)
			ws := make([]string, m)
			for i := range ws {
				ws[i] = g.pick(g.words)
			}
			text = strings.Join(ws, " ")
		}
		if text == "" {
			text = "wizard"
		}
		q := querySpec{kind: "text", prop: path, sv: text, op: 8 + r.IntN(2)}
		switch r.IntN(3) {
		case 0:
			q.limit = 1 + r.IntN(75)
		case 1:
			q.limit = 1 + r.IntN(2)
		default:
			q.limit = 1 + r.IntN(n+2)
		}
		if r.IntN(2) == 0 {
			w := weightPool[r.IntN(len(weightPool))]
			q.weight = &w
		}
		if r.IntN(3) == 0 {
			if f, ok := g.genFilter(1); ok {
				q.filter = &f
			}
		}
		toks, err := text_VerifAnalyse(text)
		if err != nil {
			continue
		}
		q.terms = toks
		out = append(out, requestSpec{q: q})
	}
	return out
}

// extrasC05: analysed tokens of every stored text and the table of logarithms
func (g *genState) extrasC05(docs map[uuid.UUID]Val, reqs []requestSpec) []string {
	path := g.schema[0].path
	texts := map[string]struct{}{}
	ndocs := 0
	for _, d := range docs {
		cur, ok := d, true
		for _, p := range strings.Split(path, ".") {
			if cur.K != kMap {
				ok = false
				break
			}
			cur, ok = cur.get(p)
			if !ok {
				break
			}
		}
		if ok && cur.K == kStr {
			texts[cur.S] = struct{}{}
			if toks, err := text_VerifAnalyse(cur.S); err == nil && len(toks) > 0 {
				ndocs++
			}
		}
	}
	keys := make([]string, 0, len(texts))
	for k := range texts {
		keys = append(keys, k)
	}
	sort.Strings(keys)
	items := make([]string, 0, len(keys))
	for _, k := range keys {
		toks, err := text_VerifAnalyse(k)
		if err != nil {
			continue
		}
		ts := make([]string, len(toks))
		for i, t := range toks {
			ts[i] = pS(t)
		}
		items = append(items, "("+pS(k)+", "+pList(ts)+")")
	}
	// log10(n/(df+1)) for the current corpus size and every possible document frequency
	logs := make([]string, 0, ndocs+1)
	for df := 0; df <= ndocs; df++ {
		l := math.Log10(float64(ndocs) / float64(df+1))
		logs = append(logs, fmt.Sprintf("(%d, %d, %s)", ndocs, df, pN(math.Float64bits(l))))
	}
	return []string{"(XTokens " + pList(items) + ")", "(XLogs " + pList(logs) + ")"}
}

// ---- C06: composite requests

func (g *genState) rankLeaf() (querySpec, bool) {
	r := g.r
	var kinds []idxSpec
	for _, ix := range g.schema {
		if ix.kind == ixFlat || ix.kind == ixText || ix.kind == ixVamana {
			kinds = append(kinds, ix)
		}
	}
	if len(kinds) == 0 {
		return querySpec{}, false
	}
	ix := kinds[r.IntN(len(kinds))]
	var q querySpec
	switch ix.kind {
	case ixFlat:
		q = querySpec{kind: "flat", prop: ix.path, vec: g.genVec(ix.dim), limit: 75}
	case ixVamana:
		q = querySpec{kind: "vamana", prop: ix.path, vec: g.genVec(ix.dim), search: 75, limit: 75}
	case ixText:
		m := 1 + r.IntN(2)
		ws := make([]string, m)
		for i := range ws {
			ws[i] = g.pick(g.words)
		}
		text := strings.Join(ws, " ")
		toks, err := text_VerifAnalyse(text)
		if err != nil {
			return querySpec{}, false
		}
		q = querySpec{kind: "text", prop: ix.path, sv: text, terms: toks, op: 8 + r.IntN(2), limit: 75}
	}
	if r.IntN(3) > 0 {
		w := weightPool[r.IntN(len(weightPool))]
		q.weight = &w
	}
	if r.IntN(4) == 0 {
		if f, ok := g.genFilter(1); ok {
			q.filter = &f
		}
	}
	return q, true
}

func (g *genState) genComposite(depth int) (querySpec, bool) {
	r := g.r
	if depth == 0 || r.IntN(4) == 0 {
		if r.IntN(2) == 0 {
			return g.rankLeaf()
		}
		return g.genLeaf()
	}
	n := 1 + r.IntN(4)
	q := querySpec{kind: []string{"and", "or"}[r.IntN(2)]}
	for i := 0; i < n; i++ {
		c, ok := g.genComposite(depth - 1)
		if !ok {
			return querySpec{}, false
		}
		q.subs = append(q.subs, c)
	}
	return q, true
}

func rankingLeaves(q querySpec) []querySpec {
	switch q.kind {
	case "and", "or":
		var out []querySpec
		for _, c := range q.subs {
			out = append(out, rankingLeaves(c)...)
		}
		return out
	case "flat", "text", "vamana":
		return []querySpec{q}
	}
	return nil
}

var selectPool = [][]string{{"*"}, {"i"}, {"s", "i"}, {"nested.n"}, {"nested"}, {"extra"}, {"missing"}, {"nested.n", "nested.deep.s"},
	{"txt", "i"}, {"fv"}, {"tags"}, {"nested", "nested.n"}, {"nested.n", "nested"}, {"i", "*"}, {"s", "extra", "note", "tags"},
	{"nested.m", "nested", "i"}, {"nested.n", "i", "nested"}, {"nested.m.k", "nested.m"}, {"nested.m.k", "nested"}}

func (g *genState) reqsC06(docs map[uuid.UUID]Val) []requestSpec {
	r := g.r
	var out []requestSpec
	n := len(docs)
	for k := 0; k < 7; k++ {
		q, ok := g.genComposite(2)
		if !ok {
			continue
		}
		rq := requestSpec{q: q}
		if r.IntN(3) > 0 {
			rq.sel = selectPool[r.IntN(len(selectPool))]
		}
		if r.IntN(3) == 0 && len(rq.sel) > 0 {
			// sort keys among the selected paths (with "*" any stored path)
			cands := rq.sel
			if rq.sel[0] == "*" || (len(rq.sel) > 1 && rq.sel[1] == "*") {
				cands = []string{"i", "s", "nested.n", "extra", "note", "missing", "txt", "nested.deep.s", "f", "nested.m.k"}
			} else if r.IntN(3) == 0 {
				cands = append(append([]string{}, rq.sel...), "nested.n", "nested.m.k") // keys below a selected parent
			}
			m := 1 + r.IntN(3)
			for j := 0; j < m; j++ {
				c := cands[r.IntN(len(cands))]
				if c == "*" {
					continue
				}
				rq.sort = append(rq.sort, sortSpec{prop: c, desc: r.IntN(2) == 0})
			}
		}
		switch r.IntN(3) {
		case 0:
			rq.offset = r.IntN(n + 4)
		case 1:
			rq.offset = r.IntN(3)
		}
		if r.IntN(2) == 0 {
			rq.limit = 1 + r.IntN(n+2)
		}
		out = append(out, rq)
		for _, leaf := range rankingLeaves(q) {
			out = append(out, requestSpec{q: leaf})
		}
	}
	return out
}

func dumpRaw(env *shardEnv, bucket string) []string {
	keys, vals, err := env.sh.VerifDumpBucket(bucket)
	if err != nil {
		return []string{"(XNote 905)"}
	}
	idx := make([]int, len(keys))
	for i := range idx {
		idx[i] = i
	}
	sort.Slice(idx, func(a, b int) bool { return string(keys[idx[a]]) < string(keys[idx[b]]) })
	items := make([]string, len(keys))
	for j, i := range idx {
		items[j] = "(" + pB(keys[i]) + ", " + pB(vals[i]) + ")"
	}
	return []string{"(XBucket " + pS(bucket) + " " + pList(items) + ")"}
}

// C03: graph searches with limits, search sizes, weights and pre-filters of every kind
func (g *genState) reqsC03(docs map[uuid.UUID]Val) []requestSpec {
	r := g.r
	out := g.chainQueries()
	ix := g.schema[0]
	if g.large && len(docs) > 30 {
		// pre-filters smaller than the search window but larger than the limit, in a collection larger than
		// the window: the exact-within-the-filter regime where the seeding of the result set matters
		live := make([]uuid.UUID, 0, len(docs))
		for _, u := range g.pool {
			if _, ok := docs[u]; ok {
				live = append(live, u)
			}
		}
		for k := 0; k < 5; k++ {
			q := querySpec{kind: "vamana", prop: ix.path, vec: g.genVec(ix.dim)}
			q.search = []int{25, 30, 50}[r.IntN(3)]
			m := 4 + r.IntN(q.search-4)
			perm := r.Perm(len(live))
			ids := []uuid.UUID{}
			for i := 0; i < m && i < len(perm); i++ {
				ids = append(ids, live[perm[i]])
			}
			f := querySpec{kind: "idany", ids: ids}
			q.filter = &f
			q.limit = 1 + r.IntN(min(len(ids), 10))
			out = append(out, requestSpec{q: q})
		}
	}
	if !g.large {
		// a pre-filter that selects EVERY id of the pool: live points without the vector field, deleted points and
		// re-used node ids must not come back through it (stale vector entries of any store would)
		q := querySpec{kind: "vamana", prop: ix.path, vec: g.genVec(ix.dim), search: 75, limit: 30}
		f := querySpec{kind: "idany", ids: append([]uuid.UUID{}, g.pool...)}
		q.filter = &f
		out = append(out, requestSpec{q: q})
	}
	for k := 0; k < 6; k++ {
		q := querySpec{kind: "vamana", prop: ix.path, vec: g.genVec(ix.dim)}
		q.search = []int{25, 30, 50, 75}[r.IntN(4)]
		switch r.IntN(3) {
		case 0:
			q.limit = 1 + r.IntN(q.search)
		case 1:
			q.limit = 1 + r.IntN(3)
		default:
			q.limit = 1 + r.IntN(len(docs)+2)
			if q.limit > q.search {
				q.limit = q.search
			}
		}
		if r.IntN(2) == 0 {
			w := weightPool[r.IntN(len(weightPool))]
			q.weight = &w
		}
		if r.IntN(2) == 0 {
			if f, ok := g.genFilter(1); ok {
				q.filter = &f
			}
		}
		out = append(out, requestSpec{q: q})
	}
	return out
}

// ---- C08 / C07 / C09: a mix of every query family (ids, filters, flat, text, graph with a pre-filter)
func (g *genState) chainQueries() []requestSpec {
	var out []requestSpec
	for _, ix := range g.schema {
		if ix.kind == ixVamana && g.chain > 0 {
			for _, x := range []float32{float32(100 * g.chain), 0, float32(50 * g.chain)} {
				v := make([]float32, ix.dim)
				v[0] = x
				out = append(out, requestSpec{q: querySpec{kind: "vamana", prop: ix.path, vec: v, search: 30, limit: 10}})
			}
		}
	}
	return out
}

func (g *genState) reqsC08(docs map[uuid.UUID]Val) []requestSpec {
	r := g.r
	out := g.reqsC01(docs)
	out = append(out, g.chainQueries()...)
	for k := 0; k < 5; k++ {
		if q, ok := g.genFilter(1); ok {
			out = append(out, requestSpec{q: q})
		}
	}
	n := len(docs)
	for _, ix := range g.schema {
		switch ix.kind {
		case ixFlat:
			for k := 0; k < 2; k++ {
				q := querySpec{kind: "flat", prop: ix.path, vec: g.genVec(ix.dim), limit: 1 + r.IntN(n+2)}
				if r.IntN(2) == 0 {
					if f, ok := g.genFilter(1); ok {
						q.filter = &f
					}
				}
				out = append(out, requestSpec{q: q})
			}
		case ixVamana:
			for k := 0; k < 2; k++ {
				q := querySpec{kind: "vamana", prop: ix.path, vec: g.genVec(ix.dim), search: 30, limit: 1 + r.IntN(10)}
				if f, ok := g.genFilter(1); ok { // a pre-filter smaller than the search window: exact regime
					q.filter = &f
				}
				out = append(out, requestSpec{q: q})
			}
			// and one walk from the entry node, no pre-filter (what a cold instance finds depends on the persisted
			// entry node and its vector)
			out = append(out, requestSpec{q: querySpec{kind: "vamana", prop: ix.path, vec: g.genVec(ix.dim), search: 30, limit: 1 + r.IntN(10)}})
		case ixText:
			for k := 0; k < 2; k++ {
				text := g.pick(g.words) + " " + g.pick(g.words)
				toks, err := text_VerifAnalyse(text)
				if err != nil {
					continue
				}
				out = append(out, requestSpec{q: querySpec{kind: "text", prop: ix.path, sv: text, terms: toks, op: 8 + r.IntN(2), limit: 1 + r.IntN(n+2)}})
			}
		}
	}
	return out
}

func (g *genState) extrasC08(env *shardEnv, docs map[uuid.UUID]Val, reqs []requestSpec) []string {
	var out []string
	for _, ix := range g.schema {
		switch ix.kind {
		case ixFlat:
			out = append(out, g.vecExtras(env, ix, "index/vectorFlat/"+ix.path, "flat", docs, reqs)...)
		case ixVamana:
			out = append(out, g.vecExtras(env, ix, "index/vectorVamana/"+ix.path, "vamana", docs, reqs)...)
		case ixText:
			sv := g.schema
			g.schema = schemaSpec{ix}
			out = append(out, g.extrasC05(docs, reqs)...)
			g.schema = sv
		}
	}
	return out
}
