package main

// Profile-specific request generation and side tables (lower-casing, tokens).

import (
	"sort"
	"strings"

	"github.com/google/uuid"
)

func (g *genState) genRequests(step int, docs map[uuid.UUID]Val) []requestSpec {
	switch g.profile {
	case "c01":
		return g.reqsC01(docs)
	case "c02":
		return g.reqsC02(docs)
	}
	return nil
}

// C01: reads by id (single, several, unknown ids) with select "*"
func (g *genState) reqsC01(docs map[uuid.UUID]Val) []requestSpec {
	var out []requestSpec
	r := g.r
	id := g.pool[r.IntN(len(g.pool))]
	out = append(out, requestSpec{q: querySpec{kind: "ideq", ids: []uuid.UUID{id}}, sel: []string{"*"}})
	n := 1 + r.IntN(4)
	ids := make([]uuid.UUID, n)
	for i := range ids {
		ids[i] = g.pool[r.IntN(len(g.pool))]
	}
	if r.IntN(3) == 0 {
		var u uuid.UUID
		u[0] = 0xEE
		ids = append(ids, u) // never stored
	}
	out = append(out, requestSpec{q: querySpec{kind: "idany", ids: ids}, sel: []string{"*"}})
	return out
}

func (g *genState) reqsC02(docs map[uuid.UUID]Val) []requestSpec { return nil }

// lowerTable: strings.ToLower of every string at a case-insensitive indexed path
// of the live documents and of every string in the requests.
func (g *genState) lowerTable(docs map[uuid.UUID]Val, reqs []requestSpec) string {
	set := map[string]struct{}{}
	var walkVal func(v Val)
	walkVal = func(v Val) {
		switch v.K {
		case kStr:
			set[v.S] = struct{}{}
		case kArr:
			for _, e := range v.A {
				walkVal(e)
			}
		}
	}
	for _, ix := range g.schema {
		if (ix.kind == ixStr || ix.kind == ixStrArr) && !ix.caseSens {
			for _, d := range docs {
				cur, ok := d, true
				for _, p := range strings.Split(ix.path, ".") {
					if cur.K != kMap {
						ok = false
						break
					}
					cur, ok = cur.get(p)
					if !ok {
						break
					}
				}
				if ok {
					walkVal(cur)
				}
			}
		}
	}
	var walkQ func(q querySpec)
	walkQ = func(q querySpec) {
		for _, s := range q.subs {
			walkQ(s)
		}
		if q.filter != nil {
			walkQ(*q.filter)
		}
		switch q.kind {
		case "str":
			set[q.sv] = struct{}{}
			set[q.se] = struct{}{}
		case "strarr":
			for _, s := range q.svs {
				set[s] = struct{}{}
			}
		}
	}
	for _, rq := range reqs {
		walkQ(rq.q)
	}
	keys := make([]string, 0, len(set))
	for k := range set {
		keys = append(keys, k)
	}
	sort.Strings(keys)
	items := make([]string, len(keys))
	for i, k := range keys {
		items[i] = "(" + pS(k) + ", " + pS(strings.ToLower(k)) + ")"
	}
	return pList(items)
}

func (g *genState) extraObs(env *shardEnv, docs map[uuid.UUID]Val, reqs []requestSpec) []string {
	return nil
}
