package main

// A diskstore proxy that fails (or kills the process at) the k-th failable
// storage operation issued inside write transactions. Installed through the
// verif hook (*Shard).VerifSwapDB.

import (
	"errors"
	"os"
	"sync/atomic"

	"github.com/semafind/semadb/diskstore"
)

var errInjected = errors.New("verif: injected storage fault")

type faultPlan struct {
	failAt           int64 // 1-based index of the operation to fail; 0 = never
	kill             bool  // exit the process instead of returning an error
	killBeforeCommit bool  // exit after the write callback returned nil, before commit
	killAfterCommit  bool  // exit right after the commit
	count            atomic.Int64
	fired            atomic.Bool
}

func (p *faultPlan) hit() bool {
	if p == nil {
		return false
	}
	n := p.count.Add(1)
	if p.failAt > 0 && n == p.failAt {
		p.fired.Store(true)
		if p.kill {
			os.Exit(3)
		}
		return true
	}
	return false
}

type faultStore struct {
	inner diskstore.DiskStore
	plan  *faultPlan // nil = transparent
}

func (f *faultStore) Path() string { return f.inner.Path() }
func (f *faultStore) Read(fn func(diskstore.BucketManager) error) error {
	return f.inner.Read(fn)
}
func (f *faultStore) Write(fn func(diskstore.BucketManager) error) error {
	p := f.plan
	err := f.inner.Write(func(bm diskstore.BucketManager) error {
		if p == nil {
			return fn(bm)
		}
		err := fn(&faultBM{bm, p})
		if err == nil && p.killBeforeCommit {
			os.Exit(3)
		}
		return err
	})
	if p != nil && err == nil && p.killAfterCommit {
		os.Exit(3)
	}
	return err
}
func (f *faultStore) BackupToFile(path string) error { return f.inner.BackupToFile(path) }
func (f *faultStore) SizeInBytes() (int64, error)    { return f.inner.SizeInBytes() }
func (f *faultStore) Close() error                   { return f.inner.Close() }

type faultBM struct {
	inner diskstore.BucketManager
	plan  *faultPlan
}

func (b *faultBM) Get(name string) (diskstore.Bucket, error) {
	if b.plan.hit() {
		return nil, errInjected
	}
	bk, err := b.inner.Get(name)
	if err != nil {
		return nil, err
	}
	return &faultBucket{bk, b.plan}, nil
}
func (b *faultBM) Delete(name string) error { return b.inner.Delete(name) }

type faultBucket struct {
	inner diskstore.Bucket
	plan  *faultPlan
}

func (b *faultBucket) IsReadOnly() bool      { return b.inner.IsReadOnly() }
func (b *faultBucket) Get(k []byte) []byte   { return b.inner.Get(k) }
func (b *faultBucket) Put(k, v []byte) error {
	if b.plan.hit() {
		return errInjected
	}
	return b.inner.Put(k, v)
}
func (b *faultBucket) Delete(k []byte) error {
	if b.plan.hit() {
		return errInjected
	}
	return b.inner.Delete(k)
}
func (b *faultBucket) ForEach(f func(k, v []byte) error) error {
	if b.plan.hit() {
		return errInjected
	}
	return b.inner.ForEach(f)
}
func (b *faultBucket) PrefixScan(p []byte, f func(k, v []byte) error) error {
	if b.plan.hit() {
		return errInjected
	}
	return b.inner.PrefixScan(p, f)
}
func (b *faultBucket) RangeScan(s, e []byte, incl bool, f func(k, v []byte) error) error {
	if b.plan.hit() {
		return errInjected
	}
	return b.inner.RangeScan(s, e, incl, f)
}
