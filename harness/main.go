// Command verifharness drives the real semadb code (built from /repo's
// current working tree with -tags verif) and records what it observed as
// Gallina terms, to be judged by the Coq models in /verif/coq.
package main

import (
	"encoding/json"
	"flag"
	"fmt"
	"os"
	"sort"

	"github.com/rs/zerolog"
)

type runCtx struct {
	seed    uint64
	tier    string
	n       int
	outDir  string
	replay  string
	only    string // "idx:cfg": run just this history (replays)
	steps   int    // truncate histories to this many batches (0 = generator default)
	stats   map[string]any
	samples []any
}

func (rc *runCtx) thorough() bool { return rc.tier == "thorough" }

func (rc *runCtx) addSample(s any) {
	if len(rc.samples) < 6 {
		rc.samples = append(rc.samples, s)
	}
}

type subcmd func(rc *runCtx) error

var subcmds = map[string]subcmd{}

func main() {
	zerolog.SetGlobalLevel(zerolog.Disabled)
	if os.Getenv("VERIF_LOG") != "" { // debugging aid: the error log lines of the code under test
		zerolog.SetGlobalLevel(zerolog.ErrorLevel)
	}
	if len(os.Args) < 2 {
		names := []string{}
		for k := range subcmds {
			names = append(names, k)
		}
		sort.Strings(names)
		fmt.Fprintln(os.Stderr, "usage: verifharness <sub> [flags]; subs:", names)
		os.Exit(2)
	}
	sub := os.Args[1]
	if sub == "shardrun" {
		shardChildMain(os.Args[2:])
		return
	}
	fs := flag.NewFlagSet(sub, flag.ExitOnError)
	seed := fs.Uint64("seed", 1, "PRNG seed")
	tier := fs.String("tier", "quick", "quick|thorough")
	n := fs.Int("n", 0, "number of cases (0 = tier default)")
	out := fs.String("out", ".", "output directory for cases_*.v and stats.json")
	replay := fs.String("replay", "", "replay file")
	only := fs.String("only", "", "run only the history idx:cfg")
	steps := fs.Int("steps", 0, "truncate histories to this many batches")
	fs.Parse(os.Args[2:])
	fn, ok := subcmds[sub]
	if !ok {
		fmt.Fprintln(os.Stderr, "unknown sub-command", sub)
		os.Exit(2)
	}
	rc := &runCtx{seed: *seed, tier: *tier, n: *n, outDir: *out, replay: *replay, only: *only, steps: *steps, stats: map[string]any{}}
	if err := fn(rc); err != nil {
		fmt.Fprintln(os.Stderr, "harness error:", err)
		os.Exit(3)
	}
	rc.stats["samples"] = rc.samples
	b, _ := json.MarshalIndent(rc.stats, "", " ")
	if err := os.WriteFile(rc.outDir+"/stats.json", b, 0644); err != nil {
		fmt.Fprintln(os.Stderr, "harness error:", err)
		os.Exit(3)
	}
}
