package main

// C13, a live node -- "the owner depends only on the key and on the set of server names": the list a node routes
// with is the configured one whatever the node has been through. One node of a three-server configuration is
// started alone; requests for keys owned by the two absent servers fail (nothing listens there), requests for
// keys it owns itself succeed. Afterwards the list the node routes with (ClusterNode.Servers, the argument of
// every RendezvousHash call site, see RoutingSites.v) is read back and the owner of every key is computed from it
// again: both are recorded as a CNode case for Run_C13.v.

import (
	"fmt"
	"os"
	"path/filepath"
	"strconv"

	"github.com/semafind/semadb/cluster"
)

func c13NodeCases(rc *runCtx, fs *c13Files, note func(kind, key string, nontrivial bool)) error {
	tmp, err := os.MkdirTemp("", "verif-c13-")
	if err != nil {
		return err
	}
	defer os.RemoveAll(tmp)
	ports, err := c14FreePorts(24000+(os.Getpid()%60)*60, 3)
	if err != nil {
		return err
	}
	var servers []string
	for _, p := range ports {
		servers = append(servers, "localhost:"+strconv.Itoa(p))
	}
	configured := append([]string(nil), servers...)
	node, err := startNode(cluster.ClusterNodeConfig{
		RootDir: tmp, RpcHost: "localhost", RpcPort: ports[0], RpcTimeout: 1, RpcRetries: 1, Servers: servers,
		ShardManager: cluster.ShardManagerConfig{RootDir: filepath.Join(tmp, "shards"), ShardTimeout: 5, MaxCacheSize: -1},
		MaxShardSize: 1 << 30, MaxShardPointCount: 1000, MaxSearchLimit: 75,
	})
	if err != nil {
		return err
	}
	defer node.Close()
	r := newRng(rc.seed, 1399)
	var keys []string
	for i := 0; i < 12; i++ {
		keys = append(keys, c13UserId(r))
	}
	before := map[string]string{}
	failed, served := 0, 0
	for _, k := range keys {
		before[k] = c13Call(k, configured, 1)[0]
		// the request is routed to the owner of the user id: it fails when that server is absent
		if _, err := node.ListCollections(k); err != nil {
			failed++
			note("live node: request failed, the owner of the key is absent", k, false)
		} else {
			served++
			note("live node: request served", k, false)
		}
	}
	after := append([]string(nil), node.Servers...)
	for _, k := range keys {
		f := fs.pick()
		f.cf.Add(fmt.Sprintf("CNode %s %s %s %s %s", f.b(k), f.ls(configured), f.l(after), f.b(before[k]), f.b(c13Call(k, after, 1)[0])))
		note("live node: list and owner after failed requests", k, true)
	}
	rc.stats["live_node"] = map[string]any{"keys": len(keys), "requests_failed_on_absent_servers": failed, "requests_served": served}
	return nil
}
