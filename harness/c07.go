package main

import "os"

func init() { subcmds["c07"] = runC07 }

func runC07(rc *runCtx) error {
	n := rc.n
	if n == 0 {
		n = 32
		if rc.thorough() {
			n = 600
		}
	}
	nfiles := 8
	if rc.thorough() {
		nfiles = 32
	}
	if n > 16 && !rc.thorough() && rc.n == 0 {
		n = 16
	}
	// process kills: at the k-th storage operation of a batch, after the write callback but before
	// the commit, and right after the commit; then the file is reopened by a fresh process
	r := newRng(rc.seed, 707)
	nk := 60
	if rc.thorough() {
		nk = 1200
	}
	killJobs = nil
	for i := 0; i < nk; i++ {
		at := []int{1, 2, 3, 5, 8, 13, 21, 34, -1, -2, -2, -1}[r.IntN(12)]
		killJobs = append(killJobs, [4]int{1000 + i, []int{0, 1, 2}[r.IntN(3)], 1 + r.IntN(4), at})
	}
	if rc.thorough() {
		os.Setenv("VERIF_BIGN", "5000") // size of the oversized rejected insert request (children inherit the environment)
	}
	return runHistories(rc, "c07", n, []int{0, 1, 2, 0}, nfiles,
		[]string{"Bytes", "Pack", "Value", "Obs", "Run_C07"}, "hist", "C07")
}
