package main

func init() {
	subcmds["c03"] = func(rc *runCtx) error { return runVamana(rc, "C03", "Run_C03") }
	subcmds["c10"] = func(rc *runCtx) error { return runVamana(rc, "C10", "Run_C10") }
}

// C03 and C10 share the histories (profile c03); they differ in what Coq judges.
func runVamana(rc *runCtx, prefix, run string) error {
	n := rc.n
	if n == 0 {
		n = 90
		if rc.thorough() {
			n = 2400
		}
	}
	nfiles := 8
	if rc.thorough() {
		nfiles = 32
	}
	return runHistories(rc, "c03", n, []int{0, 3, 1, 0, 2, 4, 3}, nfiles, // 7 entries: the large histories (every sixth) meet every configuration
		[]string{"Bytes", "Pack", "Value", "Obs", run}, "hist", prefix)
}
