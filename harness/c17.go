package main

// C17 -- multi-shard fan-out and merge. In-process clusters of 1..3
// ClusterNodes on loopback ports (every node with its own root directory, the
// same Servers list on all, small MaxShardPointCount so that a collection gets
// 1..6 shards, MaxSearchLimit 75). Seeded histories of InsertPoints /
// UpdatePoints / DeletePoints / SearchPoints enter through one node, then
// through another one; before the second phase one server may be closed so
// that its shards do not answer. After every write the contents of EVERY shard
// are read at the shard itself (through the shard manager of the node that
// holds it, not through the cluster paths under test). Also: the per-shard
// limit expression evaluated with Go's float32 arithmetic over the API range,
// and direct calls of cluster.VerifCurateFailedPoints. Judged by coq/Run_C17.v.

import (
	"fmt"
	"hash/fnv"
	"math"
	"math/rand/v2"
	"net"
	"net/rpc"
	"os"
	"path/filepath"
	"reflect"
	"sort"
	"strconv"
	"strings"
	"sync"
	"time"
	"unsafe"

	"github.com/google/uuid"
	"github.com/semafind/semadb/cluster"
	"github.com/semafind/semadb/models"
	"github.com/semafind/semadb/shard"
)

func init() { subcmds["c17"] = runC17 }

const c17MaxSearchLimit = 75

// ---------------------------------------------------------------- cluster

type c17Cluster struct {
	tmp     string
	servers []string
	nodes   []*cluster.ClusterNode
	closed  []bool
}

var c17PortMu sync.Mutex

// ports below the ephemeral range (an outgoing RPC connection can never sit on a port a node is about to
// bind), starting at a per-process offset; a candidate is used only if it can be bound right now
const c17PortLo, c17PortHi = 24000, 32000

var c17NextPort = c17PortLo + (os.Getpid()*37)%(c17PortHi-c17PortLo)

func c17FreePort() (int, error) {
	c17PortMu.Lock()
	defer c17PortMu.Unlock()
	for try := 0; try < c17PortHi-c17PortLo; try++ {
		p := c17NextPort
		c17NextPort++
		if c17NextPort >= c17PortHi {
			c17NextPort = c17PortLo
		}
		l, err := net.Listen("tcp", "127.0.0.1:"+strconv.Itoa(p))
		if err != nil {
			continue
		}
		l.Close()
		return p, nil
	}
	return 0, fmt.Errorf("no free loopback port found")
}

// closeClients (clean-up only, after a history): ClusterNode keeps its outgoing RPC connections for ever and
// Close() does not end them; closing the clients lets both ends of every connection go away so that
// thousands of deployments in one process do not run out of file descriptors.
func c17CloseClients(nd *cluster.ClusterNode) {
	v := reflect.ValueOf(nd).Elem().FieldByName("rpcClients")
	if !v.IsValid() || v.Kind() != reflect.Map {
		return
	}
	m, ok := reflect.NewAt(v.Type(), unsafe.Pointer(v.UnsafeAddr())).Elem().Interface().(map[string]*rpc.Client)
	if !ok {
		return
	}
	for _, c := range m {
		c.Close()
	}
}

func c17Start(n int, maxCount int64) (*c17Cluster, error) {
	tmp, err := os.MkdirTemp("", "verif-c17-")
	if err != nil {
		return nil, err
	}
	cl := &c17Cluster{tmp: tmp, closed: make([]bool, n)}
	ports := make([]int, n)
	for i := range ports {
		p, err := c17FreePort()
		if err != nil {
			return nil, err
		}
		ports[i] = p
		cl.servers = append(cl.servers, "localhost:"+strconv.Itoa(p))
	}
	for i := 0; i < n; i++ {
		dir := filepath.Join(tmp, fmt.Sprintf("node%d", i))
		nd, err := startNode(cluster.ClusterNodeConfig{
			RootDir:    dir,
			RpcHost:    "localhost",
			RpcPort:    ports[i],
			RpcTimeout: c17RpcTimeout,
			RpcRetries: 1,
			// every node lists the same set of servers, starting with itself (a valid configuration: placement is a
			// function of the set)
			Servers:            append(append([]string{}, cl.servers[i:]...), cl.servers[:i]...),
			ShardManager:       cluster.ShardManagerConfig{RootDir: filepath.Join(dir, "shard-root"), ShardTimeout: 300, MaxCacheSize: -1}, // not the node root
			MaxShardSize:       1 << 30,
			MaxShardPointCount: maxCount,
			MaxSearchLimit:     c17MaxSearchLimit,
		})
		if err != nil {
			return nil, err
		}
		if err := nd.Serve(); err != nil {
			return nil, err
		}
		cl.nodes = append(cl.nodes, nd)
	}
	// Serve() starts listening in a goroutine: wait until every port accepts
	for _, s := range cl.servers {
		ok := false
		for try := 0; try < 400; try++ {
			c, err := net.DialTimeout("tcp", s, 200*time.Millisecond)
			if err == nil {
				c.Close()
				ok = true
				break
			}
			time.Sleep(5 * time.Millisecond)
		}
		if !ok {
			return nil, fmt.Errorf("server %s does not accept connections", s)
		}
	}
	return cl, nil
}

func (cl *c17Cluster) closeServer(k int) error {
	if cl.closed[k] {
		return nil
	}
	cl.closed[k] = true
	err := cl.nodes[k].Close()
	// a server that goes away takes its connections with it: the RPC clients the other nodes have cached for it
	// are shut down from then on (what a process death leaves behind), they are not merely unanswered
	for j, nd := range cl.nodes {
		if j == k || cl.closed[j] {
			continue
		}
		v := reflect.ValueOf(nd).Elem().FieldByName("rpcClients")
		if !v.IsValid() || v.Kind() != reflect.Map {
			continue
		}
		if m, ok := reflect.NewAt(v.Type(), unsafe.Pointer(v.UnsafeAddr())).Elem().Interface().(map[string]*rpc.Client); ok {
			if c, ok := m[cl.servers[k]]; ok && c != nil {
				c.Close()
				if os.Getenv("VERIF_DEBUG") != "" {
					fmt.Fprintf(os.Stderr, "closeServer %d: shut the cached client of node %d\n", k, j)
				}
			} else if os.Getenv("VERIF_DEBUG") != "" {
				keys := []string{}
				for kk := range m {
					keys = append(keys, kk)
				}
				fmt.Fprintf(os.Stderr, "closeServer %d: node %d has no cached client for %s (has %v)\n", k, j, cl.servers[k], keys)
			}
		}
	}
	return err
}

func (cl *c17Cluster) anyClosed() bool {
	for _, c := range cl.closed {
		if c {
			return true
		}
	}
	return false
}

func (cl *c17Cluster) stop(col *models.Collection) {
	for i, nd := range cl.nodes {
		if col != nil {
			nd.VerifShardManager().DeleteCollectionShards(*col)
		}
		if !cl.closed[i] {
			nd.Close()
			cl.closed[i] = true
		}
	}
	for _, nd := range cl.nodes {
		c17CloseClients(nd)
	}
	os.RemoveAll(cl.tmp)
}

func (cl *c17Cluster) owner(shardId string) int {
	dest := cluster.RendezvousHash(shardId, cl.servers, 1)[0]
	for i, s := range cl.servers {
		if s == dest {
			return i
		}
	}
	return -1
}

// withShard runs f on the shard object of the node that holds it (works for a closed server too: Close
// stops the RPC listener and the node database, not the shard manager).
func (cl *c17Cluster) withShard(col models.Collection, shardId string, f func(s *shard.Shard) error) error {
	return cl.nodes[cl.owner(shardId)].VerifShardManager().DoWithShard(col, shardId, f)
}

// c17Ranking: the query ranks (a vector leaf, alone or inside a composite): the shards' own answers are recorded
func c17Ranking(q querySpec) bool {
	if q.kind == "flat" {
		return true
	}
	for _, s := range q.subs {
		if c17Ranking(s) {
			return true
		}
	}
	return false
}

func c17IdAny(ids []uuid.UUID) models.Query {
	return querySpec{kind: "idany", ids: ids}.model()
}

// observe: every shard of the collection with its server, the GetShardsInfo count and its live points
func (cl *c17Cluster) observe(entry *cluster.ClusterNode, col models.Collection, pool []uuid.UUID) (string, int, error) {
	counts := map[string]int64{}
	haveCounts := false
	if !cl.anyClosed() {
		infos, err := entry.VerifGetShardsInfo(col)
		if err != nil {
			return "", 0, fmt.Errorf("GetShardsInfo: %w", err)
		}
		for _, in := range infos {
			counts[in.Id] = in.PointCount
		}
		haveCounts = true
	}
	items := make([]string, len(col.ShardIds))
	total := 0
	for i, sid := range col.ShardIds {
		var pts []string
		err := cl.withShard(col, sid, func(s *shard.Shard) error {
			res, err := s.SearchPoints(models.SearchRequest{Query: c17IdAny(pool), Select: []string{"*"}})
			if err != nil {
				return err
			}
			sort.Slice(res, func(a, b int) bool { return strings.Compare(string(res[a].Id[:]), string(res[b].Id[:])) < 0 })
			for _, r := range res {
				v, err := decodeDoc(r.Data)
				if err != nil {
					return err
				}
				pts = append(pts, "("+pUUID(r.Id)+", "+v.docCoq()+")")
			}
			return nil
		})
		if err != nil {
			return "", 0, fmt.Errorf("reading shard %s: %w", sid, err)
		}
		total += len(pts)
		cnt := "None"
		if haveCounts {
			cnt = "(Some " + strconv.FormatInt(counts[sid], 10) + ")"
		}
		items[i] = fmt.Sprintf("(mkOS %d %s %s)", cl.owner(sid), cnt, pList(pts))
	}
	return pList(items), total, nil
}

// ---------------------------------------------------------------- history

type c17Hist struct {
	term    string
	kinds   []string
	samples []any
}

func c17MsgCode(s string) int {
	switch s {
	case "not found":
		return 0
	case cluster.ErrShardUnavailable.Error():
		return 1
	}
	return 2
}

func c17Failed(fp []cluster.FailedPoint) string {
	items := make([]string, len(fp))
	for i, f := range fp {
		items[i] = fmt.Sprintf("(%s, %d)", pUUID(f.Id), c17MsgCode(f.Err))
	}
	return pList(items)
}

type c17Run struct {
	cl      *c17Cluster
	g       *genState
	user    string
	colId   string
	col     models.Collection
	entry   int
	ops     []string
	kinds   []string
	live    map[uuid.UUID]bool
	unknown []uuid.UUID
	hasVec  bool
	big     bool
	samples []any
	prevRes []models.SearchResult // the previous search answer as it was handed out, and a copy of its ids
	prevIds []uuid.UUID
}

func (h *c17Run) note(k string) { h.kinds = append(h.kinds, k) }

// refresh the collection record (shard list) the way the HTTP middleware does per request
func (h *c17Run) refresh() error {
	col, err := h.cl.nodes[h.entry].GetCollection(h.user, h.colId)
	if err != nil {
		if h.cl.anyClosed() {
			return nil // the server holding the user's collection records is the closed one: keep the last record
		}
		return fmt.Errorf("GetCollection: %w", err)
	}
	h.col = col
	return nil
}

func (h *c17Run) shardsDown() int {
	n := 0
	for _, sid := range h.col.ShardIds {
		if h.cl.closed[h.cl.owner(sid)] {
			n++
		}
	}
	return n
}

func (h *c17Run) insert(points []pointSpec) error {
	if err := h.refresh(); err != nil {
		return err
	}
	mp := make([]models.Point, len(points))
	for i, p := range points {
		m, err := p.model()
		if err != nil {
			return err
		}
		mp[i] = m
	}
	b := batchSpec{kind: 0, points: points}
	term := b.coq() // before the call: InsertPoints sorts its argument in place
	failed, err := h.cl.nodes[h.entry].InsertPoints(h.col, mp)
	nfailed := 0
	for _, f := range failed {
		nfailed += f.End - f.Start
	}
	if err := h.refresh(); err != nil {
		return err
	}
	obs, _, oerr := h.cl.observe(h.cl.nodes[h.entry], h.col, h.g.pool)
	if oerr != nil {
		return oerr
	}
	h.ops = append(h.ops, fmt.Sprintf("CInsert %s %s %d %s", strings.TrimPrefix(strings.TrimSuffix(term, ")"), "(BInsert "), cBool(err != nil), nfailed, obs))
	if err == nil && nfailed == 0 {
		h.g.noteApplied(b, nil)
		for _, p := range points {
			h.live[p.id] = true
		}
	}
	h.note(fmt.Sprintf("insert shards=%d", len(h.col.ShardIds)))
	return nil
}

func (h *c17Run) update(points []pointSpec) error {
	if err := h.refresh(); err != nil {
		return err
	}
	mp := make([]models.Point, len(points))
	for i, p := range points {
		m, err := p.model()
		if err != nil {
			return err
		}
		mp[i] = m
	}
	b := batchSpec{kind: 1, points: points}
	term := b.coq()
	failed, err := h.cl.nodes[h.entry].UpdatePoints(h.col, mp)
	obs, _, oerr := h.cl.observe(h.cl.nodes[h.entry], h.col, h.g.pool)
	if oerr != nil {
		return oerr
	}
	h.ops = append(h.ops, fmt.Sprintf("CUpdate %s %s %s %s", strings.TrimPrefix(strings.TrimSuffix(term, ")"), "(BUpdate "), cBool(err != nil), c17Failed(failed), obs))
	if err == nil {
		// bookkeeping for the generators only: points of unavailable shards are not updated
		fl := map[uuid.UUID]bool{}
		for _, f := range failed {
			fl[f.Id] = true
		}
		var applied []pointSpec
		for _, p := range points {
			if !fl[p.id] {
				applied = append(applied, p)
			}
		}
		h.g.noteApplied(batchSpec{kind: 1, points: applied}, nil)
	}
	h.note(fmt.Sprintf("update down=%d failed=%s", h.shardsDown(), bucket(len(failed))))
	if len(h.samples) < 2 && len(failed) > 0 {
		h.samples = append(h.samples, map[string]any{"kind": "update", "servers": len(h.cl.servers), "shards": len(h.col.ShardIds), "shardsUnavailable": h.shardsDown(), "requested": len(points), "failed": len(failed), "message": failed[0].Err})
	}
	return nil
}

func (h *c17Run) delete(ids []uuid.UUID) error {
	if err := h.refresh(); err != nil {
		return err
	}
	b := batchSpec{kind: 2, ids: ids}
	term := b.coq()
	failed, err := h.cl.nodes[h.entry].DeletePoints(h.col, append([]uuid.UUID{}, ids...))
	obs, _, oerr := h.cl.observe(h.cl.nodes[h.entry], h.col, h.g.pool)
	if oerr != nil {
		return oerr
	}
	h.ops = append(h.ops, fmt.Sprintf("CDelete %s %s %s %s", strings.TrimPrefix(strings.TrimSuffix(term, ")"), "(BDelete "), cBool(err != nil), c17Failed(failed), obs))
	if err == nil {
		fl := map[uuid.UUID]bool{}
		for _, f := range failed {
			fl[f.Id] = true
		}
		var gone []uuid.UUID
		for _, id := range ids {
			if !fl[id] {
				gone = append(gone, id)
				delete(h.live, id)
			}
		}
		h.g.noteApplied(batchSpec{kind: 2, ids: gone}, nil)
	}
	h.note(fmt.Sprintf("delete down=%d failed=%s", h.shardsDown(), bucket(len(failed))))
	return nil
}

func (h *c17Run) search(rq requestSpec) error {
	if err := h.refresh(); err != nil {
		return err
	}
	res, err := c17SafeSearch(h.cl.nodes[h.entry], h.col, rq.model())
	// an answer already handed to its caller stays what it was: the previous answer of this history is compared with
	// the copy taken when it arrived (a buffer the node reuses for later searches would show here)
	for i := range h.prevRes {
		if i >= len(h.prevIds) || h.prevRes[i].Id != h.prevIds[i] {
			return fmt.Errorf("answer modified: the previous search answer changed after a later search")
		}
	}
	h.prevRes, h.prevIds = nil, nil
	if err == nil {
		h.prevRes = res
		for _, r := range res {
			h.prevIds = append(h.prevIds, r.Id)
		}
	}
	out := "(QError 9)"
	if err == nil {
		var perr error
		out, perr = pRows(res, true)
		if perr != nil {
			return perr
		}
	}
	direct := "[]"
	if c17Ranking(rq.q) {
		items := make([]string, len(h.col.ShardIds))
		for i, sid := range h.col.ShardIds {
			sr := rq.model()
			sr.Offset, sr.Limit = 0, 0
			derr := h.cl.withShard(h.col, sid, func(s *shard.Shard) error {
				r, err := s.SearchPoints(sr)
				if err != nil {
					return err
				}
				t, err := pRows(r, true)
				if err != nil {
					return err
				}
				items[i] = strings.TrimSuffix(strings.TrimPrefix(t, "(QRows "), ")")
				return nil
			})
			if derr != nil {
				return fmt.Errorf("direct shard search: %w", derr)
			}
		}
		direct = pList(items)
	}
	h.ops = append(h.ops, fmt.Sprintf("CSearch %s %s %s", rq.coq(), out, direct))
	n := len(h.col.ShardIds)
	okind := "other"
	switch {
	case rq.offset == 0:
		okind = "0"
	case n > 1 && rq.offset%n == 0:
		okind = "multiple of n"
	case n > 1:
		okind = "not a multiple of n"
	}
	outcome := "rows"
	if err != nil {
		outcome = "error"
	}
	h.note(fmt.Sprintf("search shards=%d", n))
	h.note(fmt.Sprintf("search limit=%d", rq.limit))
	h.note("search offset " + okind)
	h.note(fmt.Sprintf("search sortkeys=%d", len(rq.sort)))
	h.note(fmt.Sprintf("search %s down=%d %s", map[bool]string{true: "vector", false: "filter"}[c17Ranking(rq.q)], h.shardsDown(), outcome))
	if err == nil && len(h.samples) < 2 && n > 2 && len(rq.sort) > 0 && len(res) > 2 {
		h.samples = append(h.samples, map[string]any{"kind": "search", "servers": len(h.cl.servers), "entry": h.entry, "shards": n, "limit": rq.limit, "offset": rq.offset, "sort": fmt.Sprint(rq.sort), "select": rq.sel, "rows": len(res)})
	}
	return nil
}

// ---- request generation

func (h *c17Run) allQuery() querySpec {
	// every point that has an integer "i" (all of them in the big scenario)
	return querySpec{kind: "int", prop: "i", op: 4, iv: math.MinInt64, ie: math.MinInt64}
}

func (h *c17Run) genRequest() requestSpec {
	g := h.g
	r := g.r
	n := len(h.col.ShardIds)
	var rq requestSpec
	// query
	switch {
	case h.hasVec && r.IntN(4) == 0:
		rq.q = querySpec{kind: "flat", prop: "fv", vec: g.genVec(g.dim), limit: []int{1, 3, 10, 75}[r.IntN(4)]}
	case r.IntN(5) == 0:
		rq.q = h.allQuery()
	case r.IntN(6) == 0:
		ids := []uuid.UUID{}
		for id := range h.live {
			ids = append(ids, id)
		}
		sort.Slice(ids, func(a, b int) bool { return strings.Compare(string(ids[a][:]), string(ids[b][:])) < 0 })
		r.Shuffle(len(ids), func(a, b int) { ids[a], ids[b] = ids[b], ids[a] })
		if len(ids) > 8 {
			ids = ids[:8]
		}
		ids = append(ids, h.unknown[0])
		rq.q = querySpec{kind: "idany", ids: ids}
	default:
		for {
			q, ok := g.genFilter(2)
			if ok {
				rq.q = q
				break
			}
		}
	}
	// select / sort
	if c17Ranking(rq.q) {
		rq.sel = [][]string{nil, {"*"}, {"i"}}[r.IntN(3)]
	} else {
		switch r.IntN(6) {
		case 0:
			rq.sel = nil
		case 1:
			rq.sel = []string{"*"}
		case 2:
			rq.sel = []string{"i"}
			rq.sort = []sortSpec{{"i", r.IntN(2) == 0}}
		case 3:
			rq.sel = []string{"i", "s"}
			rq.sort = [][]sortSpec{{{"s", false}}, {{"s", true}, {"i", false}}, {{"i", true}, {"s", false}}}[r.IntN(3)]
		case 4:
			rq.sel = []string{"*"}
			rq.sort = [][]sortSpec{{{"i", false}}, {{"s", r.IntN(2) == 0}}, {{"tags", false}, {"i", true}}, {{"nope", false}, {"i", false}}}[r.IntN(4)]
		default:
			rq.sel = []string{"s", "tags"}
			rq.sort = []sortSpec{{"s", r.IntN(2) == 0}}
		}
		if len(rq.sel) == 0 && r.IntN(3) == 0 {
			rq.sort = []sortSpec{{"i", false}} // nothing selected: every key is missing, all rows tie
		}
	}
	rq.limit = []int{1, 3, 10, 75, 100}[r.IntN(5)]
	rq.offset = []int{0, 0, 1, n, n + 1, 2 * n}[r.IntN(6)]
	return rq
}

// passThrough: on a collection that lives in one shard, a composite of a ranking sub-query and a plain filter (no
// sort keys, no paging) is asked at the cluster and at the shard: same points, same order.
func (h *c17Run) passThrough() error {
	if len(h.col.ShardIds) != 1 || !h.hasVec || h.cl.anyClosed() {
		return nil
	}
	if err := h.refresh(); err != nil {
		return err
	}
	g := h.g
	r := g.r
	w := []float32{1, 0.5, 3}[r.IntN(3)]
	flat := querySpec{kind: "flat", prop: "fv", vec: g.genVec(g.dim), limit: []int{1, 3, 10}[r.IntN(3)], weight: &w}
	// two points at the same distance on either side of the ranking cut: which of them the sub-query returns is
	// not determined, and with it which points the filter adds -- two runs of the same search may then differ in
	// more than the order (thorough run, seed 1, history 9: a false alarm of this comparison). Such a request is not
	// compared.
	tie := false
	perr := h.cl.withShard(h.col, h.col.ShardIds[0], func(s *shard.Shard) error {
		probe := flat
		probe.limit, probe.weight = 75, nil
		pres, err := s.SearchPoints(requestSpec{q: probe, limit: 100}.model())
		if err != nil {
			return err
		}
		if k := flat.limit; k < len(pres) && pres[k-1].Distance != nil && pres[k].Distance != nil && *pres[k-1].Distance == *pres[k].Distance {
			tie = true
		}
		return nil
	})
	if perr != nil {
		return fmt.Errorf("direct shard search: %w", perr)
	}
	if tie {
		h.note("pass-through skipped: tie at the ranking cut")
		return nil
	}
	rq := requestSpec{q: querySpec{kind: "or", subs: []querySpec{flat, h.allQuery()}}, limit: 100}
	res, err := c17SafeSearch(h.cl.nodes[h.entry], h.col, rq.model())
	out := "(QError 9)"
	if err == nil {
		var perr error
		if out, perr = pRows(res, true); perr != nil {
			return perr
		}
	}
	var srows string
	derr := h.cl.withShard(h.col, h.col.ShardIds[0], func(s *shard.Shard) error {
		sres, err := s.SearchPoints(rq.model())
		if err != nil {
			return err
		}
		t, err := pRows(sres, true)
		srows = strings.TrimSuffix(strings.TrimPrefix(t, "(QRows "), ")")
		return err
	})
	if derr != nil {
		return fmt.Errorf("direct shard search: %w", derr)
	}
	h.ops = append(h.ops, fmt.Sprintf("CPass %s %s %s", rq.coq(), out, srows))
	h.note("pass-through of a one-shard composite answer")
	return nil
}

func (h *c17Run) searches(k int) error {
	if err := h.passThrough(); err != nil {
		return err
	}
	for i := 0; i < k; i++ {
		if err := h.search(h.genRequest()); err != nil {
			return err
		}
	}
	return nil
}

func (h *c17Run) liveSorted() []uuid.UUID {
	ids := make([]uuid.UUID, 0, len(h.live))
	for _, u := range h.g.pool {
		if h.live[u] {
			ids = append(ids, u)
		}
	}
	return ids
}

func (h *c17Run) genUpdate() []pointSpec {
	r := h.g.r
	live := h.liveSorted()
	var ps []pointSpec
	used := map[uuid.UUID]bool{}
	nk := 1 + r.IntN(4)
	for i := 0; i < nk && len(live) > 0; i++ {
		id := live[r.IntN(len(live))]
		if !used[id] {
			used[id] = true
			ps = append(ps, pointSpec{id: id, doc: h.g.genDoc(true, false)})
		}
	}
	for i := r.IntN(3); i > 0; i-- {
		id := h.unknown[r.IntN(len(h.unknown))]
		if !used[id] {
			used[id] = true
			ps = append(ps, pointSpec{id: id, doc: h.g.genDoc(true, false)})
		}
	}
	r.Shuffle(len(ps), func(a, b int) { ps[a], ps[b] = ps[b], ps[a] })
	return ps
}

// genUpdateBad: an update request one of whose points does not fit its collection (a string for the integer index
// "i"): the shard that holds the point refuses its whole part of the request, the other shards apply theirs
func (h *c17Run) genUpdateBad() []pointSpec {
	ps := h.genUpdate()
	live := h.liveSorted()
	if len(live) == 0 {
		return nil
	}
	bad := live[h.g.r.IntN(len(live))]
	out := ps[:0:0]
	for _, p := range ps {
		if p.id != bad {
			out = append(out, p)
		}
	}
	k := h.g.r.IntN(len(out) + 1)
	out = append(out[:k:k], append([]pointSpec{{id: bad, doc: vMap(KV{"i", vStr("not a number")})}}, out[k:]...)...)
	return out
}

func (h *c17Run) genDelete() []uuid.UUID {
	r := h.g.r
	live := h.liveSorted()
	var ids []uuid.UUID
	nk := 1 + r.IntN(3)
	for i := 0; i < nk && len(live) > 0; i++ {
		ids = append(ids, live[r.IntN(len(live))]) // may repeat: the request may name an id twice
	}
	for i := r.IntN(3); i > 0; i-- {
		ids = append(ids, h.unknown[r.IntN(len(h.unknown))])
	}
	r.Shuffle(len(ids), func(a, b int) { ids[a], ids[b] = ids[b], ids[a] })
	return ids
}

func c17Uuid(r *rand.Rand) uuid.UUID {
	var u uuid.UUID
	for j := range u {
		u[j] = byte(r.IntN(256))
	}
	return u
}

// runHistory: one deployment, one collection, one history.
func c17History(seed uint64, idx int, big bool) (res c17Hist, err error) {
	g := newGen("c17", seed, idx)
	r := g.r
	g.noRej = true
	g.dim = 3
	g.vecMetric = "euclidean"
	nservers := 1 + idx%3
	nshardsTarget := 1 + (idx/3)%6
	maxCount := int64(2 + r.IntN(4))
	hasVec := r.IntN(2) == 0
	if big {
		nservers = 2 + idx%2
		switch idx % 3 {
		case 0:
			nshardsTarget, maxCount = 2, 45
		case 1:
			nshardsTarget, maxCount = 3, 25
		default:
			nshardsTarget, maxCount = 6, 16
		}
		hasVec = false
	}
	g.schema = schemaSpec{{path: "i", kind: ixInt}, {path: "s", kind: ixStr, caseSens: true}, {path: "tags", kind: ixStrArr, caseSens: true}}
	if hasVec {
		g.schema = append(g.schema, idxSpec{path: "fv", kind: ixFlat, dim: g.dim, metric: "euclidean"})
	}
	if big {
		g.schema = schemaSpec{{path: "i", kind: ixInt}}
	}
	capacity := nshardsTarget * int(maxCount)
	g.pool = nil
	for i := 0; i < capacity+6; i++ {
		g.pool = append(g.pool, c17Uuid(r))
	}
	// the two extreme ids are ids like any other
	switch idx % 4 {
	case 1:
		g.pool[0] = uuid.Nil
	case 3:
		g.pool[0] = uuid.Max
	}
	entryA := r.IntN(nservers)
	cl, err := c17Start(nservers, maxCount)
	if err != nil {
		return res, err
	}
	h := &c17Run{cl: cl, g: g, user: fmt.Sprintf("user%d", idx), colId: "col", entry: entryA, live: map[uuid.UUID]bool{}, hasVec: hasVec, big: big}
	h.unknown = g.pool[capacity:]
	fresh := append([]uuid.UUID{}, g.pool[:capacity]...)
	r.Shuffle(len(fresh), func(a, b int) { fresh[a], fresh[b] = fresh[b], fresh[a] })
	var colp *models.Collection
	defer func() { cl.stop(colp) }()
	plan := models.UserPlan{Name: "VERIF", MaxCollections: 5, MaxCollectionPointCount: 100000, MaxPointSize: 1 << 20}
	first := 1 + r.IntN(capacity)
	if !big && nservers >= 2 && idx%4 != 0 {
		// an earlier life of the same collection name on the same cluster: created, filled with as many points as the
		// first batch below (so it has as many shards), searched through every node, deleted. Nothing of it may
		// show in the history that follows (whatever a node remembers per collection name must not outlive it)
		if err := c17PreviousLife(cl, h, plan, first); err != nil {
			return res, err
		}
		h.note("collection name had an earlier life")
	}
	if err := cl.nodes[entryA].CreateCollection(models.Collection{UserId: h.user, Id: h.colId, Replicas: 1, Timestamp: 1, CreatedAt: 1, UserPlan: plan, IndexSchema: g.schema.model()}); err != nil {
		return res, fmt.Errorf("CreateCollection: %w", err)
	}
	if err := h.refresh(); err != nil {
		return res, err
	}
	colp = &h.col
	h.ops = append(h.ops, fmt.Sprintf("CEntry %d", entryA))
	nextDoc := int64(0)
	mkDoc := func() Val {
		if big {
			nextDoc++
			return vMap(KV{"i", vInt(nextDoc)})
		}
		return g.genDoc(false, false)
	}
	take := func(n int) []pointSpec {
		if n > len(fresh) {
			n = len(fresh)
		}
		ps := make([]pointSpec, n)
		for i := range ps {
			ps[i] = pointSpec{id: fresh[i], doc: mkDoc()}
		}
		fresh = fresh[n:]
		return ps
	}
	if big {
		// fill the shards, then searches whose per-shard limit is below what a shard could answer
		for len(fresh) > 0 {
			if err := h.insert(take(40 + r.IntN(11))); err != nil {
				return res, err
			}
		}
		n := len(h.col.ShardIds)
		all := h.allQuery()
		limits := []int{20, 30, 40, 50, 75, 100}
		for k := 0; k < 7; k++ {
			rq := requestSpec{q: all, limit: limits[r.IntN(len(limits))], offset: []int{0, 0, n, 1, 2 * n}[r.IntN(5)]}
			switch r.IntN(3) {
			case 0:
				rq.sel, rq.sort = []string{"i"}, []sortSpec{{"i", false}}
			case 1:
				rq.sel, rq.sort = []string{"i"}, []sortSpec{{"i", true}}
			}
			if err := h.search(rq); err != nil {
				return res, err
			}
		}
		live := h.liveSorted()
		if err := h.delete([]uuid.UUID{live[0], live[len(live)/2], h.unknown[0], live[len(live)-1]}); err != nil {
			return res, err
		}
		if err := h.search(requestSpec{q: all, sel: []string{"i"}, sort: []sortSpec{{"i", false}}, limit: 100}); err != nil {
			return res, err
		}
	} else {
		// phase 1, through node A
		if err := h.insert(take(first)); err != nil {
			return res, err
		}
		if err := h.searches(3); err != nil {
			return res, err
		}
		if len(fresh) > 0 && r.IntN(4) > 0 {
			if err := h.insert(take(1 + r.IntN(len(fresh)))); err != nil {
				return res, err
			}
		}
		if err := h.update(h.genUpdate()); err != nil {
			return res, err
		}
		if err := h.searches(3); err != nil {
			return res, err
		}
		if idx%2 == 1 {
			if bad := h.genUpdateBad(); bad != nil {
				if err := h.update(bad); err != nil {
					return res, err
				}
				h.note("update refused by one shard (ill-typed indexed field)")
				if err := h.searches(1); err != nil {
					return res, err
				}
			}
		}
		if err := h.delete(h.genDelete()); err != nil {
			return res, err
		}
		if len(fresh) > 0 {
			// deleted points left room in earlier shards: the next batch is spread over old and new shards
			if err := h.insert(take(len(fresh))); err != nil {
				return res, err
			}
		}
		if err := h.searches(5); err != nil {
			return res, err
		}
		// phase 2, through another node whose RPC clients were never used; one server possibly closed
		if nservers >= 2 {
			var b, x int
			closeOne := r.IntN(3) > 0
			if nservers == 2 {
				b = 1 - entryA
				x = entryA
			} else {
				b = (entryA + 1 + r.IntN(2)) % 3
				x = entryA
				if r.IntN(2) == 0 {
					x = 3 - entryA - b
				}
			}
			if closeOne {
				if err := cl.closeServer(x); err != nil {
					return res, fmt.Errorf("Close: %w", err)
				}
				h.ops = append(h.ops, fmt.Sprintf("CClose %d", x))
				h.note("server closed")
			}
			if closeOne && x != entryA {
				// first through the SAME entry node: its cached RPC client for the closed server is shut down now
				// (the first request that meets it must still report the shard unavailable)
				if err := h.searches(1); err != nil {
					return res, err
				}
				if err := h.update(h.genUpdate()); err != nil {
					return res, err
				}
				if err := h.searches(1); err != nil {
					return res, err
				}
			}
			h.entry = b
			h.ops = append(h.ops, fmt.Sprintf("CEntry %d", b))
			if err := h.searches(3); err != nil {
				return res, err
			}
			if err := h.update(h.genUpdate()); err != nil {
				return res, err
			}
			if err := h.delete(h.genDelete()); err != nil {
				return res, err
			}
			if err := h.searches(2); err != nil {
				return res, err
			}
		}
	}
	h.note(fmt.Sprintf("deployment servers=%d", nservers))
	h.note(fmt.Sprintf("deployment final shards=%d", len(h.col.ShardIds)))
	h.note(fmt.Sprintf("entry node %d of %d", entryA, nservers))
	res.term = fmt.Sprintf("CHist %d %s %d %d %s", nservers, g.schema.coq(), 1<<20, c17MaxSearchLimit, "["+strings.Join(h.ops, "; ")+"]")
	res.kinds = h.kinds
	res.samples = h.samples
	return res, nil
}

// c17SafeSearch: a panic of ClusterNode.SearchPoints on the caller's goroutine (the HTTP layer turns it into a 500) is an
// error answer of the search, not the end of this harness
func c17SafeSearch(nd *cluster.ClusterNode, col models.Collection, sr models.SearchRequest) (res []models.SearchResult, err error) {
	defer func() {
		if r := recover(); r != nil {
			res, err = nil, fmt.Errorf("panic: %v", r)
		}
	}()
	return nd.SearchPoints(col, sr)
}

// c17Unexpected classifies the error of a request the harness makes around the recorded part of a history (0: not one of them)
func c17Unexpected(msg string) int {
	for _, p := range []struct {
		sub  string
		what int
	}{{"CreateCollection:", 1}, {"GetCollection:", 2}, {"InsertPoints:", 3}, {"SearchPoints:", 4}, {"DeleteCollection:", 5}, {"GetShardsInfo:", 6}, {"reading shard", 7}, {"direct shard search", 7}, {"answer modified", 8}} {
		if strings.Contains(msg, p.sub) {
			return p.what
		}
	}
	return 0
}

// c17PreviousLife: create / fill / search through every node / delete, under the name the history is about to use
func c17PreviousLife(cl *c17Cluster, h *c17Run, plan models.UserPlan, npoints int) error {
	g := h.g
	entry := cl.nodes[h.entry]
	if err := entry.CreateCollection(models.Collection{UserId: h.user, Id: h.colId, Replicas: 1, Timestamp: 0, CreatedAt: 0, UserPlan: plan, IndexSchema: g.schema.model()}); err != nil {
		return fmt.Errorf("previous life: CreateCollection: %w", err)
	}
	mp := make([]models.Point, npoints)
	for i := range mp {
		m, err := pointSpec{id: c17Uuid(g.r), doc: g.genDoc(false, false)}.model()
		if err != nil {
			return err
		}
		mp[i] = m
	}
	col, err := entry.GetCollection(h.user, h.colId)
	if err != nil {
		return fmt.Errorf("previous life: GetCollection: %w", err)
	}
	if failed, err := entry.InsertPoints(col, mp); err != nil || len(failed) > 0 {
		return fmt.Errorf("previous life: InsertPoints: %v %v", err, failed)
	}
	for _, nd := range cl.nodes {
		col, err = nd.GetCollection(h.user, h.colId)
		if err != nil {
			return fmt.Errorf("previous life: GetCollection: %w", err)
		}
		if _, err := nd.SearchPoints(col, requestSpec{q: h.allQuery(), limit: 10}.model()); err != nil {
			return fmt.Errorf("previous life: SearchPoints: %w", err)
		}
	}
	if _, err := entry.DeleteCollection(col); err != nil {
		return fmt.Errorf("previous life: DeleteCollection: %w", err)
	}
	return nil
}

// ---------------------------------------------------------------- limit expression, curateFailedPoints

const c17PoissonA = 1.42
const c17PoissonB = 10.0

// the expression of ClusterNode.SearchPoints, evaluated by the same compiler with the same types
func c17TargetLimit(limit, nShards, maxSearchLimit int) int {
	targetLimit := int(float32(limit)*(1/float32(nShards))*c17PoissonA + c17PoissonB)
	if targetLimit > maxSearchLimit {
		targetLimit = maxSearchLimit
	}
	if targetLimit > limit {
		targetLimit = limit
	}
	return targetLimit
}

func c17CurateCase(r *rand.Rand) string {
	// ids that share prefixes, differ in the last byte, contain 0x00 / 0xFF
	mk := func(a, b, c byte) uuid.UUID {
		var u uuid.UUID
		u[0], u[7], u[15] = a, b, c
		return u
	}
	pool := []uuid.UUID{mk(0, 0, 0), mk(0, 0, 1), mk(0, 0, 255), mk(0, 1, 0), mk(1, 0, 0), mk(255, 255, 255), mk(255, 0, 0), mk(0, 255, 0), mk(127, 0, 0), mk(128, 0, 0), c17Uuid(r), c17Uuid(r)}
	// never more success ids than requested ones: with ids unique per collection every shard reports a
	// sub-multiset of the request (curateFailedPoints sizes its result with len(allIds)-len(successIds) and
	// panics on a negative capacity otherwise -- outside the property's quantifier)
	na := r.IntN(10)
	var succ []uuid.UUID
	var all []uuid.UUID
	if r.IntN(3) == 0 {
		// larger requests of distinct ids with a chosen number of processed ones: 0..70, the sizes around powers of
		// two over-weighted (15, 16, 17, 31, 32, 33, 63, 64, 65), processed ids in arrival (= arbitrary) order
		nproc := []int{0, 1, 2, 7, 8, 9, 15, 16, 17, 31, 32, 33, 63, 64, 65, r.IntN(71)}[r.IntN(16)]
		extra := r.IntN(4)
		for i := 0; i < nproc+extra; i++ {
			all = append(all, c17Uuid(r))
		}
		r.Shuffle(len(all), func(a, b int) { all[a], all[b] = all[b], all[a] })
		succ = append(succ, all[:nproc]...)
		r.Shuffle(len(all), func(a, b int) { all[a], all[b] = all[b], all[a] })
	} else {
		all = make([]uuid.UUID, na)
		for i := range all {
			all[i] = pool[r.IntN(len(pool))]
		}
		for _, id := range all {
			switch r.IntN(5) {
			case 0, 1:
				succ = append(succ, id)
			case 2:
				succ = append(succ, pool[r.IntN(len(pool))])
			}
		}
	}
	r.Shuffle(len(succ), func(a, b int) { succ[a], succ[b] = succ[b], succ[a] })
	complete := r.IntN(2) == 0
	out := cluster.VerifCurateFailedPoints(append([]uuid.UUID{}, all...), append([]uuid.UUID{}, succ...), complete)
	pl := func(ids []uuid.UUID) string {
		items := make([]string, len(ids))
		for i, id := range ids {
			items[i] = pUUID(id)
		}
		return pList(items)
	}
	return fmt.Sprintf("CCurate %s %s %s %s", pl(all), pl(succ), cBool(complete), c17Failed(out))
}

// ---------------------------------------------------------------- driver

func runC17(rc *runCtx) error {
	nsmall, nbig, ncur := 108, 6, 400
	nfiles := 8
	if rc.thorough() {
		nsmall, nbig, ncur = 1620, 60, 6000
		nfiles = 16
	}
	if rc.n != 0 {
		nsmall = rc.n
		nbig = max(1, rc.n/12)
	}
	type job struct {
		idx int
		big bool
	}
	var jobs []job
	for i := 0; i < nsmall; i++ {
		jobs = append(jobs, job{i, false})
	}
	for i := 0; i < nbig; i++ {
		jobs = append(jobs, job{100000 + i, true})
	}
	results := make([]c17Hist, len(jobs))
	errs := make([]error, len(jobs))
	ch := make(chan int)
	var wg sync.WaitGroup
	// the slow-request scenario (c17slow.go) runs in a process of its own beside the histories
	var slowTerm string
	var slowSample map[string]any
	var slowErr error
	wg.Add(1)
	go func() {
		defer wg.Done()
		slowTerm, slowSample, slowErr = c17RunSlow(rc)
	}()
	for w := 0; w < 6; w++ {
		wg.Add(1)
		go func() {
			defer wg.Done()
			for j := range ch {
				results[j], errs[j] = c17History(rc.seed, jobs[j].idx, jobs[j].big)
			}
		}()
	}
	for j := range jobs {
		ch <- j
	}
	close(ch)
	wg.Wait()
	for j, e := range errs {
		if e != nil {
			// a request of the scaffolding failed on a cluster whose servers are all up: that is an observation
			// (through some node the collection or a shard cannot be reached), not a failure of the harness
			what := c17Unexpected(e.Error())
			if what == 0 {
				return fmt.Errorf("history %d: %w", jobs[j].idx, e)
			}
			results[j] = c17Hist{term: fmt.Sprintf("CUnexpected %d", what), kinds: []string{"scaffolding request failed"},
				samples: []any{map[string]any{"kind": "scaffolding request failed", "history": jobs[j].idx, "servers": 1 + jobs[j].idx%3, "error": e.Error()}}}
		}
	}
	files := make([]*caseFile, nfiles)
	for k := range files {
		cf, err := newCaseFile(filepath.Join(rc.outDir, fmt.Sprintf("cases_C17_%02d.v", k)), []string{"Bytes", "Pack", "Value", "Obs", "Model_C17", "Run_C17"}, "c17case")
		if err != nil {
			return err
		}
		files[k] = cf
	}
	hist := map[string]int{}
	distinct := map[uint64]struct{}{}
	noteD := func(s string) {
		f := fnv.New64a()
		f.Write([]byte(s))
		distinct[f.Sum64()] = struct{}{}
	}
	total := 0
	add := func(term string) {
		files[total%nfiles].Add(term)
		total++
	}
	for _, hr := range results {
		add(hr.term)
		noteD(hr.term)
		for _, k := range hr.kinds {
			hist[k]++
		}
		for _, s := range hr.samples {
			rc.addSample(s)
		}
	}
	if slowErr != nil {
		return slowErr
	}
	add(slowTerm)
	hist["slow requests on a healthy cluster (every shard callback held 5.5 s)"]++
	rc.addSample(slowSample)
	// the per-shard limit over the whole API range (limit 1..100) for 1..6 shards, plus wider ones
	r := newRng(rc.seed, 1717)
	for n := 1; n <= 6; n++ {
		for limit := 1; limit <= 100; limit++ {
			add(fmt.Sprintf("CLimit %d %d %d %d", limit, n, c17MaxSearchLimit, c17TargetLimit(limit, n, c17MaxSearchLimit)))
		}
	}
	for k := 0; k < 300; k++ {
		limit, n, mx := 1+r.IntN(100), 1+r.IntN(64), []int{10, 50, 75, 100, 1000}[r.IntN(5)]
		if k%10 == 0 {
			limit = 1 + r.IntN(100000)
		}
		add(fmt.Sprintf("CLimit %d %d %d %d", limit, n, mx, c17TargetLimit(limit, n, mx)))
		noteD(fmt.Sprintf("limit|%d|%d|%d", limit, n, mx))
	}
	hist["per-shard limit expression"] += 900
	for k := 0; k < ncur; k++ {
		t := c17CurateCase(r)
		add(t)
		noteD(t)
	}
	hist["curateFailedPoints direct"] += ncur
	for _, cf := range files {
		if err := cf.Close("bad"); err != nil {
			return err
		}
	}
	rc.stats["evaluations"] = total
	rc.stats["distinct"] = len(distinct)
	rc.stats["histogram"] = hist
	rc.stats["seed"] = rc.seed
	return nil
}
