package main

// C18 -- abstraction of decoded requests into the terms of coq/Model_C18.v.  Bodies are decoded
// with exactly the calls httpapi/utils.DecodeValid makes (json.NewDecoder(..).Decode, or a msgpack
// decoder with the json struct tags) into the request structs of the handlers; Validate() is NOT
// called here -- validation is what the Coq model judges.

import (
	"bytes"
	"encoding/json"
	"fmt"
	"math"
	"sort"
	"strconv"
	"strings"
	"unicode/utf8"

	"github.com/google/uuid"
	httpv1 "github.com/semafind/semadb/httpapi/v1"
	httpv2 "github.com/semafind/semadb/httpapi/v2"
	"github.com/semafind/semadb/models"
	"github.com/vmihailenco/msgpack/v5"
)

func c18Decode[T any](ct string, body []byte) (v T, ok bool) {
	defer func() {
		if e := recover(); e != nil {
			ok = false
		}
	}()
	switch ct {
	case "application/json":
		if err := json.NewDecoder(bytes.NewReader(body)).Decode(&v); err != nil {
			return v, false
		}
	case "application/msgpack":
		dec := msgpack.NewDecoder(bytes.NewReader(body))
		dec.SetCustomStructTag("json")
		if err := dec.Decode(&v); err != nil {
			return v, false
		}
	default:
		return v, false
	}
	return v, true
}

func cz(i int64) string {
	if i < 0 {
		return "(" + strconv.FormatInt(i, 10) + ")"
	}
	return strconv.FormatInt(i, 10)
}
func czu(u uint64) string { return strconv.FormatUint(u, 10) }

func cOpt(present bool, term string) string {
	if !present {
		return "None"
	}
	return "(Some " + term + ")"
}

var c18KnownWords = func() map[string]bool {
	m := map[string]bool{}
	for _, w := range append(append([]string{}, validOps...), "vectorFlat", "vectorVamana", "text", "string", "integer", "float", "stringArray",
		"none", "binary", "product", "euclidean", "cosine", "dot", "hamming", "jaccard", "haversine", "standard") {
		m[w] = true
	}
	return m
}()

// enumeration values: anything outside the known vocabulary is the same "other" for the model
func cWord(s string) string {
	if c18KnownWords[s] {
		return `"` + s + `"`
	}
	return `"?other"`
}

// ---------------------------------------------------------------- schema

func absQuantizer(q *models.Quantizer) string {
	if q == nil {
		return "None"
	}
	b, p := "None", "None"
	if q.Binary != nil {
		b = fmt.Sprintf("(Some (mkBQ %s %s %s))", cBool(q.Binary.Threshold != nil), cz(int64(q.Binary.TriggerThreshold)), cWord(q.Binary.DistanceMetric))
	}
	if q.Product != nil {
		p = fmt.Sprintf("(Some (mkPQ %s %s %s))", cz(int64(q.Product.NumCentroids)), cz(int64(q.Product.NumSubVectors)), cz(int64(q.Product.TriggerThreshold)))
	}
	return fmt.Sprintf("(Some (mkQz %s %s %s))", cWord(q.Type), b, p)
}

func absSchema(s models.IndexSchema) string {
	names := make([]string, 0, len(s))
	for k := range s {
		names = append(names, k)
	}
	sort.Strings(names)
	items := make([]string, 0, len(names))
	for _, k := range names {
		v := s[k]
		flat, vam, txt := "None", "None", "None"
		if v.VectorFlat != nil {
			flat = fmt.Sprintf("(Some (mkVP %s %s 0 0 0%%N %s))", czu(uint64(v.VectorFlat.VectorSize)), cWord(v.VectorFlat.DistanceMetric), absQuantizer(v.VectorFlat.Quantizer))
		}
		if v.VectorVamana != nil {
			p := v.VectorVamana
			vam = fmt.Sprintf("(Some (mkVP %s %s %s %s %d%%N %s))", czu(uint64(p.VectorSize)), cWord(p.DistanceMetric), cz(int64(p.SearchSize)), cz(int64(p.DegreeBound)),
				math.Float32bits(p.Alpha), absQuantizer(p.Quantizer))
		}
		if v.Text != nil {
			txt = "(Some " + cWord(v.Text.Analyser) + ")"
		}
		items = append(items, fmt.Sprintf("(%s, mkIV %s %s %s %s %s %s)", cq(k), cWord(v.Type), flat, vam, txt, cBool(v.String != nil), cBool(v.StringArray != nil)))
	}
	return "[" + strings.Join(items, "; ") + "]"
}

func absRunes(s string) string {
	var xs []string
	for _, r := range s {
		xs = append(xs, strconv.Itoa(int(r)))
	}
	return "[" + strings.Join(xs, "; ") + "]%N"
}

func absCreate2(r httpv2.CreateCollectionRequest, schemaTerm string) string {
	return fmt.Sprintf("(BCreate2 (mkC2 %d %s %s %s))", len(r.Id), absRunes(r.Id), cBool(r.IndexSchema != nil), schemaTerm)
}

func absCreate1(r httpv1.CreateCollectionRequest) string {
	return fmt.Sprintf("(BCreate1 (mkC1 %d %s %s %s))", len(r.Id), absRunes(r.Id), czu(uint64(r.VectorSize)), cWord(r.DistanceMetric))
}

// ---------------------------------------------------------------- points

// walk follows a dotted property name like CheckCompatibleMap: 0 absent, 1 blocked, 2 found
func c18Walk(p models.PointAsMap, prop string) (int, any, map[string]any, string) {
	parts := strings.Split(prop, ".")
	var m map[string]any = p
	for i, part := range parts {
		pv, ok := m[part]
		if !ok {
			return 0, nil, nil, ""
		}
		if i == len(parts)-1 {
			return 2, pv, m, part
		}
		switch t := pv.(type) {
		case models.PointAsMap:
			m = t
		case map[string]any:
			m = t
		default:
			return 1, nil, nil, ""
		}
	}
	return 0, nil, nil, ""
}

func c18Pval(v any) string {
	switch t := v.(type) {
	case []float32:
		return fmt.Sprintf("(PArr %d true %s)", len(t), cBool(len(t) == 0))
	case []float64:
		return fmt.Sprintf("(PArr %d true %s)", len(t), cBool(len(t) == 0))
	case []string:
		return fmt.Sprintf("(PArr %d %s true)", len(t), cBool(len(t) == 0))
	case []any:
		af, as := true, true
		for _, x := range t {
			switch x.(type) {
			case float32, float64:
				as = false
			case string:
				af = false
			default:
				af, as = false, false
			}
		}
		return fmt.Sprintf("(PArr %d %s %s)", len(t), cBool(af), cBool(as))
	case string:
		return "PStr"
	case float64:
		return "PNum64"
	case float32:
		return "PNum32"
	case int64, int, int32, uint, uint32:
		return "PIntOk"
	case int8, int16, uint8, uint16, uint64:
		return "PIntBad"
	default:
		return "POther"
	}
}

func c18Deep(v any) any {
	switch t := v.(type) {
	case models.PointAsMap:
		m := make(map[string]any, len(t))
		for k, x := range t {
			m[k] = c18Deep(x)
		}
		return m
	case map[string]any:
		m := make(map[string]any, len(t))
		for k, x := range t {
			m[k] = c18Deep(x)
		}
		return m
	case []any:
		a := make([]any, len(t))
		for i, x := range t {
			a[i] = c18Deep(x)
		}
		return a
	default:
		return v
	}
}

// c18ConvertedSize: size of the msgpack encoding the handler stores, i.e. after the in-place
// conversions of CheckCompatibleMap and without _id (computed independently of that function)
func c18ConvertedSize(p models.PointAsMap, schema models.IndexSchema) int64 {
	var cp models.PointAsMap
	if p != nil {
		cp = models.PointAsMap(c18Deep(p).(map[string]any))
	}
	for prop, sv := range schema {
		st, v, m, k := c18Walk(cp, prop)
		if st != 2 {
			continue
		}
		switch sv.Type {
		case "vectorFlat", "vectorVamana":
			switch t := v.(type) {
			case []float64:
				o := make([]float32, len(t))
				for i, x := range t {
					o[i] = float32(x)
				}
				m[k] = o
			case []any:
				o := make([]float32, len(t))
				good := true
				for i, x := range t {
					switch f := x.(type) {
					case float32:
						o[i] = f
					case float64:
						o[i] = float32(f)
					default:
						good = false
					}
				}
				if good {
					m[k] = o
				}
			}
		case "integer":
			switch t := v.(type) {
			case int:
				m[k] = int64(t)
			case int32:
				m[k] = int64(t)
			case uint:
				m[k] = int64(t)
			case uint32:
				m[k] = int64(t)
			case float32:
				m[k] = int64(t)
			case float64:
				m[k] = int64(t)
			}
		case "float":
			if t, ok := v.(float32); ok {
				m[k] = float64(t)
			}
		case "stringArray":
			if t, ok := v.([]any); ok {
				o := make([]string, len(t))
				good := true
				for i, x := range t {
					if s, ok := x.(string); ok {
						o[i] = s
					} else {
						good = false
					}
				}
				if good {
					m[k] = o
				}
			}
		}
	}
	if cp != nil {
		if s, ok := cp["_id"].(string); ok {
			if _, err := uuid.Parse(s); err == nil {
				delete(cp, "_id")
			}
		}
	}
	b, err := msgpack.Marshal(cp)
	if err != nil {
		return 1 << 40
	}
	return int64(len(b))
}

func absPoints2(points []models.PointAsMap, schema models.IndexSchema, maxSize int) string {
	props := make([]string, 0, len(schema))
	for k := range schema {
		props = append(props, k)
	}
	sort.Strings(props)
	one := func(p models.PointAsMap) string {
		id := "IdAbsent"
		if raw, ok := p["_id"]; ok {
			if s, ok := raw.(string); ok {
				if _, err := uuid.Parse(s); err == nil {
					id = "IdValid"
				} else {
					id = "IdBadString"
				}
			} else {
				id = "IdNotString"
			}
		}
		var vals []string
		for _, prop := range props {
			st, v, _, _ := c18Walk(p, prop)
			switch st {
			case 1:
				vals = append(vals, fmt.Sprintf("(%s, PBlocked)", cq(prop)))
			case 2:
				vals = append(vals, fmt.Sprintf("(%s, %s)", cq(prop), c18Pval(v)))
			}
		}
		// a root key literally equal to a dotted property name (the nested walk never looks at it)
		var lits []string
		for _, prop := range props {
			if strings.Contains(prop, ".") {
				if v, ok := p[prop]; ok {
					lits = append(lits, fmt.Sprintf("(%s, %s)", cq(prop), c18Pval(v)))
				}
			}
		}
		return fmt.Sprintf("mkPt %s [%s] %d [%s]", id, strings.Join(vals, "; "), c18ConvertedSize(p, schema), strings.Join(lits, "; "))
	}
	return fmt.Sprintf("(BPoints2 (mkPts %s %d))", absList(len(points), func(i int) string { return one(points[i]) }), maxSize)
}

// absList prints a list; long lists of identical items are printed with rep
func absList(n int, item func(i int) string) string {
	if n == 0 {
		return "[]"
	}
	items := make([]string, n)
	same := true
	for i := 0; i < n; i++ {
		items[i] = item(i)
		if items[i] != items[0] {
			same = false
		}
	}
	if same && n > 8 {
		return fmt.Sprintf("(rep %d%%N (%s))", n, items[0])
	}
	return "[" + strings.Join(items, "; ") + "]"
}

func absPoints1(ids []string, vecs [][]float32, metas []any, update bool, maxSize int) string {
	return fmt.Sprintf("(BPoints1 (mkPts1 %s %d))", absList(len(ids), func(i int) string {
		id := "IdValid"
		if len(ids[i]) == 0 {
			id = "IdAbsent"
		} else if _, err := uuid.Parse(ids[i]); err != nil {
			id = "IdBadString"
		}
		size := int64(1) << 40
		if b, err := msgpack.Marshal(models.PointAsMap{"vector": vecs[i], "metadata": metas[i]}); err == nil {
			size = int64(len(b))
		}
		return fmt.Sprintf("mkPt1 %s %d %d", id, len(vecs[i]), size)
	}), maxSize)
}

func absIds(ids []string) string {
	return fmt.Sprintf("(BIds %s)", absList(len(ids), func(i int) string {
		_, err := uuid.Parse(ids[i])
		return cBool(err == nil)
	}))
}

// ---------------------------------------------------------------- queries

func absRanked(n int, op string, ssize, limit int, filter *models.Query) string {
	f := "None"
	if filter != nil {
		f = "(Some " + absQuery(*filter) + ")"
	}
	return fmt.Sprintf("(Some (mkR %d %s %s %s %s))", n, cWord(op), cz(int64(ssize)), cz(int64(limit)), f)
}

func absQuery(q models.Query) string {
	flat, vam, txt, str, in, fl, sa := "None", "None", "None", "None", "None", "None", "None"
	if o := q.VectorFlat; o != nil {
		flat = absRanked(len(o.Vector), o.Operator, 0, o.Limit, o.Filter)
	}
	if o := q.VectorVamana; o != nil {
		vam = absRanked(len(o.Vector), o.Operator, o.SearchSize, o.Limit, o.Filter)
	}
	if o := q.Text; o != nil {
		txt = absRanked(len(o.Value), o.Operator, 0, o.Limit, o.Filter)
	}
	if o := q.String; o != nil {
		_, err := uuid.Parse(o.Value)
		str = fmt.Sprintf("(Some (mkS %d %s %s %s))", len(o.Value), cWord(o.Operator), cBool(!(o.EndValue <= o.Value)), cBool(err == nil))
	}
	if o := q.Integer; o != nil {
		in = fmt.Sprintf("(Some (mkS 0 %s %s false))", cWord(o.Operator), cBool(!(o.EndValue <= o.Value)))
	}
	if o := q.Float; o != nil {
		fl = fmt.Sprintf("(Some (mkS 0 %s %s false))", cWord(o.Operator), cBool(!(o.EndValue <= o.Value)))
	}
	if o := q.StringArray; o != nil {
		all := true
		for _, v := range o.Value {
			if _, err := uuid.Parse(v); err != nil {
				all = false
			}
		}
		sa = fmt.Sprintf("(Some (mkS %d %s false %s))", len(o.Value), cWord(o.Operator), cBool(all))
	}
	sub := func(qs []models.Query) string {
		return absList(len(qs), func(i int) string { return absQuery(qs[i]) })
	}
	return fmt.Sprintf("(Qry %s %s %s %s %s %s %s %s %s %s)", cq(q.Property), flat, vam, txt, str, in, fl, sa, sub(q.And), sub(q.Or))
}

func absSearch2(r models.SearchRequest) string {
	ok := true
	for _, s := range r.Sort {
		if len(s.Property) == 0 {
			ok = false
		}
	}
	return fmt.Sprintf("(BSearch2 (mkSr %s %d %s %s %s))", absQuery(r.Query), len(r.Sort), cBool(ok), cz(int64(r.Offset)), cz(int64(r.Limit)))
}

func absSearch1(r httpv1.SearchPointsRequest) string {
	return fmt.Sprintf("(BSearch1 (mkSr1 %d %s))", len(r.Vector), cz(int64(r.Limit)))
}

// ---------------------------------------------------------------- finiteness

func okF(x float64) bool { return !math.IsNaN(x) && !math.IsInf(x, 0) && math.Abs(x) <= 1e15 }

func finiteAny(v any) bool {
	switch t := v.(type) {
	case float64:
		return okF(t)
	case float32:
		return okF(float64(t))
	case int64:
		return t < 1<<50 && t > -(1<<50)
	case uint64:
		return t < 1<<50
	case []float32:
		for _, x := range t {
			if !okF(float64(x)) {
				return false
			}
		}
	case []float64:
		for _, x := range t {
			if !okF(x) {
				return false
			}
		}
	case []any:
		for _, x := range t {
			if !finiteAny(x) {
				return false
			}
		}
	case map[string]any:
		for _, x := range t {
			if !finiteAny(x) {
				return false
			}
		}
	case models.PointAsMap:
		for _, x := range t {
			if !finiteAny(x) {
				return false
			}
		}
	}
	return true
}

func finiteVec(v []float32) bool {
	for _, x := range v {
		if !okF(float64(x)) {
			return false
		}
	}
	return true
}

func finiteQuery(q models.Query) bool {
	w := func(p *float32) bool { return p == nil || okF(float64(*p)) }
	if o := q.VectorFlat; o != nil {
		if !finiteVec(o.Vector) || !w(o.Weight) || (o.Filter != nil && !finiteQuery(*o.Filter)) {
			return false
		}
	}
	if o := q.VectorVamana; o != nil {
		if !finiteVec(o.Vector) || !w(o.Weight) || (o.Filter != nil && !finiteQuery(*o.Filter)) {
			return false
		}
	}
	if o := q.Text; o != nil {
		if !w(o.Weight) || (o.Filter != nil && !finiteQuery(*o.Filter)) {
			return false
		}
	}
	if o := q.Float; o != nil {
		if math.IsNaN(o.Value) || math.IsNaN(o.EndValue) || math.IsInf(o.Value, 0) || math.IsInf(o.EndValue, 0) {
			return false
		}
	}
	for _, s := range q.And {
		if !finiteQuery(s) {
			return false
		}
	}
	for _, s := range q.Or {
		if !finiteQuery(s) {
			return false
		}
	}
	return true
}

// ---------------------------------------------------------------- select simulation (defect classifier only)

// c18Query follows msgpack's Decoder.Query on a decoded tree: (value, found, error)
func c18Query(v any, path string) (any, bool, bool) {
	key := path
	rest := ""
	if i := strings.IndexByte(path, '.'); i >= 0 {
		key, rest = path[:i], path[i+1:]
	}
	if key == "" {
		return v, true, false
	}
	switch t := v.(type) {
	case map[string]any:
		x, ok := t[key]
		if !ok {
			return nil, false, false
		}
		return c18Query(x, rest)
	case models.PointAsMap:
		x, ok := t[key]
		if !ok {
			return nil, false, false
		}
		return c18Query(x, rest)
	case []any:
		if key == "*" {
			var first any
			found := false
			for _, x := range t {
				y, ok, bad := c18Query(x, rest)
				if bad {
					return nil, false, true
				}
				if ok && !found {
					first, found = y, true
				}
			}
			return first, found, false
		}
		i, err := strconv.Atoi(key)
		if err != nil {
			return nil, false, true
		}
		if i < 0 || i >= len(t) {
			return nil, false, false
		}
		return c18Query(t[i], rest)
	default:
		if v == nil {
			return nil, false, true
		}
		return nil, false, true
	}
}

// c18SelectSim replays the select assembly of shard.SearchPoints on one stored document:
// fails = the whole search fails; nonfinite = the assembled answer holds a NaN / Inf
func c18SelectSim(doc models.PointAsMap, sel []string) (fails, nonfinite bool) {
	if len(sel) == 0 {
		return false, false
	}
	if sel[0] == "*" {
		return false, !finiteNaN(doc)
	}
	// msgpack decodes arrays of the stored document as []any
	tree := c18Normalise(doc)
	out := map[string]any{}
	for _, p := range sel {
		if p == "*" {
			return fails, nonfinite || !finiteNaN(doc)
		}
		v, ok, bad := c18Query(tree, p)
		if bad {
			return true, nonfinite
		}
		if !ok {
			continue
		}
		segs := strings.Split(p, ".")
		cur := out
		for j, s := range segs {
			if j == len(segs)-1 {
				cur[s] = v
				break
			}
			if _, ok := cur[s]; !ok {
				cur[s] = map[string]any{}
			}
			nx, ok := cur[s].(map[string]any)
			if !ok {
				return true, nonfinite
			}
			cur = nx
		}
	}
	return false, !finiteNaN(out)
}

func c18Normalise(v any) any {
	b, err := msgpack.Marshal(v)
	if err != nil {
		return v
	}
	var out any
	if err := msgpack.Unmarshal(b, &out); err != nil {
		return v
	}
	return out
}

// finiteNaN: no NaN / Inf anywhere (large finite values are fine for JSON)
func finiteNaN(v any) bool {
	switch t := v.(type) {
	case float64:
		return !math.IsNaN(t) && !math.IsInf(t, 0)
	case float32:
		return !math.IsNaN(float64(t)) && !math.IsInf(float64(t), 0)
	case []float32:
		for _, x := range t {
			if math.IsNaN(float64(x)) || math.IsInf(float64(x), 0) {
				return false
			}
		}
	case []any:
		for _, x := range t {
			if !finiteNaN(x) {
				return false
			}
		}
	case map[string]any:
		for _, x := range t {
			if !finiteNaN(x) {
				return false
			}
		}
	case models.PointAsMap:
		for _, x := range t {
			if !finiteNaN(x) {
				return false
			}
		}
	}
	return true
}

func c18ValidUTF8(s string) bool { return utf8.ValidString(s) }
