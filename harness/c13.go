package main

// C13 -- routing by rendezvous hashing (cluster/hashing.go).
//
// Observations recorded for Run_C13.v:
//   CHash   xxhash.Sum64String on inputs of every length 0..100 (all block boundaries)
//   CRv     cluster.RendezvousHash(key, servers, topK)
//   CPerm   the same call on a permutation of the server list
//   CAdd    the same call after inserting one server at some position
//   CRemove the same call after removing one server
//   CShare  load-share TEST (statistical, not a theorem): keys owned per server
//   CNode   a live node: the list it routes with and the owners computed from it after failed requests (c13node.go)

import (
	"fmt"
	"math/rand/v2"
	"path/filepath"
	"strings"

	"github.com/cespare/xxhash"
	"github.com/google/uuid"
	"github.com/semafind/semadb/cluster"
)

func init() { subcmds["c13"] = runC13 }

func c13RandBytes(r *rand.Rand, n int) string {
	b := make([]byte, n)
	for i := range b {
		b[i] = byte(r.IntN(256))
	}
	return string(b)
}

func c13UUID(r *rand.Rand) string {
	var u uuid.UUID
	for i := range u {
		u[i] = byte(r.IntN(256))
	}
	u[6] = (u[6] & 0x0f) | 0x40
	u[8] = (u[8] & 0x3f) | 0x80
	return u.String()
}

func c13UserId(r *rand.Rand) string {
	const al = "abcdefghijklmnopqrstuvwxyzABCDEFGHIJKLMNOPQRSTUVWXYZ0123456789"
	switch r.IntN(4) {
	case 0:
		return fmt.Sprintf("user-%d", r.IntN(1000000))
	case 1:
		b := make([]byte, 4+r.IntN(20))
		for i := range b {
			b[i] = al[r.IntN(len(al))]
		}
		return string(b)
	case 2:
		return fmt.Sprintf("%c%c%c.%d@example.com", al[r.IntN(26)], al[r.IntN(26)], al[r.IntN(26)], r.IntN(1000))
	default:
		return fmt.Sprintf("u%d", r.IntN(100))
	}
}

// names that are prefixes / suffixes / concatenations of one another: key+server is a plain concatenation
var c13Adversarial = []string{"", "a", "ab", "abc", "b", "bc", "c", "host-1", "host-1:1100", "host-1:11001", "host-1:110011",
	"1:11001", ":11001", "host-11:11001", "ost-1:11001", "host-1:11001host-1:11001", "host-1:11001 ", "HOST-1:11001",
	"localhost:11001", "semadb-0.semadb.default.svc.cluster.local:11001", "host-1:11001\x00", "\xffhost"}

func c13ServerSet(r *rand.Rand, n int, adversarial bool) []string {
	var pool []string
	if adversarial {
		pool = append(pool, c13Adversarial...)
	} else {
		switch r.IntN(3) {
		case 0:
			for i := 0; i < 24; i++ {
				pool = append(pool, fmt.Sprintf("host-%d:11001", i))
			}
		case 1:
			for i := 0; i < 24; i++ {
				pool = append(pool, fmt.Sprintf("10.0.%d.%d:%d", r.IntN(4), i+1, 11001+r.IntN(3)))
			}
		default:
			for i := 0; i < 24; i++ {
				pool = append(pool, fmt.Sprintf("semadb-%d.semadb:11001", i))
			}
		}
	}
	r.Shuffle(len(pool), func(i, j int) { pool[i], pool[j] = pool[j], pool[i] })
	return append([]string{}, pool[:n]...)
}

func c13AllPerms(n int) [][]int {
	var res [][]int
	p := make([]int, n)
	for i := range p {
		p[i] = i
	}
	var rec func(k int)
	rec = func(k int) {
		if k == n {
			res = append(res, append([]int{}, p...))
			return
		}
		for i := k; i < n; i++ {
			p[k], p[i] = p[i], p[k]
			rec(k + 1)
			p[k], p[i] = p[i], p[k]
		}
	}
	rec(0)
	return res
}

func c13Apply(perm []int, s []string) []string {
	out := make([]string, len(s))
	for i, j := range perm {
		out[i] = s[j]
	}
	return out
}

func c13InsertAt(s []string, pos int, x string) []string {
	out := make([]string, 0, len(s)+1)
	out = append(out, s[:pos]...)
	out = append(out, x)
	out = append(out, s[pos:]...)
	return out
}

func c13RemoveAt(s []string, pos int) []string {
	out := make([]string, 0, len(s))
	out = append(out, s[:pos]...)
	out = append(out, s[pos+1:]...)
	return out
}

// the real code under test; the slice is copied so that the function cannot disturb the caller's list
func c13Call(key string, servers []string, topK int) []string {
	return cluster.RendezvousHash(key, append([]string{}, servers...), topK)
}

// c13File: a case file plus the byte strings already defined in it as auxiliary
// constants (server names and keys recur in thousands of cases).
type c13File struct {
	cf    *caseFile
	names map[string]string
}

func (f *c13File) b(s string) string {
	if len(s) <= 2 {
		return cStr(s)
	}
	if nm, ok := f.names[s]; ok {
		return nm
	}
	nm := f.cf.Aux("bytes", cStr(s))
	f.names[s] = nm
	return nm
}

// l prints a list of byte strings; a list already defined as a constant is referred to by name.
func (f *c13File) l(ss []string) string { return f.list(ss, false) }

// ls does the same and defines the list as a constant (server lists and base observations recur in many cases).
func (f *c13File) ls(ss []string) string { return f.list(ss, true) }

func (f *c13File) list(ss []string, define bool) string {
	if len(ss) == 0 {
		return "[]"
	}
	key := "L\x00" + strings.Join(ss, "\x00\x01")
	if nm, ok := f.names[key]; ok {
		return nm
	}
	items := make([]string, len(ss))
	for i, s := range ss {
		items[i] = f.b(s)
	}
	body := "[" + strings.Join(items, ";") + "]"
	if !define || len(ss) < 2 {
		return body
	}
	nm := f.cf.Aux("list bytes", body)
	f.names[key] = nm
	return nm
}

type c13Files struct {
	files []*c13File
	next  int
}

// pick returns the files in turn (the cases of one kind are spread over several files judged in parallel)
func (m *c13Files) pick() *c13File {
	f := m.files[m.next%len(m.files)]
	m.next++
	return f
}

func runC13(rc *runCtx) error {
	nHash, keysPerSet, randPerms, shareKeys := 300, 3, 20, 4000
	if rc.thorough() {
		nHash, keysPerSet, randPerms, shareKeys = 5000, 10, 50, 20000
	}
	if rc.n > 0 {
		nHash = rc.n
		keysPerSet = max(1, min(20, rc.n/100))
	}
	imports := []string{"Bytes", "Model_C13", "Run_C13"}
	open := func(name string) (*caseFile, error) {
		return newCaseFile(filepath.Join(rc.outDir, "cases_C13"+name+".v"), imports, "c13case")
	}
	var all []*caseFile
	mk := func(prefix string, k int) (*c13Files, error) {
		m := &c13Files{}
		for i := 0; i < k; i++ {
			cf, err := open(fmt.Sprintf("%s_%d", prefix, i))
			if err != nil {
				return nil, err
			}
			m.files = append(m.files, &c13File{cf: cf, names: map[string]string{}})
			all = append(all, cf)
		}
		return m, nil
	}
	// One pool of files, every kind of case dealt round-robin over them (balanced load). Few files: each
	// coqc process costs ~0.5 s of start-up, and running many of them in parallel does not scale here.
	nfiles := 3
	if rc.thorough() {
		nfiles = 6
	}
	pool, err := mk("", nfiles)
	if err != nil {
		return err
	}
	fHash := &c13Files{files: pool.files}
	fRv := &c13Files{files: pool.files}
	fPerm := &c13Files{files: pool.files}
	fChg := &c13Files{files: pool.files}
	hist := map[string]int{}
	distinct := map[string]struct{}{}
	note := func(kind, key string, nontrivial bool) {
		hist[kind]++
		if nontrivial {
			distinct[kind+"|"+key] = struct{}{}
		}
	}

	// ---- (i) the hash itself
	{
		r := newRng(rc.seed, 1301)
		lens := []int{}
		for l := 0; l <= 100; l++ { // every length 0..100 once: covers 0,1,3,4,7,8,31,32,33,63,64,65,95,96,97
			lens = append(lens, l)
		}
		boundary := []int{0, 1, 3, 4, 7, 8, 31, 32, 33, 63, 64, 65, 95, 96, 97}
		for len(lens) < nHash {
			switch r.IntN(3) {
			case 0:
				lens = append(lens, boundary[r.IntN(len(boundary))])
			case 1:
				lens = append(lens, r.IntN(101))
			default:
				lens = append(lens, 8+r.IntN(60)) // the length range of key+server
			}
		}
		lens = lens[:max(nHash, 101)]
		for i, l := range lens {
			var in string
			switch {
			case i%7 == 3: // printable, like the real inputs
				b := make([]byte, l)
				for j := range b {
					b[j] = byte(32 + r.IntN(95))
				}
				in = string(b)
			case i%31 == 5:
				in = strings.Repeat("\xff", l)
			case i%31 == 6:
				in = strings.Repeat("\x00", l)
			default:
				in = c13RandBytes(r, l)
			}
			sum := xxhash.Sum64String(in)
			fHash.pick().cf.Add(fmt.Sprintf("CHash %s %s", cStr(in), cN(sum)))
			note("hash", in, true)
			hist[fmt.Sprintf("hash_len_%03d-%03d", l/32*32, l/32*32+31)]++
			if i == 40 {
				rc.addSample(map[string]any{"kind": "hash", "input_hex": fmt.Sprintf("%x", in), "sum64": fmt.Sprintf("%016x", sum)})
			}
		}
	}

	// ---- (ii)-(v) routing
	{
		r := newRng(rc.seed, 1302)
		long := "tenant/" + strings.Repeat("a-very-long-user-identifier/", 5) + "end"
		for n := 1; n <= 16; n++ {
			for variant := 0; variant < 2; variant++ {
				servers := c13ServerSet(r, n, variant == 1)
				for ki := 0; ki < keysPerSet; ki++ {
					var key, kkind string
					switch ki % 3 {
					case 0:
						key, kkind = c13UserId(r), "userid"
					case 1:
						key, kkind = c13UUID(r), "uuid"
					default:
						switch (n + variant + ki/3) % 4 {
						case 0:
							key, kkind = "", "empty"
						case 1:
							key, kkind = long[:60+r.IntN(len(long)-60)], "long"
						case 2:
							key, kkind = c13RandBytes(r, 1+r.IntN(24)), "rawbytes"
						default: // a key that ends like a server name begins
							key, kkind = "user-1host-1", "concat"
						}
					}
					topKs := []int{1, 2, n, n + 3}
					base := map[int][]string{}
					for _, k := range topKs {
						if _, done := base[k]; done {
							continue
						}
						obs := c13Call(key, servers, k)
						base[k] = obs
						hist["key_"+kkind]++
						if k != n+3 && k != 1 && ki != 0 {
							continue // the full order (k = n+3) and the owner (k = 1, what every call site asks for) are judged for every key, the other truncations for the first key of a set
						}
						f := fRv.pick()
						f.cf.Add(fmt.Sprintf("CRv %s %s %d %s", f.b(key), f.l(servers), k, f.l(obs)))
						note("rv", fmt.Sprint(key, "|", servers, "|", k), true)
						hist[fmt.Sprintf("rv_n%02d", n)]++
					}
					if n == 4 && ki == 0 && variant == 0 {
						rc.addSample(map[string]any{"kind": "rv", "key": key, "servers": servers, "topK": n + 3, "observed": base[n+3]})
					}
					// the owner (topK = 1) on the reversed list: every routing call site asks for exactly this
					if n > 1 {
						rev1 := make([]string, n)
						for i := range servers {
							rev1[n-1-i] = servers[i]
						}
						obsR := c13Call(key, rev1, 1)
						f := fPerm.pick()
						f.cf.Add(fmt.Sprintf("CPerm %s %s %s %d %s %s", f.b(key), f.ls(servers), f.l(rev1), 1, f.ls(base[1]), f.l(obsR)))
						note("perm", fmt.Sprint(key, "|", servers, "|rev|", 1), true)
						hist[fmt.Sprintf("perm_n%02d", n)]++
					}
					// permutations
					// quick tier: the third key of a set (empty / long / raw / concat) gets a lighter treatment
					light := !rc.thorough() && rc.n == 0 && ki >= 2
					var perms [][]int
					if n <= 5 && !(light && n > 3) {
						perms = c13AllPerms(n)
					} else if light {
						for i := 0; i < 5; i++ {
							perms = append(perms, r.Perm(n))
						}
					} else {
						for i := 0; i < randPerms; i++ {
							perms = append(perms, r.Perm(n))
						}
						// reversal and rotation by one are always in
						rev := make([]int, n)
						rot := make([]int, n)
						for i := range rev {
							rev[i] = n - 1 - i
							rot[i] = (i + 1) % n
						}
						perms = append(perms, rev, rot)
					}
					for pi, p := range perms {
						k := topKs[(pi+ki)%len(topKs)]
						s2 := c13Apply(p, servers)
						obs2 := c13Call(key, s2, k)
						f := fPerm.pick()
						f.cf.Add(fmt.Sprintf("CPerm %s %s %s %d %s %s", f.b(key), f.ls(servers), f.l(s2), k, f.ls(base[k]), f.l(obs2)))
						ident := true
						for i, j := range p {
							if i != j {
								ident = false
							}
						}
						note("perm", fmt.Sprint(key, "|", servers, "|", p, "|", k), !ident)
						hist[fmt.Sprintf("perm_n%02d", n)]++
					}
					// every single removal, and the addition that undoes it (at a random position)
					for i := 0; i < n; i++ {
						if light && n > 3 && r.IntN(n) >= 3 {
							continue
						}
						k := topKs[(i+ki)%len(topKs)]
						less := c13RemoveAt(servers, i)
						obsLess := c13Call(key, less, k)
						f := fChg.pick()
						f.cf.Add(fmt.Sprintf("CRemove %s %s %s %s %s", f.b(key), f.ls(servers), f.b(servers[i]), f.ls(base[k]), f.l(obsLess)))
						note("remove", fmt.Sprint(key, "|", servers, "|", i, "|", k), true)
						pos := r.IntN(n)
						again := c13InsertAt(less, pos, servers[i])
						obsAgain := c13Call(key, again, k)
						f = fChg.pick()
						f.cf.Add(fmt.Sprintf("CAdd %s %s %s %s %s", f.b(key), f.l(less), f.b(servers[i]), f.l(obsLess), f.l(obsAgain)))
						note("add", fmt.Sprint(key, "|", less, "|", servers[i], "|", pos, "|", k), true)
						if n == 3 && ki == 0 && variant == 0 && i == 0 {
							rc.addSample(map[string]any{"kind": "remove+add", "key": key, "servers": servers, "removed": servers[i],
								"owner_before": base[k][0], "after_removal": obsLess, "reinserted_at": pos, "after_addition": obsAgain})
						}
					}
					// brand-new servers at every position 0..n (a different new name per position)
					for pos := 0; pos <= n; pos++ {
						if light && pos != 0 && pos != n && r.IntN(n) >= 2 {
							continue
						}
						k := topKs[(pos+ki)%len(topKs)]
						var nw string
						if variant == 1 {
							nw = servers[r.IntN(n)] + []string{"x", "0", ":", "host-1:11001"}[r.IntN(4)] // extends an existing name
						} else {
							nw = fmt.Sprintf("new-%d:11001", r.IntN(1000))
						}
						dup := false
						for _, s := range servers {
							if s == nw {
								dup = true
							}
						}
						if dup {
							continue
						}
						more := c13InsertAt(servers, pos, nw)
						obsMore := c13Call(key, more, k)
						f := fChg.pick()
						f.cf.Add(fmt.Sprintf("CAdd %s %s %s %s %s", f.b(key), f.ls(servers), f.b(nw), f.ls(base[k]), f.l(obsMore)))
						note("add", fmt.Sprint(key, "|", servers, "|", nw, "|", pos, "|", k), true)
						hist[fmt.Sprintf("add_n%02d", n)]++
					}
				}
			}
		}
		// the owner stream: what the call sites ask for (topK = 1), on small server sets where a wrong
		// selection among the scores has a visible share of the keys; listed and reversed order
		ownerKeys := 40
		if rc.thorough() {
			ownerKeys = 400
		}
		for n := 2; n <= 6; n++ {
			servers := c13ServerSet(r, n, false)
			rev1 := make([]string, n)
			for i := range servers {
				rev1[n-1-i] = servers[i]
			}
			for ki := 0; ki < ownerKeys; ki++ {
				key := c13UserId(r)
				if ki%2 == 1 {
					key = c13UUID(r)
				}
				obs := c13Call(key, servers, 1)
				obsR := c13Call(key, rev1, 1)
				f := fRv.pick()
				f.cf.Add(fmt.Sprintf("CRv %s %s %d %s", f.b(key), f.l(servers), 1, f.l(obs)))
				note("rv", fmt.Sprint(key, "|", servers, "|", 1), true)
				f = fPerm.pick()
				f.cf.Add(fmt.Sprintf("CPerm %s %s %s %d %s %s", f.b(key), f.ls(servers), f.l(rev1), 1, f.ls(obs), f.l(obsR)))
				note("perm", fmt.Sprint(key, "|", servers, "|rev|", 1), true)
				hist["owner_stream"]++
			}
		}
	}

	// ---- load share: a TEST (statistical statement about xxHash), not a theorem
	{
		r := newRng(rc.seed, 1303)
		keys := make([]string, shareKeys)
		for i := range keys {
			if i%2 == 0 {
				keys[i] = c13UUID(r)
			} else {
				keys[i] = fmt.Sprintf("user-%d-%d", i, r.IntN(1000000))
			}
		}
		minRatio, maxRatio := 1e9, 0.0
		var worst map[string]any
		zero := 0
		for n := 1; n <= 16; n++ {
			servers := make([]string, n)
			for i := range servers {
				servers[i] = fmt.Sprintf("host-%d:11001", i)
			}
			count := map[string]int{}
			for _, k := range keys {
				count[c13Call(k, servers, 1)[0]]++
			}
			for _, s := range servers {
				ratio := float64(count[s]) * float64(n) / float64(len(keys))
				if ratio < minRatio || ratio > maxRatio {
					worst = map[string]any{"n": n, "server": s, "count": count[s], "ratio": ratio}
				}
				minRatio = min(minRatio, ratio)
				maxRatio = max(maxRatio, ratio)
				if count[s] == 0 {
					zero++
				}
				f := fChg.pick()
				f.cf.Add(fmt.Sprintf("CShare %d %s %d", n, f.b(s), count[s]))
				note("share", fmt.Sprint(n, s), true)
			}
		}
		rc.stats["share_test"] = map[string]any{
			"label":            "TEST, not a theorem: statistical statement about xxHash evaluated on sampled keys",
			"keys_per_set":     len(keys),
			"server_set_sizes": "1..16",
			"min_share_ratio":  minRatio, // share / (1/n)
			"max_share_ratio":  maxRatio,
			"tolerance":        0.35,
			"within_tolerance": minRatio >= 0.65 && maxRatio <= 1.35,
			"servers_owning_0": zero,
			"extreme":          worst,
		}
	}

	// ---- a live node: the list it routes with after requests to absent servers
	if err := c13NodeCases(rc, fChg, note); err != nil {
		return err
	}

	total := 0
	for _, cf := range all {
		total += cf.n
	}
	rc.stats["evaluations"] = total
	rc.stats["distinct"] = len(distinct)
	rc.stats["histogram"] = hist
	rc.stats["seed"] = rc.seed
	for _, cf := range all {
		if err := cf.Close("bad"); err != nil {
			return err
		}
	}
	return nil
}
