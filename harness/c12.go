package main

// C12 -- shard loading (DoWithShard/loadShard), idle unloading (cleanupRoutine) and
// collection deletion (DeleteCollectionShards) of the real cluster.ShardManager under
// forced interleavings. The pause points (cluster.VerifPauseHook) park every thread of a
// schedule; a scheduler releases them one at a time and waits, between two actions, until
// every thread is parked, blocked on a lock or finished (decided from goroutine dumps, no
// sleeping guesses). The schedule (list of events) and what every call returned are
// printed as `CSched ...` terms judged by coq/Run_C12.v.
//
// `c12` is the parent: it builds the job list and spreads it over child processes
// (`c12child`), because the hook is a process global, every schedule needs its idle timer
// (1 s) and a deadlocked manager cannot be cleaned up (the child exits, the parent
// respawns it for the remaining jobs).

import (
	"bufio"
	"bytes"
	"encoding/json"
	"errors"
	"fmt"
	"hash/fnv"
	"math/rand/v2"
	"os"
	"os/exec"
	"path/filepath"
	"runtime"
	"sort"
	"strconv"
	"strings"
	"sync"
	"sync/atomic"
	"time"

	"github.com/semafind/semadb/cluster"
	"github.com/semafind/semadb/models"
	"github.com/semafind/semadb/shard"
)

func init() {
	subcmds["c12"] = runC12
	subcmds["c12child"] = runC12Child
}

// ---------------------------------------------------------------- vocabulary

const (
	c12PStart = iota
	c12PLoaded
	c12PRunning
	c12PDelLocked
	c12PFire
	c12PFired
	c12PLocked
	c12PClosed
)

var c12PointNames = []string{"PStart", "PLoaded", "PRunning", "PDelLocked", "PFire", "PFired", "PLocked", "PClosed"}

var c12HookPoints = map[string]int{
	"do:loaded":      c12PLoaded,
	"do:running":     c12PRunning,
	"delete:locked":  c12PDelLocked,
	"cleanup:fired":  c12PFired,
	"cleanup:locked": c12PLocked,
	"cleanup:closed": c12PClosed,
}

// c12Event is EvC n p (I false) or EvI by p (I true).
type c12Event struct {
	I bool `json:"i"`
	N int  `json:"n"`
	P int  `json:"p"`
}

func (e c12Event) String() string {
	if e.I {
		return fmt.Sprintf("EvI %d %s", e.N, c12PointNames[e.P])
	}
	return fmt.Sprintf("EvC %d %s", e.N, c12PointNames[e.P])
}

type c12ThreadSpec struct {
	Kind string `json:"kind"` // "req" | "del"
	D    int    `json:"d"`
}

type c12Job struct {
	Idx     int             `json:"idx"`
	NShards int             `json:"nshards"`
	Backup  bool            `json:"backup"`
	Threads []c12ThreadSpec `json:"threads"`
	Guide   []c12Event      `json:"guide"`
	Seed    uint64          `json:"seed"`
	Label   string          `json:"label"`
	GuideId string          `json:"guideId"`
}

type c12Obs struct {
	Res   int  `json:"res"`
	Ran   bool `json:"ran"`
	Probe bool `json:"probe"`
	Direx bool `json:"direx"`
}

type c12Result struct {
	Idx     int        `json:"idx"`
	Events  []c12Event `json:"events"`
	Obs     []c12Obs   `json:"obs"`
	Hang    bool       `json:"hang"`
	Entries int        `json:"entries"`
	Fresh   int        `json:"fresh"`
	Dup     bool       `json:"dup"`
	Feats   []string   `json:"feats"`
	Millis  int64      `json:"ms"`
	Note    string     `json:"note,omitempty"`
	Died    bool       `json:"died,omitempty"` // the child process died while this schedule ran (not a hang)
}

const (
	c12Watchdog  = 5 * time.Second
	c12FireWait  = 3 * time.Second
	c12Children  = 16
	c12CaseFiles = 4
)

// ---------------------------------------------------------------- goroutine identification

func curGid() uint64 {
	var buf [64]byte
	n := runtime.Stack(buf[:], false)
	return c12ParseGid(buf[:n])
}

// c12ParseGid reads N of "goroutine N [".
func c12ParseGid(b []byte) uint64 {
	const pre = "goroutine "
	if !bytes.HasPrefix(b, []byte(pre)) {
		return 0
	}
	b = b[len(pre):]
	var v uint64
	for _, ch := range b {
		if ch < '0' || ch > '9' {
			break
		}
		v = v*10 + uint64(ch-'0')
	}
	return v
}

const c12CreatedByLoad = "created by github.com/semafind/semadb/cluster.(*ShardManager).loadShard in goroutine "
const c12CleanupFrame = "cluster.(*ShardManager).cleanupRoutine"

// c12Creator returns the goroutine that ran the loadShard which started this goroutine (0 = none).
func c12Creator(text string) uint64 {
	i := strings.LastIndex(text, c12CreatedByLoad)
	if i < 0 {
		return 0
	}
	rest := text[i+len(c12CreatedByLoad):]
	var v uint64
	for _, ch := range []byte(rest) {
		if ch < '0' || ch > '9' {
			break
		}
		v = v*10 + uint64(ch-'0')
	}
	return v
}

type c12G struct {
	state string // wait reason, without the duration
	text  string
}

var c12BlockedStates = []string{"sync.Mutex.Lock", "sync.RWMutex.RLock", "sync.RWMutex.Lock", "semacquire"}

// blocked: waiting for a lock of the code under test (not for the book keeping of this harness).
func (g c12G) blocked() bool {
	ok := false
	for _, p := range c12BlockedStates {
		if strings.HasPrefix(g.state, p) {
			ok = true
		}
	}
	if !ok {
		return false
	}
	return !strings.Contains(g.text, "main.(*c12Ctx).") && !strings.Contains(g.text, "main.c12PauseHook")
}

var c12DumpBuf = make([]byte, 1<<20)

// c12Dump takes one consistent snapshot of all goroutines (runtime.Stack stops the world).
func c12Dump() map[uint64]c12G {
	var n int
	for {
		n = runtime.Stack(c12DumpBuf, true)
		if n < len(c12DumpBuf) {
			break
		}
		c12DumpBuf = make([]byte, 2*len(c12DumpBuf))
	}
	out := map[uint64]c12G{}
	for _, blk := range strings.Split(string(c12DumpBuf[:n]), "\n\n") {
		blk = strings.TrimLeft(blk, "\n")
		if !strings.HasPrefix(blk, "goroutine ") {
			continue
		}
		gid := c12ParseGid([]byte(blk))
		lb := strings.IndexByte(blk, '[')
		rb := strings.Index(blk, "]:")
		if gid == 0 || lb < 0 || rb < lb {
			continue
		}
		st := blk[lb+1 : rb]
		if c := strings.IndexByte(st, ','); c >= 0 {
			st = st[:c]
		}
		out[gid] = c12G{state: st, text: blk}
	}
	return out
}

// ---------------------------------------------------------------- job context (book keeping)

const (
	c12Unstarted = iota
	c12Running
	c12Parked
	c12Finished
)

const (
	c12IdleUnknown = iota
	c12IdleWaiting
	c12IdleParked
	c12IdleRunning
	c12IdleBlocked
	c12IdleExited
)

type c12Thread struct {
	kind    string
	d       int
	gid     uint64
	status  int
	point   int
	rel     chan struct{}
	blocked bool // by the last snapshot
	// observation
	err    error
	ran    bool
	probe  bool
	direx  bool
	ptr    *shard.Shard
	arrSeq uint64 // arrival at do:running
	retSeq uint64 // callback return
}

type c12Idle struct {
	by         int
	gid        uint64
	parked     bool // parked in the hook and not released
	point      int
	rel        chan struct{}
	fireLogged bool
	snap       int // state by the last snapshot
}

type c12Ctx struct {
	mu        sync.Mutex
	seq       uint64
	closed    bool
	threads   []*c12Thread
	gidThread map[uint64]int
	idleGid   map[uint64]int // goroutine of a cleanup routine -> creator thread, -1 = not ours
	idles     map[int]*c12Idle
	fireCh    chan struct{}
}

var c12Cur atomic.Pointer[c12Ctx]

func c12NewCtx(job *c12Job) *c12Ctx {
	c := &c12Ctx{gidThread: map[uint64]int{}, idleGid: map[uint64]int{}, idles: map[int]*c12Idle{}, fireCh: make(chan struct{}, 64)}
	for _, t := range job.Threads {
		c.threads = append(c.threads, &c12Thread{kind: t.Kind, d: t.D})
	}
	return c
}

func (c *c12Ctx) idle(by int) *c12Idle {
	id, ok := c.idles[by]
	if !ok {
		id = &c12Idle{by: by}
		c.idles[by] = id
	}
	return id
}

// c12PauseHook is installed as cluster.VerifPauseHook.
func c12PauseHook(point string) {
	c := c12Cur.Load()
	if c == nil {
		return
	}
	p, ok := c12HookPoints[point]
	if !ok {
		return
	}
	c.arrive(curGid(), point, p)
}

func (c *c12Ctx) arrive(gid uint64, name string, p int) {
	isCleanup := strings.HasPrefix(name, "cleanup:")
	c.mu.Lock()
	if c.closed {
		c.mu.Unlock()
		return
	}
	var ch chan struct{}
	if k, ok := c.gidThread[gid]; ok {
		th := c.threads[k]
		c.seq++
		th.status = c12Parked
		th.point = p
		th.rel = make(chan struct{})
		ch = th.rel
		if p == c12PRunning {
			th.arrSeq = c.seq
		}
	} else if isCleanup {
		by, known := c.idleGid[gid]
		if !known {
			// who created this cleanup routine? (not under the lock: the scheduler must never
			// see a goroutine of the code under test waiting for the book keeping lock for long)
			c.mu.Unlock()
			buf := make([]byte, 64<<10)
			n := runtime.Stack(buf, false)
			creator := c12Creator(string(buf[:n]))
			c.mu.Lock()
			if c.closed {
				c.mu.Unlock()
				return
			}
			by = -1
			if k, ok := c.gidThread[creator]; ok && creator != 0 && c.threads[k].kind == "req" {
				by = k
			}
			c.idleGid[gid] = by
		}
		if by < 0 {
			c.mu.Unlock()
			return
		}
		id := c.idle(by)
		c.seq++
		id.gid = gid
		id.parked = true
		id.point = p
		id.rel = make(chan struct{})
		ch = id.rel
		if p == c12PFired {
			select {
			case c.fireCh <- struct{}{}:
			default:
			}
		}
	} else {
		c.mu.Unlock()
		return
	}
	c.mu.Unlock()
	<-ch
}

func (c *c12Ctx) register(k int, gid uint64) {
	c.mu.Lock()
	c.seq++
	c.gidThread[gid] = k
	c.threads[k].gid = gid
	c.mu.Unlock()
}

func (c *c12Ctx) callbackDone(k int, probe, direx bool, ptr *shard.Shard) {
	c.mu.Lock()
	c.seq++
	th := c.threads[k]
	th.ran = true
	th.probe = probe
	th.direx = direx
	th.ptr = ptr
	th.retSeq = c.seq
	c.mu.Unlock()
}

func (c *c12Ctx) finish(k int, err error) {
	c.mu.Lock()
	c.seq++
	th := c.threads[k]
	th.err = err
	th.status = c12Finished
	c.mu.Unlock()
}

// close ends the job: everything still parked is let go and later arrivals pass through.
func (c *c12Ctx) close() {
	c12Cur.CompareAndSwap(c, nil)
	c.mu.Lock()
	c.closed = true
	for _, th := range c.threads {
		if th.status == c12Parked && th.rel != nil {
			close(th.rel)
			th.rel = nil
		}
	}
	for _, id := range c.idles {
		if id.parked && id.rel != nil {
			close(id.rel)
			id.rel = nil
		}
	}
	c.mu.Unlock()
}

// snapshotQuiet takes one goroutine dump and says whether nothing can move without an action.
func (c *c12Ctx) snapshotQuiet() bool {
	c.mu.Lock()
	s1 := c.seq
	c.mu.Unlock()
	gs := c12Dump()
	c.mu.Lock()
	defer c.mu.Unlock()
	if c.seq != s1 {
		return false
	}
	quiet := true
	for _, th := range c.threads {
		th.blocked = false
		if th.status != c12Running {
			continue
		}
		g, ok := gs[th.gid]
		if th.gid != 0 && ok && g.blocked() {
			th.blocked = true
		} else {
			quiet = false
		}
	}
	seen := map[int]bool{}
	for gid, g := range gs {
		if !strings.Contains(g.text, c12CleanupFrame) {
			continue
		}
		k, ok := c.gidThread[c12Creator(g.text)]
		if !ok || c.threads[k].kind != "req" {
			continue
		}
		id := c.idle(k)
		id.gid = gid
		seen[k] = true
		switch {
		case id.parked:
			id.snap = c12IdleParked
		case g.state == "select":
			id.snap = c12IdleWaiting
		case g.blocked():
			id.snap = c12IdleBlocked
		default:
			id.snap = c12IdleRunning
			quiet = false
		}
	}
	for by, id := range c.idles {
		if !seen[by] {
			id.snap = c12IdleExited
		}
	}
	return quiet
}

func (c *c12Ctx) quiesce() bool {
	deadline := time.Now().Add(c12Watchdog)
	for {
		if c.snapshotQuiet() {
			return true
		}
		if time.Now().After(deadline) {
			return false
		}
		time.Sleep(300 * time.Microsecond)
	}
}

// ---------------------------------------------------------------- scheduler

const (
	c12ActStart = iota
	c12ActRelClient
	c12ActRelIdle
	c12ActWaitFire
)

type c12Action struct {
	kind int
	who  int
	p    int
}

type c12Sched struct {
	job    *c12Job
	ctx    *c12Ctx
	rng    *rand.Rand
	sm     *cluster.ShardManager
	col    models.Collection
	root   string
	quick  bool
	events []c12Event
	feats  map[string]bool
	waits  int
	note   string
}

func (s *c12Sched) shardDir(d int) string {
	return filepath.Join(s.root, cluster.USERCOLSDIR, s.col.UserId, s.col.Id, "s"+strconv.Itoa(d))
}

func c12ThreadMain(s *c12Sched, k int) {
	c := s.ctx
	c.register(k, curGid())
	th := c.threads[k]
	var err error
	defer func() {
		// a panic of the code under test inside a schedule thread is an observation (in the server it kills the
		// process: these calls run on plain goroutines), not the end of this harness process
		if r := recover(); r != nil {
			c.finish(k, fmt.Errorf("c12 panic: %v", r))
		}
	}()
	if th.kind == "req" {
		dir := s.shardDir(th.d)
		err = s.sm.DoWithShard(s.col, "s"+strconv.Itoa(th.d), func(sh *shard.Shard) error {
			_, ierr := sh.Info()
			st, serr := os.Stat(dir)
			c.callbackDone(k, ierr == nil, serr == nil && st.IsDir(), sh)
			return nil
		})
	} else {
		_, err = s.sm.DeleteCollectionShards(s.col)
	}
	c.finish(k, err)
}

// settle: wait for quiescence, then log the timers that have fired since (observations).
func (s *c12Sched) settle() bool {
	if !s.ctx.quiesce() {
		s.note = "quiesce timed out"
		return false
	}
	s.logNewFires()
	return true
}

func (s *c12Sched) idleKeys() []int {
	keys := make([]int, 0, len(s.ctx.idles))
	for by := range s.ctx.idles {
		keys = append(keys, by)
	}
	sort.Ints(keys)
	return keys
}

func (s *c12Sched) logNewFires() int {
	c := s.ctx
	c.mu.Lock()
	defer c.mu.Unlock()
	n := 0
	for _, by := range s.idleKeys() {
		id := c.idles[by]
		if id.parked && id.point == c12PFired && !id.fireLogged {
			id.fireLogged = true
			s.events = append(s.events, c12Event{I: true, N: by, P: c12PFire})
			n++
			for _, th := range c.threads {
				if th.status == c12Parked && th.kind == "req" && th.point == c12PRunning {
					s.feats["fire-during-request"] = true
				}
				if th.status == c12Parked && th.kind == "del" && th.point == c12PDelLocked {
					s.feats["fire-during-delete"] = true
				}
			}
		}
	}
	return n
}

// actions in canonical order (valid right after settle).
func (s *c12Sched) actions() []c12Action {
	c := s.ctx
	c.mu.Lock()
	defer c.mu.Unlock()
	var out []c12Action
	for k, th := range c.threads {
		if th.status == c12Unstarted {
			out = append(out, c12Action{c12ActStart, k, c12PStart})
		}
	}
	for k, th := range c.threads {
		if th.status == c12Parked {
			out = append(out, c12Action{c12ActRelClient, k, th.point})
		}
	}
	keys := s.idleKeys()
	for _, by := range keys {
		if id := c.idles[by]; id.parked {
			out = append(out, c12Action{c12ActRelIdle, by, id.point})
		}
	}
	for _, by := range keys {
		if id := c.idles[by]; !id.parked && id.snap == c12IdleWaiting {
			out = append(out, c12Action{c12ActWaitFire, by, c12PFire})
		}
	}
	return out
}

func (s *c12Sched) allFinished() bool {
	c := s.ctx
	c.mu.Lock()
	defer c.mu.Unlock()
	for _, th := range c.threads {
		if th.status != c12Finished {
			return false
		}
	}
	return true
}

func c12Match(ev c12Event, acts []c12Action) (c12Action, bool) {
	for _, a := range acts {
		switch {
		case !ev.I && ev.P == c12PStart && a.kind == c12ActStart && a.who == ev.N,
			!ev.I && ev.P != c12PStart && a.kind == c12ActRelClient && a.who == ev.N && a.p == ev.P,
			ev.I && ev.P == c12PFire && a.kind == c12ActWaitFire && a.who == ev.N,
			ev.I && ev.P != c12PFire && a.kind == c12ActRelIdle && a.who == ev.N && a.p == ev.P:
			return a, true
		}
	}
	return c12Action{}, false
}

func (s *c12Sched) maxWaits() int {
	if s.quick {
		return 2
	}
	return 3
}

// pick chooses with the seeded rng; nil = nothing worth doing (only timers beyond the budget).
func (s *c12Sched) pick(acts []c12Action, allDone bool) *c12Action {
	total := 0
	w := make([]int, len(acts))
	for i, a := range acts {
		if a.kind == c12ActWaitFire {
			if s.waits < s.maxWaits() {
				w[i] = 1
			}
		} else {
			w[i] = 3
		}
		total += w[i]
	}
	if total == 0 {
		if allDone {
			return nil
		}
		return &acts[0] // only timers are left and a client is unfinished
	}
	x := s.rng.IntN(total)
	for i := range acts {
		if x < w[i] {
			return &acts[i]
		}
		x -= w[i]
	}
	return &acts[len(acts)-1]
}

func (s *c12Sched) perform(a c12Action, strict bool) bool {
	c := s.ctx
	switch a.kind {
	case c12ActStart:
		s.events = append(s.events, c12Event{N: a.who, P: c12PStart})
		c.mu.Lock()
		c.seq++
		c.threads[a.who].status = c12Running
		c.mu.Unlock()
		go c12ThreadMain(s, a.who)
	case c12ActRelClient:
		s.events = append(s.events, c12Event{N: a.who, P: a.p})
		c.mu.Lock()
		c.seq++
		th := c.threads[a.who]
		ch := th.rel
		th.rel = nil
		th.status = c12Running
		c.mu.Unlock()
		close(ch)
	case c12ActRelIdle:
		s.events = append(s.events, c12Event{I: true, N: a.who, P: a.p})
		c.mu.Lock()
		c.seq++
		id := c.idles[a.who]
		ch := id.rel
		id.rel = nil
		id.parked = false
		id.snap = c12IdleRunning
		if a.p == c12PLocked || a.p == c12PClosed {
			for _, th := range c.threads {
				if th.kind == "del" && (th.status == c12Running || th.status == c12Parked) {
					s.feats["idle-vs-delete"] = true
				}
			}
		}
		c.mu.Unlock()
		close(ch)
	case c12ActWaitFire:
		s.waits++
		return s.waitFire(a.who, strict)
	}
	return s.settle()
}

// waitFire blocks until some cleanup routine parks at cleanup:fired (strict: until routine `by`
// is no longer waiting for its timer). No event of its own: the fires are logged by settle.
func (s *c12Sched) waitFire(by int, strict bool) bool {
	c := s.ctx
	deadline := time.Now().Add(c12FireWait)
	for {
		left := time.Until(deadline)
		if left <= 0 {
			s.note = "timer did not fire"
			return true
		}
		tm := time.NewTimer(left)
		select {
		case <-c.fireCh:
		case <-tm.C:
		}
		tm.Stop()
		if !c.quiesce() {
			s.note = "quiesce timed out"
			return false
		}
		n := s.logNewFires()
		c.mu.Lock()
		id := c.idles[by]
		still := id != nil && !id.parked && id.snap == c12IdleWaiting
		c.mu.Unlock()
		if strict {
			if !still {
				return true
			}
		} else if n > 0 || !still {
			return true
		}
	}
}

// confirmDeadlock: no action is available and a client is unfinished. true = nothing moved
// until the watchdog expired.
func (s *c12Sched) confirmDeadlock() bool {
	deadline := time.Now().Add(c12Watchdog)
	for time.Now().Before(deadline) {
		time.Sleep(50 * time.Millisecond)
		if !s.settle() {
			return true
		}
		if len(s.actions()) > 0 || s.allFinished() {
			return false
		}
	}
	s.note = "deadlock"
	return true
}

// mainPhase returns false on a hang.
func (s *c12Sched) mainPhase() bool {
	if !s.settle() {
		return false
	}
	gi := 0
	for {
		acts := s.actions()
		allDone := s.allFinished()
		var chosen *c12Action
		strict := false
		for gi < len(s.job.Guide) && chosen == nil {
			if a, ok := c12Match(s.job.Guide[gi], acts); ok {
				chosen = &a
				strict = true
			}
			gi++
		}
		if chosen == nil {
			if len(acts) == 0 {
				if allDone {
					return true
				}
				if s.confirmDeadlock() {
					return false
				}
				continue
			}
			if allDone && s.rng.IntN(2) == 0 {
				return true
			}
			chosen = s.pick(acts, allDone)
			if chosen == nil {
				return true
			}
		}
		if !s.perform(*chosen, strict) {
			return false
		}
	}
}

// endPhase lets everything that is still parked run to its end.
func (s *c12Sched) endPhase() bool {
	for {
		var next *c12Action
		for _, a := range s.actions() {
			if a.kind == c12ActRelClient || a.kind == c12ActRelIdle {
				a := a
				next = &a
				break
			}
		}
		if next == nil {
			if s.allFinished() {
				return true
			}
			if s.confirmDeadlock() {
				return false
			}
			continue
		}
		if !s.perform(*next, false) {
			return false
		}
	}
}

func (s *c12Sched) freshRequest() int {
	ch := make(chan error, 1)
	go func() {
		ch <- s.sm.DoWithShard(s.col, "s0", func(sh *shard.Shard) error {
			_, err := sh.Info()
			return err
		})
	}()
	tm := time.NewTimer(c12Watchdog)
	defer tm.Stop()
	select {
	case err := <-ch:
		if err != nil {
			s.note = "fresh request: " + err.Error()
			return 1
		}
		return 0
	case <-tm.C:
		return 2
	}
}

func (s *c12Sched) result(hang bool, entries, fresh int) c12Result {
	c := s.ctx
	c.mu.Lock()
	defer c.mu.Unlock()
	res := c12Result{Idx: s.job.Idx, Events: s.events, Hang: hang, Entries: entries, Fresh: fresh, Note: s.note}
	for _, th := range c.threads {
		o := c12Obs{Ran: th.ran, Probe: th.probe, Direx: th.direx}
		switch {
		case th.status != c12Finished:
			o.Res = 3
		case th.err == nil:
			o.Res = 0
		case strings.HasPrefix(th.err.Error(), "c12 panic: "):
			o.Res = 4
			res.Note += " thread panicked: " + th.err.Error()
		case th.kind == "req" && strings.Contains(th.err.Error(), "is already closed"):
			o.Res = 1
			s.feats["clean-error"] = true
		default:
			o.Res = 2
			res.Note += " thread error: " + th.err.Error()
		}
		res.Obs = append(res.Obs, o)
	}
	// two callbacks at once on one directory with different *shard.Shard
	for i, a := range c.threads {
		for j, b := range c.threads {
			if i >= j || a.kind != "req" || b.kind != "req" || a.d != b.d || a.arrSeq == 0 || b.arrSeq == 0 || a.ptr == nil || b.ptr == nil {
				continue
			}
			aEnd, bEnd := a.retSeq, b.retSeq
			if aEnd == 0 {
				aEnd = ^uint64(0)
			}
			if bEnd == 0 {
				bEnd = ^uint64(0)
			}
			if a.arrSeq <= bEnd && b.arrSeq <= aEnd && a.ptr != b.ptr {
				res.Dup = true
			}
		}
	}
	perDir := map[int]int{}
	for by := range c.idles {
		perDir[c.threads[by].d]++
	}
	for _, n := range perDir {
		if n >= 2 {
			s.feats["reload"] = true
		}
	}
	if hang {
		s.feats["hang"] = true
	}
	for f := range s.feats {
		res.Feats = append(res.Feats, f)
	}
	sort.Strings(res.Feats)
	return res
}

// c12RunJob runs one schedule on a fresh manager. A result with Hang (or Fresh == 2) leaves
// a manager behind that cannot be cleaned up: the caller must exit.
func c12RunJob(job *c12Job, tmpRoot string, quick bool) (c12Result, error) {
	t0 := time.Now()
	dir, err := os.MkdirTemp(tmpRoot, "job-")
	if err != nil {
		return c12Result{}, err
	}
	// every other schedule runs on a manager configured with a root directory RELATIVE to the working directory
	// (the child has changed into the scratch root): the entry of a shard and the directory its deletion looks
	// for must be named the same way whichever form the configured root has
	rootArg := dir
	if job.Idx%2 == 1 {
		if cwd, err := os.Getwd(); err == nil {
			if rel, err := filepath.Rel(cwd, dir); err == nil {
				rootArg = rel
			}
		}
	}
	plan := models.UserPlan{}
	if job.Backup {
		plan.ShardBackupFrequency, plan.ShardBackupCount = 1, 1
	}
	s := &c12Sched{
		job:   job,
		ctx:   c12NewCtx(job),
		rng:   newRng(job.Seed, 12),
		sm:    cluster.NewShardManager(cluster.ShardManagerConfig{RootDir: rootArg, ShardTimeout: 1, MaxCacheSize: -1}),
		col:   models.Collection{UserId: "u", Id: "c", UserPlan: plan},
		root:  dir,
		quick: quick,
		feats: map[string]bool{},
	}
	c12Cur.Store(s.ctx)
	ok := s.mainPhase()
	if ok {
		ok = s.endPhase()
	}
	if !ok {
		res := s.result(true, 0, 3)
		res.Millis = time.Since(t0).Milliseconds()
		return res, nil
	}
	entries := s.sm.VerifLoadedShardCount() // nothing holds shardLock now
	fresh := s.freshRequest()
	res := s.result(false, entries, fresh)
	res.Millis = time.Since(t0).Milliseconds()
	if fresh == 2 {
		return res, nil
	}
	s.ctx.close()
	// give the released cleanup routines of this manager a moment before their files go away
	for i := 0; i < 40; i++ {
		busy := false
		for _, g := range c12Dump() {
			if strings.Contains(g.text, c12CleanupFrame) && g.state != "select" {
				busy = true
			}
		}
		if !busy {
			break
		}
		time.Sleep(500 * time.Microsecond)
	}
	os.RemoveAll(dir)
	return res, nil
}

// ---------------------------------------------------------------- child

func runC12Child(rc *runCtx) error {
	b, err := os.ReadFile(filepath.Join(rc.outDir, "jobs.json"))
	if err != nil {
		return err
	}
	var jobs []c12Job
	if err := json.Unmarshal(b, &jobs); err != nil {
		return err
	}
	f, err := os.OpenFile(filepath.Join(rc.outDir, "results.jsonl"), os.O_CREATE|os.O_WRONLY|os.O_APPEND, 0644)
	if err != nil {
		return err
	}
	defer f.Close()
	tmpRoot := os.Getenv("VERIF_C12_TMP")
	if tmpRoot == "" {
		tmpRoot, err = os.MkdirTemp("", "verif-c12-")
		if err != nil {
			return err
		}
		defer os.RemoveAll(tmpRoot)
	}
	if err := os.Chdir(tmpRoot); err != nil {
		return err
	}
	cluster.VerifPauseHook = c12PauseHook
	for i := range jobs {
		res, err := c12RunJob(&jobs[i], tmpRoot, !rc.thorough())
		if err != nil {
			return err
		}
		line, err := json.Marshal(res)
		if err != nil {
			return err
		}
		if _, err := f.Write(append(line, '\n')); err != nil {
			return err
		}
		if err := f.Sync(); err != nil {
			return err
		}
		if res.Hang || res.Fresh == 2 {
			os.Exit(7) // a deadlocked manager cannot be cleaned up
		}
	}
	rc.stats["jobs"] = len(jobs)
	return nil
}

// ---------------------------------------------------------------- parent: jobs

type c12Config struct {
	nshards int
	threads []c12ThreadSpec
	label   string
}

func c12Configs() []c12Config {
	R := func(d int) c12ThreadSpec { return c12ThreadSpec{Kind: "req", D: d} }
	D := c12ThreadSpec{Kind: "del"}
	mk := func(n int, ts ...c12ThreadSpec) c12Config {
		names := make([]string, len(ts))
		for i, t := range ts {
			if t.Kind == "del" {
				names[i] = "D"
			} else {
				names[i] = "R" + strconv.Itoa(t.D)
			}
		}
		return c12Config{nshards: n, threads: ts, label: fmt.Sprintf("%dsh/%s", n, strings.Join(names, ","))}
	}
	return []c12Config{
		mk(1, R(0)),
		mk(1, R(0), R(0)),
		mk(1, R(0), D),
		mk(1, R(0), R(0), D),
		mk(1, R(0), R(0), R(0)),
		mk(1, R(0), R(0), R(0), D),
		mk(2, R(0), R(1)),
		mk(2, R(0), R(1), D),
		mk(2, R(0), R(0), R(1), D),
		mk(2, R(0), R(1), R(1)),
	}
}

type c12Guide struct {
	id  string
	evs []c12Event
}

// c12Guides: the hand-written prefixes applicable to a configuration.
func c12Guides(cfg c12Config) []c12Guide {
	C := func(n, p int) c12Event { return c12Event{N: n, P: p} }
	I := func(by, p int) c12Event { return c12Event{I: true, N: by, P: p} }
	del := -1
	for i, t := range cfg.threads {
		if t.Kind == "del" {
			del = i
		}
	}
	twoR0 := len(cfg.threads) >= 2 && cfg.threads[0] == c12ThreadSpec{Kind: "req", D: 0} && cfg.threads[1] == c12ThreadSpec{Kind: "req", D: 0}
	g1 := []c12Event{C(0, c12PStart), C(0, c12PLoaded), C(0, c12PRunning), I(0, c12PFire), I(0, c12PFired), I(0, c12PLocked), I(0, c12PClosed)}
	out := []c12Guide{
		{"G1-unload", g1},
		{"G2-stale-entry", []c12Event{C(0, c12PStart), I(0, c12PFire), I(0, c12PFired), I(0, c12PLocked), C(0, c12PLoaded), I(0, c12PClosed)}},
	}
	if del >= 0 {
		out = append(out,
			c12Guide{"G3-fire-during-delete", []c12Event{C(0, c12PStart), C(0, c12PLoaded), C(0, c12PRunning), I(0, c12PFire), I(0, c12PFired),
				C(del, c12PStart), I(0, c12PLocked), C(del, c12PDelLocked), I(0, c12PClosed)}},
			c12Guide{"G4-delete-during-request", []c12Event{C(0, c12PStart), C(0, c12PLoaded), C(del, c12PStart), C(del, c12PDelLocked), C(0, c12PRunning)}},
			c12Guide{"G6-closed-then-delete", []c12Event{C(0, c12PStart), C(0, c12PLoaded), C(0, c12PRunning), I(0, c12PFire), I(0, c12PFired), I(0, c12PLocked),
				C(del, c12PStart), C(del, c12PDelLocked), I(0, c12PClosed)}},
		)
	}
	if twoR0 {
		out = append(out,
			c12Guide{"G5-reader-behind-writer", []c12Event{C(0, c12PStart), C(0, c12PLoaded), I(0, c12PFire), I(0, c12PFired), C(1, c12PStart), C(1, c12PLoaded),
				C(0, c12PRunning), I(0, c12PLocked), I(0, c12PClosed)}},
			c12Guide{"G7-reload", append(append([]c12Event{}, g1...), C(1, c12PStart), C(1, c12PLoaded), C(1, c12PRunning))},
		)
	}
	return out
}

func c12Mix(a, b uint64) uint64 {
	x := a*0x9E3779B97F4A7C15 + b + 0x632BE59BD9B4E019
	x ^= x >> 30
	x *= 0xBF58476D1CE4E5B9
	x ^= x >> 27
	x *= 0x94D049BB133111EB
	x ^= x >> 31
	return x
}

func c12BuildJobs(rc *runCtx) []c12Job {
	total := rc.n
	if total == 0 {
		total = 400
		if rc.thorough() {
			total = 4000
		}
	}
	type variant struct {
		cfg    c12Config
		backup bool
		guides []c12Guide
		weight int
		used   int
	}
	var vs []*variant
	for _, backup := range []bool{false, true} {
		for _, cfg := range c12Configs() {
			w := 2
			for _, t := range cfg.threads {
				if t.Kind == "del" {
					w = 3
				}
			}
			vs = append(vs, &variant{cfg: cfg, backup: backup, guides: c12Guides(cfg), weight: w})
		}
	}
	var jobs []c12Job
	for len(jobs) < total {
		for _, v := range vs {
			for j := 0; j < v.weight && len(jobs) < total; j++ {
				idx := len(jobs)
				job := c12Job{Idx: idx, NShards: v.cfg.nshards, Backup: v.backup, Threads: v.cfg.threads, Seed: c12Mix(rc.seed, uint64(idx)), GuideId: "random"}
				job.Label = v.cfg.label
				if v.backup {
					job.Label += "/bk"
				} else {
					job.Label += "/nobk"
				}
				if v.used < len(v.guides) {
					job.Guide = v.guides[v.used].evs
					job.GuideId = v.guides[v.used].id
				}
				v.used++
				jobs = append(jobs, job)
			}
		}
	}
	return jobs
}

// ---------------------------------------------------------------- parent: children

func c12ReadResults(path string) (map[int]c12Result, error) {
	out := map[int]c12Result{}
	f, err := os.Open(path)
	if err != nil {
		if os.IsNotExist(err) {
			return out, nil
		}
		return nil, err
	}
	defer f.Close()
	sc := bufio.NewScanner(f)
	sc.Buffer(make([]byte, 1<<20), 1<<26)
	for sc.Scan() {
		var r c12Result
		if json.Unmarshal(sc.Bytes(), &r) != nil {
			continue // a torn last line of a child that died
		}
		out[r.Idx] = r
	}
	return out, sc.Err()
}

// c12Tail: the end of a child's stderr, for error messages.
func c12Tail(path string) string {
	b, err := os.ReadFile(path)
	if err != nil {
		return ""
	}
	if len(b) > 2000 {
		b = b[len(b)-2000:]
	}
	return "stderr: " + strings.TrimSpace(string(b))
}

func c12RunBatch(rc *runCtx, exe string, k int, batch []c12Job, tmpRoot string) (map[int]c12Result, int, error) {
	dir := filepath.Join(rc.outDir, fmt.Sprintf("child_%d", k))
	if err := os.MkdirAll(dir, 0755); err != nil {
		return nil, 0, err
	}
	os.Remove(filepath.Join(dir, "results.jsonl"))
	remaining := batch
	hangRespawns, otherFailures, spawns := 0, 0, 0
	for {
		b, err := json.Marshal(remaining)
		if err != nil {
			return nil, spawns, err
		}
		if err := os.WriteFile(filepath.Join(dir, "jobs.json"), b, 0644); err != nil {
			return nil, spawns, err
		}
		cmd := exec.Command(exe, "c12child", "-seed", strconv.FormatUint(rc.seed, 10), "-tier", rc.tier, "-out", dir, "-n", strconv.Itoa(k))
		// the children's stderr (start-up log lines of /repo, harness errors) goes to a file
		logf, err := os.OpenFile(filepath.Join(dir, "stderr.log"), os.O_CREATE|os.O_WRONLY|os.O_APPEND, 0644)
		if err != nil {
			return nil, spawns, err
		}
		cmd.Stderr = logf
		cmd.Env = append(os.Environ(), "VERIF_C12_TMP="+tmpRoot)
		runErr := cmd.Run()
		logf.Close()
		spawns++
		done, err := c12ReadResults(filepath.Join(dir, "results.jsonl"))
		if err != nil {
			return nil, spawns, err
		}
		var rest []c12Job
		for _, j := range batch {
			if _, ok := done[j.Idx]; !ok {
				rest = append(rest, j)
			}
		}
		remaining = rest
		if len(remaining) == 0 {
			return done, spawns, nil
		}
		if runErr == nil {
			return nil, spawns, fmt.Errorf("child %d ended without finishing %d jobs; %s", k, len(remaining), c12Tail(filepath.Join(dir, "stderr.log")))
		}
		var ee *exec.ExitError
		if errors.As(runErr, &ee) && ee.ExitCode() == 7 {
			hangRespawns++
			if hangRespawns > len(batch) {
				return nil, spawns, fmt.Errorf("child %d: giving up after %d respawns", k, hangRespawns)
			}
			continue
		}
		// the child died otherwise (a panic or fatal error of the code under test on a goroutine of its own, e.g. the
		// cleanup routine): that is an observation about the schedule that was running -- the first one without a
		// result -- not a failure of this harness. The rest of the batch goes to a fresh child.
		otherFailures++
		if otherFailures > len(batch) {
			return nil, spawns, fmt.Errorf("child %d: giving up after %d deaths: %v; %s", k, otherFailures, runErr, c12Tail(filepath.Join(dir, "stderr.log")))
		}
		died := remaining[0]
		line, _ := json.Marshal(c12Result{Idx: died.Idx, Died: true, Note: "child process died: " + runErr.Error() + "; " + c12Tail(filepath.Join(dir, "stderr.log"))})
		if f, err := os.OpenFile(filepath.Join(dir, "results.jsonl"), os.O_CREATE|os.O_WRONLY|os.O_APPEND, 0644); err == nil {
			f.Write(append(line, '\n'))
			f.Close()
		}
		remaining = remaining[1:]
		if len(remaining) == 0 {
			done, err := c12ReadResults(filepath.Join(dir, "results.jsonl"))
			return done, spawns, err
		}
	}
}

func c12EventBucket(n int) string {
	switch {
	case n <= 4:
		return "0-4"
	case n <= 8:
		return "5-8"
	case n <= 12:
		return "9-12"
	case n <= 16:
		return "13-16"
	default:
		return "17+"
	}
}

func c12Term(job *c12Job, r *c12Result) string {
	ts := make([]string, len(job.Threads))
	for i, t := range job.Threads {
		if t.Kind == "del" {
			ts[i] = "TDel"
		} else {
			ts[i] = "TReq " + strconv.Itoa(t.D)
		}
	}
	evs := make([]string, len(r.Events))
	for i, e := range r.Events {
		evs[i] = e.String()
	}
	obs := make([]string, len(r.Obs))
	for i, o := range r.Obs {
		obs[i] = fmt.Sprintf("mkObs %d %s %s %s", o.Res, cBool(o.Ran), cBool(o.Probe), cBool(o.Direx))
	}
	if r.Died {
		return fmt.Sprintf("CDied %s %d %s", cBool(job.Backup), job.NShards, cList(ts))
	}
	return fmt.Sprintf("CSched true %s %d %s %s %s %s %d %d %s", cBool(job.Backup), job.NShards, cList(ts), cList(evs), cList(obs),
		cBool(r.Hang), r.Entries, r.Fresh, cBool(r.Dup))
}

func runC12(rc *runCtx) error {
	jobs := c12BuildJobs(rc)
	exe, err := os.Executable()
	if err != nil {
		return err
	}
	if err := os.MkdirAll(rc.outDir, 0755); err != nil {
		return err
	}
	tmpRoot, err := os.MkdirTemp("", "verif-c12-")
	if err != nil {
		return err
	}
	defer os.RemoveAll(tmpRoot)
	P := c12Children
	if len(jobs) < P {
		P = len(jobs)
	}
	batches := make([][]c12Job, P)
	for i, j := range jobs {
		batches[i%P] = append(batches[i%P], j)
	}
	results := make([]map[int]c12Result, P)
	errs := make([]error, P)
	spawns := make([]int, P)
	var wg sync.WaitGroup
	for k := 0; k < P; k++ {
		wg.Add(1)
		go func(k int) {
			defer wg.Done()
			results[k], spawns[k], errs[k] = c12RunBatch(rc, exe, k, batches[k], tmpRoot)
		}(k)
	}
	wg.Wait()
	for _, e := range errs {
		if e != nil {
			return e
		}
	}
	all := map[int]c12Result{}
	totalSpawns := 0
	for k := range results {
		totalSpawns += spawns[k]
		for idx, r := range results[k] {
			all[idx] = r
		}
	}
	var cfs []*caseFile
	for i := 0; i < c12CaseFiles; i++ {
		cf, err := newCaseFile(filepath.Join(rc.outDir, fmt.Sprintf("cases_C12_%02d.v", i)), []string{"Model_C12", "Run_C12"}, "c12case")
		if err != nil {
			return err
		}
		cfs = append(cfs, cf)
	}
	hist := map[string]int{}
	distinct := map[uint64]struct{}{}
	var maxMs, sumMs int64
	for i := range jobs {
		job := &jobs[i]
		r, ok := all[job.Idx]
		if !ok {
			return fmt.Errorf("no result for job %d", job.Idx)
		}
		term := c12Term(job, &r)
		cfs[i%len(cfs)].Add(term)
		evs := make([]string, len(r.Events))
		for j, e := range r.Events {
			evs[j] = e.String()
		}
		h := fnv.New64a()
		h.Write([]byte(job.Label + "|" + strings.Join(evs, ";")))
		distinct[h.Sum64()] = struct{}{}
		hist["config "+job.Label]++
		hist["events "+c12EventBucket(len(r.Events))]++
		hist["guide "+job.GuideId]++
		for _, f := range r.Feats {
			hist["feature "+f]++
		}
		sumMs += r.Millis
		if r.Millis > maxMs {
			maxMs = r.Millis
		}
		if r.Died {
			hist["schedules under which the process died"]++
			rc.addSample(map[string]any{"config": job.Label, "guide": job.GuideId, "died": true, "note": r.Note})
		}
		if len(rc.samples) < 6 && (job.GuideId != "random" && i%7 == 0 || len(r.Feats) >= 3 || r.Hang) {
			rc.addSample(map[string]any{"config": job.Label, "guide": job.GuideId, "events": evs, "obs": r.Obs, "hang": r.Hang,
				"entries": r.Entries, "fresh": r.Fresh, "dup": r.Dup, "features": r.Feats})
		}
	}
	rpcTerms, err := c12RunRpc(rc, exe, hist)
	if err != nil {
		return err
	}
	for i, t := range rpcTerms {
		cfs[i%len(cfs)].Add(t)
	}
	for _, cf := range cfs {
		if err := cf.Close("bad"); err != nil {
			return err
		}
	}
	rc.stats["evaluations"] = len(jobs) + len(rpcTerms)
	rc.stats["distinct"] = len(distinct)
	rc.stats["histogram"] = hist
	rc.stats["seed"] = rc.seed
	rc.stats["children"] = P
	rc.stats["childSpawns"] = totalSpawns
	rc.stats["jobMillisMax"] = maxMs
	rc.stats["jobMillisSum"] = sumMs
	return nil
}
