package main

// C18 -- request generation: a small document tree (ordered keys, duplicates allowed, explicit
// number kinds), encoders to JSON and MessagePack that can also produce what well-behaved
// encoders cannot (NaN / Inf tokens, duplicate keys, out-of-range integers), the valid base
// requests of every endpoint of both API versions, and the structured mutation of every node of
// a base request.

import (
	"bytes"
	"encoding/binary"
	"encoding/json"
	"fmt"
	"math"
	"math/rand/v2"
	"strconv"
	"strings"
)

type jv struct {
	k    byte // n null, b bool, i int64 (compact signed in msgpack), I int64 (always 8 bytes in msgpack), u uint64 (8 bytes), U unsigned (compact, as a standard encoder writes non-negative integers), f float64, g float32, s string, a array, o object, r raw
	b    bool
	i    int64
	u    uint64
	f    float64
	s    string
	a    []*jv
	keys []string
	vals []*jv
	rawJ string // raw JSON token
	rawM []byte // raw msgpack bytes
}

func jNull() *jv           { return &jv{k: 'n'} }
func jBool(b bool) *jv     { return &jv{k: 'b', b: b} }
func jInt(i int64) *jv     { return &jv{k: 'i', i: i} }
func jInt64(i int64) *jv   { return &jv{k: 'I', i: i} }
func jUint(u uint64) *jv   { return &jv{k: 'u', u: u} }
func jUintC(u uint64) *jv  { return &jv{k: 'U', u: u} }
func jF64(f float64) *jv   { return &jv{k: 'f', f: f} }
func jF32(f float32) *jv   { return &jv{k: 'g', f: float64(f)} }
func jStr(s string) *jv    { return &jv{k: 's', s: s} }
func jArr(xs ...*jv) *jv   { return &jv{k: 'a', a: xs} }
func jRaw(j string, m []byte) *jv { return &jv{k: 'r', rawJ: j, rawM: m} }
func jObj(kv ...any) *jv {
	o := &jv{k: 'o'}
	for i := 0; i+1 < len(kv); i += 2 {
		o.keys = append(o.keys, kv[i].(string))
		o.vals = append(o.vals, kv[i+1].(*jv))
	}
	return o
}
func jVec(xs ...float32) *jv {
	a := &jv{k: 'a'}
	for _, x := range xs {
		a.a = append(a.a, jF32(x))
	}
	return a
}
func jVecN(n int, f func(i int) float32) *jv {
	a := &jv{k: 'a', a: make([]*jv, n)}
	for i := range a.a {
		a.a[i] = jF32(f(i))
	}
	return a
}
func jStrs(xs ...string) *jv {
	a := &jv{k: 'a'}
	for _, x := range xs {
		a.a = append(a.a, jStr(x))
	}
	return a
}

func (v *jv) clone() *jv {
	c := *v
	if v.a != nil {
		c.a = make([]*jv, len(v.a))
		for i, x := range v.a {
			c.a[i] = x.clone()
		}
	}
	if v.vals != nil {
		c.keys = append([]string(nil), v.keys...)
		c.vals = make([]*jv, len(v.vals))
		for i, x := range v.vals {
			c.vals[i] = x.clone()
		}
	}
	return &c
}

func (v *jv) get(key string) *jv {
	for i, k := range v.keys {
		if k == key {
			return v.vals[i]
		}
	}
	return nil
}
func (v *jv) set(key string, x *jv) *jv {
	for i, k := range v.keys {
		if k == key {
			v.vals[i] = x
			return v
		}
	}
	v.keys = append(v.keys, key)
	v.vals = append(v.vals, x)
	return v
}

// ---------------------------------------------------------------- JSON

func (v *jv) json(w *bytes.Buffer) {
	switch v.k {
	case 'n':
		w.WriteString("null")
	case 'b':
		w.WriteString(strconv.FormatBool(v.b))
	case 'i', 'I':
		w.WriteString(strconv.FormatInt(v.i, 10))
	case 'u', 'U':
		w.WriteString(strconv.FormatUint(v.u, 10))
	case 'f':
		switch {
		case math.IsNaN(v.f):
			w.WriteString("NaN")
		case math.IsInf(v.f, 1):
			w.WriteString("Infinity")
		case math.IsInf(v.f, -1):
			w.WriteString("-Infinity")
		default:
			w.WriteString(strconv.FormatFloat(v.f, 'g', -1, 64))
		}
	case 'g':
		switch {
		case math.IsNaN(v.f):
			w.WriteString("NaN")
		case math.IsInf(v.f, 1):
			w.WriteString("Infinity")
		case math.IsInf(v.f, -1):
			w.WriteString("-Infinity")
		default:
			w.WriteString(strconv.FormatFloat(v.f, 'g', -1, 32))
		}
	case 's':
		b, _ := json.Marshal(v.s)
		w.Write(b)
	case 'a':
		w.WriteByte('[')
		for i, x := range v.a {
			if i > 0 {
				w.WriteByte(',')
			}
			x.json(w)
		}
		w.WriteByte(']')
	case 'o':
		w.WriteByte('{')
		for i, k := range v.keys {
			if i > 0 {
				w.WriteByte(',')
			}
			b, _ := json.Marshal(k)
			w.Write(b)
			w.WriteByte(':')
			v.vals[i].json(w)
		}
		w.WriteByte('}')
	case 'r':
		w.WriteString(v.rawJ)
	}
}

func (v *jv) JSON() []byte {
	var w bytes.Buffer
	v.json(&w)
	return w.Bytes()
}

// ---------------------------------------------------------------- MessagePack

func mpInt(w *bytes.Buffer, i int64) {
	switch {
	case i >= 0 && i <= 127:
		w.WriteByte(byte(i))
	case i < 0 && i >= -32:
		w.WriteByte(byte(i))
	case i >= math.MinInt8 && i <= math.MaxInt8:
		w.Write([]byte{0xd0, byte(i)})
	case i >= math.MinInt16 && i <= math.MaxInt16:
		w.WriteByte(0xd1)
		binary.Write(w, binary.BigEndian, int16(i))
	case i >= math.MinInt32 && i <= math.MaxInt32:
		w.WriteByte(0xd2)
		binary.Write(w, binary.BigEndian, int32(i))
	default:
		w.WriteByte(0xd3)
		binary.Write(w, binary.BigEndian, i)
	}
}

func mpStr(w *bytes.Buffer, s string) {
	n := len(s)
	switch {
	case n < 32:
		w.WriteByte(0xa0 | byte(n))
	case n < 256:
		w.Write([]byte{0xd9, byte(n)})
	case n < 65536:
		w.WriteByte(0xda)
		binary.Write(w, binary.BigEndian, uint16(n))
	default:
		w.WriteByte(0xdb)
		binary.Write(w, binary.BigEndian, uint32(n))
	}
	w.WriteString(s)
}

func mpLen(w *bytes.Buffer, n int, fix byte, c16, c32 byte) {
	switch {
	case n < 16:
		w.WriteByte(fix | byte(n))
	case n < 65536:
		w.WriteByte(c16)
		binary.Write(w, binary.BigEndian, uint16(n))
	default:
		w.WriteByte(c32)
		binary.Write(w, binary.BigEndian, uint32(n))
	}
}

func (v *jv) msgpack(w *bytes.Buffer) {
	switch v.k {
	case 'n':
		w.WriteByte(0xc0)
	case 'b':
		if v.b {
			w.WriteByte(0xc3)
		} else {
			w.WriteByte(0xc2)
		}
	case 'i':
		mpInt(w, v.i)
	case 'I':
		w.WriteByte(0xd3)
		binary.Write(w, binary.BigEndian, v.i)
	case 'u':
		w.WriteByte(0xcf)
		binary.Write(w, binary.BigEndian, v.u)
	case 'U':
		switch {
		case v.u <= 127:
			w.WriteByte(byte(v.u))
		case v.u <= math.MaxUint8:
			w.Write([]byte{0xcc, byte(v.u)})
		case v.u <= math.MaxUint16:
			w.WriteByte(0xcd)
			binary.Write(w, binary.BigEndian, uint16(v.u))
		case v.u <= math.MaxUint32:
			w.WriteByte(0xce)
			binary.Write(w, binary.BigEndian, uint32(v.u))
		default:
			w.WriteByte(0xcf)
			binary.Write(w, binary.BigEndian, v.u)
		}
	case 'f':
		w.WriteByte(0xcb)
		binary.Write(w, binary.BigEndian, math.Float64bits(v.f))
	case 'g':
		w.WriteByte(0xca)
		binary.Write(w, binary.BigEndian, math.Float32bits(float32(v.f)))
	case 's':
		mpStr(w, v.s)
	case 'a':
		mpLen(w, len(v.a), 0x90, 0xdc, 0xdd)
		for _, x := range v.a {
			x.msgpack(w)
		}
	case 'o':
		mpLen(w, len(v.keys), 0x80, 0xde, 0xdf)
		for i, k := range v.keys {
			mpStr(w, k)
			v.vals[i].msgpack(w)
		}
	case 'r':
		w.Write(v.rawM)
	}
}

func (v *jv) Msgpack() []byte {
	var w bytes.Buffer
	v.msgpack(&w)
	return w.Bytes()
}

// ---------------------------------------------------------------- mutation

type mutation struct {
	name      string
	tree      *jv
	nonfinite bool // injects NaN / Inf / a huge number
	msgpack   bool // only MessagePack can carry it
	essential bool // kept even when the quick tier samples
}

var validOps = []string{"near", "containsAll", "containsAny", "equals", "notEquals", "startsWith", "greaterThan", "greaterThanOrEquals", "lessThan", "lessThanOrEquals", "inRange"}

// replaceAt returns a copy of root in which the node reached by following the same indices as ref is replaced
// (repl == nil: removed from its parent).
func replaceAt(root *jv, trail []int, repl *jv) *jv {
	if len(trail) == 0 {
		return repl
	}
	c := *root
	i := trail[0]
	switch root.k {
	case 'a':
		c.a = append([]*jv(nil), root.a...)
		if len(trail) == 1 && repl == nil {
			c.a = append(c.a[:i], c.a[i+1:]...)
		} else {
			c.a[i] = replaceAt(root.a[i], trail[1:], repl)
		}
	case 'o':
		c.keys = append([]string(nil), root.keys...)
		c.vals = append([]*jv(nil), root.vals...)
		if len(trail) == 1 && repl == nil {
			c.keys = append(c.keys[:i], c.keys[i+1:]...)
			c.vals = append(c.vals[:i], c.vals[i+1:]...)
		} else {
			c.vals[i] = replaceAt(root.vals[i], trail[1:], repl)
		}
	}
	return &c
}

type trailRef struct {
	path  string
	trail []int
	node  *jv
	key   string // key under which the node sits in its parent object ("" in arrays / root)
}

func walkTrails(root *jv, path string, trail []int, key string, out *[]trailRef) {
	*out = append(*out, trailRef{path, append([]int(nil), trail...), root, key})
	switch root.k {
	case 'a':
		lim := len(root.a)
		if lim > 2 && (root.a[0].k == 'g' || root.a[0].k == 'f') {
			lim = 1
		}
		for i := 0; i < lim; i++ {
			walkTrails(root.a[i], fmt.Sprintf("%s[%d]", path, i), append(trail, i), "", out)
		}
	case 'o':
		for i, k := range root.keys {
			walkTrails(root.vals[i], path+"."+k, append(trail, i), k, out)
		}
	}
}

func nestAnd(q *jv, levels int) *jv {
	for i := 0; i < levels; i++ {
		q = jObj("property", jStr("_and"), "_and", jArr(q))
	}
	return q
}

// mutationsOf enumerates the structured mutations of a request body.
func mutationsOf(root *jv) []mutation {
	var refs []trailRef
	walkTrails(root, "$", nil, "", &refs)
	var out []mutation
	add := func(r trailRef, name string, repl *jv, ess bool, nonfin, mp bool) {
		out = append(out, mutation{name: r.path + ":" + name, tree: replaceAt(root, r.trail, repl), essential: ess, nonfinite: nonfin, msgpack: mp})
	}
	for _, r := range refs {
		n := r.node
		if len(r.trail) > 0 {
			add(r, "missing", nil, true, false, false)
		}
		add(r, "null", jNull(), true, false, false)
		// wrong types
		if n.k != 'b' {
			add(r, "bool", jBool(true), false, false, false)
		}
		if n.k != 's' {
			add(r, "string", jStr("str"), true, false, false)
		}
		if n.k != 'a' {
			add(r, "array", jArr(), false, false, false)
			add(r, "wrapped-in-array", jArr(n), false, false, false)
		}
		if n.k != 'o' {
			add(r, "object", jObj(), n.k == 'a', false, false)
			add(r, "wrapped-in-object", jObj("x", n), false, false, false)
		}
		if n.k != 'i' && n.k != 'I' && n.k != 'f' && n.k != 'g' && n.k != 'u' {
			add(r, "number", jInt(7), n.k == 's', false, false)
		}
		switch n.k {
		case 'i', 'I', 'u', 'f', 'g':
			for _, x := range []int64{0, 1, -1, 2, 24, 25, 26, 31, 32, 64, 65, 75, 76, 100, 101, 255, 256, 257, 999, 1000, 10000, 10001, 50000, 50001, 4096, 4097, math.MaxInt32, math.MaxInt64, math.MinInt64} {
				add(r, fmt.Sprintf("int=%d", x), jInt(x), x == 0 || x == -1 || x == math.MaxInt64, x == math.MaxInt64 || x == math.MinInt64, false)
			}
			add(r, "uint=2^63", jUint(1<<63), true, true, false)
			add(r, "int=-2^63-1", jRaw("-9223372036854775809", (&jv{k: 'f', f: -9223372036854775809}).Msgpack()), true, true, false)
			add(r, "float=1.5", jF64(1.5), true, false, false)
			add(r, "float=1e308", jF64(1e308), true, true, false)
			add(r, "float=-1e308", jF64(-1e308), false, true, false)
			add(r, "float=5e-324", jF64(5e-324), false, false, false)
			add(r, "float32=3e38", jF32(3e38), false, true, false)
			add(r, "NaN", jF64(math.NaN()), true, true, true)
			add(r, "NaN32", jF32(float32(math.NaN())), true, true, true)
			add(r, "+Inf", jF64(math.Inf(1)), true, true, true)
			add(r, "-Inf", jF64(math.Inf(-1)), false, true, true)
			add(r, "json-1e999", jRaw("1e999", (&jv{k: 'f', f: math.Inf(1)}).Msgpack()), false, true, false)
		case 's':
			add(r, "empty", jStr(""), true, false, false)
			add(r, "long", jStr(strings.Repeat("x", 3000)), true, false, false)
			add(r, "nul", jStr("a\x00b"), false, false, false)
			add(r, "unicode", jStr("é世界‮"), false, false, false)
			add(r, "bad-utf8", jRaw(`"\ud800"`, []byte{0xa2, 0xff, 0xfe}), false, false, false)
			add(r, "upper", jStr(strings.ToUpper(n.s)), false, false, false)
			for _, x := range []string{"_id", "_and", "_or", "a.b", ".", "*", "vec", "size", "nested.v", "nested"} {
				add(r, "name="+x, jStr(x), x == "_id" || x == "_and", false, false)
			}
			if r.key == "operator" || r.key == "type" || r.key == "distanceMetric" {
				for _, x := range validOps {
					add(r, "op="+x, jStr(x), false, false, false)
				}
				for _, x := range []string{"vectorFlat", "vectorVamana", "text", "string", "integer", "float", "stringArray", "none", "binary", "product", "euclidean", "cosine", "dot", "hamming", "jaccard", "haversine"} {
					add(r, "enum="+x, jStr(x), false, false, false)
				}
			}
			add(r, "uuid-other", jStr("00000000-0000-4000-8000-00000000ff09"), false, false, false)
			add(r, "uuid-bad", jStr("00000000-0000-4000-8000-00000000ff0"), r.key == "_id", false, false)
			add(r, "uuid-braces", jStr("{00000000-0000-4000-8000-00000000ff09}"), false, false, false)
		case 'a':
			add(r, "empty", jArr(), true, false, false)
			if len(n.a) > 0 {
				add(r, "first-only", jArr(n.a[0]), true, false, false)
				add(r, "doubled", jArr(append(append([]*jv(nil), n.a...), n.a...)...), false, false, false)
				add(r, "plus-one", jArr(append(append([]*jv(nil), n.a...), n.a[0])...), true, false, false)
				add(r, "plus-null", jArr(append(append([]*jv(nil), n.a...), jNull())...), false, false, false)
				add(r, "plus-string", jArr(append(append([]*jv(nil), n.a...), jStr("x"))...), true, false, false)
				add(r, "plus-object", jArr(append(append([]*jv(nil), n.a...), jObj())...), false, false, false)
				if len(n.a) > 1 {
					add(r, "minus-one", jArr(n.a[:len(n.a)-1]...), true, false, false)
				}
				if n.a[0].k == 'g' || n.a[0].k == 'f' || n.a[0].k == 'i' {
					for _, l := range []int{1, 2, 3, 4, 5, 1999, 2000, 2001, 4095, 4096, 4097} {
						add(r, fmt.Sprintf("len=%d", l), jVecN(l, func(i int) float32 { return 0.5 }), l == 4096 || l == 4097 || l == 1, false, false)
					}
					add(r, "ints", func() *jv {
						a := &jv{k: 'a'}
						for i := range n.a {
							a.a = append(a.a, jInt(int64(i+1)))
						}
						return a
					}(), false, false, false)
					add(r, "with-NaN", jArr(append([]*jv{jF32(float32(math.NaN()))}, n.a[1:]...)...), true, true, true)
					add(r, "with-Inf", jArr(append([]*jv{jF64(math.Inf(1))}, n.a[1:]...)...), false, true, true)
					add(r, "with-1e308", jArr(append([]*jv{jF64(1e308)}, n.a[1:]...)...), true, true, false)
					add(r, "with-1e30", jArr(append([]*jv{jF64(1e30)}, n.a[1:]...)...), false, true, false)
					add(r, "f64", func() *jv {
						a := &jv{k: 'a'}
						for _, x := range n.a {
							a.a = append(a.a, jF64(x.f))
						}
						return a
					}(), false, false, false)
				}
				if n.a[0].k == 'o' && len(n.a) >= 1 {
					for _, l := range []int{99, 100, 101} {
						xs := make([]*jv, l)
						for i := range xs {
							xs[i] = n.a[i%len(n.a)]
						}
						add(r, fmt.Sprintf("count=%d", l), jArr(xs...), l >= 100, false, false)
					}
				}
			}
		case 'o':
			c := n.clone()
			c.keys = append(c.keys, "zzzExtra")
			c.vals = append(c.vals, jInt(1))
			add(r, "extra-field", c, true, false, false)
			if len(n.keys) > 0 {
				// duplicate key: the mutated value first and the original last, and the other way round
				d1 := n.clone()
				d1.keys = append([]string{n.keys[0]}, d1.keys...)
				d1.vals = append([]*jv{jNull()}, d1.vals...)
				add(r, "dup-key-first", d1, true, false, false)
				d2 := n.clone()
				d2.keys = append(d2.keys, n.keys[0])
				d2.vals = append(d2.vals, jStr("dup"))
				add(r, "dup-key-last", d2, true, false, false)
				// key case: encoding/json matches keys case-insensitively, msgpack does not
				d3 := n.clone()
				d3.keys[0] = strings.ToUpper(d3.keys[0])
				add(r, "key-upper", d3, false, false, false)
			}
			if n.get("property") != nil {
				add(r, "and-200", nestAnd(n, 200), true, false, false)
				add(r, "or-wrap", jObj("property", jStr("_or"), "_or", jArr(n, n)), false, false, false)
				add(r, "and-empty", jObj("property", jStr("_and"), "_and", jArr()), true, false, false)
				add(r, "and-prop-or-list", jObj("property", jStr("_and"), "_or", jArr(n)), true, false, false)
				add(r, "all-options", func() *jv {
					c := n.clone()
					c.set("vectorFlat", jObj("vector", jVec(1, 2, 3), "operator", jStr("near"), "limit", jInt(5)))
					c.set("vectorVamana", jObj("vector", jVec(1, 2, 3, 4), "operator", jStr("near"), "searchSize", jInt(75), "limit", jInt(5)))
					c.set("text", jObj("value", jStr("alpha"), "operator", jStr("containsAny"), "limit", jInt(5)))
					c.set("string", jObj("value", jStr("c1"), "operator", jStr("equals")))
					c.set("integer", jObj("value", jInt(3), "operator", jStr("equals")))
					c.set("float", jObj("value", jF64(3), "operator", jStr("equals")))
					c.set("stringArray", jObj("value", jStrs("l1"), "operator", jStr("containsAny")))
					return c
				}(), true, false, false)
			}
		}
	}
	return out
}

// sampleMutations keeps the essential mutations and a seeded sample of the others.
func sampleMutations(ms []mutation, budget int, r *rand.Rand) []mutation {
	if budget <= 0 || len(ms) <= budget {
		return ms
	}
	var ess, rest []mutation
	for _, m := range ms {
		if m.essential {
			ess = append(ess, m)
		} else {
			rest = append(rest, m)
		}
	}
	r.Shuffle(len(rest), func(i, j int) { rest[i], rest[j] = rest[j], rest[i] })
	if len(ess) > budget {
		r.Shuffle(len(ess), func(i, j int) { ess[i], ess[j] = ess[j], ess[i] })
		return ess[:budget]
	}
	return append(ess, rest[:budget-len(ess)]...)
}

// ---------------------------------------------------------------- byte-level mutation

func mutateBytes(b []byte, r *rand.Rand) []byte {
	c := append([]byte(nil), b...)
	n := 1 + r.IntN(4)
	for k := 0; k < n; k++ {
		if len(c) == 0 {
			c = append(c, byte(r.IntN(256)))
			continue
		}
		p := r.IntN(len(c))
		switch r.IntN(6) {
		case 0:
			c[p] ^= 1 << uint(r.IntN(8))
		case 1:
			c[p] = byte(r.IntN(256))
		case 2:
			c = append(c[:p], c[p+1:]...)
		case 3:
			c = append(c[:p], append([]byte{byte(r.IntN(256))}, c[p:]...)...)
		case 4:
			c = c[:p] // truncate
		case 5:
			q := r.IntN(len(c))
			if p > q {
				p, q = q, p
			}
			c = append(c[:q], append(append([]byte(nil), c[p:q]...), c[q:]...)...) // duplicate a slice
		}
	}
	return c
}

func randomBytes(r *rand.Rand) []byte {
	var n int
	switch r.IntN(5) {
	case 0:
		n = r.IntN(4)
	case 1:
		n = r.IntN(16)
	case 2:
		n = r.IntN(64)
	default:
		n = r.IntN(300)
	}
	b := make([]byte, n)
	for i := range b {
		switch r.IntN(4) {
		case 0: // bytes that open JSON / msgpack containers
			b[i] = []byte{'{', '[', '"', ':', ',', '}', ']', 0x81, 0x82, 0x91, 0x92, 0xa1, 0xc0, 0xca, 0xcb, 0xd3, 0xdc, 0xde}[r.IntN(18)]
		default:
			b[i] = byte(r.IntN(256))
		}
	}
	return b
}
