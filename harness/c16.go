package main

// C16 -- tenant isolation. One in-process cluster node behind the real HTTP
// handler stack (Recover + AppHeaderMiddleware + v1 and v2 handlers, as
// httpapi.setupRouter mounts them), two users from an adversarial pool of id
// pairs, seeded random interleaved histories of collection and point
// requests. After every step BOTH users' complete observable views are taken
// (each with that user's own X-User-Id header) together with the directory
// tree below userCollections/<id>. Judged by coq/Run_C16.v.

import (
	"bytes"
	"encoding/json"
	"fmt"
	"hash/fnv"
	"io/fs"
	"math/rand/v2"
	"net/http"
	"net/http/httptest"
	"net/url"
	"os"
	"path/filepath"
	"sort"
	"strings"

	"github.com/google/uuid"
	"github.com/semafind/semadb/cluster"
	"github.com/semafind/semadb/httpapi/middleware"
	httpv1 "github.com/semafind/semadb/httpapi/v1"
	httpv2 "github.com/semafind/semadb/httpapi/v2"
	"github.com/semafind/semadb/models"
)

func init() { subcmds["c16"] = runC16 }

// ---------------------------------------------------------------- environment

type c16Env struct {
	node    *cluster.ClusterNode
	handler http.Handler
	root    string
	idPool  []string // every point id used in the scenario (both users)
}

type c16User struct {
	id        string
	plan      string
	maxc      int
	forbidden bool
}

func c16Forbidden(id string) bool {
	return id == "" || id == "." || id == ".." || strings.ContainsAny(id, "/\\")
}

func c16NewEnv(dir string, maxA, maxB int) (*c16Env, error) {
	node, err := startNode(cluster.ClusterNodeConfig{
		RootDir:            dir,
		RpcHost:            "localhost",
		RpcPort:            21600,
		RpcTimeout:         5,
		RpcRetries:         1,
		Servers:            []string{"localhost:21600"},
		ShardManager:       cluster.ShardManagerConfig{RootDir: filepath.Join(dir, "shard-root"), ShardTimeout: 300, MaxCacheSize: -1}, // not the node root
		MaxShardSize:       1 << 30,
		MaxShardPointCount: 3,
		MaxSearchLimit:     100,
	})
	if err != nil {
		return nil, err
	}
	plans := map[string]models.UserPlan{
		"PA": {Name: "PA", MaxCollections: maxA, MaxCollectionPointCount: 1000, MaxPointSize: 1000},
		"PB": {Name: "PB", MaxCollections: maxB, MaxCollectionPointCount: 1000, MaxPointSize: 1000},
	}
	// the same stack as httpapi.setupRouter (white list, proxy secret and metrics are pass-through when unset)
	mux := http.NewServeMux()
	mux.Handle("/v1/", http.StripPrefix("/v1", httpv1.SetupV1Handlers(node)))
	mux.Handle("/v2/", http.StripPrefix("/v2", httpv2.SetupV2Handlers(node)))
	var h http.Handler = mux
	h = middleware.AppHeaderMiddleware(plans, h)
	h = middleware.Recover(h)
	return &c16Env{node: node, handler: h, root: dir}, nil
}

func (e *c16Env) close() {
	e.node.Close()
}

// do sends one request with the user's own headers; the body is JSON.
func (e *c16Env) do(u *c16User, method, path string, body any) (int, map[string]any) {
	var rd *bytes.Reader
	if body != nil {
		b, _ := json.Marshal(body)
		rd = bytes.NewReader(b)
	} else {
		rd = bytes.NewReader(nil)
	}
	req, err := http.NewRequest(method, path, rd)
	if err != nil {
		return -1, nil
	}
	req.Header.Set("Content-Type", "application/json")
	if u.id != "" {
		req.Header["X-User-Id"] = []string{u.id}
	}
	req.Header.Set("X-Plan-Id", u.plan)
	rec := httptest.NewRecorder()
	e.handler.ServeHTTP(rec, req)
	var out map[string]any
	if rec.Body.Len() > 0 {
		_ = json.Unmarshal(rec.Body.Bytes(), &out)
	}
	return rec.Code, out
}

func c16Class(code int) uint64 {
	switch code {
	case 200, 202:
		return 0
	case 409:
		return 1
	case 403:
		return 2
	case 404:
		return 3
	case 400:
		return 4
	}
	return 9
}

func colPath(api int, name string, suffix string) string {
	return fmt.Sprintf("/v%d/collections/%s%s", api, url.PathEscape(name), suffix)
}

// ---------------------------------------------------------------- views

type c16Shard struct {
	id    string
	count uint64
}
type c16Point struct {
	id     uuid.UUID
	digest uint64
}
type c16View struct {
	codes  []uint64
	cols   []string
	info   map[string][]c16Shard
	points map[string][]c16Point
	dirs   []string
}

func c16Digest(doc map[string]any) uint64 {
	d := map[string]any{}
	for k, v := range doc {
		if k == "_id" || k == "_distance" || k == "_score" || k == "_hybridScore" {
			continue
		}
		d[k] = v
	}
	b, _ := json.Marshal(d) // keys sorted
	h := fnv.New64a()
	h.Write(b)
	return h.Sum64()
}

func (e *c16Env) view(u *c16User) *c16View {
	v := &c16View{info: map[string][]c16Shard{}, points: map[string][]c16Point{}}
	if u.forbidden {
		return v
	}
	code, resp := e.do(u, "GET", "/v2/collections", nil)
	v.codes = append(v.codes, uint64(code))
	if items, ok := resp["collections"].([]any); ok {
		for _, it := range items {
			if m, ok := it.(map[string]any); ok {
				if id, ok := m["id"].(string); ok {
					v.cols = append(v.cols, id)
				}
			}
		}
	}
	sort.Strings(v.cols)
	for _, c := range v.cols {
		code, resp := e.do(u, "GET", colPath(2, c, ""), nil)
		v.codes = append(v.codes, uint64(code))
		var shards []c16Shard
		if items, ok := resp["shards"].([]any); ok {
			for _, it := range items {
				if m, ok := it.(map[string]any); ok {
					id, _ := m["id"].(string)
					pc, _ := m["pointCount"].(float64)
					shards = append(shards, c16Shard{id, uint64(pc)})
				}
			}
		}
		sort.Slice(shards, func(i, j int) bool { return shards[i].id < shards[j].id })
		v.info[c] = shards
		// every stored point: the _id query over every id used in the scenario (exact, no graph search)
		var pts []c16Point
		for lo := 0; lo < len(e.idPool); lo += 90 {
			hi := min(lo+90, len(e.idPool))
			body := map[string]any{
				"query":  map[string]any{"property": "_id", "stringArray": map[string]any{"value": e.idPool[lo:hi], "operator": "containsAny"}},
				"select": []string{"*"},
				"limit":  100,
			}
			code, resp := e.do(u, "POST", colPath(2, c, "/points/search"), body)
			v.codes = append(v.codes, uint64(code))
			if items, ok := resp["points"].([]any); ok {
				for _, it := range items {
					if m, ok := it.(map[string]any); ok {
						ids, _ := m["_id"].(string)
						id, err := uuid.Parse(ids)
						if err != nil {
							continue
						}
						pts = append(pts, c16Point{id, c16Digest(m)})
					}
				}
			}
		}
		// (the same id can live in two shards of one collection: order by id, then digest)
		sort.Slice(pts, func(i, j int) bool {
			if c := bytes.Compare(pts[i].id[:], pts[j].id[:]); c != 0 {
				return c < 0
			}
			return pts[i].digest < pts[j].digest
		})
		v.points[c] = pts
	}
	// the directory tree below userCollections/<id>
	base := filepath.Join(e.root, "shard-root", cluster.USERCOLSDIR, u.id)
	_ = filepath.WalkDir(base, func(p string, d fs.DirEntry, err error) error {
		if err != nil {
			return nil
		}
		rel, rerr := filepath.Rel(base, p)
		if rerr != nil || rel == "." {
			return nil
		}
		if d.IsDir() {
			rel += "/"
		}
		v.dirs = append(v.dirs, rel)
		return nil
	})
	sort.Strings(v.dirs)
	return v
}

func (v *c16View) coq() string {
	codes := make([]string, len(v.codes))
	for i, c := range v.codes {
		codes[i] = cN(c)
	}
	cols := make([]string, len(v.cols))
	info := make([]string, len(v.cols))
	pts := make([]string, len(v.cols))
	for i, c := range v.cols {
		cols[i] = pS(c)
		sh := make([]string, len(v.info[c]))
		for j, s := range v.info[c] {
			sh[j] = fmt.Sprintf("(%s, %s)", pS(s.id), pN(s.count))
		}
		info[i] = fmt.Sprintf("(%s, %s)", pS(c), pList(sh))
		ps := make([]string, len(v.points[c]))
		for j, p := range v.points[c] {
			ps[j] = fmt.Sprintf("(%s, %s)", pB(p.id[:]), pN(p.digest))
		}
		pts[i] = fmt.Sprintf("(%s, %s)", pS(c), pList(ps))
	}
	dirs := make([]string, len(v.dirs))
	for i, d := range v.dirs {
		dirs[i] = pS(d)
	}
	return fmt.Sprintf("mkv %s %s %s %s %s", pList(codes), pList(cols), pList(info), pList(pts), pList(dirs))
}

// brief is a one-line rendering for VERIF_C16_TRACE
func (v *c16View) brief() string {
	var sb strings.Builder
	fmt.Fprintf(&sb, "codes=%v", v.codes)
	for _, c := range v.cols {
		fmt.Fprintf(&sb, " %s{shards=%v points=", c, v.info[c])
		for _, p := range v.points[c] {
			fmt.Fprintf(&sb, "%x:%x,", p.id[:2], p.digest&0xffff)
		}
		sb.WriteString("}")
	}
	fmt.Fprintf(&sb, " dirs=%d", len(v.dirs))
	return sb.String()
}

func (v *c16View) pointCount() int {
	n := 0
	for _, p := range v.points {
		n += len(p)
	}
	return n
}

// ---------------------------------------------------------------- scenarios

type c16Pair struct {
	a, b string
	kind string
}

func c16Pairs() []c16Pair {
	long := strings.Repeat("x", 199)
	return []c16Pair{
		{"a", "ab", "prefix"}, {"ab", "a", "prefix"}, {"u", "uc", "prefix"}, {"uc", "u", "prefix"},
		{"alice", "alice2", "prefix"}, {"alice2", "alice", "prefix"},
		{"abc", "col1", "id equals collection name"}, {"col1", "abc", "id equals collection name"},
		{"userCollections", "bob", "id equals collection name"},
		{"ålice", "ålice2", "unicode"}, {"用", "用户", "unicode"}, {"алиса", "алис", "unicode"}, {"é", "é", "unicode"},
		{long + "a", long + "b", "long"}, {long, long + "z", "long"},
		{"a b", "a", "space"}, {"a ", "a", "space"}, {" a", "a", "space"},
		{"a%2Fb", "a", "percent"}, {"a%2F", "a", "percent"}, {"a", "a%2Fabc", "percent"},
		{"a.b", "a", "dots"}, {"a..b", "a..", "dots"}, {".a", "a", "dots"}, {"...", "abc", "dots"}, {"..a", ".a", "dots"},
		{"a", "A", "case"}, {"bob", "eve", "plain"},
		// ids that are patterns for a glob / regular expression / printf, matching the other id
		{"*", "alice", "pattern"}, {"a?ice", "alice", "pattern"}, {"team[a-z]", "teamb", "pattern"}, {"al*", "alice", "pattern"},
		{"alice", "a.ice", "pattern"}, {"%s", "bob", "pattern"}, {"bob", "b{o,x}b", "pattern"},
		// one id continues the other after a character that could serve as a separator in a composed key
		{"acme", "acme:eu", "separator"}, {"acme:eu", "acme", "separator"}, {"org", "org|team", "separator"}, {"org", "org#1", "separator"},
		{"u", "u;v", "separator"}, {"u,v", "u", "separator"}, {"a=b", "a", "separator"}, {"t", "t~x", "separator"},
		{"k", "k@host", "separator"}, {"p+q", "p", "separator"},
	}
}

func c16ForbiddenPairs() []c16Pair {
	return []c16Pair{
		{".", "bob", "forbidden ."}, {"..", "bob", "forbidden .."}, {"a/b", "a", "forbidden /"},
		{"a\\b", "a", "forbidden \\"}, {"../bob", "bob", "forbidden /"}, {"", "bob", "forbidden empty"},
		{"bob/", "bob", "forbidden /"}, {"/", "bob", "forbidden /"},
	}
}

type c16Step struct {
	who     int
	api     int
	kind    string // create list get delete insert update delpoints search
	name    string
	class   uint64
	retCols []string
	retPts  []uuid.UUID
	va, vb  string // aux names of the views after the step
}

type c16Scenario struct {
	env    *c16Env
	r      *rand.Rand
	users  [2]*c16User
	views  [2]*c16View
	ids    [2][]uuid.UUID // ids each user draws from (the last three are shared)
	names  []string       // collection names both users like
	serial int
}

func c16Uuid(r *rand.Rand) uuid.UUID {
	var u uuid.UUID
	for i := range u {
		u[i] = byte(r.IntN(256))
	}
	u[6] = (u[6] & 0x0f) | 0x40
	u[8] = (u[8] & 0x3f) | 0x80
	return u
}

func (s *c16Scenario) pickName(w int, forCreate bool, api int) string {
	r := s.r
	own := s.views[w].cols
	other := s.views[1-w].cols
	otherId := s.users[1-w].id
	if forCreate {
		switch x := r.IntN(20); {
		case x == 0:
			return "ab" // too short: 400
		case x == 1:
			return "Abc" // valid for v1 only
		case x == 2 && len(otherId) >= 3 && len(otherId) <= 16:
			return otherId // the other user's id as a collection name (valid or not)
		case x == 3:
			return "userCollections" // valid for v1 only
		case x == 4:
			return "a/b" // refused: 400
		}
		return s.names[r.IntN(len(s.names))]
	}
	switch x := r.IntN(20); {
	case x < 12 && len(own) > 0:
		return own[r.IntN(len(own))]
	case x < 15 && len(other) > 0:
		return other[r.IntN(len(other))]
	case x == 15:
		return "../" + otherId
	case x == 16 && len(other) > 0:
		return "../" + otherId + "/" + other[r.IntN(len(other))]
	case x == 17 && otherId != "" && otherId != "." && otherId != ".." && otherId != "/":
		// (a lone "", ".", ".." segment is redirected by ServeMux, a lone %2F never matches {collectionId})
		return otherId
	case x == 18 && len(other) > 0:
		return otherId + "/" + other[r.IntN(len(other))]
	case x == 19 && len(other) > 0 && strings.HasPrefix(otherId, s.users[w].id) && len(otherId) > len(s.users[w].id)+1:
		// the other id continues ours after one character: what is left of it, that character again, her collection
		rest := otherId[len(s.users[w].id):]
		return rest[1:] + rest[:1] + other[r.IntN(len(other))]
	}
	return s.names[r.IntN(len(s.names))]
}

func (s *c16Scenario) doc(w int, api int, id uuid.UUID) map[string]any {
	s.serial++
	vec := []float32{float32(s.r.IntN(10)), float32(s.r.IntN(10))}
	meta := map[string]any{"owner": []string{"A", "B"}[w], "n": s.serial}
	if api == 1 {
		return map[string]any{"id": id.String(), "vector": vec, "metadata": meta}
	}
	return map[string]any{"_id": id.String(), "vector": vec, "metadata": meta}
}

func (s *c16Scenario) existing(w int, name string) []uuid.UUID {
	var out []uuid.UUID
	for _, p := range s.views[w].points[name] {
		out = append(out, p.id)
	}
	return out
}

// one request of user w; returns the step record (views filled by the caller)
func (s *c16Scenario) request(w int, kind string, api int, name string) c16Step {
	e, u, r := s.env, s.users[w], s.r
	st := c16Step{who: w, api: api, kind: kind, name: name}
	var code int
	var resp map[string]any
	foreignDistance := false
	switch kind {
	case "create":
		if api == 1 {
			code, resp = e.do(u, "POST", "/v1/collections", map[string]any{"id": name, "vectorSize": 2, "distanceMetric": "euclidean"})
		} else {
			code, resp = e.do(u, "POST", "/v2/collections", map[string]any{"id": name, "indexSchema": map[string]any{
				"vector": map[string]any{"type": "vectorVamana", "vectorVamana": map[string]any{
					"vectorSize": 2, "distanceMetric": "euclidean", "searchSize": 75, "degreeBound": 64, "alpha": 1.2}}}})
		}
	case "list":
		code, resp = e.do(u, "GET", fmt.Sprintf("/v%d/collections", api), nil)
		if items, ok := resp["collections"].([]any); ok {
			for _, it := range items {
				if m, ok := it.(map[string]any); ok {
					if id, ok := m["id"].(string); ok {
						st.retCols = append(st.retCols, id)
					}
				}
			}
		}
	case "get":
		code, resp = e.do(u, "GET", colPath(api, name, ""), nil)
		if id, ok := resp["id"].(string); ok {
			st.retCols = append(st.retCols, id)
		}
	case "delete":
		code, resp = e.do(u, "DELETE", colPath(api, name, ""), nil)
	case "insert":
		have := map[uuid.UUID]bool{}
		for _, id := range s.existing(w, name) {
			have[id] = true
		}
		var fresh []uuid.UUID
		for _, id := range s.ids[w] {
			if !have[id] {
				fresh = append(fresh, id)
			}
		}
		// never an id the collection already holds: with several shards per collection semadb
		// stores it a second time in another shard, and a later delete of that id panics in
		// curateFailedPoints (negative capacity; recovered, 500) -- outside C16
		if len(fresh) == 0 {
			id := c16Uuid(r)
			s.ids[w] = append(s.ids[w], id)
			e.idPool = append(e.idPool, id.String())
			fresh = append(fresh, id)
		}
		var pts []any
		r.Shuffle(len(fresh), func(i, j int) { fresh[i], fresh[j] = fresh[j], fresh[i] })
		for _, id := range fresh[:min(len(fresh), 1+r.IntN(4))] {
			pts = append(pts, s.doc(w, api, id))
		}
		code, resp = e.do(u, "POST", colPath(api, name, "/points"), map[string]any{"points": pts})
	case "update":
		ex := s.existing(w, name)
		id := s.ids[w][r.IntN(len(s.ids[w]))]
		if len(ex) > 0 && r.IntN(5) > 0 {
			id = ex[r.IntN(len(ex))]
		}
		code, resp = e.do(u, "PUT", colPath(api, name, "/points"), map[string]any{"points": []any{s.doc(w, api, id)}})
	case "delpoints":
		ex := s.existing(w, name)
		id := s.ids[w][r.IntN(len(s.ids[w]))]
		if len(ex) > 0 && r.IntN(5) > 0 {
			id = ex[r.IntN(len(ex))]
		}
		code, resp = e.do(u, "DELETE", colPath(api, name, "/points"), map[string]any{"ids": []string{id.String()}})
	case "search":
		key := "_id"
		if api == 1 {
			code, resp = e.do(u, "POST", colPath(1, name, "/points/search"), map[string]any{"vector": []float32{float32(r.IntN(10)), float32(r.IntN(10))}, "limit": 75})
			key = "id"
		} else if r.IntN(2) == 0 {
			// ask for every id of the scenario, the other user's included
			code, resp = e.do(u, "POST", colPath(2, name, "/points/search"), map[string]any{
				"query":  map[string]any{"property": "_id", "stringArray": map[string]any{"value": e.idPool[:min(90, len(e.idPool))], "operator": "containsAny"}},
				"select": []string{"*"}, "limit": 100})
		} else {
			qv := []float32{float32(r.IntN(10)), float32(r.IntN(10))}
			code, resp = e.do(u, "POST", colPath(2, name, "/points/search"), map[string]any{
				"query": map[string]any{"property": "vector", "vectorVamana": map[string]any{
					"vector": qv, "operator": "near", "searchSize": 75, "limit": 75}},
				"select": []string{"*"}, "limit": 75})
			// every reported distance is the distance from the query to the vector of the returned point itself (small
			// integers: exact). An answer ranked with somebody else's vectors returns the user's own points, but with
			// distances that are not theirs
			if items, ok := resp["points"].([]any); ok && code == 200 {
				for _, it := range items {
					m, ok := it.(map[string]any)
					if !ok {
						continue
					}
					vec, ok1 := m["vector"].([]any)
					dist, ok2 := m["_distance"].(float64)
					if !ok1 || !ok2 || len(vec) != 2 {
						continue
					}
					x, okx := vec[0].(float64)
					y, oky := vec[1].(float64)
					if okx && oky {
						want := (x-float64(qv[0]))*(x-float64(qv[0])) + (y-float64(qv[1]))*(y-float64(qv[1]))
						if dist != want {
							foreignDistance = true
						}
					}
				}
			}
		}
		if items, ok := resp["points"].([]any); ok {
			for _, it := range items {
				if m, ok := it.(map[string]any); ok {
					if ids, ok := m[key].(string); ok {
						if id, err := uuid.Parse(ids); err == nil {
							st.retPts = append(st.retPts, id)
						}
					}
				}
			}
		}
	}
	st.class = c16Class(code)
	if foreignDistance {
		st.class = 7
	}
	if st.class == 9 && os.Getenv("VERIF_C16_TRACE") != "" {
		fmt.Fprintf(os.Stderr, "unexpected status %d: %v\n", code, resp)
	}
	return st
}

func (st *c16Step) coq() string {
	var k string
	switch st.kind {
	case "create":
		k = "(KCreate " + pS(st.name) + ")"
	case "list":
		k = "KList"
	case "get":
		k = "(KGet " + pS(st.name) + ")"
	case "delete":
		k = "(KDelete " + pS(st.name) + ")"
	default:
		k = "(KPoint " + pS(st.name) + ")"
	}
	cols := make([]string, len(st.retCols))
	for i, c := range st.retCols {
		cols[i] = pS(c)
	}
	pts := make([]string, len(st.retPts))
	for i, p := range st.retPts {
		pts[i] = pB(p[:])
	}
	return fmt.Sprintf("mks %d %d %s %d %s %s %s %s", st.who, st.api, k, st.class, pList(cols), pList(pts), st.va, st.vb)
}

type c16Plan struct {
	who  int
	kind string
	api  int
	name string // "" = choose at run time
}

// scripted attack of a forbidden id: what did the damage on the pinned tree
func c16Attack(idA, idB string) []c16Plan {
	target := idB
	api := 2
	if idA == ".." {
		target, api = "userCollections", 1
	}
	if len(target) < 3 {
		target = "ccc"
	}
	return []c16Plan{
		{1, "create", 2, "col1"}, {1, "insert", 2, "col1"}, {1, "insert", 1, "col1"}, {1, "create", 1, "abc"}, {1, "insert", 2, "abc"},
		{0, "create", api, target}, {0, "list", 2, ""}, {0, "insert", api, target}, {0, "insert", api, target}, {1, "list", 2, ""},
		{0, "get", api, target}, {0, "search", 2, target}, {0, "delete", api, target}, {1, "get", 2, "col1"}, {1, "search", 2, "col1"},
		{0, "create", 1, "col1"}, {0, "delete", 2, "col1"}, {1, "insert", 2, "col1"},
	}
}

func (s *c16Scenario) randomPlan() c16Plan {
	r := s.r
	w := r.IntN(2)
	api := 1 + r.IntN(2)
	var kind string
	switch x := r.IntN(100); {
	case x < 20:
		kind = "create"
	case x < 27:
		kind = "list"
	case x < 36:
		kind = "get"
	case x < 45:
		kind = "delete"
	case x < 72:
		kind = "insert"
	case x < 80:
		kind = "update"
	case x < 87:
		kind = "delpoints"
	default:
		kind = "search"
	}
	return c16Plan{w, kind, api, ""}
}

func runC16(rc *runCtx) error {
	nsc := rc.n
	if nsc == 0 {
		nsc = 90
		if rc.thorough() {
			nsc = 700
		}
	}
	nfiles := 4
	if rc.thorough() {
		nfiles = 8
	}
	var cfs []*caseFile
	for i := 0; i < nfiles; i++ {
		cf, err := newCaseFile(filepath.Join(rc.outDir, fmt.Sprintf("cases_C16_%02d.v", i)), []string{"Pack", "Model_C16", "Run_C16"}, "c16case")
		if err != nil {
			return err
		}
		cfs = append(cfs, cf)
	}
	tmp, err := os.MkdirTemp("", "verif-c16-")
	if err != nil {
		return err
	}
	defer os.RemoveAll(tmp)
	r := newRng(rc.seed, 16)
	hist := map[string]int{}
	distinct := map[uint64]struct{}{}
	pairs, fpairs := c16Pairs(), c16ForbiddenPairs()
	steps, viewChanges, nonEmptyOther := 0, 0, 0
	trace := os.Getenv("VERIF_C16_TRACE") != ""
	for sc := 0; sc < nsc; sc++ {
		cf := cfs[sc%nfiles]
		var pair c16Pair
		forbidden := false
		switch {
		case sc < len(fpairs):
			pair, forbidden = fpairs[sc], true
		case sc < len(fpairs)+len(pairs):
			pair = pairs[sc-len(fpairs)]
		case r.IntN(6) == 0:
			pair, forbidden = fpairs[r.IntN(len(fpairs))], true
		default:
			pair = pairs[r.IntN(len(pairs))]
		}
		maxA, maxB := 1+r.IntN(3), 1+r.IntN(3)
		if forbidden {
			maxB = 3
		}
		env, err := c16NewEnv(filepath.Join(tmp, fmt.Sprintf("n%d", sc)), maxA, maxB)
		if err != nil {
			return err
		}
		s := &c16Scenario{env: env, r: r}
		s.users[0] = &c16User{id: pair.a, plan: "PA", maxc: maxA, forbidden: c16Forbidden(pair.a)}
		s.users[1] = &c16User{id: pair.b, plan: "PB", maxc: maxB, forbidden: c16Forbidden(pair.b)}
		// point ids: four private ones each, three shared
		shared := []uuid.UUID{c16Uuid(r), c16Uuid(r), c16Uuid(r)}
		for w := 0; w < 2; w++ {
			for i := 0; i < 4; i++ {
				s.ids[w] = append(s.ids[w], c16Uuid(r))
			}
			s.ids[w] = append(s.ids[w], shared...)
		}
		seen := map[uuid.UUID]bool{}
		for w := 0; w < 2; w++ {
			for _, id := range s.ids[w] {
				if !seen[id] {
					seen[id] = true
					env.idPool = append(env.idPool, id.String())
				}
			}
		}
		s.names = []string{"abc", "col1", "shared", "xyz"}
		for w := 0; w < 2; w++ {
			// the other user's id as a collection name, when the API allows it
			if id := s.users[w].id; len(id) >= 3 && len(id) <= 16 && strings.Trim(id, "abcdefghijklmnopqrstuvwxyz0123456789") == "" {
				s.names = append(s.names, id)
			}
		}
		views := map[string]string{}
		intern := func(v *c16View) string {
			t := v.coq()
			if n, ok := views[t]; ok {
				return n
			}
			n := cf.Aux("c16view", t)
			views[t] = n
			return n
		}
		s.views[0], s.views[1] = env.view(s.users[0]), env.view(s.users[1])
		va0, vb0 := intern(s.views[0]), intern(s.views[1])
		var plan []c16Plan
		if forbidden {
			plan = c16Attack(pair.a, pair.b)
			for len(plan) < 24 {
				plan = append(plan, s.randomPlan())
			}
		} else {
			// every pair starts with the same-name life cycle: both users create a collection of the same name,
			// both fill it, one deletes it, the other must still have all of hers; then the other way round
			first := r.IntN(2)
			nm := []string{"col1", "abc", "docs"}[r.IntN(3)]
			plan = append(plan,
				c16Plan{first, "create", 2, nm}, c16Plan{1 - first, "create", 2, nm},
				c16Plan{first, "insert", 2, nm}, c16Plan{1 - first, "insert", 2, nm}, c16Plan{1 - first, "insert", 2, nm},
				// both hold points under the same name and both indexes are warm: each searches her own
				c16Plan{first, "search", 2, nm}, c16Plan{1 - first, "search", 2, nm}, c16Plan{first, "insert", 2, nm}, c16Plan{1 - first, "search", 2, nm},
				c16Plan{first, "delete", 2, nm}, c16Plan{1 - first, "get", 2, nm}, c16Plan{1 - first, "search", 2, nm},
				c16Plan{first, "create", 2, nm}, c16Plan{first, "insert", 2, nm},
				c16Plan{1 - first, "delete", 2, nm}, c16Plan{first, "search", 2, nm})
			// then a collection id that is a path into the other user's collection (first still holds nm with her
			// points): creating it is refused; were it accepted, filling and deleting it would reach her files
			hostile := "../" + pair.a + "/" + nm
			if first == 1 {
				hostile = "../" + pair.b + "/" + nm
			}
			plan = append(plan,
				c16Plan{1 - first, "create", 2, hostile}, c16Plan{1 - first, "insert", 2, hostile}, c16Plan{1 - first, "delete", 2, hostile},
				c16Plan{first, "get", 2, nm}, c16Plan{first, "search", 2, nm})
			n := 14 + r.IntN(18)
			for i := 0; i < n; i++ {
				plan = append(plan, s.randomPlan())
			}
		}
		var terms []string
		h := fnv.New64a()
		h.Write([]byte(pair.a + "\x00" + pair.b))
		for _, p := range plan {
			name := p.name
			if name == "" && p.kind != "list" {
				name = s.pickName(p.who, p.kind == "create", p.api)
			}
			api := p.api
			if p.kind == "create" && (name == "Abc" || name == "userCollections") && r.IntN(4) > 0 {
				api = 1
			}
			beforeOther := s.views[1-p.who]
			st := s.request(p.who, p.kind, api, name)
			s.views[0], s.views[1] = env.view(s.users[0]), env.view(s.users[1])
			st.va, st.vb = intern(s.views[0]), intern(s.views[1])
			terms = append(terms, st.coq())
			if trace {
				fmt.Fprintf(os.Stderr, "sc=%d step=%d who=%d %s v%d %q class=%d retCols=%v retPts=%d | A: %s | B: %s\n", sc, len(terms)-1, p.who, p.kind, api, name, st.class, st.retCols, len(st.retPts), s.views[0].brief(), s.views[1].brief())
			}
			steps++
			hist[fmt.Sprintf("step %s v%d", p.kind, api)]++
			hist[fmt.Sprintf("class %d", st.class)]++
			if len(beforeOther.cols) > 0 {
				nonEmptyOther++
			}
			if beforeOther.pointCount() > 0 {
				hist["steps while the other user holds points"]++
			}
			fmt.Fprintf(h, "|%d%s%d%s%d", p.who, p.kind, api, name, st.class)
		}
		if views[s.views[0].coq()] != va0 || views[s.views[1].coq()] != vb0 {
			viewChanges++
		}
		distinct[h.Sum64()] = struct{}{}
		hist["scenario "+pair.kind]++
		term := fmt.Sprintf("mkc %s %s %d %d %s %s %s", pS(pair.a), pS(pair.b), maxA, maxB, va0, vb0, pList(terms))
		cf.Add(term)
		if sc < 3 || (sc >= len(fpairs) && sc < len(fpairs)+3) {
			rc.addSample(map[string]any{"idA": pair.a, "idB": pair.b, "kind": pair.kind, "steps": len(plan),
				"finalColsA": s.views[0].cols, "finalColsB": s.views[1].cols, "finalDirsB": len(s.views[1].dirs), "finalPointsB": s.views[1].pointCount()})
		}
		// release the shard files: delete what is left through the node itself
		for w := 0; w < 2; w++ {
			if s.users[w].forbidden {
				continue
			}
			if cols, err := env.node.ListCollections(s.users[w].id); err == nil {
				for _, c := range cols {
					env.node.DeleteCollection(c)
				}
			}
		}
		env.close()
		os.RemoveAll(env.root)
	}
	rc.stats["evaluations"] = steps
	rc.stats["distinct"] = len(distinct)
	hist["scenarios"] = nsc
	hist["scenarios whose final views differ from the initial ones"] = viewChanges
	hist["steps while the other user holds collections"] = nonEmptyOther
	rc.stats["histogram"] = hist
	rc.stats["seed"] = rc.seed
	for _, cf := range cfs {
		if err := cf.Close("bad"); err != nil {
			return err
		}
	}
	return nil
}
