package main

// The visited set of a graph search (vamana.DistSet over pooled bit sets, one pool per size class of the largest node
// id): a node that was added once is not added again, for largest node ids on, just below and just above every size
// class. Judged here (a test of a helper data structure, recorded as note 950 of the first step of history 0); the
// size classes are the ones of distset.go at the time of writing, the sweep also covers ids that are on no boundary.

import (
	"github.com/semafind/semadb/shard/index/vamana"
	"github.com/semafind/semadb/shard/vectorstore"
)

type c03Point uint64

func (p c03Point) Id() uint64 { return uint64(p) }

func c03VisitedSweepOK() bool {
	var maxIds []uint64
	for _, s := range []uint64{110_000, 260_000, 520_000, 1_300_000, 2_600_000, 5_200_000, 10_500_000} {
		maxIds = append(maxIds, s-1, s, s+1)
	}
	maxIds = append(maxIds, 2, 3, 64, 65, 1000, 99_999, 1<<20)
	for _, m := range maxIds {
		ds := vamana.NewDistSet(8, m, func(y vectorstore.VectorStorePoint) float32 { return float32(y.Id() % 1000) })
		ds.Add(c03Point(m))
		ds.Add(c03Point(m))
		ds.Add(c03Point(1))
		ds.Add(c03Point(m), c03Point(1), c03Point(m-1), c03Point(m-1))
		n := ds.Len()
		ds.Release()
		want := 3
		if m-1 == 1 {
			want = 2
		}
		if n != want {
			return false
		}
	}
	return true
}
