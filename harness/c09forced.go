package main

// C09, forced schedules: a proxy around the shard's store stops the writer at two
// points of its bbolt write transaction -- before the batch callback runs and after
// it has returned (every change is in the transaction and in the shared caches,
// nothing is committed) -- and runs complete searches there. The only committed
// version at those moments is the one before the batch, so the searches must
// succeed and answer from it, whatever the writer has already done to the caches.

import (
	"fmt"
	"os"
	"strings"
	"sync"
	"sync/atomic"
	"time"

	"github.com/google/uuid"
	"github.com/semafind/semadb/diskstore"
	"github.com/semafind/semadb/shard"
	"github.com/semafind/semadb/shard/cache"
)

type pauseStore struct {
	inner    diskstore.DiskStore
	before   func()
	after    func(err error)
	mu       sync.Mutex
	readHook *readHook
}

func (p *pauseStore) Path() string { return p.inner.Path() }
func (p *pauseStore) Read(fn func(diskstore.BucketManager) error) error {
	h := p.takeReadHook()
	if h == nil {
		return p.inner.Read(fn)
	}
	return p.inner.Read(func(bm diskstore.BucketManager) error {
		return fn(&pauseBM{bm, h})
	})
}

// takeReadHook hands the read hook to exactly one read transaction (the first that begins).
func (p *pauseStore) takeReadHook() *readHook {
	p.mu.Lock()
	defer p.mu.Unlock()
	h := p.readHook
	p.readHook = nil
	return h
}

// readHook: run `fire` once, just before the at-th bucket operation of the read transaction.
type readHook struct {
	at    int64
	count atomic.Int64
	fire  func()
}

func (h *readHook) op() {
	if h.count.Add(1) == h.at {
		h.fire()
	}
}

type pauseBM struct {
	inner diskstore.BucketManager
	h     *readHook
}

func (b *pauseBM) Get(name string) (diskstore.Bucket, error) {
	bk, err := b.inner.Get(name)
	if err != nil {
		return nil, err
	}
	return &pauseBucket{bk, b.h}, nil
}
func (b *pauseBM) Delete(name string) error { return b.inner.Delete(name) }

type pauseBucket struct {
	inner diskstore.Bucket
	h     *readHook
}

func (b *pauseBucket) IsReadOnly() bool      { return b.inner.IsReadOnly() }
func (b *pauseBucket) Get(k []byte) []byte   { b.h.op(); return b.inner.Get(k) }
func (b *pauseBucket) Put(k, v []byte) error { return b.inner.Put(k, v) }
func (b *pauseBucket) Delete(k []byte) error { return b.inner.Delete(k) }
func (b *pauseBucket) ForEach(f func(k, v []byte) error) error {
	b.h.op()
	return b.inner.ForEach(f)
}
func (b *pauseBucket) PrefixScan(p []byte, f func(k, v []byte) error) error {
	b.h.op()
	return b.inner.PrefixScan(p, f)
}
func (b *pauseBucket) RangeScan(s, e []byte, incl bool, f func(k, v []byte) error) error {
	b.h.op()
	return b.inner.RangeScan(s, e, incl, f)
}
func (p *pauseStore) Write(fn func(diskstore.BucketManager) error) error {
	return p.inner.Write(func(bm diskstore.BucketManager) error {
		if p.before != nil {
			p.before()
		}
		err := fn(bm)
		if p.after != nil {
			p.after(err)
		}
		return err
	})
}
func (p *pauseStore) BackupToFile(path string) error { return p.inner.BackupToFile(path) }
func (p *pauseStore) SizeInBytes() (int64, error)    { return p.inner.SizeInBytes() }
func (p *pauseStore) Close() error                   { return p.inner.Close() }

// runC09Forced executes one forced-schedule run and prints a single `C <term>` line.
func runC09Forced(a childArgs) error {
	g := newGen("c09", a.seed, a.idx+7000)
	env, err := openEnv(0, g.schema, g.maxSize)
	if err != nil {
		return err
	}
	defer env.close()
	r := g.r
	ps := &pauseStore{inner: env.sh.VerifDB()}
	env.sh.VerifSwapDB(ps)
	nbatches := 5 + r.IntN(6)
	type bo struct {
		b   batchSpec
		out string
	}
	var batches []bo
	var searches []c09search
	var errTexts []string
	hung := false
	var smu sync.Mutex
	// one search on its own goroutine (the writer's goroutine is inside a bbolt write transaction)
	runSearch := func(rq requestSpec, version int64, point int64) {
		if hung {
			return
		}
		type sres struct {
			o   string
			err error
		}
		ch := make(chan sres, 1)
		go func() {
			res, err := env.sh.SearchPoints(rq.model())
			if err != nil {
				ch <- sres{"", err}
				return
			}
			o, perr := pRows(res, true)
			if perr != nil {
				o = "(QError 3)"
			}
			ch <- sres{o, nil}
		}()
		var sr sres
		timedOut := false
		select {
		case sr = <-ch:
		case <-time.After(20 * time.Second):
			timedOut = true
		}
		smu.Lock()
		defer smu.Unlock()
		switch {
		case !timedOut:
			o := sr.o
			if sr.err != nil {
				o = fmt.Sprintf("(QError %d)", searchErrKind(sr.err))
				if len(errTexts) < 20 {
					errTexts = append(errTexts, fmt.Sprintf("forced point %d: %s", point, sr.err.Error()))
				}
			}
			searches = append(searches, c09search{rq, version, point, o})
		default:
			hung = true
			searches = append(searches, c09search{rq, version, point, "(QError 4)"})
		}
	}
	apply := func(step int, reqs []requestSpec) error {
		b := g.genBatch(step)
		version := int64(len(batches))
		if reqs != nil {
			ps.before = func() {
				for i, rq := range reqs {
					if i < 2 {
						runSearch(rq, version, 1)
					}
				}
			}
			ps.after = func(err error) {
				pt := int64(2)
				if err != nil {
					pt = 3
				}
				for _, rq := range reqs {
					runSearch(rq, version, pt)
				}
			}
		}
		out, okIds, ok, err := execBatch(env.sh, b)
		ps.before, ps.after = nil, nil
		if err != nil {
			return err
		}
		if ok {
			g.noteApplied(b, okIds)
		}
		batches = append(batches, bo{b, out})
		return nil
	}
	if err := apply(0, nil); err != nil {
		return err
	}
	warm := a.idx % 4
	if warm == 3 {
		// a cache manager with a one-byte budget: every cache is over budget, whatever is registered is evicted when
		// a request ends -- also a cache its writer still holds; the next search then registers a cache of its own,
		// built from the data before the commit
		if err := env.sh.Close(); err != nil {
			return err
		}
		env.cm = cache.NewManager(1)
		env.sh, err = shard.NewShard(env.path, env.col, env.cm)
		if err != nil {
			return err
		}
		ps.inner = env.sh.VerifDB()
		env.sh.VerifSwapDB(ps)
	}
	for step := 1; step <= nbatches && !hung; step++ {
		_, docs, err := readAll(env.sh, g.pool)
		if err != nil {
			return err
		}
		// searches through the shared caches first (vector indexes, with and without a pre-filter), then two others
		var reqs, others []requestSpec
		for _, ix := range g.schema {
			switch ix.kind {
			case ixFlat:
				reqs = append(reqs, requestSpec{q: querySpec{kind: "flat", prop: ix.path, vec: g.genVec(ix.dim), limit: len(docs) + 6}, sel: []string{"*"}})
			case ixVamana:
				reqs = append(reqs, requestSpec{q: querySpec{kind: "vamana", prop: ix.path, vec: g.genVec(ix.dim), search: 30, limit: 30}, sel: []string{"*"}})
			}
		}
		for _, rq := range g.genRequests(step, docs) {
			rq.sel = []string{"*"}
			if rq.q.kind == "flat" || rq.q.kind == "vamana" {
				reqs = append(reqs, rq)
			} else if len(others) < 2 {
				others = append(others, rq)
			}
		}
		reqs = append(reqs, others...)
		// cache state before the batch: cold (released), partially warm, warm
		switch warm {
		case 0:
			if step%2 == 0 { // reopen with a fresh cache manager: nothing is cached when the batch starts
				if err := env.sh.Close(); err != nil {
					return err
				}
				env.cm = cache.NewManager(-1)
				env.sh, err = shard.NewShard(env.path, env.col, env.cm)
				if err != nil {
					return err
				}
				ps.inner = env.sh.VerifDB()
				env.sh.VerifSwapDB(ps)
			}
		case 2:
			for _, rq := range reqs {
				env.sh.SearchPoints(rq.model())
			}
		}
		if err := apply(step, reqs); err != nil {
			return err
		}
	}
	// phase B, no writer: reader 1 starts on a cold shard (fresh cache manager) and creates the shared cache;
	// at its at-th bucket operation reader 2, a short search, is started on the same shared cache (its bucket
	// handle replaces reader 1's and dies with reader 2's transaction) while reader 1 continues. The item
	// cache holds its mutex during bucket reads, so reader 2 cannot be run to its end at that point: from
	// there on the two race. Both must succeed and answer from the final version (point 4: reader 1,
	// point 5: reader 2). Every failure here is a failure of concurrent READS: there is no writer.
	if !hung {
		// a collection larger than a search window, so that the two readers touch different nodes
		bulk := batchSpec{kind: 0}
		nbulk := 90
		for _, ix := range g.schema {
			if ix.kind == ixVamana && ix.degree <= 8 {
				nbulk = 500 // a sparse graph far larger than one search visits: later searches must miss the cache
			}
		}
		for i := 0; i < nbulk; i++ {
			var u uuid.UUID
			for j := range u {
				u[j] = byte(r.IntN(256))
			}
			g.pool = append(g.pool, u)
			d := Val{K: kMap}
			for _, ix := range g.schema {
				if ix.kind == ixVamana || ix.kind == ixFlat {
					v := make([]float32, ix.dim)
					for j := range v {
						v[j] = float32(r.IntN(41) - 20)
					}
					setPath(&d, ix.path, vVec(v))
				}
			}
			sortDoc(&d)
			bulk.points = append(bulk.points, pointSpec{id: u, doc: d})
		}
		out, okIds, ok, err := execBatch(env.sh, bulk)
		if err != nil {
			return err
		}
		if ok {
			g.noteApplied(bulk, okIds)
		}
		batches = append(batches, bo{bulk, out})
		_, docs, err := readAll(env.sh, g.pool)
		if err != nil {
			return err
		}
		version := int64(len(batches))
		var vreqs []requestSpec
		for _, ix := range g.schema {
			switch ix.kind {
			case ixFlat:
				vreqs = append(vreqs, requestSpec{q: querySpec{kind: "flat", prop: ix.path, vec: g.genVec(ix.dim), limit: len(docs) + 6}, sel: []string{"*"}})
			case ixVamana:
				vreqs = append(vreqs, requestSpec{q: querySpec{kind: "vamana", prop: ix.path, vec: g.genVec(ix.dim), search: 30, limit: 30}, sel: []string{"*"}})
			}
		}
		for _, rq := range vreqs {
			for _, at := range []int64{1, 2, 3, 4, 5, 6, 8, 10, 12, 16, 20, 30} {
				if hung {
					break
				}
				if err := env.sh.Close(); err != nil {
					return err
				}
				env.cm = cache.NewManager(-1)
				env.sh, err = shard.NewShard(env.path, env.col, env.cm)
				if err != nil {
					return err
				}
				ps.inner = env.sh.VerifDB()
				env.sh.VerifSwapDB(ps)
				rq2 := rq // reader 2: another query vector, one result
				rq2.q.vec = make([]float32, len(rq.q.vec))
				for j := range rq2.q.vec {
					rq2.q.vec[j] = float32(r.IntN(41) - 20)
				}
				rq2.q.limit = 1
				h := &readHook{at: at}
				var wg2 sync.WaitGroup
				h.fire = func() {
					wg2.Add(1)
					go func() { defer wg2.Done(); runSearch(rq2, version, 5) }()
				}
				ps.mu.Lock()
				ps.readHook = h
				ps.mu.Unlock()
				runSearch(rq, version, 4)
				wg2.Wait()
				ps.mu.Lock()
				ps.readHook = nil
				ps.mu.Unlock()
			}
		}
		// phase C, nothing concurrent at all: on the shard object and cache manager the last iteration left behind
		// (index caches created by an earlier, finished read transaction and only partially warm: the collection is
		// larger than one search visits) a few more searches from other regions of the space, one after the
		// other (point 6). Each runs in its own read transaction and must read what it misses through that one.
		for _, rq := range vreqs {
			for k := 0; k < 6 && !hung; k++ {
				rq3 := rq
				rq3.q.vec = make([]float32, len(rq.q.vec))
				for j := range rq3.q.vec {
					rq3.q.vec[j] = float32(r.IntN(41) - 20)
				}
				rq3.q.limit = 5
				runSearch(rq3, version, 6)
			}
			// the exact regime: a pre-filter of 12 points of the bulk batch (all live, all carry the vector), limit
			// 12: the answer must be exactly those 12 points (point 7) -- a point the search cannot read is missing
			if rq.q.kind == "vamana" && len(bulk.points) >= 24 {
				for k := 0; k < 6 && !hung; k++ {
					rq4 := rq
					rq4.q.vec = make([]float32, len(rq.q.vec))
					for j := range rq4.q.vec {
						rq4.q.vec[j] = float32(r.IntN(41) - 20)
					}
					ids := []uuid.UUID{}
					for _, pi := range r.Perm(len(bulk.points))[:12] {
						ids = append(ids, bulk.points[pi].id)
					}
					f := querySpec{kind: "idany", ids: ids}
					rq4.q.filter = &f
					rq4.q.limit = 12
					rq4.q.search = 30
					runSearch(rq4, version, 7)
				}
			}
		}
	}
	if hung {
		f, err := os.Create(a.out)
		if err != nil {
			return err
		}
		fmt.Fprintf(f, "N\t1\t%d\t%d\nC\t(C09Crash 2)\n", len(batches), len(searches))
		f.Close()
		os.Exit(0)
	}
	warmLive, _, err := readAll(env.sh, g.pool)
	if err != nil {
		warmLive = "[]"
	}
	env.sh.Close()
	env.sh = nil
	sh2, err := shard.NewShard(env.path, env.col, cache.NewManager(-1))
	if err != nil {
		return err
	}
	coldLive, _, err := readAll(sh2, g.pool)
	sh2.Close()
	if err != nil {
		coldLive = "[]"
	}
	bitems := make([]string, len(batches))
	for i, b := range batches {
		bitems[i] = "(" + b.b.coq() + ", " + b.out + ")"
	}
	sitems := make([]string, len(searches))
	for i, s := range searches {
		// v0 = the committed version the search must answer from, v1 = the point of the write transaction
		sitems[i] = fmt.Sprintf("(mkCSearch %s %d %d %s)", s.req.coq(), s.v0, s.v1, s.out)
	}
	f, err := os.Create(a.out)
	if err != nil {
		return err
	}
	defer f.Close()
	for _, t := range errTexts {
		fmt.Fprintf(f, "X\t%s\n", strings.ReplaceAll(t, "\n", " "))
	}
	fmt.Fprintf(f, "N\t1\t%d\t%d\n", len(batches), len(searches))
	fmt.Fprintf(f, "C\t(C09Forced %s %d %s\n   %s\n   %s\n   %s)\n", g.schema.coq(), g.maxSize, pList(bitems), pList(sitems), warmLive, coldLive)
	return nil
}
