package main

// C20 -- distance functions equal their definitions on every vector length.
//
// Streams (see coq/Run_C20.v for the verdicts):
//   kern   integer-valued float32 data on which every float32 operation of the
//          kernels is exact: AVX kernel (asm.Dot / asm.SquaredEuclideanDistance and the
//          exported "dot"/"cosine"/"euclidean" functions), scalar reference loop, and
//          (in Coq) the exact Z model must agree bit for bit. Slices start at offsets
//          0..8 of a backing array whose other elements are NaN sentinels.
//   sym    f(x,y) vs f(y,x) bit patterns for all six metrics incl. haversine, arbitrary floats.
//   bits   binary quantiser encode + hamming / jaccard vs the per-position definitions.
//   float  a TEST (judged here, not in Coq): arbitrary floats incl. denormals and large
//          magnitudes against a float64 reference under n*2^-23*sum|terms| + tiny.
//   pq     product quantiser: centroid table, codes written after training, point to
//          point and query to point distances (c20pq.go).

import (
	"fmt"
	"hash/fnv"
	"math"
	"os"
	"path/filepath"
	"sort"
	"strconv"
	"strings"

	"github.com/semafind/semadb/distance"
	"github.com/semafind/semadb/distance/asm"
	"github.com/semafind/semadb/models"
	"github.com/semafind/semadb/shard/vectorstore"
)

func init() { subcmds["c20"] = runC20 }

const c20Max = 4096
const c20Back = c20Max + 16

func c20HasAVX2FMA() bool {
	b, err := os.ReadFile("/proc/cpuinfo")
	if err != nil {
		return false
	}
	for _, ln := range strings.Split(string(b), "\n") {
		if strings.HasPrefix(ln, "flags") {
			f := " " + ln + " "
			return strings.Contains(f, " avx2 ") && strings.Contains(f, " fma ")
		}
	}
	return false
}

func c20ZList(v []int64) string {
	var sb strings.Builder
	sb.WriteString("([")
	for i, x := range v {
		if i > 0 {
			sb.WriteByte(';')
		}
		sb.WriteString(strconv.FormatInt(x, 10))
	}
	sb.WriteString("])%Z")
	return sb.String()
}

// scalar reference loops (identical to distance/puredist.go, which is unexported)
func c20RefDot(x, y []float32) float32 {
	var sum float32
	for i := range x {
		sum += x[i] * y[i]
	}
	return sum
}

func c20RefEuclid(x, y []float32) float32 {
	var sum float32
	for i := range x {
		d := x[i] - y[i]
		sum += d * d
	}
	return sum
}

// slice of a NaN-filled backing array holding data[off:off+n] at [off, off+n)
func c20Slice(work []float32, data []int64, off, n int, mods [][2]int64) []float32 {
	nan := float32(math.NaN())
	for i := range work {
		work[i] = nan
	}
	for i := 0; i < n; i++ {
		work[off+i] = float32(data[off+i])
	}
	for _, m := range mods {
		work[off+int(m[0])] = float32(m[1])
	}
	return work[off : off+n : off+n]
}

func c20Mods(m [][2]int64) string {
	items := make([]string, len(m))
	for i, p := range m {
		items[i] = fmt.Sprintf("(%d, %s)", p[0], cZ(p[1]))
	}
	return "[" + strings.Join(items, "; ") + "]"
}

type c20Files struct {
	files []*caseFile
	next  int
	// aux names per file
	aux []map[string]string
}

func (f *c20Files) add(term string) {
	f.files[f.next%len(f.files)].Add(term)
	f.next++
}

// term is a format with %[1]s.. replaced by the aux names of the receiving file
func (f *c20Files) addWith(build func(aux map[string]string) string) {
	k := f.next % len(f.files)
	f.files[k].Add(build(f.aux[k]))
	f.next++
}

func runC20(rc *runCtx) error {
	if !c20HasAVX2FMA() {
		return fmt.Errorf("this CPU has no AVX2+FMA: the assembly kernels of distance/asm cannot be exercised")
	}
	thorough := rc.thorough()
	rg := newRng(rc.seed, 20)
	// ---------------- lengths
	lenSet := map[int]bool{}
	if thorough {
		for l := 1; l <= c20Max; l++ {
			lenSet[l] = true
		}
	} else {
		for l := 1; l <= 130; l++ {
			lenSet[l] = true
		}
		for l := 1; l <= c20Max; l++ {
			if m := l % 32; m == 0 || m == 1 || m == 31 {
				lenSet[l] = true
			}
		}
		for k := 0; k < 40; k++ {
			lenSet[1+rg.IntN(c20Max)] = true
		}
	}
	lengths := make([]int, 0, len(lenSet))
	for l := range lenSet {
		lengths = append(lengths, l)
	}
	sort.Ints(lengths)
	if rc.n > 0 && rc.n < len(lengths) {
		rg.Shuffle(len(lengths), func(i, j int) { lengths[i], lengths[j] = lengths[j], lengths[i] })
		lengths = lengths[:rc.n]
		sort.Ints(lengths)
	}
	// ---------------- shared backing data (integers)
	mk := func(f func(i int) int64) []int64 {
		v := make([]int64, c20Back)
		for i := range v {
			v[i] = f(i)
		}
		return v
	}
	base := map[string][]int64{
		"zero": mk(func(i int) int64 { return 0 }),
		"altx": mk(func(i int) int64 { return 1 - 2*int64(i%2) }),
		"alty": mk(func(i int) int64 {
			if i%3 == 0 {
				return 1
			}
			return -1
		}),
		"smx": mk(func(i int) int64 { return int64(rg.IntN(7)) - 3 }),
		"smy": mk(func(i int) int64 { return int64(rg.IntN(7)) - 3 }),
		// bit vectors: values and thresholds are stored doubled (0.5 -> 1)
		"bv1":  mk(func(i int) int64 { return 2 * (int64(rg.IntN(5)) - 2) }),
		"bv2":  mk(func(i int) int64 { return 2 * (int64(rg.IntN(5)) - 2) }),
		"bth":  mk(func(i int) int64 { return 2 * (int64(rg.IntN(5)) - 2) }),
		"half": mk(func(i int) int64 { return 1 }),
	}
	nfiles := 16
	fs := &c20Files{}
	for k := 0; k < nfiles; k++ {
		cf, err := newCaseFile(filepath.Join(rc.outDir, fmt.Sprintf("cases_C20_%02d.v", k)), []string{"AsmParams", "Model_C20", "Run_C20"}, "c20case")
		if err != nil {
			return err
		}
		aux := map[string]string{}
		aux["zero"] = cf.Aux("list Z", fmt.Sprintf("repeat 0%%Z %d", c20Back))
		aux["half"] = cf.Aux("list Z", fmt.Sprintf("repeat 1%%Z %d", c20Back))
		for _, nm := range []string{"altx", "alty", "smx", "smy", "bv1", "bv2", "bth"} {
			aux[nm] = cf.Aux("list Z", c20ZList(base[nm]))
		}
		fs.files = append(fs.files, cf)
		fs.aux = append(fs.aux, aux)
	}
	hist := map[string]int{}
	distinct := map[uint64]struct{}{}
	note := func(kind string, key string) {
		hist[kind]++
		h := fnv.New64a()
		h.Write([]byte(kind + "|" + key))
		distinct[h.Sum64()] = struct{}{}
	}
	fn := map[string]distance.FloatDistFunc{}
	for _, nm := range []string{models.DistanceDot, models.DistanceCosine, models.DistanceEuclidean, models.DistanceHaversine} {
		f, err := distance.GetFloatDistanceFn(nm)
		if err != nil {
			return err
		}
		fn[nm] = f
	}
	hamFn, err := distance.GetBitDistanceFn(models.DistanceHamming)
	if err != nil {
		return err
	}
	jacFn, err := distance.GetBitDistanceFn(models.DistanceJaccard)
	if err != nil {
		return err
	}
	f32b := func(f float32) uint64 { return uint64(math.Float32bits(f)) }
	// ---------------- stream kern
	workX := make([]float32, c20Back+8)
	workY := make([]float32, c20Back+8)
	type variant struct {
		name   string
		bx, by string
		class  int // -1 none; 0 first, 1 last of a block, 2 first of tail, 3 last
	}
	variants := []variant{
		{"zeros", "zero", "zero", -1}, {"alt", "altx", "alty", -1}, {"small", "smx", "smy", -1},
		{"large-first", "smx", "smy", 0}, {"large-blockend", "smy", "smx", 1}, {"large-tailstart", "smx", "smy", 2}, {"large-last", "smy", "altx", 3},
	}
	evalKern := func(which int, x, y []float32) (asmB, goB uint64) {
		switch which {
		case 0:
			return f32b(asm.Dot(x, y)), f32b(c20RefDot(x, y))
		case 1:
			return f32b(asm.SquaredEuclideanDistance(x, y)), f32b(c20RefEuclid(x, y))
		case 2:
			return f32b(fn[models.DistanceDot](x, y)), f32b(-c20RefDot(x, y))
		case 3:
			return f32b(fn[models.DistanceCosine](x, y)), f32b(1 - c20RefDot(x, y))
		default:
			return f32b(fn[models.DistanceEuclidean](x, y)), f32b(c20RefEuclid(x, y))
		}
	}
	caseNo := 0
	for li, n := range lengths {
		for vi, v := range variants {
			var mods [][2]int64
			if v.class >= 0 {
				var pos int
				switch v.class {
				case 0:
					pos = 0
				case 1:
					if n >= 32 {
						pos = 32*(1+rg.IntN(n/32)) - 1
					} else {
						pos = n / 2
					}
				case 2:
					if n%32 != 0 {
						pos = 32 * (n / 32)
					} else {
						pos = (n - 1) / 2
					}
				default:
					pos = n - 1
				}
				mods = [][2]int64{{int64(pos), 64 * (1 - 2*int64(rg.IntN(2)))}}
			}
			var whichs []int
			if thorough {
				whichs = []int{0, 1, 2, 3, 4}
			} else {
				whichs = []int{0, 1}
				if k := (li + vi) % 7; k < 6 {
					whichs = append(whichs, 2+(li+vi)%3)
				}
			}
			for _, which := range whichs {
				offx, offy := (caseNo)%9, (caseNo/9+li)%9
				modsY := mods
				if mods != nil {
					modsY = [][2]int64{{mods[0][0], 64 * (1 - 2*int64(rg.IntN(2)))}}
				}
				x := c20Slice(workX, base[v.bx], offx, n, mods)
				y := c20Slice(workY, base[v.by], offy, n, modsY)
				asmB, goB := evalKern(which, x, y)
				bx, by := v.bx, v.by
				fs.addWith(func(aux map[string]string) string {
					return fmt.Sprintf("CKern %d (vec_of %s %d %d %s) (vec_of %s %d %d %s) %d %d",
						which, aux[bx], offx, n, c20Mods(mods), aux[by], offy, n, c20Mods(modsY), asmB, goB)
				})
				note(fmt.Sprintf("kern/which%d/%s", which, v.name), fmt.Sprint(n, offx, offy, mods, modsY))
				hist[fmt.Sprintf("kern/len-mod32=%d", func() int {
					switch m := n % 32; m {
					case 0, 1, 31:
						return m
					default:
						return -1
					}
				}())]++
				if caseNo%2500 == 7 {
					rc.addSample(map[string]any{"kind": "kern", "which": which, "n": n, "offx": offx, "offy": offy, "variant": v.name,
						"asm_bits": asmB, "ref_bits": goB, "asm": math.Float32frombits(uint32(asmB))})
				}
				caseNo++
			}
		}
	}
	// ---------------- stream sym
	rs := newRng(rc.seed, 21)
	nsym := 150
	if thorough {
		nsym = 3000
	}
	randF := func() float32 {
		switch rs.IntN(10) {
		case 0:
			return 0
		case 1:
			return float32(math.Copysign(0, -1))
		case 2:
			return math.Float32frombits(uint32(1+rs.IntN(0x7fffff)) | uint32(rs.IntN(2))<<31) // denormal
		case 3:
			return float32(rs.NormFloat64() * 1e15)
		case 4:
			return float32(rs.NormFloat64() * 1e-15)
		default:
			return float32(rs.NormFloat64())
		}
	}
	for k := 0; k < nsym; k++ {
		n := 1 + rs.IntN(300)
		if k%10 == 0 {
			n = 1 + rs.IntN(c20Max)
		}
		ox, oy := rs.IntN(9), rs.IntN(9)
		for i := range workX {
			workX[i] = float32(math.NaN())
			workY[i] = float32(math.NaN())
		}
		x, y := workX[ox:ox+n:ox+n], workY[oy:oy+n:oy+n]
		for i := 0; i < n; i++ {
			x[i], y[i] = randF(), randF()
		}
		pairs := [][3]uint64{
			{0, f32b(asm.Dot(x, y)), f32b(asm.Dot(y, x))},
			{1, f32b(asm.SquaredEuclideanDistance(x, y)), f32b(asm.SquaredEuclideanDistance(y, x))},
			{2, f32b(fn[models.DistanceDot](x, y)), f32b(fn[models.DistanceDot](y, x))},
			{3, f32b(fn[models.DistanceCosine](x, y)), f32b(fn[models.DistanceCosine](y, x))},
			{4, f32b(fn[models.DistanceEuclidean](x, y)), f32b(fn[models.DistanceEuclidean](y, x))},
		}
		p1 := []float32{float32(rs.Float64()*180 - 90), float32(rs.Float64()*360 - 180)}
		p2 := []float32{float32(rs.Float64()*180 - 90), float32(rs.Float64()*360 - 180)}
		if k%7 == 0 {
			p2 = []float32{p1[0] + float32(rs.NormFloat64()*1e-3), p1[1] + float32(rs.NormFloat64()*1e-3)}
		}
		pairs = append(pairs, [3]uint64{5, f32b(fn[models.DistanceHaversine](p1, p2)), f32b(fn[models.DistanceHaversine](p2, p1))})
		nw := 1 + rs.IntN(64)
		w1, w2 := make([]uint64, nw), make([]uint64, nw)
		for i := range w1 {
			w1[i], w2[i] = rs.Uint64(), rs.Uint64()
			if rs.IntN(4) == 0 {
				w1[i] &= rs.Uint64()
				w2[i] = 0
			}
		}
		pairs = append(pairs, [3]uint64{6, f32b(hamFn(w1, w2)), f32b(hamFn(w2, w1))}, [3]uint64{7, f32b(jacFn(w1, w2)), f32b(jacFn(w2, w1))})
		for _, p := range pairs {
			// NaN results (inf - inf) are outside the comparison: every NaN is one value
			a, b := p[1], p[2]
			if a&0x7fffffff > 0x7f800000 {
				a = 0x7fc00000
			}
			if b&0x7fffffff > 0x7f800000 {
				b = 0x7fc00000
			}
			fs.add(fmt.Sprintf("CSym %d %d %d", p[0], a, b))
			note(fmt.Sprintf("sym/which%d", p[0]), fmt.Sprint(k))
		}
		if k == 3 {
			rc.addSample(map[string]any{"kind": "sym", "n": n, "haversine_xy_bits": pairs[5][1], "haversine_yx_bits": pairs[5][2], "p1": p1, "p2": p2})
		}
	}
	// ---------------- stream bits
	blenSet := map[int]bool{}
	if thorough {
		for l := 1; l <= c20Max; l++ {
			blenSet[l] = true
		}
	} else {
		for l := 1; l <= 130; l++ {
			blenSet[l] = true
		}
		for l := 64; l <= c20Max; l += 64 {
			blenSet[l-1], blenSet[l] = true, true
			if l+1 <= c20Max {
				blenSet[l+1] = true
			}
		}
	}
	blens := make([]int, 0, len(blenSet))
	for l := range blenSet {
		blens = append(blens, l)
	}
	sort.Ints(blens)
	if rc.n > 0 && rc.n < len(blens) {
		blens = blens[:rc.n]
	}
	toF := func(data []int64, off, n int) []float32 {
		v := make([]float32, n)
		for i := range v {
			v[i] = float32(data[off+i]) / 2
		}
		return v
	}
	for bi, n := range blens {
		for ti, thName := range []string{"half", "bth"} {
			o1, o2, ot := (bi+ti)%9, (bi*2+1)%9, (bi*5+ti)%9
			var v1, v2 []float32
			b1, b2 := "bv1", "bv2"
			switch bi % 5 {
			case 3: // identical vectors: hamming 0, jaccard 0 (or union 0)
				b2, o2 = "bv1", o1
			case 4: // all bits clear on one side when the threshold is large: use zeros against threshold 0.5
				if thName == "half" {
					b1 = "zero"
				}
			}
			v1, v2 = toF(base[b1], o1, n), toF(base[b2], o2, n)
			th := toF(base[thName], ot, n)
			p1 := vectorstore.VerifBinaryEncode(th, v1)
			p2 := vectorstore.VerifBinaryEncode(th, v2)
			ham, jac := f32b(hamFn(p1, p2)), f32b(jacFn(p1, p2))
			fs.addWith(func(aux map[string]string) string {
				return fmt.Sprintf("CBits (vec_of %s %d %d []) (vec_of %s %d %d []) (vec_of %s %d %d []) %s %s %d %d",
					aux[thName], ot, n, aux[b1], o1, n, aux[b2], o2, n, cListN(p1), cListN(p2), ham, jac)
			})
			note("bits/"+thName, fmt.Sprint(n, o1, o2, ot, b1, b2))
			if bi == 70 && ti == 1 {
				rc.addSample(map[string]any{"kind": "bits", "n": n, "words1": fmt.Sprintf("%x", p1), "words2": fmt.Sprintf("%x", p2),
					"hamming": math.Float32frombits(uint32(ham)), "jaccard": math.Float32frombits(uint32(jac))})
			}
		}
	}
	// ---------------- stream float (a test, judged here)
	rf := newRng(rc.seed, 22)
	nfl := 1500
	if thorough {
		nfl = 40000
	}
	maxRel, worstN, violations := 0.0, 0, 0
	for k := 0; k < nfl; k++ {
		n := 1 + rf.IntN(c20Max)
		if k%3 == 0 {
			n = 1 + rf.IntN(140)
		}
		ox, oy := rf.IntN(9), rf.IntN(9)
		for i := range workX {
			workX[i] = float32(math.NaN())
			workY[i] = float32(math.NaN())
		}
		x, y := workX[ox:ox+n:ox+n], workY[oy:oy+n:oy+n]
		sx, sy := math.Pow(10, float64(rf.IntN(46)-30)), math.Pow(10, float64(rf.IntN(46)-30))
		for i := 0; i < n; i++ {
			gen := func(s float64) float32 {
				switch rf.IntN(12) {
				case 0:
					return 0
				case 1:
					return math.Float32frombits(uint32(1+rf.IntN(0x7fffff)) | uint32(rf.IntN(2))<<31)
				case 2:
					return float32(rf.NormFloat64() * 1e-30)
				default:
					return float32(rf.NormFloat64() * s)
				}
			}
			x[i], y[i] = gen(sx), gen(sy)
		}
		var refDot, absDot, refEuc float64
		for i := 0; i < n; i++ {
			p := float64(x[i]) * float64(y[i])
			refDot += p
			absDot += math.Abs(p)
			d := float64(x[i]) - float64(y[i])
			refEuc += d * d
		}
		tiny := float64(n+8) * math.Ldexp(1, -146)
		gotDot, gotEuc := float64(asm.Dot(x, y)), float64(asm.SquaredEuclideanDistance(x, y))
		ok := true
		if e := math.Abs(gotDot - refDot); !(e <= float64(n)*math.Ldexp(1, -23)*absDot+tiny) {
			ok = false
		} else if absDot > 1e-30 {
			if r := e / absDot; r > maxRel {
				maxRel, worstN = r, n
			}
		}
		if e := math.Abs(gotEuc - refEuc); !(e <= float64(n+3)*math.Ldexp(1, -23)*refEuc+tiny) {
			ok = false
		} else if refEuc > 1e-30 {
			if r := e / refEuc; r > maxRel {
				maxRel, worstN = r, n
			}
		}
		if !ok {
			violations++
		}
		fs.add("CFloatStream " + cBool(ok))
		note("float", fmt.Sprint(k))
	}
	rc.stats["float_stream"] = map[string]any{"trials": nfl, "max_relative_error": maxRel, "at_length": worstN, "bound_violations": violations,
		"note": "TEST judged by the harness: |asm - float64 reference| <= n*2^-23*sum|terms| + tiny"}
	// ---------------- stream pq (c20pq.go)
	if err := c20StoreBitsStream(rc, fs, note, hist); err != nil {
		return err
	}
	if err := c20PQStream(rc, fs, note, hist); err != nil {
		return err
	}
	for _, cf := range fs.files {
		if err := cf.Close("bad"); err != nil {
			return err
		}
	}
	rc.stats["evaluations"] = fs.next
	rc.stats["distinct"] = len(distinct)
	rc.stats["histogram"] = hist
	rc.stats["seed"] = rc.seed
	rc.stats["lengths_covered"] = len(lengths)
	rc.stats["bit_lengths_covered"] = len(blens)
	return nil
}
