//go:build verif && c18probe

package main

import (
	"bytes"
	"fmt"
	"io"
	"math"
	"net/http"
	"net/http/httptest"
	"os"
	"strings"

	"github.com/semafind/semadb/cluster"
	"github.com/semafind/semadb/httpapi/middleware"
	httpv1 "github.com/semafind/semadb/httpapi/v1"
	httpv2 "github.com/semafind/semadb/httpapi/v2"
	"github.com/semafind/semadb/models"
	"github.com/vmihailenco/msgpack/v5"
)

func init() { subcmds["c18probe"] = runC18Probe }

func probeRouter(cnode *cluster.ClusterNode, plans map[string]models.UserPlan) http.Handler {
	mux := http.NewServeMux()
	mux.Handle("/v1/", http.StripPrefix("/v1", httpv1.SetupV1Handlers(cnode)))
	mux.Handle("/v2/", http.StripPrefix("/v2", httpv2.SetupV2Handlers(cnode)))
	var handler http.Handler = mux
	handler = middleware.AppHeaderMiddleware(plans, handler)
	handler = middleware.WhiteListIP([]string{"*"}, handler)
	handler = middleware.ProxySecret("", handler)
	handler = middleware.ZeroLoggerMetrics(nil, handler)
	handler = middleware.Recover(handler)
	return handler
}

func runC18Probe(rc *runCtx) error {
	dir, _ := os.MkdirTemp("", "c18probe-")
	defer os.RemoveAll(dir)
	cnode, err := cluster.NewNode(cluster.ClusterNodeConfig{
		RootDir: dir, RpcHost: "localhost", RpcPort: 21800, RpcTimeout: 5, RpcRetries: 1,
		Servers:            []string{"localhost:21800"},
		ShardManager:       cluster.ShardManagerConfig{RootDir: dir, ShardTimeout: 60, MaxCacheSize: -1},
		MaxShardSize:       1 << 30,
		MaxShardPointCount: 10000,
		MaxSearchLimit:     75,
	})
	if err != nil {
		return err
	}
	defer cnode.Close()
	plans := map[string]models.UserPlan{"BASIC": {Name: "BASIC", MaxCollections: 20, MaxCollectionPointCount: 1000, MaxPointSize: 3000, ShardBackupFrequency: 3600, ShardBackupCount: 1}}
	h := probeRouter(cnode, plans)
	do := func(method, path, ct string, body []byte) (int, string) {
		req := httptest.NewRequest(method, path, bytes.NewReader(body))
		req.Header.Set("X-User-Id", "alice")
		req.Header.Set("X-Plan-Id", "BASIC")
		if ct != "" {
			req.Header.Set("Content-Type", ct)
		}
		rec := httptest.NewRecorder()
		h.ServeHTTP(rec, req)
		b, _ := io.ReadAll(rec.Body)
		s := strings.TrimSpace(string(b))
		if len(s) > 300 {
			s = s[:300] + "..."
		}
		return rec.Code, s
	}
	J := "application/json"
	show := func(label string, code int, body string) { fmt.Printf("%-50s -> %d %s\n", label, code, body) }
	js := func(label, method, path, body string) int {
		c, b := do(method, path, J, []byte(body))
		show(label, c, b)
		return c
	}
	mp := func(label, method, path string, v any) int {
		bb, err := msgpack.Marshal(v)
		if err != nil {
			panic(err)
		}
		c, b := do(method, path, "application/msgpack", bb)
		show(label, c, b)
		return c
	}

	_ = js
	fl := func(n int, f func(i int) float32) []float32 {
		v := make([]float32, n)
		for i := range v {
			v[i] = f(i)
		}
		return v
	}
	_ = fl
	which := os.Getenv("C18P")
	switch which {
	case "pq":
		js("create pq hamming", "POST", "/v2/collections", `{"id":"pqham","indexSchema":{"vec":{"type":"vectorFlat","vectorFlat":{"vectorSize":4,"distanceMetric":"hamming","quantizer":{"type":"product","product":{"numCentroids":4,"numSubVectors":2,"triggerThreshold":1000}}}}}}`)
		js("create pq hav", "POST", "/v2/collections", `{"id":"pqhav","indexSchema":{"vec":{"type":"vectorVamana","vectorVamana":{"vectorSize":2,"distanceMetric":"haversine","searchSize":75,"degreeBound":64,"alpha":1.2,"quantizer":{"type":"product","product":{"numCentroids":4,"numSubVectors":2,"triggerThreshold":1000}}}}}}`)
		js("create bq trig", "POST", "/v2/collections", `{"id":"bqtr","indexSchema":{"vec":{"type":"vectorFlat","vectorFlat":{"vectorSize":4,"distanceMetric":"euclidean","quantizer":{"type":"binary","binary":{"triggerThreshold":0,"distanceMetric":"jaccard"}}}}}}`)
		for _, col := range []string{"pqham", "pqhav", "bqtr"} {
			for b := 0; b < 3; b++ {
				pts := []any{}
				for i := 0; i < 500; i++ {
					d := 4
					if col == "pqhav" {
						d = 2
					}
					pts = append(pts, map[string]any{"vec": fl(d, func(j int) float32 { return float32((i*7+j*3+b)%11) })})
				}
				mp("insert 500 "+col, "POST", "/v2/collections/"+col+"/points", map[string]any{"points": pts})
			}
			d := 4
			if col == "pqhav" {
				d = 2
			}
			ty := "vectorFlat"
			opts := map[string]any{"vector": fl(d, func(j int) float32 { return 1 }), "operator": "near", "limit": 5}
			if col == "pqhav" {
				ty = "vectorVamana"
				opts["searchSize"] = 75
			}
			mp("search "+col, "POST", "/v2/collections/"+col+"/points/search", map[string]any{"query": map[string]any{"property": "vec", ty: opts}, "limit": 5})
		}
	case "v1":
		js("v1 create", "POST", "/v1/collections", `{"id":"vone","vectorSize":2,"distanceMetric":"cosine"}`)
		js("v1 create big", "POST", "/v1/collections", `{"id":"vbig","vectorSize":3000,"distanceMetric":"dot"}`)
		js("v1 list", "GET", "/v1/collections", ``)
		js("v1 get", "GET", "/v1/collections/vone", ``)
		js("v1 insert", "POST", "/v1/collections/vone/points", `{"points":[{"vector":[1,2],"metadata":{"a":1}},{"vector":[0,0]}]}`)
		js("v1 search", "POST", "/v1/collections/vone/points/search", `{"vector":[1,2]}`)
		js("v1 search zero", "POST", "/v1/collections/vone/points/search", `{"vector":[0,0]}`)
		mp("v1 insert metadata NaN", "POST", "/v1/collections/vone/points", map[string]any{"points": []any{map[string]any{"vector": []float32{3, 4}, "metadata": math.NaN()}}})
		js("v1 search after NaN md", "POST", "/v1/collections/vone/points/search", `{"vector":[1,2]}`)
		js("v2 search on v1 col", "POST", "/v2/collections/vone/points/search", `{"query":{"property":"vector","vectorVamana":{"vector":[1,2],"operator":"near","searchSize":75,"limit":10}},"limit":10}`)
		js("v2 insert null point", "POST", "/v2/collections/vone/points", `{"points":[null]}`)
		js("v2 search select * after null", "POST", "/v2/collections/vone/points/search", `{"query":{"property":"vector","vectorVamana":{"vector":[1,2],"operator":"near","searchSize":75,"limit":10}},"select":["*"],"limit":10}`)
		js("v2 search null query", "POST", "/v2/collections/vone/points/search", `{"query":null,"limit":10}`)
		js("v2 search null", "POST", "/v2/collections/vone/points/search", `null`)
		js("v2 insert null", "POST", "/v2/collections/vone/points", `null`)
		js("v2 create null schema", "POST", "/v2/collections", `{"id":"nulls","indexSchema":null}`)
		js("v2 create null schema value", "POST", "/v2/collections", `{"id":"nullv","indexSchema":{"a":null}}`)
		js("v2 create no schema", "POST", "/v2/collections", `{"id":"nosch"}`)
		js("v2 insert nosch", "POST", "/v2/collections/nosch/points", `{"points":[{"a":1}]}`)
		js("v2 search nosch by id", "POST", "/v2/collections/nosch/points/search", `{"query":{"property":"_id","stringArray":{"value":["6ba7b810-9dad-11d1-80b4-00c04fd430c8"],"operator":"containsAny"}},"limit":10}`)
		js("wrong method", "PATCH", "/v2/collections", ``)
		js("unknown path", "GET", "/v3/collections", ``)
		js("ping", "GET", "/v2/ping", ``)
		js("short id", "GET", "/v2/collections/ab", ``)
		c, b := do("POST", "/v2/collections", "application/json; charset=utf-8", []byte(`{"id":"abc"}`))
		show("ct charset", c, b)
	case "deep":
		n := 8 << 20
		if s := os.Getenv("C18N"); s != "" {
			fmt.Sscan(s, &n)
		}
		body := []byte{0x81, 0xa6, 'p', 'o', 'i', 'n', 't', 's', 0x91, 0x81, 0xa1, 'x'}
		body = append(body, bytes.Repeat([]byte{0x91}, n)...)
		body = append(body, 0xc0)
		js("create", "POST", "/v2/collections", `{"id":"deep","indexSchema":{}}`)
		c, b := do("POST", "/v2/collections/deep/points", "application/msgpack", body)
		show("deep msgpack", c, b)
	case "deepq":
		n := 100000
		if s := os.Getenv("C18N"); s != "" {
			fmt.Sscan(s, &n)
		}
		js("create", "POST", "/v2/collections", `{"id":"deep","indexSchema":{"size":{"type":"integer"}}}`)
		js("ins", "POST", "/v2/collections/deep/points", `{"points":[{"size":1}]}`)
		var q any = map[string]any{"property": "size", "integer": map[string]any{"value": int64(1), "operator": "equals"}}
		for i := 0; i < n; i++ {
			q = map[string]any{"property": "_and", "_and": []any{q}}
		}
		_ = q
		// build bytes directly to avoid recursion in the encoder
		var buf bytes.Buffer
		for i := 0; i < n; i++ {
			buf.Write([]byte{0x82, 0xa8})
			buf.WriteString("property")
			buf.Write([]byte{0xa4})
			buf.WriteString("_and")
			buf.Write([]byte{0xa4})
			buf.WriteString("_and")
			buf.Write([]byte{0x91})
		}
		leaf, _ := msgpack.Marshal(map[string]any{"property": "size", "integer": map[string]any{"value": int64(1), "operator": "equals"}})
		buf.Write(leaf)
		var body bytes.Buffer
		body.Write([]byte{0x82, 0xa5})
		body.WriteString("query")
		body.Write(buf.Bytes())
		body.Write([]byte{0xa5})
		body.WriteString("limit")
		body.Write([]byte{10})
		c, b := do("POST", "/v2/collections/deep/points/search", "application/msgpack", body.Bytes())
		show("deep query msgpack", c, b)
	}
	return nil
}
