//go:build verif && c18probe

package main

import (
	"bytes"
	"fmt"
	"io"
	"math"
	"net/http"
	"net/http/httptest"
	"os"
	"strings"

	"github.com/semafind/semadb/cluster"
	"github.com/semafind/semadb/httpapi/middleware"
	httpv1 "github.com/semafind/semadb/httpapi/v1"
	httpv2 "github.com/semafind/semadb/httpapi/v2"
	"github.com/semafind/semadb/models"
	"github.com/vmihailenco/msgpack/v5"
)

func init() { subcmds["c18probe"] = runC18Probe }

func probeRouter(cnode *cluster.ClusterNode, plans map[string]models.UserPlan) http.Handler {
	mux := http.NewServeMux()
	mux.Handle("/v1/", http.StripPrefix("/v1", httpv1.SetupV1Handlers(cnode)))
	mux.Handle("/v2/", http.StripPrefix("/v2", httpv2.SetupV2Handlers(cnode)))
	var handler http.Handler = mux
	handler = middleware.AppHeaderMiddleware(plans, handler)
	handler = middleware.WhiteListIP([]string{"*"}, handler)
	handler = middleware.ProxySecret("", handler)
	handler = middleware.ZeroLoggerMetrics(nil, handler)
	handler = middleware.Recover(handler)
	return handler
}

func runC18Probe(rc *runCtx) error {
	dir, _ := os.MkdirTemp("", "c18probe-")
	defer os.RemoveAll(dir)
	cnode, err := cluster.NewNode(cluster.ClusterNodeConfig{
		RootDir: dir, RpcHost: "localhost", RpcPort: 21800, RpcTimeout: 5, RpcRetries: 1,
		Servers:            []string{"localhost:21800"},
		ShardManager:       cluster.ShardManagerConfig{RootDir: dir, ShardTimeout: 60, MaxCacheSize: -1},
		MaxShardSize:       1 << 30,
		MaxShardPointCount: 10000,
		MaxSearchLimit:     75,
	})
	if err != nil {
		return err
	}
	defer cnode.Close()
	plans := map[string]models.UserPlan{"BASIC": {Name: "BASIC", MaxCollections: 20, MaxCollectionPointCount: 1000, MaxPointSize: 3000, ShardBackupFrequency: 3600, ShardBackupCount: 1}}
	h := probeRouter(cnode, plans)
	do := func(method, path, ct string, body []byte) (int, string) {
		req := httptest.NewRequest(method, path, bytes.NewReader(body))
		req.Header.Set("X-User-Id", "alice")
		req.Header.Set("X-Plan-Id", "BASIC")
		if ct != "" {
			req.Header.Set("Content-Type", ct)
		}
		rec := httptest.NewRecorder()
		h.ServeHTTP(rec, req)
		b, _ := io.ReadAll(rec.Body)
		s := strings.TrimSpace(string(b))
		if len(s) > 300 {
			s = s[:300] + "..."
		}
		return rec.Code, s
	}
	J := "application/json"
	show := func(label string, code int, body string) { fmt.Printf("%-50s -> %d %s\n", label, code, body) }
	js := func(label, method, path, body string) int {
		c, b := do(method, path, J, []byte(body))
		show(label, c, b)
		return c
	}
	mp := func(label, method, path string, v any) int {
		bb, err := msgpack.Marshal(v)
		if err != nil {
			panic(err)
		}
		c, b := do(method, path, "application/msgpack", bb)
		show(label, c, b)
		return c
	}
	// ---- F10a v1 on v2 collection
	js("create v2 rich", "POST", "/v2/collections", `{"id":"rich","indexSchema":{"vec":{"type":"vectorVamana","vectorVamana":{"vectorSize":2,"distanceMetric":"euclidean","searchSize":75,"degreeBound":64,"alpha":1.2}},"cat":{"type":"string","string":{"caseSensitive":false}},"size":{"type":"integer"},"desc":{"type":"text","text":{"analyser":"standard"}},"labels":{"type":"stringArray","stringArray":{"caseSensitive":true}}}}`)
	js("v1 list with v2 col", "GET", "/v1/collections", ``)
	js("v1 get v2 col", "GET", "/v1/collections/rich", ``)
	js("v1 insert v2 col", "POST", "/v1/collections/rich/points", `{"points":[{"vector":[1,2]}]}`)
	js("v1 update v2 col", "PUT", "/v1/collections/rich/points", `{"points":[{"id":"6ba7b810-9dad-11d1-80b4-00c04fd430c8","vector":[1,2]}]}`)
	js("v1 search v2 col", "POST", "/v1/collections/rich/points/search", `{"vector":[1,2]}`)
	js("v1 delpts v2 col", "DELETE", "/v1/collections/rich/points", `{"ids":["6ba7b810-9dad-11d1-80b4-00c04fd430c8"]}`)
	// ---- inserts
	js("insert ok", "POST", "/v2/collections/rich/points", `{"points":[{"_id":"6ba7b810-9dad-11d1-80b4-00c04fd430c8","vec":[1,2],"cat":"a","size":3,"desc":"hello world","labels":["x","y"],"n":{"a":5}},{"_id":"6ba7b810-9dad-11d1-80b4-00c04fd430c9","vec":[2,2],"cat":"b","size":4,"desc":"hello there","labels":["x"],"n":{"a":6}}]}`)
	js("insert empty string indexed", "POST", "/v2/collections/rich/points", `{"points":[{"vec":[1,2],"cat":""}]}`)
	js("insert empty text indexed", "POST", "/v2/collections/rich/points", `{"points":[{"vec":[1,2],"desc":""}]}`)
	js("insert empty label", "POST", "/v2/collections/rich/points", `{"points":[{"vec":[1,2],"labels":[""]}]}`)
	js("insert empty labels arr", "POST", "/v2/collections/rich/points", `{"points":[{"vec":[1,2],"labels":[]}]}`)
	js("insert dup existing id (2 pts)", "POST", "/v2/collections/rich/points", `{"points":[{"_id":"6ba7b810-9dad-11d1-80b4-00c04fd430c8","vec":[1,2]},{"vec":[3,2]}]}`)
	js("insert same id twice", "POST", "/v2/collections/rich/points", `{"points":[{"_id":"7ba7b810-9dad-11d1-80b4-00c04fd430c8","vec":[1,2]},{"_id":"7ba7b810-9dad-11d1-80b4-00c04fd430c8","vec":[3,2]}]}`)
	js("update same id twice", "PUT", "/v2/collections/rich/points", `{"points":[{"_id":"6ba7b810-9dad-11d1-80b4-00c04fd430c8","vec":[1,2]},{"_id":"6ba7b810-9dad-11d1-80b4-00c04fd430c8","vec":[3,2]}]}`)
	js("update nonexistent", "PUT", "/v2/collections/rich/points", `{"points":[{"_id":"8ba7b810-9dad-11d1-80b4-00c04fd430c8","vec":[1,2]}]}`)
	js("delete same id twice", "DELETE", "/v2/collections/rich/points", `{"ids":["8ba7b810-9dad-11d1-80b4-00c04fd430c8","8ba7b810-9dad-11d1-80b4-00c04fd430c8"]}`)
	// ---- search select / sort
	q := `"query":{"property":"vec","vectorVamana":{"vector":[1,2],"operator":"near","searchSize":75,"limit":10}}`
	js("search ok", "POST", "/v2/collections/rich/points/search", `{`+q+`,"limit":10}`)
	js("search select *", "POST", "/v2/collections/rich/points/search", `{`+q+`,"select":["*"],"limit":10}`)
	js("search select size.b", "POST", "/v2/collections/rich/points/search", `{`+q+`,"select":["size.b"],"limit":10}`)
	js("search select labels.x", "POST", "/v2/collections/rich/points/search", `{`+q+`,"select":["labels.x"],"limit":10}`)
	js("search select labels.0", "POST", "/v2/collections/rich/points/search", `{`+q+`,"select":["labels.0"],"limit":10}`)
	js("search select labels.7", "POST", "/v2/collections/rich/points/search", `{`+q+`,"select":["labels.7"],"limit":10}`)
	js("search select n.a, n", "POST", "/v2/collections/rich/points/search", `{`+q+`,"select":["n.a","n"],"limit":10}`)
	js("search select size, size.x? no: cat then cat.b", "POST", "/v2/collections/rich/points/search", `{`+q+`,"select":["n.a.b"],"limit":10}`)
	js("search select empty string", "POST", "/v2/collections/rich/points/search", `{`+q+`,"select":[""],"limit":10}`)
	js("search select n then n.zz", "POST", "/v2/collections/rich/points/search", `{`+q+`,"select":["cat","cat.x"],"limit":10}`)
	js("search select missing.a then missing", "POST", "/v2/collections/rich/points/search", `{`+q+`,"select":["zz.a","zz"],"limit":10}`)
	js("search sort size", "POST", "/v2/collections/rich/points/search", `{`+q+`,"sort":[{"property":"size"}],"limit":10}`)
	js("search sort n (maps)", "POST", "/v2/collections/rich/points/search", `{`+q+`,"select":["n","labels"],"sort":[{"property":"n"},{"property":"labels"}],"limit":10}`)
	js("search sort size.b", "POST", "/v2/collections/rich/points/search", `{`+q+`,"select":["size"],"sort":[{"property":"size.b"}],"limit":10}`)
	js("search offset huge", "POST", "/v2/collections/rich/points/search", `{`+q+`,"offset":4611686018427387904,"limit":10}`)
	js("search offset 1e3", "POST", "/v2/collections/rich/points/search", `{`+q+`,"offset":1000,"limit":10}`)
	js("search by _id", "POST", "/v2/collections/rich/points/search", `{"query":{"property":"_id","string":{"value":"6ba7b810-9dad-11d1-80b4-00c04fd430c8","operator":"equals"}},"limit":10}`)
	js("search text", "POST", "/v2/collections/rich/points/search", `{"query":{"property":"desc","text":{"value":"hello","operator":"containsAny","limit":10}},"limit":10}`)
	js("search text only punctuation", "POST", "/v2/collections/rich/points/search", `{"query":{"property":"desc","text":{"value":"!!!","operator":"containsAll","limit":10}},"limit":10}`)
	js("search string caseins range", "POST", "/v2/collections/rich/points/search", `{"query":{"property":"cat","string":{"value":"A","operator":"inRange","endValue":"C"}},"limit":10}`)
	js("search _and empty-filter", "POST", "/v2/collections/rich/points/search", `{"query":{"property":"_and","_and":[{"property":"size","integer":{"value":3,"operator":"equals"}},{"property":"vec","vectorVamana":{"vector":[1,2],"operator":"near","searchSize":75,"limit":10,"filter":{"property":"cat","string":{"value":"zzz","operator":"equals"}}}}]},"limit":10}`)
	js("search _or with and prop mismatch", "POST", "/v2/collections/rich/points/search", `{"query":{"property":"_or","_and":[{"property":"size","integer":{"value":3,"operator":"equals"}}]},"limit":10}`)
	js("search weight NaN? via json no", "POST", "/v2/collections/rich/points/search", `{"query":{"property":"vec","vectorVamana":{"vector":[1,2],"operator":"near","searchSize":75,"limit":10,"weight":1e38}},"limit":10}`)
	// ---- PQ
	js("create pq nondiv", "POST", "/v2/collections", `{"id":"pqnd","indexSchema":{"vec":{"type":"vectorFlat","vectorFlat":{"vectorSize":5,"distanceMetric":"euclidean","quantizer":{"type":"product","product":{"numCentroids":4,"numSubVectors":2,"triggerThreshold":1000}}}}}}`)
	js("insert pq nondiv", "POST", "/v2/collections/pqnd/points", `{"points":[{"vec":[1,2,3,4,5]}]}`)
	js("search pq nondiv", "POST", "/v2/collections/pqnd/points/search", `{"query":{"property":"vec","vectorFlat":{"vector":[1,2,3,4,5],"operator":"near","limit":10}},"limit":10}`)
	js("create pq hamming", "POST", "/v2/collections", `{"id":"pqham","indexSchema":{"vec":{"type":"vectorFlat","vectorFlat":{"vectorSize":4,"distanceMetric":"hamming","quantizer":{"type":"product","product":{"numCentroids":4,"numSubVectors":2,"triggerThreshold":1000}}}}}}`)
	js("insert pq hamming", "POST", "/v2/collections/pqham/points", `{"points":[{"vec":[1,2,3,4]}]}`)
	js("create pq vamana nondiv", "POST", "/v2/collections", `{"id":"pqvnd","indexSchema":{"vec":{"type":"vectorVamana","vectorVamana":{"vectorSize":5,"distanceMetric":"euclidean","searchSize":75,"degreeBound":64,"alpha":1.2,"quantizer":{"type":"product","product":{"numCentroids":4,"numSubVectors":2,"triggerThreshold":1000}}}}}}`)
	js("insert pq vamana nondiv", "POST", "/v2/collections/pqvnd/points", `{"points":[{"vec":[1,2,3,4,5]}]}`)
	js("create pq subvec > size", "POST", "/v2/collections", `{"id":"pqbig","indexSchema":{"vec":{"type":"vectorFlat","vectorFlat":{"vectorSize":2,"distanceMetric":"euclidean","quantizer":{"type":"product","product":{"numCentroids":4,"numSubVectors":4,"triggerThreshold":1000}}}}}}`)
	js("insert pq subvec > size", "POST", "/v2/collections/pqbig/points", `{"points":[{"vec":[1,2]}]}`)
	js("create bq on euclid (binary quantizer, metric hamming) ", "POST", "/v2/collections", `{"id":"bqeu","indexSchema":{"vec":{"type":"vectorFlat","vectorFlat":{"vectorSize":4,"distanceMetric":"euclidean","quantizer":{"type":"binary","binary":{"threshold":0.5,"triggerThreshold":-5,"distanceMetric":"hamming"}}}}}}`)
	js("insert bq", "POST", "/v2/collections/bqeu/points", `{"points":[{"vec":[1,2,3,4]}]}`)
	js("search bq", "POST", "/v2/collections/bqeu/points/search", `{"query":{"property":"vec","vectorFlat":{"vector":[1,2,3,4],"operator":"near","limit":10}},"limit":10}`)
	js("create haversine vamana", "POST", "/v2/collections", `{"id":"hav","indexSchema":{"vec":{"type":"vectorVamana","vectorVamana":{"vectorSize":2,"distanceMetric":"haversine","searchSize":75,"degreeBound":64,"alpha":1.2}}}}`)
	js("insert hav", "POST", "/v2/collections/hav/points", `{"points":[{"vec":[100,200]},{"vec":[1,2]}]}`)
	js("search hav", "POST", "/v2/collections/hav/points/search", `{"query":{"property":"vec","vectorVamana":{"vector":[1,2],"operator":"near","searchSize":75,"limit":10}},"limit":10}`)
	// ---- reserved names
	js("create reserved names", "POST", "/v2/collections", `{"id":"resv","indexSchema":{"_id":{"type":"string","string":{"caseSensitive":true}},"_and":{"type":"integer"},"":{"type":"integer"},"a.b":{"type":"integer"},"a":{"type":"integer"}}}`)
	js("insert reserved", "POST", "/v2/collections/resv/points", `{"points":[{"_and":5,"x":1}]}`)
	js("insert reserved a int", "POST", "/v2/collections/resv/points", `{"points":[{"a":5}]}`)
	js("insert reserved a map", "POST", "/v2/collections/resv/points", `{"points":[{"a":{"b":5}}]}`)
	js("insert reserved none", "POST", "/v2/collections/resv/points", `{"points":[{"zzz":5}]}`)
	js("get resv", "GET", "/v2/collections/resv", ``)
	js("create empty-name vec", "POST", "/v2/collections", `{"id":"empn","indexSchema":{"":{"type":"vectorFlat","vectorFlat":{"vectorSize":2,"distanceMetric":"euclidean"}}}}`)
	js("insert empn", "POST", "/v2/collections/empn/points", `{"points":[{"zzz":5}]}`)
	js("create star-name", "POST", "/v2/collections", `{"id":"star","indexSchema":{"a.*":{"type":"integer"},"b.0":{"type":"integer"}}}`)
	js("insert star arr", "POST", "/v2/collections/star/points", `{"points":[{"a":[1,2]}]}`)
	js("insert star map", "POST", "/v2/collections/star/points", `{"points":[{"a":{"*":2}, "b":{"0":3}}]}`)
	js("create slash-name", "POST", "/v2/collections", `{"id":"slash","indexSchema":{"a/b":{"type":"integer"}}}`)
	js("insert slash", "POST", "/v2/collections/slash/points", `{"points":[{"a/b":2}]}`)
	// ---- msgpack NaN
	mp("mp create alpha NaN", "POST", "/v2/collections", map[string]any{"id": "anan", "indexSchema": map[string]any{"vec": map[string]any{"type": "vectorVamana", "vectorVamana": map[string]any{"vectorSize": 2, "distanceMetric": "euclidean", "searchSize": 75, "degreeBound": 64, "alpha": float32(math.NaN())}}}})
	js("get anan", "GET", "/v2/collections/anan", ``)
	js("insert anan", "POST", "/v2/collections/anan/points", `{"points":[{"vec":[1,2]},{"vec":[1,3]}]}`)
	mp("mp insert NaN non-indexed field", "POST", "/v2/collections/rich/points", map[string]any{"points": []any{map[string]any{"vec": []float32{5, 5}, "other": math.NaN()}}})
	js("search select other", "POST", "/v2/collections/rich/points/search", `{`+q+`,"select":["other"],"limit":10}`)
	js("search no select", "POST", "/v2/collections/rich/points/search", `{`+q+`,"limit":10}`)
	mp("mp insert int8", "POST", "/v2/collections/rich/points", map[string]any{"points": []any{map[string]any{"vec": []float32{5, 6}, "size": 5}}})
	mp("mp insert uint64", "POST", "/v2/collections/rich/points", map[string]any{"points": []any{map[string]any{"vec": []float32{5, 6}, "size": uint64(1 << 63)}}})
	mp("mp insert f64 vec", "POST", "/v2/collections/rich/points", map[string]any{"points": []any{map[string]any{"vec": []float64{5, 6}}}})
	js("search float index NaN", "POST", "/v2/collections/rich/points/search", `{"query":{"property":"size","integer":{"value":1e30,"operator":"equals"}},"limit":10}`)
	js("insert size 1e30", "POST", "/v2/collections/rich/points", `{"points":[{"vec":[1,2],"size":1e30}]}`)
	js("insert size 1.5", "POST", "/v2/collections/rich/points", `{"points":[{"vec":[1,2],"size":1.5}]}`)
	js("deep nesting 200", "POST", "/v2/collections/rich/points/search", `{"query":`+strings.Repeat(`{"property":"_and","_and":[`, 200)+`{"property":"size","integer":{"value":3,"operator":"equals"}}`+strings.Repeat(`]}`, 200)+`,"limit":10}`)
	js("deep nesting 20000", "POST", "/v2/collections/rich/points/search", `{"query":`+strings.Repeat(`{"property":"_and","_and":[`, 20000)+`{"property":"size","integer":{"value":3,"operator":"equals"}}`+strings.Repeat(`]}`, 20000)+`,"limit":10}`)
	js("offset maxint", "POST", "/v2/collections/rich/points/search", `{`+q+`,"offset":9223372036854775807,"limit":10}`)
	return nil
}
