package main

// C12, request handlers -- the theorems of C12 speak about DoWithShard calls whose callback returns. This part
// runs the five REAL callbacks (the request handlers RPCInsertPoints / RPCUpdatePoints / RPCDeletePoints /
// RPCSearchPoints / RPCGetShardInfo of a live ClusterNode) under the interleaving the property names: the idle
// timer of the shard fires while the request is inside its callback. The request is parked at do:running (it
// holds the entry's read lock) until the cleanup routine has fired and stands blocked in the entry's write
// lock, then it is released: the handler body runs with a writer queued behind it. The request must return, the
// cleanup must finish (the shard is unloaded) and a fresh request must load the shard again.
//
// One child process per handler (a wedged manager cannot be cleaned up; the hook is a process global).

import (
	"encoding/json"
	"fmt"
	"os"
	"os/exec"
	"path/filepath"
	"strconv"
	"strings"
	"sync"
	"sync/atomic"
	"time"

	"github.com/google/uuid"
	"github.com/semafind/semadb/cluster"
	"github.com/semafind/semadb/models"
)

func init() { subcmds["c12rpcchild"] = runC12RpcChild }

var c12RpcHandlers = []string{"insert", "update", "delete", "search", "info"}

type c12RpcResult struct {
	Handler   string `json:"handler"`
	Fired     bool   `json:"fired"`     // the idle timer fired while the request was parked
	Queued    bool   `json:"queued"`    // the cleanup routine stood blocked in the write lock when the request was released
	Returned  bool   `json:"returned"`  // the request returned within the watchdog
	ReqErr    string `json:"reqErr"`    // its error, if any
	Unloaded  bool   `json:"unloaded"`  // the cleanup routine finished afterwards
	FreshOK   bool   `json:"freshOk"`   // a fresh request afterwards returned nil
	FreshHung bool   `json:"freshHung"` // ... did not return
	Millis    int64  `json:"millis"`
}

func c12RpcCleanupBlocked() bool {
	for _, g := range c12Dump() {
		if strings.Contains(g.text, c12CleanupFrame) && strings.HasPrefix(g.state, "sync.RWMutex.Lock") {
			return true
		}
	}
	return false
}

func c12RpcCleanupAlive() bool {
	for _, g := range c12Dump() {
		if strings.Contains(g.text, c12CleanupFrame) {
			return true
		}
	}
	return false
}

func runC12RpcChild(rc *runCtx) error {
	kind := os.Getenv("VERIF_C12RPC")
	port, _ := strconv.Atoi(os.Getenv("VERIF_C12RPC_PORT"))
	start := time.Now()
	tmp, err := os.MkdirTemp("", "verif-c12rpc-")
	if err != nil {
		return err
	}
	defer os.RemoveAll(tmp)
	host := "localhost:" + strconv.Itoa(port)
	node, err := startNode(cluster.ClusterNodeConfig{
		RootDir: tmp, RpcHost: "localhost", RpcPort: port, RpcTimeout: 5, RpcRetries: 1, Servers: []string{host},
		ShardManager: cluster.ShardManagerConfig{RootDir: filepath.Join(tmp, "shard-root"), ShardTimeout: 1, MaxCacheSize: -1},
		MaxShardSize: 1 << 30, MaxShardPointCount: 1000, MaxSearchLimit: 75,
	})
	if err != nil {
		return err
	}
	user, colId := "user", "col"
	plan := models.UserPlan{Name: "VERIF", MaxCollections: 5, MaxCollectionPointCount: 100000, MaxPointSize: 1 << 20}
	schema := models.IndexSchema{"i": models.IndexSchemaValue{Type: models.IndexTypeInteger}}
	if err := node.CreateCollection(models.Collection{UserId: user, Id: colId, Replicas: 1, Timestamp: 1, CreatedAt: 1, UserPlan: plan, IndexSchema: schema}); err != nil {
		return fmt.Errorf("CreateCollection: %w", err)
	}
	col, err := node.GetCollection(user, colId)
	if err != nil {
		return err
	}
	mk := func(k int64) models.Point {
		var id uuid.UUID
		id[15] = byte(k)
		id[0] = 0x40
		p, _ := pointSpec{id: id, doc: vMap(KV{"i", vInt(k)})}.model()
		return p
	}
	if failed, err := node.InsertPoints(col, []models.Point{mk(1), mk(2), mk(3)}); err != nil || len(failed) > 0 {
		return fmt.Errorf("InsertPoints: %v %v", err, failed)
	}
	if col, err = node.GetCollection(user, colId); err != nil {
		return err
	}
	if len(col.ShardIds) != 1 {
		return fmt.Errorf("expected one shard, have %d", len(col.ShardIds))
	}
	sid := col.ShardIds[0]
	args := cluster.RPCRequestArgs{Source: host, Dest: host}
	call := func(kind string) error {
		switch kind {
		case "insert":
			return node.RPCInsertPoints(&cluster.RPCInsertPointsRequest{RPCRequestArgs: args, Collection: col, ShardId: sid, Points: []models.Point{mk(4), mk(5)}}, &cluster.RPCInsertPointsResponse{})
		case "update":
			return node.RPCUpdatePoints(&cluster.RPCUpdatePointsRequest{RPCRequestArgs: args, Collection: col, ShardId: sid, Points: []models.Point{mk(2)}}, &cluster.RPCUpdatePointsResponse{})
		case "delete":
			return node.RPCDeletePoints(&cluster.RPCDeletePointsRequest{RPCRequestArgs: args, Collection: col, ShardId: sid, Ids: []uuid.UUID{mk(3).Id}}, &cluster.RPCDeletePointsResponse{})
		case "search":
			return node.RPCSearchPoints(&cluster.RPCSearchPointsRequest{RPCRequestArgs: args, Collection: col, ShardId: sid, SearchRequest: models.SearchRequest{Query: c17IdAny([]uuid.UUID{mk(1).Id, mk(2).Id}), Limit: 10}}, &cluster.RPCSearchPointsResponse{})
		default:
			return node.RPCGetShardInfo(&cluster.RPCGetShardInfoRequest{RPCRequestArgs: args, Collection: col, ShardId: sid}, &cluster.RPCGetShardInfoResponse{})
		}
	}
	res := c12RpcResult{Handler: kind}
	var reqGid atomic.Uint64
	var parkedOnce atomic.Bool
	firedCh := make(chan struct{}, 4)
	cluster.VerifPauseHook = func(point string) {
		switch point {
		case "cleanup:fired":
			select {
			case firedCh <- struct{}{}:
			default:
			}
		case "do:running":
			if curGid() != reqGid.Load() || !parkedOnce.CompareAndSwap(false, true) {
				return
			}
			// parked with the read lock held: wait for the idle timer (1 s), then until the routine is queued on the lock
			select {
			case <-firedCh:
				res.Fired = true
			case <-time.After(4 * time.Second):
				return
			}
			for try := 0; try < 400; try++ {
				if c12RpcCleanupBlocked() {
					res.Queued = true
					return
				}
				time.Sleep(5 * time.Millisecond)
			}
		}
	}
	done := make(chan error, 1)
	go func() {
		reqGid.Store(curGid())
		done <- call(kind)
	}()
	hung := false
	select {
	case e := <-done:
		res.Returned = true
		if e != nil {
			res.ReqErr = e.Error()
		}
	case <-time.After(12 * time.Second):
		hung = true
	}
	if !hung {
		for try := 0; try < 1600 && !res.Unloaded; try++ {
			if !c12RpcCleanupAlive() {
				res.Unloaded = true
				break
			}
			time.Sleep(5 * time.Millisecond)
		}
	}
	cluster.VerifPauseHook = nil
	fresh := make(chan error, 1)
	go func() { fresh <- call("info") }()
	select {
	case e := <-fresh:
		res.FreshOK = e == nil
	case <-time.After(6 * time.Second):
		res.FreshHung = true
	}
	res.Millis = time.Since(start).Milliseconds()
	b, _ := json.Marshal(res)
	if err := os.WriteFile(filepath.Join(rc.outDir, "rpc_"+kind+".json"), b, 0644); err != nil {
		return err
	}
	if hung || res.FreshHung {
		os.RemoveAll(tmp)
		os.Exit(0) // wedged: nothing can be closed
	}
	node.Close()
	return nil
}

// c12RunRpc spawns one child per handler and returns the CRpc terms
func c12RunRpc(rc *runCtx, exe string, hist map[string]int) ([]string, error) {
	dir := filepath.Join(rc.outDir, "rpc")
	if err := os.MkdirAll(dir, 0755); err != nil {
		return nil, err
	}
	rounds := 1
	if rc.thorough() {
		rounds = 4
	}
	var terms []string
	for round := 0; round < rounds; round++ {
		results := make([]c12RpcResult, len(c12RpcHandlers))
		errs := make([]error, len(c12RpcHandlers))
		var wg sync.WaitGroup
		for i, h := range c12RpcHandlers {
			wg.Add(1)
			go func(i int, h string) {
				defer wg.Done()
				os.Remove(filepath.Join(dir, "rpc_"+h+".json"))
				cmd := exec.Command(exe, "c12rpcchild", "-seed", strconv.FormatUint(rc.seed, 10), "-tier", rc.tier, "-out", dir)
				logf, err := os.OpenFile(filepath.Join(dir, "stderr_"+h+".log"), os.O_CREATE|os.O_WRONLY|os.O_APPEND, 0644)
				if err != nil {
					errs[i] = err
					return
				}
				cmd.Stderr = logf
				cmd.Env = append(os.Environ(), "VERIF_C12RPC="+h, "VERIF_C12RPC_PORT="+strconv.Itoa(21250+i))
				runErr := cmd.Run()
				logf.Close()
				b, err := os.ReadFile(filepath.Join(dir, "rpc_"+h+".json"))
				if err != nil {
					errs[i] = fmt.Errorf("request-handler child %s left no result (%v); %s", h, runErr, c12Tail(filepath.Join(dir, "stderr_"+h+".log")))
					return
				}
				errs[i] = json.Unmarshal(b, &results[i])
			}(i, h)
		}
		wg.Wait()
		for i, e := range errs {
			if e != nil {
				return nil, e
			}
			r := results[i]
			terms = append(terms, fmt.Sprintf("CRpc %d %s %s %s %s %s", i, cBool(r.Fired && r.Queued), cBool(r.Returned), cBool(r.ReqErr != ""), cBool(r.Unloaded), cBool(r.FreshOK)))
			hist["request handler "+r.Handler+" with the timer firing inside"]++
			if !(r.Fired && r.Queued) {
				hist["request handler: interleaving not reached"]++
			}
			if round == 0 && i == 0 {
				rc.addSample(map[string]any{"kind": "request handler under a firing timer", "handler": r.Handler, "fired": r.Fired, "cleanupQueuedOnLock": r.Queued, "returned": r.Returned, "error": r.ReqErr, "unloaded": r.Unloaded, "freshRequestOk": r.FreshOK, "millis": r.Millis})
			}
		}
	}
	return terms, nil
}
